(* C13 — proofs about C13/Model.v. *)
From Coq Require Import List NArith ZArith Bool Lia.
From Baize Require Import Lib.Wire Lib.Utf8 C13.Model.
Import ListNotations.
Local Open Scope N_scope.

(* ================================================================ vocabulary *)

(* free of CR, LF and NUL *)
Definition clean (s : str) : Prop := ~ In 13 s /\ ~ In 10 s /\ ~ In 0 s.
Definition dirty (s : str) : Prop := In 13 s \/ In 10 s \/ In 0 s.

Definition pair_clean (p : str * str) : Prop := clean (fst p) /\ clean (snd p).
Definition store_clean (d : pairs) : Prop := Forall pair_clean d.

(* a cookie-pair scanner: a backslash takes the next character with it, a bare
   double quote ends the string.  [qscan b = true]: [b] is the inside of exactly
   one quoted string — scanning reaches its end without meeting a bare quote and
   without a dangling backslash. *)
Fixpoint qscan (b : str) : bool :=
  match b with
  | [] => true
  | c :: r =>
      if c =? 92 then match r with [] => false | _ :: r' => qscan r' end
      else if c =? 34 then false
      else qscan r
  end.

(* what _quote returns for s: s itself when it is a non-empty string of legal
   characters, otherwise one double-quoted string *)
Definition quoted_form (s q : str) : Prop :=
  (s <> [] /\ (forall c, In c s -> legal c = true) /\ q = s) \/
  (exists body, q = 34 :: body ++ [34] /\ qscan body = true).

Definition attrs_clean (c : cookie) : Prop :=
  clean (c_path c) /\ clean (c_domain c) /\ clean (c_samesite c).

(* which operations try to store a CR, LF or NUL *)
Definition op_dirty (o : op) : Prop :=
  match o with
  | SetItem k v | Append k v | SetDefault k v => dirty k \/ dirty v
  | Update items => Exists (fun p => dirty (fst p) \/ dirty (snd p)) items
  | _ => False
  end.

(* ================================================================ tactics *)

Ltac b2p :=
  repeat match goal with
  | H : (_ && _) = true |- _ => apply andb_true_iff in H; destruct H
  | H : (_ || _) = false |- _ => apply orb_false_iff in H; destruct H
  | H : negb _ = true |- _ => apply negb_true_iff in H
  | H : negb _ = false |- _ => apply negb_false_iff in H
  | H : (_ <=? _) = true |- _ => apply N.leb_le in H
  | H : (_ <=? _) = false |- _ => apply N.leb_gt in H
  | H : (_ <? _) = true |- _ => apply N.ltb_lt in H
  | H : (_ <? _) = false |- _ => apply N.ltb_ge in H
  | H : (_ =? _) = true |- _ => apply N.eqb_eq in H
  | H : (_ =? _) = false |- _ => apply N.eqb_neq in H
  end.

(* ================================================================ membership, clean/dirty *)

Lemma mem_In c s : mem c s = true <-> In c s.
Proof.
  unfold mem. rewrite existsb_exists. split.
  - intros [x [Hx E]]. apply N.eqb_eq in E. subst x. exact Hx.
  - intros H. exists c. split; [exact H|apply N.eqb_refl].
Qed.

Lemma mem_false c s : mem c s = false <-> ~ In c s.
Proof.
  rewrite <- mem_In. destruct (mem c s); split; intros H; try discriminate; try reflexivity.
  exfalso. apply H. reflexivity.
Qed.

Lemma mem_forallb (P : N -> bool) c l : mem c l = true -> forallb P l = true -> P c = true.
Proof. intros H F. apply mem_In in H. rewrite forallb_forall in F. apply F. exact H. Qed.

Lemma has_ctl_false s : has_ctl s = false <-> clean s.
Proof.
  unfold has_ctl, clean. rewrite !orb_false_iff, !mem_false. tauto.
Qed.

Lemma has_ctl_true s : has_ctl s = true <-> dirty s.
Proof.
  unfold has_ctl, dirty. rewrite !orb_true_iff, !mem_In. tauto.
Qed.

Lemma clean_not_dirty s : clean s -> ~ dirty s.
Proof. unfold clean, dirty. tauto. Qed.

Lemma clean_or_dirty s : clean s \/ dirty s.
Proof.
  destruct (has_ctl s) eqn:E; [right; apply has_ctl_true|left; apply has_ctl_false]; exact E.
Qed.

Lemma clean_app a b : clean (a ++ b) <-> clean a /\ clean b.
Proof. unfold clean. rewrite !in_app_iff. tauto. Qed.

Lemma dirty_app a b : dirty (a ++ b) <-> dirty a \/ dirty b.
Proof. unfold dirty. rewrite !in_app_iff. tauto. Qed.

Lemma clean_cons c s : clean (c :: s) <-> (c <> 13 /\ c <> 10 /\ c <> 0) /\ clean s.
Proof.
  unfold clean. cbn [In]. split.
  - intros (A & B & C). repeat split; try (intros E; subst c); tauto.
  - intros ((A & B & C) & D & E & F). repeat split; intros [G|G]; try tauto; subst c; tauto.
Qed.

Lemma clean_nil : clean [].
Proof. unfold clean. cbn. tauto. Qed.

(* a constant string is clean: by computation *)
Lemma clean_by_compute s : has_ctl s = false -> clean s.
Proof. apply has_ctl_false. Qed.

Lemma clean_chars s : (forall c, In c s -> c <> 13 /\ c <> 10 /\ c <> 0) -> clean s.
Proof.
  intros H. unfold clean. repeat split; intros I; apply H in I; tauto.
Qed.

(* ================================================================ str.lower() *)

Lemma lower_cp_ctl c x : lower_cp c = x -> (x = 13 \/ x = 10 \/ x = 0) -> c = x.
Proof.
  unfold lower_cp. intros H Hx.
  destruct ((65 <=? c) && (c <=? 90)) eqn:E1; [b2p; lia|].
  destruct ((192 <=? c) && (c <=? 222) && negb (c =? 215)) eqn:E2; [b2p; lia|].
  destruct ((256 <=? c) && (c <=? 303) && N.even c) eqn:E3; [|exact H].
  apply andb_true_iff in E3. destruct E3 as [E3 _]. b2p. lia.
Qed.

Lemma lower_in c s : In c (lower s) -> exists c', In c' s /\ lower_cp c' = c.
Proof. unfold lower. rewrite in_map_iff. intros [x [E I]]. exists x. tauto. Qed.

Lemma lower_clean s : clean s -> clean (lower s).
Proof.
  unfold clean. intros (A & B & C).
  repeat split; intros I; apply lower_in in I; destruct I as [c' [I E]];
    apply lower_cp_ctl in E; try tauto; subst c'; tauto.
Qed.

Lemma lower_cp_idem c : lower_cp (lower_cp c) = lower_cp c.
Proof.
  unfold lower_cp at 2 3.
  destruct ((65 <=? c) && (c <=? 90)) eqn:E1.
  { b2p. unfold lower_cp.
    replace ((65 <=? c + 32) && (c + 32 <=? 90)) with false
      by (symmetry; apply andb_false_iff; right; apply N.leb_gt; lia).
    replace ((192 <=? c + 32) && (c + 32 <=? 222) && negb (c + 32 =? 215)) with false
      by (symmetry; rewrite andb_false_iff, andb_false_iff; left; left; apply N.leb_gt; lia).
    replace ((256 <=? c + 32) && (c + 32 <=? 303) && N.even (c + 32)) with false
      by (symmetry; rewrite andb_false_iff, andb_false_iff; left; left; apply N.leb_gt; lia).
    reflexivity. }
  destruct ((192 <=? c) && (c <=? 222) && negb (c =? 215)) eqn:E2.
  { b2p. unfold lower_cp.
    replace ((65 <=? c + 32) && (c + 32 <=? 90)) with false
      by (symmetry; apply andb_false_iff; right; apply N.leb_gt; lia).
    replace ((192 <=? c + 32) && (c + 32 <=? 222) && negb (c + 32 =? 215)) with false
      by (symmetry; rewrite andb_false_iff, andb_false_iff; left; right; apply N.leb_gt; lia).
    replace ((256 <=? c + 32) && (c + 32 <=? 303) && N.even (c + 32)) with false
      by (symmetry; rewrite andb_false_iff, andb_false_iff; left; left; apply N.leb_gt; lia).
    reflexivity. }
  destruct ((256 <=? c) && (c <=? 303) && N.even c) eqn:E3.
  { apply andb_true_iff in E3. destruct E3 as [E3 Ev]. b2p. unfold lower_cp.
    replace ((65 <=? c + 1) && (c + 1 <=? 90)) with false
      by (symmetry; apply andb_false_iff; right; apply N.leb_gt; lia).
    replace ((192 <=? c + 1) && (c + 1 <=? 222) && negb (c + 1 =? 215)) with false
      by (symmetry; rewrite andb_false_iff, andb_false_iff; left; right; apply N.leb_gt; lia).
    replace (N.even (c + 1)) with false.
    2:{ symmetry. rewrite N.add_1_r, N.even_succ. rewrite <- N.negb_even, Ev. reflexivity. }
    rewrite andb_false_r. reflexivity. }
  unfold lower_cp. rewrite E1, E2, E3. reflexivity.
Qed.

Lemma lower_idem s : lower (lower s) = lower s.
Proof. unfold lower. rewrite map_map. apply map_ext. apply lower_cp_idem. Qed.

(* ================================================================ the dict *)

Lemma dset_clean k v d : clean k -> clean v -> store_clean d -> store_clean (dset k v d).
Proof.
  intros Hk Hv. induction d as [|[k' v'] r IH]; cbn [dset]; intros Hd.
  - constructor; [split; assumption|constructor].
  - inversion Hd as [|p l Hp Hr]; subst. destruct (str_eqb k' k).
    + constructor; [|exact Hr]. destruct Hp as [A _]. split; [exact A|exact Hv].
    + constructor; [exact Hp|apply IH; exact Hr].
Qed.

Lemma ddel_clean k d : store_clean d -> store_clean (ddel k d).
Proof.
  unfold store_clean, ddel. rewrite !Forall_forall. intros H p I.
  apply filter_In in I. apply H. tauto.
Qed.

Lemma dget_clean k d v : store_clean d -> dget k d = Some v -> clean v.
Proof.
  induction d as [|[k' v'] r IH]; cbn [dget]; intros Hd H; [discriminate|].
  inversion Hd as [|p l Hp Hr]; subst. destruct (str_eqb k' k).
  - injection H as <-. exact (proj2 Hp).
  - apply IH; assumption.
Qed.

(* ================================================================ the mutators keep the store clean *)

Lemma setitem_cases k v d :
  (dirty k \/ dirty v) /\ setitem k v d = (d, RValueError) \/
  clean k /\ clean v /\ setitem k v d = (dset (lower k) v d, RNone).
Proof.
  unfold setitem.
  destruct (has_ctl k) eqn:Ek.
  { left. split; [left; apply has_ctl_true; exact Ek|reflexivity]. }
  destruct (has_ctl v) eqn:Ev.
  { left. split; [right; apply has_ctl_true; exact Ev|reflexivity]. }
  right. apply has_ctl_false in Ek. apply has_ctl_false in Ev. tauto.
Qed.

Lemma setitem_clean k v d : store_clean d -> store_clean (fst (setitem k v d)).
Proof.
  intros Hd. destruct (setitem_cases k v d) as [[_ E]|(Hk & Hv & E)]; rewrite E; cbn [fst].
  - exact Hd.
  - apply dset_clean; [apply lower_clean; exact Hk|exact Hv|exact Hd].
Qed.

Lemma setitem_result k v d : snd (setitem k v d) = RNone \/ snd (setitem k v d) = RValueError.
Proof. destruct (setitem_cases k v d) as [[_ E]|(_ & _ & E)]; rewrite E; cbn; tauto. Qed.

Lemma delitem_clean k d : store_clean d -> store_clean (fst (delitem k d)).
Proof.
  intros Hd. unfold delitem. destruct (dget (lower k) d); cbn [fst]; [apply ddel_clean|]; exact Hd.
Qed.

Lemma append_clean k v d : store_clean d -> store_clean (fst (append k v d)).
Proof.
  intros Hd. unfold append. destruct (contains k d); [destruct (getitem k d)|];
    try apply setitem_clean; exact Hd.
Qed.

Lemma update_clean items : forall d, store_clean d -> store_clean (fst (update items d)).
Proof.
  induction items as [|[k v] r IH]; cbn [update]; intros d Hd; [exact Hd|].
  pose proof (setitem_clean k v d Hd) as H1.
  destruct (setitem k v d) as [d' res]. cbn [fst] in H1.
  destruct res; try exact H1. apply IH. exact H1.
Qed.

Lemma setdefault_clean k v d : store_clean d -> store_clean (fst (setdefault k v d)).
Proof.
  intros Hd. unfold setdefault. destruct (getitem k d); [exact Hd|].
  pose proof (setitem_clean k v d Hd) as H1.
  destruct (setitem k v d) as [d' res]. destruct res; exact H1.
Qed.

Lemma pop_clean k x d : store_clean d -> store_clean (fst (pop k x d)).
Proof.
  intros Hd. unfold pop. destruct (getitem k d).
  - pose proof (delitem_clean k d Hd) as H1. destruct (delitem k d) as [d' res]. destruct res; exact H1.
  - destruct x; exact Hd.
Qed.

Lemma popitem_clean d : store_clean d -> store_clean (fst (popitem d)).
Proof.
  intros Hd. unfold popitem. destruct d as [|[k v0] r]; [exact Hd|].
  destruct (getitem k ((k, v0) :: r)); [|exact Hd].
  pose proof (delitem_clean k _ Hd) as H1. destruct (delitem k ((k, v0) :: r)) as [d' res].
  destruct res; exact H1.
Qed.

Lemma clear_loop_clean fuel : forall d, store_clean d -> store_clean (clear_loop fuel d).
Proof.
  induction fuel as [|f IH]; cbn [clear_loop]; intros d Hd; [exact Hd|].
  pose proof (popitem_clean d Hd) as H1. destruct (popitem d) as [d' res]. cbn [fst] in H1.
  destruct res; try (apply IH; exact H1). exact H1.
Qed.

Lemma step_clean d o : store_clean d -> store_clean (fst (step d o)).
Proof.
  intros Hd. destruct o; cbn [step].
  - apply setitem_clean; exact Hd.
  - apply append_clean; exact Hd.
  - apply update_clean; exact Hd.
  - apply setdefault_clean; exact Hd.
  - apply delitem_clean; exact Hd.
  - apply pop_clean; exact Hd.
  - apply pop_clean; exact Hd.
  - apply popitem_clean; exact Hd.
  - cbn [fst]. apply clear_loop_clean; exact Hd.
Qed.

Lemma run_clean_gen ops : forall d rs,
  store_clean d ->
  store_clean (fst (fold_left (fun sr o => let '(d', r) := step (fst sr) o in (d', snd sr ++ [r])) ops (d, rs))).
Proof.
  induction ops as [|o r IH]; cbn [fold_left]; intros d rs Hd; [exact Hd|].
  cbn [fst snd]. pose proof (step_clean d o Hd) as H1.
  destruct (step d o) as [d' res]. apply IH. exact H1.
Qed.

Lemma run_clean d0 ops : store_clean d0 -> store_clean (fst (run d0 ops)).
Proof. apply run_clean_gen. Qed.

(* one more operation: the run of [ops ++ [o]] is the run of [ops] followed by [o] *)
Lemma run_snoc d0 ops o :
  run d0 (ops ++ [o]) =
  (fst (step (fst (run d0 ops)) o), snd (run d0 ops) ++ [snd (step (fst (run d0 ops)) o)]).
Proof.
  unfold run. rewrite fold_left_app. cbn [fold_left].
  destruct (step (fst (fold_left _ ops (d0, []))) o); reflexivity.
Qed.

(* ================================================================ rejection *)

Lemma setitem_rejects k v d : dirty k \/ dirty v -> setitem k v d = (d, RValueError).
Proof.
  intros H. destruct (setitem_cases k v d) as [[_ E]|(Hk & Hv & _)]; [exact E|].
  exfalso. destruct H as [H|H]; [exact (clean_not_dirty _ Hk H)|exact (clean_not_dirty _ Hv H)].
Qed.

Lemma append_rejects k v d : dirty k \/ dirty v -> append k v d = (d, RValueError).
Proof.
  intros H. unfold append, contains. destruct (getitem k d) as [old|].
  - apply setitem_rejects. destruct H as [H|H]; [left; exact H|right].
    apply dirty_app. right. apply dirty_app. right. exact H.
  - apply setitem_rejects. exact H.
Qed.

Lemma setdefault_rejects k v d :
  getitem k d = None -> dirty k \/ dirty v -> setdefault k v d = (d, RValueError).
Proof.
  intros G H. unfold setdefault. rewrite G. rewrite (setitem_rejects k v d H). reflexivity.
Qed.

Lemma setdefault_present k v d old : getitem k d = Some old -> setdefault k v d = (d, RVal old).
Proof. intros G. unfold setdefault. rewrite G. reflexivity. Qed.

Lemma update_app pre : forall post d,
  snd (update pre d) = RNone -> update (pre ++ post) d = update post (fst (update pre d)).
Proof.
  induction pre as [|[k v] r IH]; cbn [update app]; intros post d H; [reflexivity|].
  destruct (setitem k v d) as [d' res]. destruct res; try discriminate H.
  apply IH. exact H.
Qed.

Lemma update_clean_prefix pre : forall d, Forall pair_clean pre -> snd (update pre d) = RNone.
Proof.
  induction pre as [|[k v] r IH]; cbn [update]; intros d H; [reflexivity|].
  inversion H as [|p l [Hk Hv] Hr]; subst. cbn [fst snd] in Hk, Hv.
  destruct (setitem_cases k v d) as [[[D|D] _]|(_ & _ & E)].
  - exfalso. exact (clean_not_dirty _ Hk D).
  - exfalso. exact (clean_not_dirty _ Hv D).
  - rewrite E. apply IH. exact Hr.
Qed.

(* update stops at the first pair with a CR/LF/NUL: the pairs before it are stored,
   that pair and everything after it is not *)
Lemma update_rejects pre k v post d :
  Forall pair_clean pre -> dirty k \/ dirty v ->
  update (pre ++ (k, v) :: post) d = (fst (update pre d), RValueError).
Proof.
  intros Hp Hd. rewrite update_app by (apply update_clean_prefix; exact Hp).
  cbn [update]. rewrite (setitem_rejects k v _ Hd). reflexivity.
Qed.

Lemma delitem_result k d : snd (delitem k d) = RKeyError -> fst (delitem k d) = d.
Proof. unfold delitem. destruct (dget (lower k) d); cbn; [discriminate|reflexivity]. Qed.

Lemma delitem_not_valueerror k d : snd (delitem k d) <> RValueError.
Proof. unfold delitem. destruct (dget (lower k) d); cbn; discriminate. Qed.

(* an operation that raises ValueError leaves the mapping as it was (update: see above) *)
Lemma valueerror_unchanged d o :
  snd (step d o) = RValueError -> (forall items, o <> Update items) -> fst (step d o) = d.
Proof.
  intros H NU. destruct o; cbn [step] in *.
  - destruct (setitem_cases k v d) as [[_ E]|(_ & _ & E)]; rewrite E in *; [reflexivity|discriminate H].
  - unfold append in *. destruct (contains k d); [destruct (getitem k d) as [old|]|].
    + destruct (setitem_cases k (old ++ comma_sp ++ v) d) as [[_ E]|(_ & _ & E)]; rewrite E in *;
        [reflexivity|discriminate H].
    + reflexivity.
    + destruct (setitem_cases k v d) as [[_ E]|(_ & _ & E)]; rewrite E in *; [reflexivity|discriminate H].
  - exfalso. exact (NU items eq_refl).
  - unfold setdefault in *. destruct (getitem k d); [reflexivity|].
    destruct (setitem_cases k v d) as [[_ E]|(_ & _ & E)]; rewrite E in *; [reflexivity|discriminate H].
  - exfalso. exact (delitem_not_valueerror k d H).
  - unfold pop in *. destruct (getitem k d); [|discriminate H].
    pose proof (delitem_not_valueerror k d) as NV.
    destruct (delitem k d) as [d' res]. cbn [snd] in NV. destruct res; try discriminate H. contradiction.
  - unfold pop in *. destruct (getitem k d); [|discriminate H].
    pose proof (delitem_not_valueerror k d) as NV.
    destruct (delitem k d) as [d' res]. cbn [snd] in NV. destruct res; try discriminate H. contradiction.
  - unfold popitem in *. destruct d as [|[k v0] r]; [reflexivity|].
    destruct (getitem k ((k, v0) :: r)); [|reflexivity].
    pose proof (delitem_not_valueerror k ((k, v0) :: r)) as NV.
    destruct (delitem k ((k, v0) :: r)) as [d' res]. cbn [snd] in NV. destruct res; try discriminate H. contradiction.
  - discriminate H.
Qed.

(* ValueError is raised only for an operation that carries a CR/LF/NUL *)
Lemma update_valueerror items : forall d,
  snd (update items d) = RValueError -> Exists (fun p => dirty (fst p) \/ dirty (snd p)) items.
Proof.
  induction items as [|[k v] r IH]; cbn [update]; intros d H; [discriminate H|].
  destruct (setitem_cases k v d) as [[D _]|(_ & _ & E)].
  - apply Exists_cons_hd. exact D.
  - rewrite E in H. apply Exists_cons_tl. exact (IH _ H).
Qed.

Lemma comma_sp_clean : clean comma_sp.
Proof. apply clean_by_compute. reflexivity. Qed.

Lemma valueerror_only_dirty d o : store_clean d -> snd (step d o) = RValueError -> op_dirty o.
Proof.
  intros Hd H. destruct o; cbn [step op_dirty] in *.
  - destruct (setitem_cases k v d) as [[D _]|(_ & _ & E)]; [exact D|rewrite E in H; discriminate H].
  - unfold append, contains in H. destruct (getitem k d) as [old|] eqn:G.
    + destruct (setitem_cases k (old ++ comma_sp ++ v) d) as [[D _]|(_ & _ & E)];
        [|rewrite E in H; discriminate H].
      destruct D as [D|D]; [left; exact D|right].
      apply dirty_app in D. destruct D as [D|D].
      { exfalso. exact (clean_not_dirty _ (dget_clean _ _ _ Hd G) D). }
      apply dirty_app in D. destruct D as [D|D]; [|exact D].
      exfalso. exact (clean_not_dirty _ comma_sp_clean D).
    + destruct (setitem_cases k v d) as [[D _]|(_ & _ & E)]; [exact D|rewrite E in H; discriminate H].
  - exact (update_valueerror _ _ H).
  - unfold setdefault in H. destruct (getitem k d); [discriminate H|].
    destruct (setitem_cases k v d) as [[D _]|(_ & _ & E)]; [exact D|rewrite E in H; discriminate H].
  - exact (delitem_not_valueerror k d H).
  - unfold pop in H. destruct (getitem k d); [|discriminate H].
    pose proof (delitem_not_valueerror k d) as NV.
    destruct (delitem k d) as [d' res]. cbn [snd] in NV. destruct res; try discriminate H. contradiction.
  - unfold pop in H. destruct (getitem k d); [|discriminate H].
    pose proof (delitem_not_valueerror k d) as NV.
    destruct (delitem k d) as [d' res]. cbn [snd] in NV. destruct res; try discriminate H. contradiction.
  - unfold popitem in H. destruct d as [|[k v0] r]; [discriminate H|].
    destruct (getitem k ((k, v0) :: r)); [|discriminate H].
    pose proof (delitem_not_valueerror k ((k, v0) :: r)) as NV.
    destruct (delitem k ((k, v0) :: r)) as [d' res]. cbn [snd] in NV. destruct res; try discriminate H. contradiction.
  - discriminate H.
Qed.

(* the constructor: clean items give a clean mapping (it does not check, so dirty
   items are stored — outside the property) *)
Lemma hinit_clean_gen items : forall d,
  Forall pair_clean items -> store_clean d ->
  store_clean (fold_left (fun d p =>
               let k := lower (fst p) in
               match dget k d with
               | Some old => dset k (old ++ comma_sp ++ snd p) d
               | None => dset k (snd p) d
               end) items d).
Proof.
  induction items as [|[k v] r IH]; cbn [fold_left]; intros d Hi Hd; [exact Hd|].
  inversion Hi as [|p l [Hk Hv] Hr]; subst. cbn [fst snd] in *.
  apply IH; [exact Hr|].
  destruct (dget (lower k) d) as [old|] eqn:G.
  - apply dset_clean; [apply lower_clean; exact Hk| |exact Hd].
    apply clean_app. split; [exact (dget_clean _ _ _ Hd G)|].
    apply clean_app. split; [exact comma_sp_clean|exact Hv].
  - apply dset_clean; [apply lower_clean; exact Hk|exact Hv|exact Hd].
Qed.

Lemma hinit_clean items : Forall pair_clean items -> store_clean (hinit items).
Proof. intros H. apply hinit_clean_gen; [exact H|constructor]. Qed.

(* the statement of mutation_invariant *)
Lemma mutation_invariant_proof :
  (forall d0 ops, store_clean d0 -> store_clean (fst (run d0 ops))) /\
  (forall d k v, dirty k \/ dirty v ->
     step d (SetItem k v) = (d, RValueError) /\
     step d (Append k v) = (d, RValueError) /\
     (getitem k d = None -> step d (SetDefault k v) = (d, RValueError))) /\
  (forall d k v old, getitem k d = Some old -> step d (SetDefault k v) = (d, RVal old)) /\
  (forall d pre k v post, Forall pair_clean pre -> dirty k \/ dirty v ->
     step d (Update (pre ++ (k, v) :: post)) = (fst (step d (Update pre)), RValueError) /\
     snd (step d (Update pre)) = RNone) /\
  (forall d o, snd (step d o) = RValueError -> (forall items, o <> Update items) -> fst (step d o) = d) /\
  (forall d o, store_clean d -> snd (step d o) = RValueError -> op_dirty o).
Proof.
  repeat split.
  - intros d0 ops. apply run_clean.
  - apply setitem_rejects. assumption.
  - apply append_rejects. assumption.
  - intros G. apply setdefault_rejects; assumption.
  - intros d k v old. apply setdefault_present.
  - cbn [step]. apply update_rejects; assumption.
  - cbn [step]. apply update_clean_prefix. assumption.
  - apply valueerror_unchanged.
  - apply valueerror_only_dirty.
Qed.

(* ================================================================ cookies *)

(* printable ASCII other than ';' and ',' *)
Definition out_ok (c : N) : bool := (32 <=? c) && (c <? 127) && negb (c =? 59) && negb (c =? 44).
(* neither a backslash nor a double quote *)
Definition plain (c : N) : bool := negb (c =? 92) && negb (c =? 34).
(* a legal-token character: printable, not a semicolon, comma, double quote, backslash, equals sign or space *)
Definition token_ok (c : N) : bool :=
  out_ok c && plain c && negb (c =? 61) && negb (c =? 32).

(* the three shapes a translated character can take *)
Definition shape_ok (t : str) : bool :=
  match t with
  | [x] => plain x
  | [a; _] => a =? 92
  | [a; _; c; d] => (a =? 92) && plain c && plain d
  | _ => false
  end.

Lemma out_ok_spec c : out_ok c = true -> 32 <= c < 127 /\ c <> 59 /\ c <> 44.
Proof. unfold out_ok. intros H. b2p. lia. Qed.

Lemma legal_lt c : legal c = true -> c < 128.
Proof.
  unfold legal, is_alpha, is_dig. intros H.
  apply orb_true_iff in H. destruct H as [H|H].
  - apply orb_true_iff in H. destruct H as [H|H].
    + apply orb_true_iff in H. destruct H as [H|H]; b2p; lia.
    + b2p. lia.
  - apply N.ltb_lt. apply (mem_forallb (fun x => x <? 128) _ _ H). vm_compute. reflexivity.
Qed.

(* per-character facts settled by evaluating all 256 cases *)
Lemma fact_translate_out : forallb (fun c => forallb out_ok (translate_cp c)) (below 256) = true.
Proof. vm_compute. reflexivity. Qed.

Lemma fact_translate_shape : forallb (fun c => shape_ok (translate_cp c)) (below 256) = true.
Proof. vm_compute. reflexivity. Qed.

Lemma fact_legal_token : forallb (fun c => implb (legal c) (token_ok c)) (below 256) = true.
Proof. vm_compute. reflexivity. Qed.

Lemma translate_high c : 256 <= c -> translate_cp c = [c].
Proof.
  intros H. unfold translate_cp.
  replace (c =? 34) with false by (symmetry; apply N.eqb_neq; lia).
  replace (c =? 92) with false by (symmetry; apply N.eqb_neq; lia).
  replace (c <? 256) with false by (symmetry; apply N.ltb_ge; lia).
  reflexivity.
Qed.

Lemma translate_out c x : In x (translate_cp c) -> out_ok x = true \/ (256 <= x /\ x = c).
Proof.
  intros I. destruct (N.lt_ge_cases c 256) as [L|G].
  - left. pose proof (below_forall _ 256 fact_translate_out c L) as F. cbv beta in F.
    rewrite forallb_forall in F. apply F. exact I.
  - right. rewrite (translate_high c G) in I. destruct I as [<-|[]]. split; [exact G|reflexivity].
Qed.

Lemma translate_shape c : shape_ok (translate_cp c) = true.
Proof.
  destruct (N.lt_ge_cases c 256) as [L|G].
  - exact (below_forall _ 256 fact_translate_shape c L).
  - rewrite (translate_high c G). cbn [shape_ok]. unfold plain.
    replace (c =? 34) with false by (symmetry; apply N.eqb_neq; lia).
    replace (c =? 92) with false by (symmetry; apply N.eqb_neq; lia).
    reflexivity.
Qed.

Lemma legal_token c : legal c = true -> token_ok c = true.
Proof.
  intros H. pose proof (below_forall _ 256 fact_legal_token c) as F. cbv beta in F.
  assert (L : c < 256) by (pose proof (legal_lt c H); lia).
  specialize (F L). rewrite H in F. exact F.
Qed.

Lemma qscan_plain x r : plain x = true -> qscan (x :: r) = qscan r.
Proof.
  unfold plain. intros H. apply andb_true_iff in H. destruct H as [H1 H2].
  apply negb_true_iff in H1. apply negb_true_iff in H2.
  cbn [qscan]. rewrite H1, H2. reflexivity.
Qed.

Lemma qscan_shape t r : shape_ok t = true -> qscan (t ++ r) = qscan r.
Proof.
  destruct t as [|a [|b [|c [|d [|e t]]]]]; cbn [shape_ok app]; intros H; try discriminate H.
  - apply qscan_plain. exact H.
  - cbn [qscan]. rewrite H. reflexivity.
  - apply andb_true_iff in H. destruct H as [H Hd].
    apply andb_true_iff in H. destruct H as [Ha Hc].
    transitivity (qscan (c :: d :: r)).
    + cbn [qscan]. rewrite Ha. reflexivity.
    + rewrite (qscan_plain c _ Hc). apply qscan_plain. exact Hd.
Qed.

Lemma qscan_translate s : qscan (flat_map translate_cp s) = true.
Proof.
  induction s as [|c r IH]; cbn [flat_map]; [reflexivity|].
  rewrite qscan_shape by apply translate_shape. exact IH.
Qed.

Lemma quote_form s : quoted_form s (quote s).
Proof.
  unfold quoted_form, quote. destruct (is_legal_key s) eqn:E.
  - left. unfold is_legal_key in E. destruct s as [|c r]; [discriminate E|].
    split; [discriminate|]. split; [|reflexivity].
    rewrite forallb_forall in E. exact E.
  - right. exists (flat_map translate_cp s). split; [reflexivity|apply qscan_translate].
Qed.

Lemma quote_chars s x : In x (quote s) -> out_ok x = true \/ (256 <= x /\ In x s).
Proof.
  unfold quote. destruct (is_legal_key s) eqn:E.
  - intros I. left. unfold is_legal_key in E. destruct s as [|c r]; [discriminate E|].
    rewrite forallb_forall in E. specialize (E x I). apply legal_token in E.
    unfold token_ok in E. b2p. assumption.
  - intros [<-|I]; [left; reflexivity|].
    apply in_app_iff in I. destruct I as [I|[<-|[]]]; [|left; reflexivity].
    apply in_flat_map in I. destruct I as [c [Ic Ix]].
    destruct (translate_out c x Ix) as [O|[G ->]]; [left; exact O|right; tauto].
Qed.

(* statement of cookie_pair_inert *)
Lemma cookie_pair_inert_proof : forall name value,
  (forall c, In c (cookie_pair name value) ->
     c <> 13 /\ c <> 10 /\ c <> 0 /\ c <> 59 /\ c <> 44 /\
     (32 <= c < 127 \/ (256 <= c /\ (In c name \/ In c value)))) /\
  quoted_form name (quote name) /\
  quoted_form value (quote value) /\
  (forall c, legal c = true ->
     32 < c < 127 /\ c <> 34 /\ c <> 92 /\ c <> 59 /\ c <> 44 /\ c <> 61).
Proof.
  intros name value. split; [|split; [apply quote_form|split; [apply quote_form|]]].
  - intros c I. unfold cookie_pair in I. apply in_app_iff in I.
    assert (H : out_ok c = true \/ (256 <= c /\ (In c name \/ In c value))).
    { destruct I as [I|[<-|I]].
      - destruct (quote_chars _ _ I) as [O|[G J]]; [left; exact O|right; tauto].
      - left. reflexivity.
      - destruct (quote_chars _ _ I) as [O|[G J]]; [left; exact O|right; tauto]. }
    destruct H as [O|[G J]].
    + apply out_ok_spec in O. repeat split; lia.
    + repeat split; try lia. right. tauto.
  - intros c L. apply legal_token in L. unfold token_ok, out_ok, plain in L. b2p. repeat split; lia.
Qed.

Lemma cookie_pair_clean name value : clean (cookie_pair name value).
Proof.
  apply clean_chars. intros c I.
  destruct (cookie_pair_inert_proof name value) as [H _]. specialize (H c I). tauto.
Qed.

Lemma cookie_attrs_nonempty c : cookie_attrs c <> [].
Proof.
  unfold cookie_attrs. intros E. repeat (apply app_eq_nil in E; destruct E as [_ E]). discriminate E.
Qed.

(* the text before the first ';' of the line is exactly the name=value pair *)
Lemma cookie_first_segment_proof : forall c,
  exists rest,
    cookie_str c = cookie_pair (c_name c) (c_value c) ++ 59 :: 32 :: rest /\
    ~ In 59 (cookie_pair (c_name c) (c_value c)).
Proof.
  intros c. unfold cookie_str.
  destruct (cookie_attrs c) as [|a r] eqn:E; [exfalso; exact (cookie_attrs_nonempty c E)|].
  exists (join sep (a :: r)). split.
  - cbn [join]. reflexivity.
  - intros I. destruct (cookie_pair_inert_proof (c_name c) (c_value c)) as [H _].
    specialize (H 59 I). tauto.
Qed.

(* ---- the whole line is clean when the attribute strings are ---- *)

Lemma uint_digits_clean u : clean (uint_digits u).
Proof.
  induction u; cbn [uint_digits]; try apply clean_nil;
    (apply clean_cons; split; [lia|assumption]).
Qed.

Lemma dec_z_clean z : clean (dec_z z).
Proof.
  unfold dec_z, dec. destruct z; try apply uint_digits_clean.
  apply clean_cons. split; [lia|apply uint_digits_clean].
Qed.

Lemma join_clean sp l : clean sp -> Forall clean l -> clean (join sp l).
Proof.
  intros Hs. induction l as [|a r IH]; intros H; cbn [join]; [apply clean_nil|].
  inversion H as [|x y Ha Hr]; subst. destruct r as [|b r']; [exact Ha|].
  apply clean_app. split; [exact Ha|]. apply clean_app. split; [exact Hs|apply IH; exact Hr].
Qed.

Lemma cookie_attrs_clean c : attrs_clean c -> Forall clean (cookie_attrs c).
Proof.
  intros (Hp & Hd & Hs). unfold cookie_attrs.
  repeat (apply Forall_app; split).
  - destruct (-1 <? c_max_age c)%Z; [|constructor].
    constructor; [|constructor]. apply clean_app. split; [apply clean_by_compute; reflexivity|apply dec_z_clean].
  - destruct (nonempty (c_domain c)); [|constructor].
    constructor; [|constructor]. apply clean_app. split; [apply clean_by_compute; reflexivity|exact Hd].
  - destruct (nonempty (c_path c)); [|constructor].
    constructor; [|constructor]. apply clean_app. split; [apply clean_by_compute; reflexivity|exact Hp].
  - destruct (c_httponly c); [|constructor].
    constructor; [|constructor]. apply clean_by_compute; reflexivity.
  - destruct (c_secure c || str_eqb (c_samesite c) (lit "strict") || str_eqb (c_samesite c) (lit "none")); [|constructor].
    constructor; [|constructor]. apply clean_by_compute; reflexivity.
  - constructor; [|constructor]. apply clean_app. split; [apply clean_by_compute; reflexivity|exact Hs].
Qed.

Lemma cookie_str_clean c : attrs_clean c -> clean (cookie_str c).
Proof.
  intros H. unfold cookie_str. apply join_clean; [apply clean_by_compute; reflexivity|].
  constructor; [apply cookie_pair_clean|apply cookie_attrs_clean; exact H].
Qed.

(* ================================================================ redirect target *)

Lemma fact_pct : forallb (fun b => forallb uri_char (pct b)) (below 256) = true.
Proof. vm_compute. reflexivity. Qed.

Definition uri_ascii (c : N) : bool := (32 <? c) && (c <? 127).

Lemma fact_uri_ascii : forallb (fun c => implb (uri_char c) (uri_ascii c)) (below 256) = true.
Proof. vm_compute. reflexivity. Qed.

Lemma uri_char_lt c : uri_char c = true -> c < 128.
Proof.
  unfold uri_char, unreserved, is_alpha, is_dig. intros H.
  apply orb_true_iff in H. destruct H as [H|H].
  - apply orb_true_iff in H. destruct H as [H|H].
    + apply orb_true_iff in H. destruct H as [H|H].
      * apply orb_true_iff in H. destruct H as [H|H]; b2p; lia.
      * b2p. lia.
    + apply N.ltb_lt. apply (mem_forallb (fun x => x <? 128) _ _ H). vm_compute. reflexivity.
  - apply N.ltb_lt. apply (mem_forallb (fun x => x <? 128) _ _ H). vm_compute. reflexivity.
Qed.

Lemma uri_char_ascii c : uri_char c = true -> 32 < c < 127.
Proof.
  intros H. pose proof (below_forall _ 256 fact_uri_ascii c) as F. cbv beta in F.
  assert (L : c < 256) by (pose proof (uri_char_lt c H); lia).
  specialize (F L). rewrite H in F. unfold uri_ascii in F. cbn [implb] in F. b2p. lia.
Qed.

Lemma utf8_error s : utf8 s = None ->
  exists c, In c s /\ (55296 <= c <= 57343 \/ 1114112 <= c).
Proof.
  induction s as [|c r IH]; cbn [utf8]; [discriminate|].
  destruct (utf8_cp c) as [b|] eqn:Ec.
  - destruct (utf8 r); [discriminate|]. intros _. destruct (IH eq_refl) as [x [I H]].
    exists x. split; [right; exact I|exact H].
  - intros _. exists c. split; [left; reflexivity|].
    unfold utf8_cp in Ec.
    destruct (c <? 128); [discriminate|]. destruct (c <? 2048); [discriminate|].
    destruct (c <? 65536).
    + destruct ((55296 <=? c) && (c <=? 57343)) eqn:E; [|discriminate]. b2p. left. lia.
    + destruct (c <? 1114112) eqn:E; [discriminate|]. b2p. right. lia.
Qed.

(* statement of redirect_inert *)
Lemma redirect_inert_proof : forall url,
  match iri_to_uri url with
  | Ok uri =>
      (forall c, In c uri -> uri_char c = true /\ 32 < c < 127) /\ clean uri
  | Raise e =>
      e = UnicodeEncodeError /\ exists c, In c url /\ (55296 <= c <= 57343 \/ 1114112 <= c)
  end.
Proof.
  intros url. unfold iri_to_uri. destruct (utf8 url) as [bs|] eqn:E.
  - assert (H : forall c, In c (flat_map pct bs) -> uri_char c = true /\ 32 < c < 127).
    { intros c I. apply in_flat_map in I. destruct I as [b [Ib Ic]].
      pose proof (utf8_bytes _ _ E) as B. rewrite Forall_forall in B. specialize (B b Ib).
      pose proof (below_forall _ 256 fact_pct b B) as F. cbv beta in F.
      rewrite forallb_forall in F. specialize (F c Ic). split; [exact F|apply uri_char_ascii; exact F]. }
    split; [exact H|]. apply clean_chars. intros c I. destruct (H c I) as [_ R]. lia.
  - split; [reflexivity|apply utf8_error; exact E].
Qed.

(* ================================================================ list_headers *)

Lemma header_items_clean b d : store_clean d -> forall keys l,
  Forall clean keys -> header_items b keys d = Ok l -> Forall pair_clean l.
Proof.
  intros Hd. induction keys as [|k r IH]; cbn [header_items]; intros l Hk H.
  - injection H as <-. constructor.
  - inversion Hk as [|x y Hk1 Hkr]; subst.
    destruct (getitem k d) as [v|] eqn:G; [|discriminate H].
    destruct (b && negb (forallb (fun x => x <? 256) k && forallb (fun x => x <? 256) v)); [discriminate H|].
    destruct (header_items b r d) as [l'|e] eqn:E; [|discriminate H].
    injection H as <-. constructor; [|apply IH; [exact Hkr|reflexivity]].
    split; [exact Hk1|]. exact (dget_clean _ _ _ Hd G).
Qed.

Lemma set_cookie_name_clean : clean set_cookie_name.
Proof. apply clean_by_compute. reflexivity. Qed.

Lemma cookie_items_clean b cs : Forall attrs_clean cs -> forall l,
  cookie_items b cs = Ok l -> Forall pair_clean l.
Proof.
  induction cs as [|c r IH]; cbn [cookie_items]; intros Ha l H.
  - injection H as <-. constructor.
  - inversion Ha as [|x y Hc Hr]; subst.
    destruct (if b then cookie_bytes c else Ok (cookie_str c)) as [line|e] eqn:E; [|discriminate H].
    destruct (cookie_items b r) as [l'|e] eqn:E2; [|discriminate H].
    injection H as <-. constructor; [|apply IH; [exact Hr|reflexivity]].
    split; [exact set_cookie_name_clean|]. cbn [snd].
    assert (line = cookie_str c) as ->.
    { destruct b; [|injection E as <-; reflexivity].
      unfold cookie_bytes in E. destruct (forallb (fun x => x <? 128) (cookie_str c)); [|discriminate E].
      injection E as <-. reflexivity. }
    apply cookie_str_clean. exact Hc.
Qed.

Lemma list_headers_clean b d cs l :
  store_clean d -> Forall attrs_clean cs -> list_headers b d cs = Ok l -> Forall pair_clean l.
Proof.
  intros Hd Hc. unfold list_headers.
  destruct (header_items b (map fst d) d) as [hs|e] eqn:E1; [|discriminate].
  destruct (cookie_items b cs) as [cl|e] eqn:E2; [|discriminate].
  intros H. injection H as <-. apply Forall_app. split.
  - apply (header_items_clean b d Hd (map fst d)); [|exact E1].
    apply Forall_forall. intros k I. apply in_map_iff in I. destruct I as [p [<- Ip]].
    unfold store_clean in Hd. rewrite Forall_forall in Hd. exact (proj1 (Hd p Ip)).
  - exact (cookie_items_clean b cs Hc cl E2).
Qed.

Lemma header_items_raises b d : forall keys e, header_items b keys d = Raise e -> e <> ValueError.
Proof.
  induction keys as [|k r IH]; cbn [header_items]; intros e; [discriminate|].
  destruct (getitem k d); [|intros H; injection H as <-; discriminate].
  destruct (b && negb _); [intros H; injection H as <-; discriminate|].
  destruct (header_items b r d) as [l|e'] eqn:E; [discriminate|].
  intros H. injection H as <-. apply IH. reflexivity.
Qed.

(* statement of emitted_lines_clean *)
Lemma emitted_lines_clean_proof :
  (forall d0 ops cookies as_bytes lines,
     store_clean d0 -> Forall attrs_clean cookies ->
     list_headers as_bytes (fst (run d0 ops)) cookies = Ok lines ->
     Forall pair_clean lines) /\
  (forall as_bytes init url,
     Forall pair_clean init ->
     match redirect as_bytes init url with
     | Ok lines => Forall pair_clean lines
     | Raise e => e <> ValueError
     end).
Proof.
  split.
  - intros d0 ops cookies b lines Hd Hc H.
    exact (list_headers_clean b _ cookies lines (run_clean d0 ops Hd) Hc H).
  - intros b init url Hi. unfold redirect.
    pose proof (redirect_inert_proof url) as R.
    destruct (iri_to_uri url) as [uri|e]; [|destruct R as [-> _]; discriminate].
    destruct R as [_ Cu].
    pose proof (hinit_clean init Hi) as H0.
    assert (Cl : clean (lit "location")) by (apply clean_by_compute; reflexivity).
    destruct (setitem_cases (lit "location") uri (hinit init)) as [[[D|D] _]|(_ & _ & E1)].
    { exfalso. exact (clean_not_dirty _ Cl D). }
    { exfalso. exact (clean_not_dirty _ Cu D). }
    rewrite E1.
    assert (H1 : store_clean (dset (lower (lit "location")) uri (hinit init))).
    { apply dset_clean; [apply lower_clean; exact Cl|exact Cu|exact H0]. }
    set (d1 := dset (lower (lit "location")) uri (hinit init)) in *.
    assert (Cc : clean (lit "content-length")) by (apply clean_by_compute; reflexivity).
    assert (C0 : clean (lit "0")) by (apply clean_by_compute; reflexivity).
    destruct (setitem_cases (lit "content-length") (lit "0") d1) as [[[D|D] _]|(_ & _ & E2)].
    { exfalso. exact (clean_not_dirty _ Cc D). }
    { exfalso. exact (clean_not_dirty _ C0 D). }
    rewrite E2.
    assert (H2 : store_clean (dset (lower (lit "content-length")) (lit "0") d1)).
    { apply dset_clean; [apply lower_clean; exact Cc|exact C0|exact H1]. }
    set (d2 := dset (lower (lit "content-length")) (lit "0") d1) in *.
    destruct (list_headers b d2 []) as [lines|e] eqn:EL.
    + apply (list_headers_clean b d2 [] lines); [exact H2|constructor|exact EL].
    + unfold list_headers in EL.
      destruct (header_items b (map fst d2) d2) as [hs|e'] eqn:EH.
      * cbn [cookie_items] in EL. discriminate EL.
      * injection EL as <-. exact (header_items_raises b d2 _ _ EH).
Qed.

(* ================================================================ examples (non-vacuity) *)

(* a clean start, a split attempt through every mutating operation, and what is emitted *)
Example ex_split_rejected :
  let evil := lit "v" ++ [13; 10] ++ lit "set-cookie: s=1" in
  run [] [SetItem (lit "X-A") (lit "1"); SetItem (lit "x-b") evil; Append (lit "X-a") evil;
          SetDefault (lit "x-c") evil; Update [(lit "x-d", lit "2"); (lit "x-e", evil); (lit "x-f", lit "3")];
          SetItem (lit "n" ++ [0]) (lit "v"); Append (lit "x-A") (lit "4"); SetDefault (lit "X-a") evil]
  = ([(lit "x-a", lit "1, 4"); (lit "x-d", lit "2")],
     [RNone; RValueError; RValueError; RValueError; RValueError; RValueError; RNone; RVal (lit "1, 4")]).
Proof. vm_compute. reflexivity. Qed.

Example ex_store_clean : store_clean [(lit "x-a", lit "1, 4"); (lit "x-d", lit "2")].
Proof. repeat constructor; apply clean_by_compute; reflexivity. Qed.

(* the constructor does not check (outside the property): a dirty initial item is stored *)
Example ex_constructor_unchecked :
  hinit [(lit "X", [97; 13; 10; 98])] = [(lit "x", [97; 13; 10; 98])].
Proof. vm_compute. reflexivity. Qed.

(* a legal token is not quoted; anything else becomes one quoted string *)
Example ex_cookie_token : cookie_pair (lit "sid") (lit "a1:b2") = lit "sid=a1:b2".
Proof. vm_compute. reflexivity. Qed.

(* name  a;b  value  e-acute, U+0100, CR, LF, double quote, backslash, comma *)
Example ex_cookie_quoted :
  cookie_pair (lit "a;b") [233; 256; 13; 10; 34; 92; 44]
  = lit """a\073b""=""\351" ++ [256] ++ lit "\015\012\""\\\054""".
Proof. vm_compute. reflexivity. Qed.

Example ex_cookie_line :
  cookie_str {| c_name := lit "k"; c_value := lit "v; Domain=evil.example"; c_max_age := 5%Z; c_path := lit "/";
                c_domain := []; c_secure := false; c_httponly := true; c_samesite := lit "strict" |}
  = lit "k=""v\073 Domain=evil.example""; max-age=5; path=/; httponly; secure; samesite=strict".
Proof. vm_compute. reflexivity. Qed.

Example ex_qscan_rejects_bare_quote : qscan (lit "a""b") = false /\ qscan (lit "a\") = false.
Proof. split; vm_compute; reflexivity. Qed.

(* target  /a b CR LF e-acute U+2028 ? x = % *)
Example ex_redirect :
  iri_to_uri (lit "/a b" ++ [13; 10; 233; 8232] ++ lit "?x=%")
  = Ok (lit "/a%20b%0D%0A%C3%A9%E2%80%A8?x=%").
Proof. vm_compute. reflexivity. Qed.

Example ex_redirect_surrogate : iri_to_uri [97; 55296] = Raise UnicodeEncodeError.
Proof. vm_compute. reflexivity. Qed.

Example ex_redirect_emitted :
  redirect false [(lit "X", lit "1")] (lit "/n" ++ [13; 10] ++ lit "x: y")
  = Ok [(lit "x", lit "1"); (lit "location", lit "/n%0D%0Ax:%20y"); (lit "content-length", lit "0")].
Proof. vm_compute. reflexivity. Qed.

Example ex_emitted :
  list_headers true [(lit "x-a", lit "1")]
    [{| c_name := lit "k"; c_value := [10]; c_max_age := (-1)%Z; c_path := lit "/"; c_domain := [];
        c_secure := false; c_httponly := false; c_samesite := lit "lax" |}]
  = Ok [(lit "x-a", lit "1"); (lit "set-cookie", lit "k=""\012""; path=/; samesite=lax")].
Proof. vm_compute. reflexivity. Qed.
