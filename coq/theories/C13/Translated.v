(* C13 — source-level tie for MutableHeaders.__setitem__ (the control-character test and the store).

   tools/py2coq.py regenerates the Gallina definition G.setitem from the CURRENT Python source of
   baize/datastructures.py on every check run (harness/c13.py: extra_obligations); this file is then re-checked by
   coqc against the fresh definition (the two lines between the markers are re-pointed at the fresh file; nothing
   else is changed).  Generated_ref.v is the committed copy of what the translator emitted when this file was written.

   What the translator is told: self._dict is a dict from str to str (threaded through the function and returned:
   the generated function gives the dict afterwards and the outcome); str.lower is opaque — it becomes the first
   argument of the generated function, and the theorem instantiates it with the model's lower, so nothing is claimed
   here about what lower() does.

   The theorem: for every key, value and mapping, the translated function gives the same mapping afterwards as
   C13.Model.setitem, returns None exactly when the model says RNone, and raises ValueError exactly when the model
   says RValueError (to_model maps the one vocabulary to the other). *)
From Coq Require Import List NArith Bool.
From Baize Require Import Lib.PyStr Lib.PyStrFacts.
From Baize Require C13.Model.
(* GENERATED-BEGIN *)
From Baize Require C13.Generated_ref.
Module G := Baize.C13.Generated_ref.
(* GENERATED-END *)
Module M := Baize.C13.Model.
Import ListNotations.
Local Open Scope N_scope.

(* what the translated function gives (mapping afterwards, outcome), in the model's vocabulary; an exception class the
   model of __setitem__ does not know has no counterpart *)
Definition value_error : list N := [86; 97; 108; 117; 101; 69; 114; 114; 111; 114].   (* the text ValueError *)

Definition to_model (r : list (list N * list N) * PyStr.outcome unit) : option (M.pairs * M.result) :=
  match r with
  | (d, PyStr.Ret tt) => Some (d, M.RNone)
  | (d, PyStr.Raise exc) => if PyStr.str_eqb exc value_error then Some (d, M.RValueError) else None
  end.

Lemma str_eqb_model : forall a b, PyStr.str_eqb a b = M.str_eqb a b.
Proof.
  induction a as [|x a IH]; intros [|y b]; cbn [PyStr.str_eqb M.str_eqb];
    first [reflexivity | rewrite IH; reflexivity].
Qed.

(* "\n" in s or "\r" in s or "\0" in s *)
Lemma has_ctl_model : forall s,
  PyStr.contains [10] s || PyStr.contains [13] s || PyStr.contains [0] s = M.has_ctl s.
Proof.
  intros s. unfold M.has_ctl, M.mem. rewrite !contains_single. reflexivity.
Qed.

(* d[k] = v *)
Lemma dict_set_model : forall k v d, PyStr.dict_set k v d = M.dset k v d.
Proof.
  intros k v. induction d as [|[k' v'] r IH]; [reflexivity|].
  cbn [PyStr.dict_set M.dset]. rewrite str_eqb_model, IH. reflexivity.
Qed.

Lemma setitem_translated_lemma : forall k v d,
  to_model (G.setitem M.lower d k v) = Some (M.setitem k v d).
Proof.
  intros k v d. unfold G.setitem, M.setitem.
  rewrite <- (has_ctl_model k), <- (has_ctl_model v).
  destruct (PyStr.contains [10] k); destruct (PyStr.contains [13] k); destruct (PyStr.contains [0] k);
    cbn [orb]; try reflexivity;
  destruct (PyStr.contains [10] v); destruct (PyStr.contains [13] v); destruct (PyStr.contains [0] v);
    cbn [orb]; try reflexivity;
  cbv zeta; rewrite dict_set_model; reflexivity.
Qed.

Theorem setitem_translated : forall (k v : list N) (d : list (list N * list N)),
  to_model (G.setitem M.lower d k v) = Some (M.setitem k v d).
Proof. exact setitem_translated_lemma. Qed.
Print Assumptions setitem_translated.
