(* C13 — the few dict / control operations the functions translated by tools/py2coq_c13.py are made of, besides Lib/PyStr.v.

   A dict from str to str is an insertion-ordered association list without repeated keys (as PyStr.dict_set keeps it).
   None stands for KeyError.  No proofs here.  Every function of this file is compared with the running interpreter's
   dict / Mapping mix-in / for statement by evaluation inside coqc on every check run (tools/py2coq_c13.py: pylib_check),
   the way Lib/PyStr.v is. *)
From Coq Require Import List NArith Bool.
From Baize Require Import Lib.PyStr.
Import ListNotations.
Local Open Scope N_scope.

(* the text KeyError *)
Definition key_error : str := [75; 101; 121; 69; 114; 114; 111; 114].

(* d[k] *)
Fixpoint dict_get (k : str) (d : list (str * str)) : option str :=
  match d with
  | [] => None
  | (k', v) :: r => if PyStr.str_eqb k' k then Some v else dict_get k r
  end.

(* k in d *)
Definition dict_mem (k : str) (d : list (str * str)) : bool :=
  match dict_get k d with Some _ => true | None => false end.

(* del d[k] : the dict afterwards; None = KeyError, the dict is then as it was *)
Definition dict_del (k : str) (d : list (str * str)) : option (list (str * str)) :=
  match dict_get k d with
  | Some _ => Some (filter (fun p => negb (PyStr.str_eqb (fst p) k)) d)
  | None => None
  end.

(* collections.abc.Mapping.__contains__, given the outcome of self[key]:
     try: self[key]   except KeyError: return False   else: return True
   another exception class passes through (no class the translated __getitem__ can give is a subclass of KeyError:
   the translator only ever emits KeyError and ValueError) *)
Definition mapping_contains (o : PyStr.outcome str) : PyStr.outcome bool :=
  match o with
  | PyStr.Ret _ => PyStr.Ret true
  | PyStr.Raise e => if PyStr.str_eqb e key_error then PyStr.Ret false else PyStr.Raise e
  end.

(* for x in l: <body>  where the body changes the state s and may raise: the first exception ends the loop *)
Fixpoint for_each {A S : Type} (l : list A) (s : S) (body : A -> S -> PyStr.outcome S) : PyStr.outcome S :=
  match l with
  | [] => PyStr.Ret s
  | a :: r => match body a s with
              | PyStr.Ret s' => for_each r s' body
              | PyStr.Raise e => PyStr.Raise e
              end
  end.
