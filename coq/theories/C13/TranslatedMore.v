(* C13 — source-level tie for the other functions that decide what the header mapping holds:
     Headers.__getitem__, MutableHeaders.__delitem__, MutableHeaders.append, Headers.__init__   (baize/datastructures.py),
   and the safety fact of the property derived from the TRANSLATED definitions.

   tools/py2coq_c13.py regenerates GM.getitem / GM.delitem / GM.append / GM.init from the CURRENT Python source on every
   check run (harness/c13.py: extra_obligations), next to the definition T.G.setitem that tools/py2coq.py regenerates for
   MutableHeaders.__setitem__ (C13/Translated.v, re-checked in the same run); this file is then re-checked by coqc against
   the fresh definitions (the lines between the markers are re-pointed at the fresh files; nothing else is changed).
   GeneratedMore_ref.v is the committed copy of what the translator emitted when this file was written.

   What the translator is told (tools/py2coq_c13.py has the list): self._dict is a dict from str to str; str.lower is the
   argument str_lower of every generated function — the theorems put the model's lower there, nothing is claimed about
   lower(); `self[k] = v` is the argument self_setitem of the generated append — the theorems put T.G.setitem M.lower there,
   the function translated from the same source file, about which C13/Translated.v proves setitem_translated; `self[k]` is
   the generated getitem; `k in self` is Mapping.__contains__ = PyLib.mapping_contains of what self[k] gives; in __init__ the
   statements that choose `items` (Mapping -> .items(), None -> (), else the iterable) are compared with the one known
   shape and `items`, the list of pairs, is the argument of the generated function.

   About construction the model says (Model.hinit) exactly what the code does: every key is lower-cased, the value of a
   repeated key is joined to the one already there with ", ", and NOTHING is checked — a name or value with CR, LF or NUL
   given to the constructor IS stored (init_translated is an equality with hinit; Proofs.hinit_clean: clean items give a
   clean mapping; init_stores_unchecked below: a dirty item is in the mapping afterwards).  The property's guarantee is
   about the mutators, from a clean mapping on. *)
From Coq Require Import List NArith Bool.
From Baize Require Import Lib.PyStr Lib.PyStrFacts.
From Baize Require C13.Model C13.Proofs C13.PyLib.
(* GENERATED-BEGIN *)
From Baize Require C13.Translated.
Module T := Baize.C13.Translated.
From Baize Require C13.GeneratedMore_ref.
Module GM := Baize.C13.GeneratedMore_ref.
(* GENERATED-END *)
Module M := Baize.C13.Model.
Module P := Baize.C13.Proofs.
Module L := Baize.C13.PyLib.
Import ListNotations.
Local Open Scope N_scope.

(* ---------------------------------------------------------------- vocabulary *)

(* what a translated mutator gives (mapping afterwards, outcome) in the model's vocabulary; an exception class other than
   ValueError and KeyError has no counterpart *)
Definition to_model (r : list (str * str) * PyStr.outcome unit) : option (M.pairs * M.result) :=
  match r with
  | (d, PyStr.Ret tt) => Some (d, M.RNone)
  | (d, PyStr.Raise exc) =>
      if PyStr.str_eqb exc T.value_error then Some (d, M.RValueError)
      else if PyStr.str_eqb exc L.key_error then Some (d, M.RKeyError)
      else None
  end.

(* what the translated __getitem__ gives: the value, or KeyError = the model's None *)
Definition get_to_model (o : PyStr.outcome str) : option (option str) :=
  match o with
  | PyStr.Ret v => Some (Some v)
  | PyStr.Raise exc => if PyStr.str_eqb exc L.key_error then Some None else None
  end.

(* ---------------------------------------------------------------- PyLib and the model's dict *)

Lemma key_error_refl : PyStr.str_eqb L.key_error L.key_error = true.
Proof. reflexivity. Qed.

Lemma key_not_value_error : PyStr.str_eqb L.key_error T.value_error = false.
Proof. reflexivity. Qed.

Lemma dict_get_model : forall k d, L.dict_get k d = M.dget k d.
Proof.
  intros k. induction d as [|[k' v'] r IH]; [reflexivity|].
  cbn [L.dict_get M.dget]. rewrite T.str_eqb_model, IH. reflexivity.
Qed.

Lemma dict_mem_model : forall k d, L.dict_mem k d = match M.dget k d with Some _ => true | None => false end.
Proof. intros k d. unfold L.dict_mem. rewrite dict_get_model. reflexivity. Qed.

Lemma dict_del_model : forall k d,
  L.dict_del k d = match M.dget k d with Some _ => Some (M.ddel k d) | None => None end.
Proof.
  intros k d. unfold L.dict_del, M.ddel. rewrite dict_get_model.
  destruct (M.dget k d); [|reflexivity]. apply f_equal.
  apply filter_ext. intros p. rewrite T.str_eqb_model. reflexivity.
Qed.

Lemma for_each_total : forall (A S : Type) (body : A -> S -> PyStr.outcome S) (f : S -> A -> S),
  (forall a s, body a s = PyStr.Ret (f s a)) ->
  forall l s, L.for_each l s body = PyStr.Ret (fold_left f l s).
Proof.
  intros A S body f Hb. induction l as [|a r IH]; intros s; [reflexivity|].
  cbn [L.for_each fold_left]. rewrite Hb. apply IH.
Qed.

(* ---------------------------------------------------------------- Headers.__getitem__ *)

Lemma getitem_eq : forall k d,
  GM.getitem M.lower d k = match M.getitem k d with Some v => PyStr.Ret v | None => PyStr.Raise L.key_error end.
Proof.
  intros k d. unfold GM.getitem, M.getitem. cbv zeta. rewrite dict_get_model.
  destruct (M.dget (M.lower k) d); reflexivity.
Qed.

Theorem getitem_translated : forall (k : list N) (d : list (list N * list N)),
  get_to_model (GM.getitem M.lower d k) = Some (M.getitem k d).
Proof.
  intros k d. rewrite getitem_eq. destruct (M.getitem k d); [reflexivity|].
  unfold get_to_model. rewrite key_error_refl. reflexivity.
Qed.
Print Assumptions getitem_translated.

(* ---------------------------------------------------------------- MutableHeaders.__delitem__ *)

Theorem delitem_translated : forall (k : list N) (d : list (list N * list N)),
  to_model (GM.delitem M.lower d k) = Some (M.delitem k d).
Proof.
  intros k d. unfold GM.delitem, M.delitem. cbv zeta. rewrite dict_del_model.
  destruct (M.dget (M.lower k) d); [reflexivity|].
  unfold to_model. rewrite key_not_value_error, key_error_refl. reflexivity.
Qed.
Print Assumptions delitem_translated.

(* ---------------------------------------------------------------- MutableHeaders.append *)

Lemma to_model_of_T : forall r x, T.to_model r = Some x -> to_model r = Some x.
Proof.
  intros [d [[]|e]] x H; cbn [T.to_model to_model] in *; [exact H|].
  destruct (PyStr.str_eqb e T.value_error); [exact H|discriminate H].
Qed.

(* the statement `self[k] = v` as the translator emits it: the call of the translated __setitem__, its exception passed on *)
Lemma call_setitem : forall k v d,
  to_model (let '(d', o) := T.G.setitem M.lower d k v in
            match o with
            | PyStr.Raise e => (d', PyStr.Raise e)
            | PyStr.Ret _ => (d', PyStr.Ret tt)
            end) = Some (M.setitem k v d).
Proof.
  intros k v d. pose proof (to_model_of_T _ _ (T.setitem_translated k v d)) as H.
  destruct (T.G.setitem M.lower d k v) as [d' [[]|e]]; exact H.
Qed.

Theorem append_translated : forall (k v : list N) (d : list (list N * list N)),
  to_model (GM.append M.lower (T.G.setitem M.lower) d k v) = Some (M.append k v d).
Proof.
  intros k v d. unfold GM.append, M.append, M.contains. cbv zeta. rewrite !getitem_eq.
  destruct (M.getitem k d) as [old|]; cbn [L.mapping_contains negb]; rewrite ?key_error_refl; cbn [negb].
  - exact (call_setitem k (old ++ M.comma_sp ++ v) d).
  - exact (call_setitem k v d).
Qed.
Print Assumptions append_translated.

(* ---------------------------------------------------------------- Headers.__init__ *)

Definition hstep (d : M.pairs) (p : str * str) : M.pairs :=
  let k := M.lower (fst p) in
  match M.dget k d with
  | Some old => M.dset k (old ++ M.comma_sp ++ snd p) d
  | None => M.dset k (snd p) d
  end.

(* the loop never raises (the read store[key] is guarded by `key in store`), and the mapping it builds is the model's *)
Theorem init_translated : forall (items : list (list N * list N)),
  GM.init M.lower items = PyStr.Ret (M.hinit items).
Proof.
  intros items. unfold GM.init. cbv zeta.
  rewrite (for_each_total _ _ _ hstep); [reflexivity|].
  intros [k v] s. unfold hstep. cbn [fst snd]. cbv zeta.
  unfold L.dict_mem. pose proof (dict_get_model (M.lower k) s) as G.
  destruct (L.dict_get (M.lower k) s) as [old|]; rewrite <- G; cbn [negb]; rewrite ?T.dict_set_model; reflexivity.
Qed.
Print Assumptions init_translated.

(* the constructor does not check: a single item is stored as it is, whatever its value holds *)
Theorem init_stores_unchecked : forall (k v : list N),
  GM.init M.lower [(k, v)] = PyStr.Ret [(M.lower k, v)].
Proof. intros k v. rewrite init_translated. reflexivity. Qed.
Print Assumptions init_stores_unchecked.

(* ---------------------------------------------------------------- the safety fact, from the translated definitions *)

Inductive top :=
| TSet (k v : str)          (* h[k] = v *)
| TApp (k v : str)          (* h.append(k, v) *)
| TDel (k : str).           (* del h[k] *)

(* one operation, as translated from the source *)
Definition tstep (d : list (str * str)) (o : top) : list (str * str) * PyStr.outcome unit :=
  match o with
  | TSet k v => T.G.setitem M.lower d k v
  | TApp k v => GM.append M.lower (T.G.setitem M.lower) d k v
  | TDel k => GM.delitem M.lower d k
  end.

(* the mapping after a sequence of operations (one that raises leaves what it leaves, the next one goes on from there) *)
Definition trun (d : list (str * str)) (ops : list top) : list (str * str) :=
  fold_left (fun d o => fst (tstep d o)) ops d.

Definition mop (o : top) : M.op :=
  match o with
  | TSet k v => M.SetItem k v
  | TApp k v => M.Append k v
  | TDel k => M.DelItem k
  end.

Lemma tstep_model : forall d o, to_model (tstep d o) = Some (M.step d (mop o)).
Proof.
  intros d [k v|k v|k]; cbn [tstep mop M.step].
  - apply to_model_of_T. apply T.setitem_translated.
  - apply append_translated.
  - apply delitem_translated.
Qed.

Lemma to_model_inv : forall d r x, to_model (d, r) = Some x ->
  fst x = d /\ (forall e, r = PyStr.Raise e -> snd x <> M.RNone).
Proof.
  intros d [[]|e] x H; cbn [to_model] in H.
  - injection H as <-. split; [reflexivity|]. intros e E. discriminate E.
  - destruct (PyStr.str_eqb e T.value_error).
    + injection H as <-. split; [reflexivity|]. intros _ _. cbn [snd]. discriminate.
    + destruct (PyStr.str_eqb e L.key_error); [|discriminate H].
      injection H as <-. split; [reflexivity|]. intros _ _. cbn [snd]. discriminate.
Qed.

Lemma model_raise_unchanged : forall d o, snd (M.step d (mop o)) <> M.RNone -> fst (M.step d (mop o)) = d.
Proof.
  intros d [k v|k v|k]; cbn [mop M.step]; intros H.
  - destruct (P.setitem_cases k v d) as [[_ E]|(_ & _ & E)]; rewrite E in *; [reflexivity|].
    exfalso. apply H. reflexivity.
  - unfold M.append in *. destruct (M.contains k d); [destruct (M.getitem k d) as [old|]|]; try reflexivity.
    + destruct (P.setitem_cases k (old ++ M.comma_sp ++ v) d) as [[_ E]|(_ & _ & E)]; rewrite E in *; [reflexivity|].
      exfalso. apply H. reflexivity.
    + destruct (P.setitem_cases k v d) as [[_ E]|(_ & _ & E)]; rewrite E in *; [reflexivity|].
      exfalso. apply H. reflexivity.
  - unfold M.delitem in *. destruct (M.dget (M.lower k) d); cbn [fst snd] in *; [|reflexivity].
    exfalso. apply H. reflexivity.
Qed.

(* From a clean mapping (the empty one in particular) every sequence of translated item assignments, appends and deletions
   leads to a mapping in which no name and no value contains CR, LF or NUL; and an operation that raises leaves the
   mapping exactly as it was. *)
Theorem translated_ops_preserve_clean :
  (forall d0 ops, P.store_clean d0 -> P.store_clean (trun d0 ops)) /\
  (forall ops, P.store_clean (trun [] ops)) /\
  (forall d o e, snd (tstep d o) = PyStr.Raise e -> fst (tstep d o) = d).
Proof.
  assert (A : forall ops d0, P.store_clean d0 -> P.store_clean (trun d0 ops)).
  { induction ops as [|o r IH]; intros d0 Hd; [exact Hd|].
    unfold trun. cbn [fold_left]. apply IH.
    pose proof (tstep_model d0 o) as Hm. destruct (tstep d0 o) as [d' res].
    destruct (to_model_inv _ _ _ Hm) as [E _]. cbn [fst]. rewrite <- E.
    apply P.step_clean. exact Hd. }
  split; [intros d0 ops; apply A|]. split; [intros ops; apply A; constructor|].
  intros d o e H. pose proof (tstep_model d o) as Hm.
  destruct (tstep d o) as [d' res]. cbn [fst snd] in *.
  destruct (to_model_inv _ _ _ Hm) as [E N]. rewrite <- E.
  apply model_raise_unchanged. exact (N e H).
Qed.
Print Assumptions translated_ops_preserve_clean.
