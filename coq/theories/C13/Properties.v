(* C13 — Response headers cannot be split or smuggled.  Statements only.

   Vocabulary (C13/Proofs.v): [clean s] = s contains none of CR (13), LF (10), NUL (0);
   [dirty s] = it contains one; [store_clean d] = every name and value of the mapping
   is clean; [op_dirty o] = the operation carries a dirty name or value;
   [qscan b] = scanning b as the inside of a quoted string (a backslash takes the next
   character with it) meets no bare double quote and no dangling backslash;
   [quoted_form s q] = q is s itself, non-empty and made of legal characters, or q is
   one double-quoted string whose inside passes [qscan]. *)
From Coq Require Import List NArith.
From Baize Require Import Lib.Utf8 C13.Model C13.Proofs.
Import ListNotations.
Local Open Scope N_scope.

(* Header mapping.  (1) From a clean mapping every sequence of operations (item
   assignment, append, update, setdefault, deletion, pop, popitem, clear) leads to a
   clean mapping.  (2) Assigning or appending a dirty name or value raises ValueError
   and returns the mapping unchanged; so does setdefault when it would store; (3) a
   setdefault on a present name stores nothing.  (4) update stores the clean pairs in
   front of the first dirty one, raises at that pair and stores nothing after it.
   (5) Whatever raised ValueError (update aside) left the mapping exactly as it was.
   (6) ValueError is raised only for an operation that carries a dirty text. *)
Theorem mutation_invariant :
  (forall d0 ops, store_clean d0 -> store_clean (fst (run d0 ops))) /\
  (forall d k v, dirty k \/ dirty v ->
     step d (SetItem k v) = (d, RValueError) /\
     step d (Append k v) = (d, RValueError) /\
     (getitem k d = None -> step d (SetDefault k v) = (d, RValueError))) /\
  (forall d k v old, getitem k d = Some old -> step d (SetDefault k v) = (d, RVal old)) /\
  (forall d pre k v post, Forall pair_clean pre -> dirty k \/ dirty v ->
     step d (Update (pre ++ (k, v) :: post)) = (fst (step d (Update pre)), RValueError) /\
     snd (step d (Update pre)) = RNone) /\
  (forall d o, snd (step d o) = RValueError -> (forall items, o <> Update items) -> fst (step d o) = d) /\
  (forall d o, store_clean d -> snd (step d o) = RValueError -> op_dirty o).
Proof. exact mutation_invariant_proof. Qed.

(* Cookie pair, for every name and value over all code points.  Every character of
   the rendered name=value is none of CR, LF, NUL, ';', ',' and is printable ASCII or a
   code point >= 256 copied from the input; each side is a legal token or exactly one
   quoted string; a legal character is printable and none of double quote, backslash,
   ';', ',', '=', space. *)
Theorem cookie_pair_inert : forall name value,
  (forall c, In c (cookie_pair name value) ->
     c <> 13 /\ c <> 10 /\ c <> 0 /\ c <> 59 /\ c <> 44 /\
     (32 <= c < 127 \/ (256 <= c /\ (In c name \/ In c value)))) /\
  quoted_form name (quote name) /\
  quoted_form value (quote value) /\
  (forall c, legal c = true ->
     32 < c < 127 /\ c <> 34 /\ c <> 92 /\ c <> 59 /\ c <> 44 /\ c <> 61).
Proof. exact cookie_pair_inert_proof. Qed.

(* The first ';' of a Set-Cookie line is baize's own: the text in front of it is
   exactly the name=value pair, whatever the name and value. *)
Theorem cookie_first_segment : forall c,
  exists rest,
    cookie_str c = cookie_pair (c_name c) (c_value c) ++ 59 :: 32 :: rest /\
    ~ In 59 (cookie_pair (c_name c) (c_value c)).
Proof. exact cookie_first_segment_proof. Qed.

(* Redirect target, for every string of code points: either iri_to_uri returns text
   made only of unreserved/safe ASCII characters (so no CR, LF, NUL, space, nothing
   above 126), or it raises UnicodeEncodeError and the target holds a surrogate (or
   something above U+10FFFF, which no Python str can hold). *)
Theorem redirect_inert : forall url,
  match iri_to_uri url with
  | Ok uri =>
      (forall c, In c uri -> uri_char c = true /\ 32 < c < 127) /\ clean uri
  | Raise e =>
      e = UnicodeEncodeError /\ exists c, In c url /\ (55296 <= c <= 57343 \/ 1114112 <= c)
  end.
Proof. exact redirect_inert_proof. Qed.

(* Everything list_headers emits — after any operation sequence from a clean mapping,
   with any cookies whose attribute strings (path, domain, samesite) are clean, text or
   bytes — is free of CR, LF, NUL in every name and value.  A RedirectResponse built on
   clean initial headers emits only clean lines for every target, and its assignment of
   the location header is never rejected. *)
Theorem emitted_lines_clean :
  (forall d0 ops cookies as_bytes lines,
     store_clean d0 -> Forall attrs_clean cookies ->
     list_headers as_bytes (fst (run d0 ops)) cookies = Ok lines ->
     Forall pair_clean lines) /\
  (forall as_bytes init url,
     Forall pair_clean init ->
     match redirect as_bytes init url with
     | Ok lines => Forall pair_clean lines
     | Raise e => e <> ValueError
     end).
Proof. exact emitted_lines_clean_proof. Qed.

Print Assumptions mutation_invariant.
Print Assumptions cookie_pair_inert.
Print Assumptions cookie_first_segment.
Print Assumptions redirect_inert.
Print Assumptions emitted_lines_clean.
