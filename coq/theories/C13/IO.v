(* C13 — wire interface: one case line in, one observation line out.
   Cases:
     resp    init ops cookies   header operations on BaseResponse(headers=init).headers,
                                then set_cookie calls, then list_headers both ways
     cookies ((name value) ..)  str(Cookie(name, value)) and bytes(...) for each pair
     redir   url init           RedirectResponse(url, headers=init) run as a WSGI and as
                                an ASGI application: the header list handed over
     iri     (url ..)           iri_to_uri of each *)
From Coq Require Import List NArith ZArith Bool.
From Baize Require Import Lib.Wire C13.Model.
Import ListNotations.

Definition rd_pair (x : sx) : str * str :=
  match x with Lst [Str a; Str b] => (a, b) | _ => ([], []) end.
Definition rd_pairs (x : sx) : pairs := map rd_pair (sx_l x).

Definition rd_op (x : sx) : option op :=
  match x with
  | Lst (Str name :: args) =>
      if str_eqb name (lit "set") then match args with [Str k; Str v] => Some (SetItem k v) | _ => None end
      else if str_eqb name (lit "append") then match args with [Str k; Str v] => Some (Append k v) | _ => None end
      else if str_eqb name (lit "update") then match args with [ps] => Some (Update (rd_pairs ps)) | _ => None end
      else if str_eqb name (lit "setdefault") then match args with [Str k; Str v] => Some (SetDefault k v) | _ => None end
      else if str_eqb name (lit "del") then match args with [Str k] => Some (DelItem k) | _ => None end
      else if str_eqb name (lit "pop") then match args with [Str k] => Some (Pop k) | _ => None end
      else if str_eqb name (lit "popd") then match args with [Str k; Str v] => Some (PopDefault k v) | _ => None end
      else if str_eqb name (lit "popitem") then Some PopItem
      else if str_eqb name (lit "clear") then Some Clear
      else None
  | _ => None
  end.

Definition rd_cookie (x : sx) : cookie :=
  match x with
  | Lst [Str n; Str v; Num ma; Str p; Str dm; sec; ho; Str ss] =>
      {| c_name := n; c_value := v; c_max_age := ma; c_path := p; c_domain := dm;
         c_secure := sx_b sec; c_httponly := sx_b ho; c_samesite := ss |}
  | _ => {| c_name := []; c_value := []; c_max_age := (-1)%Z; c_path := []; c_domain := [];
            c_secure := false; c_httponly := false; c_samesite := [] |}
  end.

(* Cookie(name, value) with the constructor's defaults *)
Definition plain_cookie (n v : str) : cookie :=
  {| c_name := n; c_value := v; c_max_age := (-1)%Z; c_path := []; c_domain := [];
     c_secure := false; c_httponly := false; c_samesite := lit "lax" |}.

Definition show_pairs (a : pairs) : sx := Lst (map (fun p => Lst [Str (fst p); Str (snd p)]) a).

Definition show_exn (e : exn) : sx :=
  Lst [tag (lit "exc");
       tag (match e with
            | KeyError => lit "KeyError"
            | UnicodeEncodeError => lit "UnicodeEncodeError"
            | ValueError => lit "ValueError"
            end)].

Definition show_out {A} (f : A -> sx) (o : outcome A) : sx :=
  match o with Ok a => f a | Raise e => show_exn e end.

Definition show_result (r : result) : sx :=
  match r with
  | RNone => Lst []
  | RVal v => Lst [tag (lit "v"); Str v]
  | RPair k v => Lst [tag (lit "p"); Str k; Str v]
  | RKeyError => show_exn KeyError
  | RValueError => show_exn ValueError
  end.

(* list(m.items()) *)
Definition show_items (d : pairs) : sx := show_out show_pairs (header_items false (map fst d) d).

Fixpoint run_ops (d : pairs) (ops : list sx) (cookies : list cookie) : list sx :=
  match ops with
  | [] => [show_out show_pairs (list_headers false d cookies);
           show_out show_pairs (list_headers true d cookies)]
  | x :: r =>
      match rd_op x with
      | None => [tag (lit "badop")]
      | Some o => let '(d', res) := step d o in Lst [show_result res; show_items d'] :: run_ops d' r cookies
      end
  end.

Definition run_case (c : list sx) : list sx :=
  match c with
  | [Str kind; a; b; cs] =>
      if str_eqb kind (lit "resp") then
        let d0 := hinit (rd_pairs a) in
        show_items d0 :: run_ops d0 (sx_l b) (map rd_cookie (sx_l cs))
      else [tag (lit "badcase")]
  | [Str kind; Str url; init] =>
      if str_eqb kind (lit "redir") then
        [show_out show_pairs (redirect false (rd_pairs init) url);
         show_out show_pairs (redirect true (rd_pairs init) url)]
      else [tag (lit "badcase")]
  | [Str kind; Lst l] =>
      if str_eqb kind (lit "cookies") then
        map (fun x => let '(n, v) := rd_pair x in
                      Lst [Str (cookie_str (plain_cookie n v));
                           show_out Str (cookie_bytes (plain_cookie n v))]) l
      else if str_eqb kind (lit "iri") then
        map (fun x => show_out Str (iri_to_uri (sx_s x))) l
      else [tag (lit "badcase")]
  | _ => [tag (lit "badcase")]
  end.

Definition run_line (l : list N) : list N := print_line (run_case (parse_line l)).
