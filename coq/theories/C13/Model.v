(* C13 — model of the code that decides what text reaches a response header line:
     baize/datastructures.py  Headers.__init__/__getitem__, MutableHeaders
                              (__setitem__, __delitem__, append) and the mutators it
                              inherits from collections.abc.MutableMapping
                              (__contains__, setdefault, update, pop, popitem, clear,
                              items), Cookie._quote / Cookie.__str__ / __bytes__,
     baize/responses.py       BaseResponse.set_cookie, list_headers, iri_to_uri,
     baize/{wsgi,asgi}/responses.py  RedirectResponse.__init__, Response.__call__.
   Strings are lists of code points.  No proofs in this file.

   str.lower() is modelled per code point, exactly for U+0000..U+012F and as the
   identity above (the cases only use characters above U+012F on which Python's
   lower() is the identity). *)
From Coq Require Import List NArith ZArith Bool.
From Baize Require Import Lib.Wire Lib.Utf8.
Import ListNotations.
Local Open Scope N_scope.

Definition str := list N.

Fixpoint str_eqb (a b : str) : bool :=
  match a, b with
  | [], [] => true
  | x :: a', y :: b' => (x =? y) && str_eqb a' b'
  | _, _ => false
  end.

Definition mem (c : N) (s : str) : bool := existsb (N.eqb c) s.

(* ---------- str.lower() ---------- *)

Definition lower_cp (c : N) : N :=
  if (65 <=? c) && (c <=? 90) then c + 32                              (* A-Z *)
  else if (192 <=? c) && (c <=? 222) && negb (c =? 215) then c + 32     (* À-Þ without × *)
  else if (256 <=? c) && (c <=? 303) && N.even c then c + 1             (* U+0100..U+012F *)
  else c.

Definition lower (s : str) : str := map lower_cp s.

(* ---------- the dict: insertion-ordered association list ---------- *)

Definition pairs := list (str * str).

Fixpoint dget (k : str) (d : pairs) : option str :=
  match d with
  | [] => None
  | (k', v) :: r => if str_eqb k' k then Some v else dget k r
  end.

(* d[k] = v : an existing key keeps its position, a new key goes to the end *)
Fixpoint dset (k v : str) (d : pairs) : pairs :=
  match d with
  | [] => [(k, v)]
  | (k', v') :: r => if str_eqb k' k then (k', v) :: r else (k', v') :: dset k v r
  end.

Definition ddel (k : str) (d : pairs) : pairs :=
  filter (fun p => negb (str_eqb (fst p) k)) d.

(* ---------- Headers.__init__ (not checked by the code: outside the property) ---------- *)

Definition comma_sp : str := [44; 32].

Definition hinit (items : pairs) : pairs :=
  fold_left (fun d p =>
               let k := lower (fst p) in
               match dget k d with
               | Some old => dset k (old ++ comma_sp ++ snd p) d
               | None => dset k (snd p) d
               end) items [].

(* ---------- MutableHeaders ---------- *)

Inductive result :=
| RNone
| RVal (v : str)
| RPair (k v : str)
| RKeyError
| RValueError.

(* "\n" in s or "\r" in s or "\0" in s *)
Definition has_ctl (s : str) : bool := mem 10 s || mem 13 s || mem 0 s.

(* Headers.__getitem__ ; Mapping.__contains__ is try: self[key] except KeyError *)
Definition getitem (k : str) (d : pairs) : option str := dget (lower k) d.
Definition contains (k : str) (d : pairs) : bool :=
  match getitem k d with Some _ => true | None => false end.

(* MutableHeaders.__setitem__ *)
Definition setitem (k v : str) (d : pairs) : pairs * result :=
  if has_ctl k then (d, RValueError)
  else if has_ctl v then (d, RValueError)
  else (dset (lower k) v d, RNone).

(* MutableHeaders.__delitem__ *)
Definition delitem (k : str) (d : pairs) : pairs * result :=
  match dget (lower k) d with
  | Some _ => (ddel (lower k) d, RNone)
  | None => (d, RKeyError)
  end.

(* MutableHeaders.append *)
Definition append (k v : str) (d : pairs) : pairs * result :=
  if contains k d then
    match getitem k d with
    | Some old => setitem k (old ++ comma_sp ++ v) d
    | None => (d, RKeyError)
    end
  else setitem k v d.

(* MutableMapping.update(iterable of pairs): for key, value in other: self[key] = value *)
Fixpoint update (items : pairs) (d : pairs) : pairs * result :=
  match items with
  | [] => (d, RNone)
  | (k, v) :: r =>
      match setitem k v d with
      | (d', RNone) => update r d'
      | (d', e) => (d', e)
      end
  end.

(* MutableMapping.setdefault *)
Definition setdefault (k v : str) (d : pairs) : pairs * result :=
  match getitem k d with
  | Some old => (d, RVal old)
  | None =>
      match setitem k v d with
      | (d', RNone) => (d', RVal v)
      | (d', e) => (d', e)
      end
  end.

(* MutableMapping.pop *)
Definition pop (k : str) (dflt : option str) (d : pairs) : pairs * result :=
  match getitem k d with
  | Some v => match delitem k d with
              | (d', RNone) => (d', RVal v)
              | (d', e) => (d', e)
              end
  | None => match dflt with Some x => (d, RVal x) | None => (d, RKeyError) end
  end.

(* MutableMapping.popitem: key = next(iter(self)); value = self[key]; del self[key] *)
Definition popitem (d : pairs) : pairs * result :=
  match d with
  | [] => (d, RKeyError)
  | (k, _) :: _ =>
      match getitem k d with
      | Some v => match delitem k d with
                  | (d', RNone) => (d', RPair k v)
                  | (d', e) => (d', e)
                  end
      | None => (d, RKeyError)
      end
  end.

(* MutableMapping.clear: while True: self.popitem()  until KeyError *)
Fixpoint clear_loop (fuel : nat) (d : pairs) : pairs :=
  match fuel with
  | O => d
  | S f => match popitem d with
           | (d', RKeyError) => d'
           | (d', _) => clear_loop f d'
           end
  end.
Definition clear (d : pairs) : pairs := clear_loop (S (length d)) d.

Inductive op :=
| SetItem (k v : str)
| Append (k v : str)
| Update (items : pairs)
| SetDefault (k v : str)
| DelItem (k : str)
| Pop (k : str)
| PopDefault (k dflt : str)
| PopItem
| Clear.

Definition step (d : pairs) (o : op) : pairs * result :=
  match o with
  | SetItem k v => setitem k v d
  | Append k v => append k v d
  | Update items => update items d
  | SetDefault k v => setdefault k v d
  | DelItem k => delitem k d
  | Pop k => pop k None d
  | PopDefault k x => pop k (Some x) d
  | PopItem => popitem d
  | Clear => (clear d, RNone)
  end.

(* the mapping after a sequence of operations, with the result of each *)
Definition run (d0 : pairs) (ops : list op) : pairs * list result :=
  fold_left (fun sr o => let '(d', r) := step (fst sr) o in (d', snd sr ++ [r])) ops (d0, []).

(* ---------- outcomes of the rendering functions ---------- *)

Inductive exn := KeyError | UnicodeEncodeError | ValueError.
Inductive outcome (A : Type) := Ok (a : A) | Raise (e : exn).
Arguments Ok {A} a.
Arguments Raise {A} e.

(* ---------- Cookie ---------- *)

Definition is_alpha (c : N) : bool := ((97 <=? c) && (c <=? 122)) || ((65 <=? c) && (c <=? 90)).
Definition is_dig (c : N) : bool := (48 <=? c) && (c <=? 57).

(* _cookie_legal_chars = ascii_letters + digits + "!#$%&'*+-.^_`|~:" *)
Definition legal_punct : str := lit "!#$%&'*+-.^_`|~:".
Definition legal (c : N) : bool := is_alpha c || is_dig c || mem c legal_punct.

(* re.compile("[...]+").fullmatch *)
Definition is_legal_key (s : str) : bool :=
  match s with [] => false | _ => forallb legal s end.

(* the characters left alone by the translation table besides the legal ones *)
Definition untranslated : str := lit " ()/<=>?@[]{}".

Definition octal3 (n : N) : str := [48 + n / 64 mod 8; 48 + n / 8 mod 8; 48 + n mod 8].

(* value.translate(_cookie_translator) for one character: a character without an
   entry (every code point >= 256 included) is kept *)
Definition translate_cp (c : N) : str :=
  if c =? 34 then [92; 34]
  else if c =? 92 then [92; 92]
  else if (c <? 256) && negb (legal c || mem c untranslated) then 92 :: octal3 c
  else [c].

Definition quote (s : str) : str :=
  if is_legal_key s then s else 34 :: flat_map translate_cp s ++ [34].

Record cookie := {
  c_name : str; c_value : str;
  c_max_age : Z; c_path : str; c_domain : str;      (* "" stands for None as well: both falsy *)
  c_secure : bool; c_httponly : bool; c_samesite : str }.

Definition sep : str := [59; 32].

(* the name=value pair *)
Definition cookie_pair (name value : str) : str := quote name ++ 61 :: quote value.

Definition nonempty (s : str) : bool := match s with [] => false | _ => true end.

(* the attribute parts of Cookie.__str__ (expires is never set by the cases: it is
   produced by strftime, not from caller text) *)
Definition cookie_attrs (c : cookie) : list str :=
  (if (-1 <? c_max_age c)%Z then [lit "max-age=" ++ dec_z (c_max_age c)] else []) ++
  (if nonempty (c_domain c) then [lit "domain=" ++ c_domain c] else []) ++
  (if nonempty (c_path c) then [lit "path=" ++ c_path c] else []) ++
  (if c_httponly c then [lit "httponly"] else []) ++
  (if c_secure c || str_eqb (c_samesite c) (lit "strict") || str_eqb (c_samesite c) (lit "none")
   then [lit "secure"] else []) ++
  [lit "samesite=" ++ c_samesite c].

Fixpoint join (sp : str) (l : list str) : str :=
  match l with
  | [] => []
  | [a] => a
  | a :: r => a ++ sp ++ join sp r
  end.

(* Cookie.__str__ *)
Definition cookie_str (c : cookie) : str :=
  join sep (cookie_pair (c_name c) (c_value c) :: cookie_attrs c).

(* Cookie.__bytes__ = str(self).encode("ascii") *)
Definition cookie_bytes (c : cookie) : outcome str :=
  let s := cookie_str c in
  if forallb (fun x => x <? 128) s then Ok s else Raise UnicodeEncodeError.

(* ---------- iri_to_uri = urllib.parse.quote(iri, safe="/#%[]=:;$&()+,!?*@'~") ---------- *)

Definition unreserved (b : N) : bool := is_alpha b || is_dig b || mem b (lit "_.-~").
Definition safe_set : str := lit "/#%[]=:;$&()+,!?*@'~".
Definition uri_char (b : N) : bool := unreserved b || mem b safe_set.

Definition hex_upper (n : N) : N := if n <? 10 then 48 + n else 55 + n.

Definition pct (b : N) : str :=
  if uri_char b then [b] else [37; hex_upper (b / 16); hex_upper (b mod 16)].

Definition iri_to_uri (s : str) : outcome str :=
  match utf8 s with
  | None => Raise UnicodeEncodeError
  | Some bs => Ok (flat_map pct bs)
  end.

(* ---------- BaseResponse.list_headers ---------- *)

Definition set_cookie_name : str := lit "set-cookie".

(* self.headers.items(): for key in self._dict: (key, self[key]) ; with as_bytes each
   key and value goes through .encode("latin-1") *)
Fixpoint header_items (as_bytes : bool) (keys : list str) (d : pairs) : outcome pairs :=
  match keys with
  | [] => Ok []
  | k :: r =>
      match getitem k d with
      | None => Raise KeyError
      | Some v =>
          if as_bytes && negb (forallb (fun x => x <? 256) k && forallb (fun x => x <? 256) v)
          then Raise UnicodeEncodeError
          else match header_items as_bytes r d with
               | Ok l => Ok ((k, v) :: l)
               | Raise e => Raise e
               end
      end
  end.

Fixpoint cookie_items (as_bytes : bool) (cs : list cookie) : outcome pairs :=
  match cs with
  | [] => Ok []
  | c :: r =>
      match (if as_bytes then cookie_bytes c else Ok (cookie_str c)) with
      | Raise e => Raise e
      | Ok line =>
          match cookie_items as_bytes r with
          | Ok l => Ok ((set_cookie_name, line) :: l)
          | Raise e => Raise e
          end
      end
  end.

Definition list_headers (as_bytes : bool) (d : pairs) (cs : list cookie) : outcome pairs :=
  match header_items as_bytes (map fst d) d with
  | Raise e => Raise e
  | Ok hs => match cookie_items as_bytes cs with
             | Raise e => Raise e
             | Ok l => Ok (hs ++ l)
             end
  end.

(* ---------- RedirectResponse(url, headers=init) called as an application ---------- *)

(* __init__: self.headers = MutableHeaders(init); self.headers["location"] = iri_to_uri(url)
   __call__: self.headers["content-length"] = "0"; list_headers(as_bytes = asgi) *)
Definition redirect (as_bytes : bool) (init : pairs) (url : str) : outcome pairs :=
  match iri_to_uri url with
  | Raise e => Raise e
  | Ok uri =>
      match setitem (lit "location") uri (hinit init) with
      | (_, RValueError) => Raise ValueError
      | (d1, _) =>
          match setitem (lit "content-length") (lit "0") d1 with
          | (_, RValueError) => Raise ValueError
          | (d2, _) => list_headers as_bytes d2 []
          end
      end
  end.
