(* C05 — Every response obeys the server-gateway protocol.  Statements only.
   [r] ranges over every recipe of Resp/Model.v: all response classes with any
   status, header list, cookie lines, body, producer behaviour (items, stop, raise),
   file request; [ca] = the disconnect becomes visible after that many chunks,
   [sf] = the server's send() raises on that call, [close_after] = the WSGI server
   closes the iterable after that many items. *)
From Coq Require Import List NArith Bool Arith.
From Baize Require Import Lib.Wire C02.Model Resp.Model C05.Model C05.Proofs.
Import ListNotations.

(* ASGI, no send fault: if the call returns, the events are exactly
   start (body more)* (body final) with an int status in 100..999 and lower-case
   header names; if the producer's exception propagates, they are a legal prefix
   without a final body event. *)
Theorem asgi_trace_legal : forall (r : recipe) (ca : option nat),
  status_ok r ->
  match snd (asgi_run r ca None) with
  | Returned => asgi_legal true (fst (asgi_run r ca None)) = true
  | ProducerRaised => asgi_legal false (fst (asgi_run r ca None)) = true /\
                      forallb is_more (tl (fst (asgi_run r ca None))) = true
  | SendRaised => False
  end.
Proof. exact asgi_trace_legal_proof. Qed.

(* ASGI, any combination of faults: what was emitted is a legal prefix, in
   particular nothing follows a body event with more_body = false. *)
Theorem asgi_fault_prefix_legal : forall (r : recipe) (ca sf : option nat),
  status_ok r -> asgi_legal false (fst (asgi_run r ca sf)) = true.
Proof. exact asgi_fault_prefix_legal_proof. Qed.

(* WSGI, with or without early close: start_response is called exactly once and
   before the first body bytes, everything else is bytes; without early close it is called. *)
Theorem wsgi_trace_shape : forall (r : recipe) (close_after : option nat),
  wsgi_shape (fst (wsgi_run r close_after)) = true /\
  (close_after = None -> fst (wsgi_run r close_after) <> []).
Proof. exact wsgi_trace_shape_proof. Qed.

(* WSGI header pairs: Latin-1, no control characters, no hop-by-hop names, status
   in range — for developer input inside the stated domain. *)
Theorem wsgi_headers_clean : forall b : base,
  clean_base b ->
  (forall loc, clean_text loc = true ->
     wsgi_start_ok (WStart (b_status b) (start_headers false (RRedirect b loc))) = true) /\
  wsgi_start_ok (WStart (b_status b) (start_headers false (RPlain b))) = true /\
  (forall body media charset, clean_text media = true -> clean_text charset = true ->
     wsgi_start_ok (WStart (b_status b) (start_headers false (RSmall b body media charset))) = true) /\
  (forall ct prod, clean_text ct = true ->
     wsgi_start_ok (WStart (b_status b) (start_headers false (RStream b ct prod))) = true).
Proof. exact wsgi_simple_headers_clean_proof. Qed.

(* The file of a file response is removed after the response was built and before it is
   opened: what was emitted (the response start) is a legal prefix on both interfaces —
   in particular start_response is not called a second time. *)
Theorem vanished_file_prefix_legal : forall r : recipe,
  status_ok r ->
  asgi_legal false (asgi_vanished r) = true /\ wsgi_shape (wsgi_vanished r) = true.
Proof. exact vanished_file_prefix_legal_proof. Qed.

(* The name a file response is given (download name, or the base name of a file without a known type):
   the constructor refuses exactly the Latin-1 names that carry CR, LF or NUL; every response that is
   built has a Content-Disposition value without CR, LF and NUL, and a clean name gives a clean value.
   [quoted] is urllib.parse.quote(name): percent-encoded ASCII (premise). *)
Theorem file_disposition_clean : forall name quoted : bytes,
  clean_text quoted = true ->
  (file_ctor_refuses name quoted = false -> setitem_refuses (disposition name quoted) = false) /\
  (file_ctor_refuses name quoted = true <-> is_latin1 name = true /\ setitem_refuses name = true) /\
  (clean_text name = true -> clean_text (disposition name quoted) = true).
Proof. exact file_disposition_clean_proof. Qed.

Print Assumptions asgi_trace_legal.
Print Assumptions asgi_fault_prefix_legal.
Print Assumptions wsgi_trace_shape.
Print Assumptions wsgi_headers_clean.
Print Assumptions vanished_file_prefix_legal.
Print Assumptions file_disposition_clean.
