(* C05 — what the code translated from baize/asgi/helper.py (tools/py2coq_c05.py) is made of.

   An ASGI message is a Python dict with str keys: an insertion-ordered association list [pydict] of [pyval]s.
     dict_lit [(k1, v1); ...]   the display {k1: v1, ...} (entries stored left to right, a repeated key keeps its first
                                position and takes the last value)
     dict_set k v d             d[k] = v
     dict_get k d               d.get(k): Some the value, None when there is no such key
   Only lookups are observed by the theorems ([same_dict]: dict equality in Python does not see the order either), so a
   reordering of the keys of a display is not a change.  tools/py2coq_c05.py compares dict_lit / dict_set / dict_get with
   the interpreter's dict on every run (pylib_check).

   A coroutine that awaits `send` is a term of [M A]: given the number of calls of send that succeed before the server's
   send raises ([None]: it never raises — the fault point send_fails_at of Resp/Model.v asgi_run), it gives the result or
   [SendFailed] (the exception propagates: nothing in the translated subset catches), the messages delivered, in order,
   and what is left of the budget.  `await send(m)` is [srv_send m].

   [event_of_msg] is the reading of a message that the harness's send() does (harness/resp.py trace_asgi):
   message.get("type"), message.get("status"), message.get("headers", []), message.get("body", b""),
   message.get("more_body", False) -> an [event] of C02/Model.v (the vocabulary of the traces of Resp/Model.v). *)
From Coq Require Import List NArith Bool Arith.
From Baize Require Import Lib.Wire Lib.Order C02.Model.
Import ListNotations.

Inductive pyval :=
| VStr (s : list N)
| VInt (n : nat)
| VBytes (b : bytes)
| VBool (b : bool)
| VHeaders (hs : list header).

Definition pydict := list (list N * pyval).

Fixpoint dict_get (k : list N) (d : pydict) : option pyval :=
  match d with
  | [] => None
  | (k', v) :: r => if bytes_eqb k' k then Some v else dict_get k r
  end.

Fixpoint dict_set (k : list N) (v : pyval) (d : pydict) : pydict :=
  match d with
  | [] => [(k, v)]
  | (k', v') :: r => if bytes_eqb k' k then (k', v) :: r else (k', v') :: dict_set k v r
  end.

Definition dict_lit (entries : list (list N * pyval)) : pydict :=
  fold_left (fun d kv => dict_set (fst kv) (snd kv) d) entries [].

Definition same_dict (a b : pydict) : Prop := forall k, dict_get k a = dict_get k b.

(* ---------- coroutines over a send channel ---------- *)

Inductive res (A : Type) :=
| Ok (a : A)
| SendFailed.
Arguments Ok {A} a.
Arguments SendFailed {A}.

Definition M (A : Type) := option nat -> res A * list pydict * option nat.

Definition ret {A} (a : A) : M A := fun s => (Ok a, [], s).

Definition bind {A B} (m : M A) (f : A -> M B) : M B :=
  fun s =>
    let '(r, t1, s1) := m s in
    match r with
    | Ok a => let '(r2, t2, s2) := f a s1 in (r2, t1 ++ t2, s2)
    | SendFailed => (SendFailed, t1, s1)
    end.

Notation "x <- m ;; f" := (bind m (fun x => f)) (at level 61, m at next level, right associativity).
Notation "m ;;; f" := (bind m (fun _ => f)) (at level 61, right associativity).

Definition srv_send (m : pydict) : M unit :=
  fun s =>
    match s with
    | Some 0 => (SendFailed, [], Some 0)
    | Some (S n) => (Ok tt, [m], Some n)
    | None => (Ok tt, [m], None)
    end.

Definition outcome_of {A} (x : res A * list pydict * option nat) : res A := fst (fst x).
Definition trace_of {A} (x : res A * list pydict * option nat) : list pydict := snd (fst x).
Definition left_of {A} (x : res A * list pydict * option nat) : option nat := snd x.

(* same result, same number of messages, each with the same entries, same budget left *)
Definition same_run {A} (x y : res A * list pydict * option nat) : Prop :=
  outcome_of x = outcome_of y /\ Forall2 same_dict (trace_of x) (trace_of y) /\ left_of x = left_of y.

(* ---------- the messages of the model ---------- *)

Definition start_msg (status : nat) (headers : option (list header)) : pydict :=
  [(lit "type", VStr (lit "http.response.start")); (lit "status", VInt status)] ++
  match headers with Some h => [(lit "headers", VHeaders h)] | None => [] end.

Definition body_msg (body : bytes) (more : bool) : pydict :=
  [(lit "type", VStr (lit "http.response.body")); (lit "body", VBytes body); (lit "more_body", VBool more)].

Definition headers_or_nil (h : option (list header)) : list header := match h with Some l => l | None => [] end.

(* what the harness's send() records; None = an event outside the vocabulary ("type-error" / "foreign") *)
Definition event_of_msg (m : pydict) : option event :=
  match dict_get (lit "type") m with
  | Some (VStr t) =>
      if bytes_eqb t (lit "http.response.start") then
        match dict_get (lit "status") m, dict_get (lit "headers") m with
        | Some (VInt st), Some (VHeaders hs) => Some (Start st hs)
        | Some (VInt st), None => Some (Start st [])
        | _, _ => None
        end
      else if bytes_eqb t (lit "http.response.body") then
        match dict_get (lit "body") m, dict_get (lit "more_body") m with
        | Some (VBytes b), Some (VBool mo) => Some (Body b mo)
        | None, Some (VBool mo) => Some (Body [] mo)
        | Some (VBytes b), None => Some (Body b false)
        | None, None => Some (Body [] false)
        | _, _ => None
        end
      else None
  | _ => None
  end.

Lemma event_of_msg_same : forall a b, same_dict a b -> event_of_msg a = event_of_msg b.
Proof. intros a b H. unfold event_of_msg. rewrite !(H _). reflexivity. Qed.

Lemma event_of_start_msg : forall st hs, event_of_msg (start_msg st hs) = Some (Start st (headers_or_nil hs)).
Proof. intros st hs. destruct hs as [h|]; reflexivity. Qed.

Lemma event_of_body_msg : forall b mo, event_of_msg (body_msg b mo) = Some (Body b mo).
Proof. intros b mo. reflexivity. Qed.

Lemma events_same : forall t1 t2, Forall2 same_dict t1 t2 -> map event_of_msg t1 = map event_of_msg t2.
Proof.
  intros t1 t2 H. induction H as [|a b l1 l2 Hab Hl IH]; [reflexivity|].
  cbn [map]. rewrite (event_of_msg_same a b Hab), IH. reflexivity.
Qed.

(* ---------- proving same_run for terms whose keys are literals ---------- *)

(* forall k, dict_get k d1 = dict_get k d2  for association lists with concrete keys: split on each test  key = k *)
Ltac same_dict_tac :=
  let k := fresh "k" in
  intro k; cbn [dict_get];
  repeat match goal with
  | |- context [bytes_eqb ?l k] =>
      let E := fresh "E" in
      destruct (bytes_eqb l k) eqn:E; [apply bytes_eqb_eq in E; subst k; vm_compute; reflexivity|]
  end;
  reflexivity.

Ltac same_trace_tac :=
  match goal with
  | |- Forall2 same_dict ?a ?b =>
      let a' := eval vm_compute in a in
      let b' := eval vm_compute in b in
      change (Forall2 same_dict a' b')
  end;
  repeat first [apply Forall2_nil | apply Forall2_cons; [unfold same_dict; same_dict_tac|]].

Ltac same_run_tac :=
  unfold same_run; split; [vm_compute; reflexivity|split; [same_trace_tac|vm_compute; reflexivity]].

Print Assumptions event_of_msg_same.
Print Assumptions event_of_start_msg.
Print Assumptions event_of_body_msg.
Print Assumptions events_same.
