(* C05 — the gateway protocol as recognisers over the traces of Resp/Model.v. *)
From Coq Require Import List NArith Bool Arith.
From Baize Require Import Lib.Wire Lib.Order C02.Model Resp.Model.
Import ListNotations.

(* ---------- ASGI: start (body more)* (body final) ---------- *)

Definition no_upper (s : bytes) : bool := forallb (fun c => negb (N.leb 65 c && N.leb c 90)) s.

Definition asgi_start_ok (e : event) : bool :=
  match e with
  | Start st hs => Nat.leb 100 st && Nat.leb st 999 && forallb (fun h => no_upper (fst h)) hs
  | _ => false
  end.

Definition is_more (e : event) : bool :=
  match e with Body _ true | ZeroCopy _ _ true => true | _ => false end.
Definition is_last (e : event) : bool :=
  match e with Body _ false | ZeroCopy _ _ false => true | _ => false end.

(* after the start event: only body events; an event with more_body = false must be
   the last one; [complete] additionally demands that there is such an event *)
Fixpoint asgi_bodies_ok (complete : bool) (evs : list event) : bool :=
  match evs with
  | [] => negb complete
  | e :: r => if is_last e then (match r with [] => true | _ => false end)
              else is_more e && asgi_bodies_ok complete r
  end.

Definition asgi_legal (complete : bool) (evs : list event) : bool :=
  match evs with
  | [] => negb complete
  | s :: r => asgi_start_ok s && asgi_bodies_ok complete r
  end.

(* ---------- WSGI ---------- *)

Definition hop_by_hop : list bytes :=
  [lit "connection"; lit "keep-alive"; lit "proxy-authenticate"; lit "proxy-authorization";
   lit "te"; lit "trailers"; lit "transfer-encoding"; lit "upgrade"].

Definition clean_text (s : bytes) : bool :=
  forallb (fun c => N.ltb c 256 && negb (N.ltb c 32) && negb (N.eqb c 127)) s.

Definition wsgi_header_ok (h : header) : bool :=
  clean_text (fst h) && clean_text (snd h) && negb (existsb (bytes_eqb (lower (fst h))) hop_by_hop).

Definition wsgi_start_ok (e : wevent) : bool :=
  match e with
  | WStart code hs => Nat.leb 100 code && Nat.leb code 999 && forallb wsgi_header_ok hs
  | _ => false
  end.

Definition is_yield (e : wevent) : bool := match e with WYield _ => true | _ => false end.

(* start_response exactly once, before the first body bytes; then only bytes *)
Definition wsgi_legal (evs : list wevent) : bool :=
  match evs with
  | [] => true       (* nothing happened yet: the server closed the iterable before asking *)
  | s :: r => wsgi_start_ok s && forallb is_yield r
  end.

(* the status line: three digits, a space, a non-empty reason *)
Definition status_line_ok (s : bytes) : bool :=
  match s with
  | a :: b :: c :: 32%N :: reason =>
      forallb is_ascii_digit [a; b; c] && negb (Nat.eqb (length reason) 0) && clean_text reason
  | _ => false
  end.

(* ---------- fault: the file vanishes ---------- *)

(* The file is removed after the response object was built (it carries the stat result)
   and before it is opened.  The handlers that read the file have sent the response
   start by then; open() raises FileNotFoundError and nothing else is emitted.  HEAD and
   the range-error answers never open the file. *)
Definition opens_file (r : recipe) : bool :=
  match r with
  | RFile fr => negb (fr_head fr) &&
                match decide fr with Whole | Single _ _ | Several _ => true | _ => false end
  | _ => false
  end.

Definition asgi_vanished (r : recipe) : list event := firstn 1 (fst (asgi_full r None)).
Definition wsgi_vanished (r : recipe) : list wevent := firstn 1 (fst (wsgi_full r)).

(* ---------- the file response's constructor and the name it is given ---------- *)

(* FileResponse.__init__ stores the generated headers through MutableHeaders.update, i.e. through
   __setitem__, which refuses CR, LF and NUL (baize/datastructures.py).  The Content-Disposition value
   carries the download name (or the file's base name): verbatim inside filename="..." when the name is
   Latin-1, and percent-encoded (urllib.parse.quote, an input here) in filename*=.  A name outside
   Latin-1 travels percent-encoded only (baize/responses.py generate_common_headers). *)
Definition setitem_refuses (v : bytes) : bool :=
  existsb (fun c => N.eqb c 10 || N.eqb c 13 || N.eqb c 0) v.

Definition is_latin1 (s : bytes) : bool := forallb (fun c => N.ltb c 256) s.

Definition disposition (name quoted : bytes) : bytes :=
  if is_latin1 name
  then lit "attachment; filename=""" ++ name ++ lit """; filename*=utf-8''" ++ quoted
  else lit "attachment; filename*=utf-8''" ++ quoted.

(* true: the constructor raises ValueError; false: the response is built with this header value *)
Definition file_ctor_refuses (name quoted : bytes) : bool := setitem_refuses (disposition name quoted).
