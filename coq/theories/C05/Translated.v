(* C05 — source-level tie for the coroutines of baize/asgi/helper.py that build the ASGI response messages
   ("the single place that builds the start message").

   tools/py2coq_c05.py regenerates, function by function, Gallina definitions G.py_send_http_start and
   G.py_send_http_body from the CURRENT Python source on every check run (harness/c05.py: extra_obligations).  They are
   terms of the monad of C05/PyLib.v (M A = budget of sends that succeed -> (result or SendFailed) * messages delivered *
   budget left), statement by statement in the order of the Python: `await send(m)` is srv_send m, a dict display is
   dict_lit, d["k"] = v is dict_set, `if headers is not None` is a match on the option.  For each function the part of
   this file that is about it is re-checked by coqc against the fresh definitions: the text before the first METHOD-BEGIN
   marker (the two lines between the GENERATED markers re-pointed at the fresh file) and its own segment.
   Generated_ref.v is the committed copy of what the translator emitted when this file was written.

   The theorems, for every status, header list (given or None), body, flag and every send budget s (None: send never
   raises; Some n: the n+1-th call of send raises, the fault point send_fails_at of Resp/Model.v asgi_run):
     send_http_start_translated   G.py_send_http_start st hs s   runs as   srv_send (start_msg st hs) s
     send_http_body_translated    G.py_send_http_body b more s   runs as   srv_send (body_msg b more) s
   "runs as" = same_run: same outcome (returned / the exception of send propagates), the same number of messages, each
   with the same entries (dict_get on every key: Python's dict equality), the same budget left.  start_msg / body_msg
   (PyLib.v) are the dicts that the harness's send() reads as the model's events Start st (hs or []) / Body b more
   (event_of_start_msg, event_of_body_msg), so
     send_http_start_event        the events of G.py_send_http_start st hs None are [Start st (hs or [])]
     send_http_body_event         the events of G.py_send_http_body b more None are [Body b more]
   — the constructors of the traces of Resp/Model.v (asgi_full).
   And directly from the translated definitions, not through the model:
     start_message_shape          exactly one message; its "type" is "http.response.start", its "status" the status given,
                                  and it has a "headers" key iff headers were given (then: those headers)
     body_message_shape           exactly one message; "type" "http.response.body", "body" the bytes given, "more_body" the flag

   The proofs do not follow the shape of the generated term: both sides are evaluated on every case of the option and of
   the budget, and the two dicts are compared key by key, so a rewrite of the Python that keeps the behaviour (another
   order of the keys, the headers put into the display in two branches, ...) keeps the proof. *)
From Coq Require Import List NArith Bool Arith.
From Baize Require Import Lib.Wire Lib.Order C02.Model C05.PyLib.
(* GENERATED-BEGIN *)
From Baize Require C05.Generated_ref.
Module G := Baize.C05.Generated_ref.
(* GENERATED-END *)
Import ListNotations.

(* METHOD-BEGIN py_send_http_start *)
Theorem send_http_start_translated : forall (st : nat) (hs : option (list header)) (s : option nat),
  same_run (G.py_send_http_start st hs s) (srv_send (start_msg st hs) s).
Proof.
  intros st hs s. destruct hs as [h|]; destruct s as [[|n]|]; same_run_tac.
Qed.

Theorem send_http_start_event : forall (st : nat) (hs : option (list header)),
  outcome_of (G.py_send_http_start st hs None) = Ok tt /\
  map event_of_msg (trace_of (G.py_send_http_start st hs None)) = [Some (Start st (headers_or_nil hs))].
Proof.
  intros st hs. destruct (send_http_start_translated st hs None) as [Ho [Ht _]]. split.
  - rewrite Ho. reflexivity.
  - rewrite (events_same _ _ Ht). cbn [srv_send trace_of fst snd map]. rewrite event_of_start_msg. reflexivity.
Qed.

Theorem start_message_shape : forall (st : nat) (hs : option (list header)),
  exists m, trace_of (G.py_send_http_start st hs None) = [m] /\
            dict_get (lit "type") m = Some (VStr (lit "http.response.start")) /\
            dict_get (lit "status") m = Some (VInt st) /\
            dict_get (lit "headers") m = match hs with Some h => Some (VHeaders h) | None => None end.
Proof.
  intros st hs. destruct hs as [h|]; (eexists; split; [vm_compute; reflexivity|]); repeat split; vm_compute; reflexivity.
Qed.

Print Assumptions send_http_start_translated.
Print Assumptions send_http_start_event.
Print Assumptions start_message_shape.
(* METHOD-END py_send_http_start *)

(* METHOD-BEGIN py_send_http_body *)
Theorem send_http_body_translated : forall (b : bytes) (more : bool) (s : option nat),
  same_run (G.py_send_http_body b more s) (srv_send (body_msg b more) s).
Proof.
  intros b more s. destruct s as [[|n]|]; same_run_tac.
Qed.

Theorem send_http_body_event : forall (b : bytes) (more : bool),
  outcome_of (G.py_send_http_body b more None) = Ok tt /\
  map event_of_msg (trace_of (G.py_send_http_body b more None)) = [Some (Body b more)].
Proof.
  intros b more. destruct (send_http_body_translated b more None) as [Ho [Ht _]]. split.
  - rewrite Ho. reflexivity.
  - rewrite (events_same _ _ Ht). cbn [srv_send trace_of fst snd map]. rewrite event_of_body_msg. reflexivity.
Qed.

Theorem body_message_shape : forall (b : bytes) (more : bool),
  exists m, trace_of (G.py_send_http_body b more None) = [m] /\
            dict_get (lit "type") m = Some (VStr (lit "http.response.body")) /\
            dict_get (lit "body") m = Some (VBytes b) /\
            dict_get (lit "more_body") m = Some (VBool more).
Proof.
  intros b more. (eexists; split; [vm_compute; reflexivity|]); repeat split; vm_compute; reflexivity.
Qed.

Print Assumptions send_http_body_translated.
Print Assumptions send_http_body_event.
Print Assumptions body_message_shape.
(* METHOD-END py_send_http_body *)
