(* C05 — source-level tie for the coroutines of baize/asgi/helper.py that build the ASGI response messages
   ("the single place that builds the start message"), for BaseResponse.list_headers, and for the __call__ of the plain ASGI
   response classes Response and SmallResponse.

   tools/py2coq_c05.py regenerates, function by function, Gallina definitions G.py_send_http_start,
   G.py_send_http_body (and G.py_list_headers, G.py_Response_call, G.py_SmallResponse_call, below) from the CURRENT Python source on every check run (harness/c05.py: extra_obligations).  They are
   terms of the monad of C05/PyLib.v (M A = budget of sends that succeed -> (result or SendFailed) * messages delivered *
   budget left), statement by statement in the order of the Python: `await send(m)` is srv_send m, a dict display is
   dict_lit, d["k"] = v is dict_set, `if headers is not None` is a match on the option.  For each function the part of
   this file that is about it is re-checked by coqc against the fresh definitions: the text before the first METHOD-BEGIN
   marker (the two lines between the GENERATED markers re-pointed at the fresh file), the segments of the functions it
   calls, and its own segment.
   Generated_ref.v is the committed copy of what the translator emitted when this file was written.

   The theorems, for every status, header list (given or None), body, flag and every send budget s (None: send never
   raises; Some n: the n+1-th call of send raises, the fault point send_fails_at of Resp/Model.v asgi_run):
     send_http_start_translated   G.py_send_http_start st hs s   runs as   srv_send (start_msg st hs) s
     send_http_body_translated    G.py_send_http_body b more s   runs as   srv_send (body_msg b more) s
   "runs as" = same_run: same outcome (returned / the exception of send propagates), the same number of messages, each
   with the same entries (dict_get on every key: Python's dict equality), the same budget left.  start_msg / body_msg
   (PyLib.v) are the dicts that the harness's send() reads as the model's events Start st (hs or []) / Body b more
   (event_of_start_msg, event_of_body_msg), so
     send_http_start_event        the events of G.py_send_http_start st hs None are [Start st (hs or [])]
     send_http_body_event         the events of G.py_send_http_body b more None are [Body b more]
   — the constructors of the traces of Resp/Model.v (asgi_full).
   And directly from the translated definitions, not through the model:
     start_message_shape          exactly one message; its "type" is "http.response.start", its "status" the status given,
                                  and it has a "headers" key iff headers were given (then: those headers)
     body_message_shape           exactly one message; "type" "http.response.body", "body" the bytes given, "more_body" the flag

   Response.__call__ of baize/asgi/responses.py (the plain class: recipe RPlain of Resp/Model.v) is translated the same
   way into G.py_Response_call; the two helpers it awaits are the translated ones above.  What it uses of the object are
   arguments of the generated function: self.status_code, self.headers (the store), self.cookies, the method
   MutableHeaders.__setitem__ (headers_setitem), which the theorem instantiates with the model's own hset' (Resp/Model.v;
   validated by the case-based tie), and the codec and cookie renderings that the translated list_headers takes:
     response_call_translated     for every base b (status, headers, cookie lines) and every send fault point sf, the
                                  events the harness's send() reads off G.py_Response_call hset' id id id (b_status b)
                                  (hinit (b_headers b)) (b_cookies b) sf, and its outcome, are  asgi_run (RPlain b) None sf:
                                  start, then one body event with more_body false; a send that raises ends it there
   (hinit (b_headers b) is what the constructor stored: BaseResponse.__init__ is not translated.)

   SmallResponse.__call__ of baize/asgi/responses.py (PlainText / HTML / JSON responses: recipe RSmall) is
   G.py_SmallResponse_call.  Further arguments: the result of the abstract coroutine render (the body; it gets neither send
   nor receive), self.media_type, self.charset, MutableHeaders.__contains__ (headers_contains := the model's hmem) and str
   of an int (str_of_int := decn of Lib/Wire.v); s.startswith("text/") and the truth value of a str / bytes are
   Lib/PyStr.v's starts_with / is_empty.
     small_call_translated        for every base b, body, media type, charset and send fault point sf: the events and the
                                  outcome of G.py_SmallResponse_call hset' hmem decn id id id body (b_status b) media charset
                                  (hinit (b_headers b)) (b_cookies b) sf  are  asgi_run (RSmall b body media charset) None sf
                                  — content-length only for a non-empty body and only when absent, content-type (with
                                  the charset appended for a text type) only for a non-empty media type and only when absent, then
                                  start, then the body with more_body false
   The proof splits on the emptiness of body and media and on each test  hmem / starts_with  that is left, then evaluates.

   BaseResponse.list_headers of baize/responses.py (a pure function of as_bytes, the items of self.headers and
   self.cookies; self.list_headers(as_bytes=True) in Response.__call__ is this translation) is G.py_list_headers.  Its
   arguments: the Latin-1 codec str.encode("latin-1") (enc), bytes(cookie) (cb) and str(cookie) (cs) over an arbitrary type
   of cookies — the theorem quantifies over all four:
     list_headers_translated      as_bytes=True:  [(enc k, enc v) for the items] ++ [("set-cookie", cb c) for the cookies]
                                  as_bytes=False: the items ++ [("set-cookie", cs c) for the cookies]
     list_headers_model           with the model's representation (a Latin-1 text and its encoding are the same list of
                                  numbers: enc = identity; a cookie is its rendered line: cb = cs = identity) both are
                                  list_headers h cookies of Resp/Model.v
   (enc is total here: the UnicodeEncodeError of a header outside Latin-1 is outside the model's domain, is_latin1.)

   Response.__call__ of baize/wsgi/responses.py: G.py_wsgi_Response_call, wsgi_response_call_translated (described at its
   segment, the last one).

   The proofs do not follow the shape of the generated term: both sides are evaluated on every case of the option and of
   the budget, and the two dicts are compared key by key, so a rewrite of the Python that keeps the behaviour (another
   order of the keys, the headers put into the display in two branches, ...) keeps the proof. *)
From Coq Require Import List NArith Bool Arith.
From Baize Require Import Lib.Wire Lib.Order C02.Model Resp.Model C05.PyLib.
(* GENERATED-BEGIN *)
From Baize Require C05.Generated_ref.
Module G := Baize.C05.Generated_ref.
(* GENERATED-END *)
Import ListNotations.

(* the outcome of a coroutine in the vocabulary of Resp/Model.v *)
Definition outcome_as_model (r : res unit) : outcome := match r with Ok _ => Returned | SendFailed => SendRaised end.

(* METHOD-BEGIN py_send_http_start *)
Theorem send_http_start_translated : forall (st : nat) (hs : option (list header)) (s : option nat),
  same_run (G.py_send_http_start st hs s) (srv_send (start_msg st hs) s).
Proof.
  intros st hs s. destruct hs as [h|]; destruct s as [[|n]|]; same_run_tac.
Qed.

Theorem send_http_start_event : forall (st : nat) (hs : option (list header)),
  outcome_of (G.py_send_http_start st hs None) = Ok tt /\
  map event_of_msg (trace_of (G.py_send_http_start st hs None)) = [Some (Start st (headers_or_nil hs))].
Proof.
  intros st hs. destruct (send_http_start_translated st hs None) as [Ho [Ht _]]. split.
  - rewrite Ho. reflexivity.
  - rewrite (events_same _ _ Ht). cbn [srv_send trace_of fst snd map]. rewrite event_of_start_msg. reflexivity.
Qed.

Theorem start_message_shape : forall (st : nat) (hs : option (list header)),
  exists m, trace_of (G.py_send_http_start st hs None) = [m] /\
            dict_get (lit "type") m = Some (VStr (lit "http.response.start")) /\
            dict_get (lit "status") m = Some (VInt st) /\
            dict_get (lit "headers") m = match hs with Some h => Some (VHeaders h) | None => None end.
Proof.
  intros st hs. destruct hs as [h|]; (eexists; split; [vm_compute; reflexivity|]); repeat split; vm_compute; reflexivity.
Qed.

Print Assumptions send_http_start_translated.
Print Assumptions send_http_start_event.
Print Assumptions start_message_shape.
(* METHOD-END py_send_http_start *)

(* METHOD-BEGIN py_send_http_body *)
Theorem send_http_body_translated : forall (b : bytes) (more : bool) (s : option nat),
  same_run (G.py_send_http_body b more s) (srv_send (body_msg b more) s).
Proof.
  intros b more s. destruct s as [[|n]|]; same_run_tac.
Qed.

Theorem send_http_body_event : forall (b : bytes) (more : bool),
  outcome_of (G.py_send_http_body b more None) = Ok tt /\
  map event_of_msg (trace_of (G.py_send_http_body b more None)) = [Some (Body b more)].
Proof.
  intros b more. destruct (send_http_body_translated b more None) as [Ho [Ht _]]. split.
  - rewrite Ho. reflexivity.
  - rewrite (events_same _ _ Ht). cbn [srv_send trace_of fst snd map]. rewrite event_of_body_msg. reflexivity.
Qed.

Theorem body_message_shape : forall (b : bytes) (more : bool),
  exists m, trace_of (G.py_send_http_body b more None) = [m] /\
            dict_get (lit "type") m = Some (VStr (lit "http.response.body")) /\
            dict_get (lit "body") m = Some (VBytes b) /\
            dict_get (lit "more_body") m = Some (VBool more).
Proof.
  intros b more. (eexists; split; [vm_compute; reflexivity|]); repeat split; vm_compute; reflexivity.
Qed.

Print Assumptions send_http_body_translated.
Print Assumptions send_http_body_event.
Print Assumptions body_message_shape.
(* METHOD-END py_send_http_body *)

(* METHOD-BEGIN py_list_headers *)
Lemma map_pair_id : forall (A B : Type) (l : list (A * B)), map (fun kv => (fst kv, snd kv)) l = l.
Proof. intros A B l. induction l as [|[a b] l IH]; cbn [map fst snd]; [reflexivity|]. rewrite IH. reflexivity. Qed.

(* two lists built from map / ++ over the same two lists, element by element *)
Ltac by_elements h cookies :=
  let k := fresh "k" in let v := fresh "v" in let IH := fresh "IH" in let c := fresh "c" in let IHc := fresh "IHc" in
  induction h as [|[k v] h IH]; cbn [map app fst snd];
  [ induction cookies as [|c cookies IHc]; cbn [map app fst snd]; [reflexivity | f_equal; exact IHc]
  | f_equal; exact IH ].

Theorem list_headers_translated : forall (Cookie : Type) (enc : list N -> bytes) (cb : Cookie -> bytes) (cs : Cookie -> list N)
    (h : list (list N * list N)) (cookies : list Cookie),
  G.py_list_headers enc cb cs true h cookies
    = map (fun kv => (enc (fst kv), enc (snd kv))) h ++ map (fun c => (lit "set-cookie", cb c)) cookies /\
  G.py_list_headers enc cb cs false h cookies
    = h ++ map (fun c => (lit "set-cookie", cs c)) cookies.
Proof.
  intros Cookie enc cb cs h cookies. unfold G.py_list_headers. cbn [negb]. split.
  - by_elements h cookies.
  - by_elements h cookies.
Qed.

(* in the model a Latin-1 text and its encoding are the same list of numbers, and a cookie is its rendered line *)
Theorem list_headers_model : forall (ab : bool) (h : hstore) (cookies : list bytes),
  G.py_list_headers (fun s => s) (fun c => c) (fun c => c) ab h cookies = list_headers h cookies.
Proof.
  intros ab h cookies.
  destruct (list_headers_translated bytes (fun s => s) (fun c => c) (fun c => c) h cookies) as [Ht Hf].
  destruct ab; [rewrite Ht | rewrite Hf]; unfold list_headers; [rewrite map_pair_id|]; reflexivity.
Qed.

Print Assumptions list_headers_translated.
Print Assumptions list_headers_model.
(* METHOD-END py_list_headers *)

(* METHOD-BEGIN py_Response_call *)
Theorem response_call_translated : forall (b : base) (sf : option nat),
  let x := G.py_Response_call hset' (fun s => s) (fun c => c) (fun c => c) (b_status b) (hinit (b_headers b)) (b_cookies b) sf in
  map event_of_msg (trace_of x) = map Some (fst (asgi_run (RPlain b) None sf)) /\
  outcome_as_model (outcome_of x) = snd (asgi_run (RPlain b) None sf).
Proof.
  intros b sf. unfold G.py_Response_call. cbv zeta. rewrite ?list_headers_model.
  destruct sf as [[|[|n]]|]; split; vm_compute; reflexivity.
Qed.

Print Assumptions response_call_translated.
(* METHOD-END py_Response_call *)

(* METHOD-BEGIN py_SmallResponse_call *)
Lemma pystr_starts_with : forall p s, Lib.PyStr.starts_with p s = starts_with p s.
Proof.
  induction p as [|x p IH]; intros s; destruct s as [|y s]; cbn [Lib.PyStr.starts_with starts_with];
  try reflexivity; rewrite IH; reflexivity.
Qed.

Ltac control := cbv beta iota zeta delta [negb andb orb Lib.PyStr.is_empty].

Theorem small_call_translated : forall (b : base) (body media charset : bytes) (sf : option nat),
  let x := G.py_SmallResponse_call hset' hmem decn (fun s => s) (fun c => c) (fun c => c)
             body (b_status b) media charset (hinit (b_headers b)) (b_cookies b) sf in
  map event_of_msg (trace_of x) = map Some (fst (asgi_run (RSmall b body media charset) None sf)) /\
  outcome_as_model (outcome_of x) = snd (asgi_run (RSmall b body media charset) None sf).
Proof.
  intros b body media charset sf.
  unfold G.py_SmallResponse_call, asgi_run, asgi_full, start_headers, small_headers.
  generalize (hinit (b_headers b)). intro h0.
  destruct body as [|c0 body]; destruct media as [|m0 media]; control; rewrite ?pystr_starts_with;
  destruct (hmem (lit "content-length") h0) eqn:E1; control;
  repeat match goal with
  | |- context [hmem (lit "content-type") ?h] => let E := fresh "E" in destruct (hmem (lit "content-type") h) eqn:E; control
  end;
  repeat match goal with
  | |- context [starts_with ?p ?s] => let E := fresh "E" in destruct (starts_with p s) eqn:E; control
  end;
  rewrite <- ?app_assoc; rewrite ?list_headers_model;
  destruct sf as [[|[|n]]|]; split; vm_compute; reflexivity.
Qed.

Print Assumptions small_call_translated.
(* METHOD-END py_SmallResponse_call *)

(* METHOD-BEGIN py_wsgi_Response_call *)
(* Response.__call__ of baize/wsgi/responses.py (a plain function: recipe RPlain on the WSGI side), translated into a pure
   function that gives (the calls of start_response in order, each (status line, header list); the items of the iterable
   returned).  StatusStringMapping is an argument [ss] (the theorem quantifies over it), MutableHeaders.__setitem__ is the
   model's hset', list_headers(as_bytes=False) the translated G.py_list_headers.
     wsgi_response_call_translated   start_response is called exactly once, with ss (status) and the model's header list,
                                     and the iterable is one empty chunk: read as events (a call = WStart of the status,
                                     an item = WYield) this is  wsgi_full (RPlain b)  of Resp/Model.v *)
Definition wsgi_events (code : nat) (x : list (list N * list header) * list bytes) : list wevent :=
  map (fun c => WStart code (snd c)) (fst x) ++ map WYield (snd x).

Theorem wsgi_response_call_translated : forall (b : base) (ss : nat -> list N),
  let x := G.py_wsgi_Response_call hset' ss (fun s => s) (fun c => c) (fun c => c) (b_status b) (hinit (b_headers b)) (b_cookies b) in
  map fst (fst x) = [ss (b_status b)] /\
  wsgi_events (b_status b) x = fst (wsgi_full (RPlain b)) /\
  snd (wsgi_full (RPlain b)) = Returned.
Proof.
  intros b ss. unfold G.py_wsgi_Response_call. cbv zeta. rewrite ?list_headers_model.
  repeat split; vm_compute; reflexivity.
Qed.

Print Assumptions wsgi_response_call_translated.
(* METHOD-END py_wsgi_Response_call *)
