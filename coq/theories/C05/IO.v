(* C05 — wire interface: a recipe with fault points in, both traces out. *)
From Coq Require Import List NArith ZArith Bool.
From Baize Require Import Lib.Wire Lib.Order C02.Model Resp.Model Resp.IO C05.Model.
Import ListNotations.

Definition phrase_of (phrase : sx) (e : wevent) : option (list N) :=
  match e with
  | WStart code _ =>
      fold_right (fun x acc => match x with
                               | Lst [Num c; Str p] => if Nat.eqb (Z.to_nat c) code then Some p else acc
                               | _ => acc end) None (sx_l phrase)
  | _ => None
  end.

Definition run_case (c : list sx) : list sx :=
  match c with
  | [Num _; Str name; Str quoted] =>
      (* the constructor of a file response given this (download or file) name *)
      [tag (if file_ctor_refuses name quoted then lit "refused" else lit "built");
       of_bool (negb (setitem_refuses (disposition name quoted)))]
  | [rc; phrase; Str fault] =>
      (* the file vanishes between stat and open *)
      match rd_recipe rc with
      | Some r =>
          if opens_file r then
            [Lst (map show_event (asgi_vanished r)); tag (lit "exc-FileNotFoundError");
             Lst (map (fun e => show_wevent (phrase_of phrase e) e) (wsgi_vanished r)); tag (lit "exc-FileNotFoundError")]
          else
            let '(aevs, ao) := asgi_run r None None in
            let '(wevs, wo) := wsgi_run r None in
            [Lst (map show_event aevs); show_outcome ao;
             Lst (map (fun e => show_wevent (phrase_of phrase e) e) wevs); show_outcome wo]
      | None => [tag (lit "badrecipe")]
      end
  | [rc; phrase; closed_after; send_fails_at; wsgi_close_after] =>
      match rd_recipe rc with
      | Some r =>
          let '(aevs, ao) := asgi_run r (rd_optnat closed_after) (rd_optnat send_fails_at) in
          let '(wevs, wo) := wsgi_run r (rd_optnat wsgi_close_after) in
          (* the phrases of http.HTTPStatus for the codes that can occur, from the harness *)
          let ph := fun (e : wevent) =>
            match e with
            | WStart code _ =>
                fold_right (fun x acc => match x with
                                         | Lst [Num c; Str p] => if Nat.eqb (Z.to_nat c) code then Some p else acc
                                         | _ => acc end) None (sx_l phrase)
            | _ => None
            end in
          [Lst (map show_event aevs); show_outcome ao;
           Lst (map (fun e => show_wevent (ph e) e) wevs); show_outcome wo]
      | None => [tag (lit "badrecipe")]
      end
  | _ => [tag (lit "badcase")]
  end.

Definition run_line (l : list N) : list N := print_line (run_case (parse_line l)).
