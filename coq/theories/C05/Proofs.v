(* C05 — proofs: the traces of every response class are in the legal languages,
   and stay legal prefixes under every fault. *)
From Coq Require Import List NArith Bool Arith Lia.
From Baize Require Import Lib.Wire Lib.Order C02.Model C02.Proofs Resp.Model C05.Model.
Import ListNotations.

(* ---------- prefix closure of the ASGI language ---------- *)

Lemma bodies_ok_weaken evs : asgi_bodies_ok true evs = true -> asgi_bodies_ok false evs = true.
Proof.
  induction evs as [|e r IH]; cbn [asgi_bodies_ok]; [discriminate|].
  destruct (is_last e); [auto|]. intros H. apply andb_true_iff in H as [A B].
  rewrite A. cbn [andb]. apply IH. exact B.
Qed.

Lemma bodies_ok_firstn evs : forall n,
  asgi_bodies_ok false evs = true -> asgi_bodies_ok false (firstn n evs) = true.
Proof.
  induction evs as [|e r IH]; intros n H; [rewrite firstn_nil; reflexivity|].
  destruct n as [|n]; [reflexivity|]. cbn [firstn asgi_bodies_ok] in *.
  destruct (is_last e).
  - destruct r; [|discriminate]. rewrite firstn_nil. reflexivity.
  - apply andb_true_iff in H as [A B]. rewrite A. cbn [andb]. apply IH. exact B.
Qed.

Lemma asgi_legal_firstn c evs n :
  asgi_legal c evs = true -> asgi_legal false (firstn n evs) = true.
Proof.
  destruct evs as [|s r]; [rewrite firstn_nil; reflexivity|].
  destruct n as [|n]; [reflexivity|]. cbn [firstn asgi_legal].
  intros H. apply andb_true_iff in H as [A B]. rewrite A. cbn [andb].
  apply bodies_ok_firstn. destruct c; [apply bodies_ok_weaken|]; exact B.
Qed.

(* ---------- the streaming loop ---------- *)

Lemma stream_loop_ok prod : forall sent ca,
  match snd (asgi_stream_loop prod sent ca) with
  | Returned => asgi_bodies_ok true (fst (asgi_stream_loop prod sent ca)) = true
  | ProducerRaised => asgi_bodies_ok false (fst (asgi_stream_loop prod sent ca)) = true /\
                      forallb is_more (fst (asgi_stream_loop prod sent ca)) = true
  | SendRaised => False
  end.
Proof.
  induction prod as [|a rest IH]; intros sent ca; cbn [asgi_stream_loop].
  - destruct (match ca with Some m => m <=? sent | None => false end); reflexivity.
  - destruct (match ca with Some m => m <=? sent | None => false end); [reflexivity|].
    destruct a as [c|].
    + specialize (IH (S sent) ca). destruct (asgi_stream_loop rest (S sent) ca) as [evs o].
      cbn [fst snd] in *. destruct o; cbn [asgi_bodies_ok is_last is_more andb forallb]; auto.
    + cbn [fst snd]. split; reflexivity.
Qed.

(* ---------- start events ---------- *)

Lemma lower_no_upper s : no_upper (lower s) = true.
Proof.
  unfold no_upper, lower. rewrite forallb_forall. intros c Hc. apply in_map_iff in Hc as (x & <- & _).
  unfold lower_c. destruct (N.leb 65 x && N.leb x 90)%bool eqn:E.
  - apply andb_true_iff in E as [A B]. apply N.leb_le in A, B.
    apply negb_true_iff, andb_false_iff. right. apply N.leb_gt. lia.
  - rewrite E. reflexivity.
Qed.

Definition keys_lower (h : hstore) : Prop := Forall (fun kv => no_upper (fst kv) = true) h.

Lemma hput_keys_lower k v h : no_upper k = true -> keys_lower h -> keys_lower (hput k v h).
Proof.
  intros Hk. induction h as [|[k' v'] r IH]; intros H; cbn [hput].
  - constructor; [exact Hk|constructor].
  - inversion H as [|? ? Hh Hr]; subst. destruct (bytes_eqb k' k); constructor.
    + exact Hk.
    + exact Hr.
    + exact Hh.
    + apply IH. exact Hr.
Qed.

Lemma hinit_keys_lower items : keys_lower (hinit items).
Proof.
  unfold hinit.
  assert (G : forall st, keys_lower st ->
              keys_lower (fold_left (fun st kv =>
                 let k := lower (fst kv) in
                 match hget k st with
                 | Some old => hput k (old ++ lit ", " ++ snd kv) st
                 | None => hput k (snd kv) st
                 end) items st)).
  { induction items as [|kv r IH]; intros st H; cbn [fold_left]; [exact H|].
    apply IH. change (keys_lower (match hget (lower (fst kv)) st with
                                  | Some old => hput (lower (fst kv)) (old ++ lit ", " ++ snd kv) st
                                  | None => hput (lower (fst kv)) (snd kv) st end)).
    destruct (hget (lower (fst kv)) st); apply hput_keys_lower; auto using lower_no_upper. }
  apply G. constructor.
Qed.

Lemma hset'_keys_lower k v h : keys_lower h -> keys_lower (hset' k v h).
Proof. intros H. apply hput_keys_lower; [apply lower_no_upper|exact H]. Qed.

Lemma list_headers_lower h cookies :
  keys_lower h -> forallb (fun kv => no_upper (fst kv)) (list_headers h cookies) = true.
Proof.
  intros H. unfold list_headers. rewrite forallb_app. apply andb_true_iff. split.
  - rewrite forallb_forall. unfold keys_lower in H. rewrite Forall_forall in H. exact H.
  - rewrite forallb_forall. intros x Hx. apply in_map_iff in Hx as (c & <- & _). reflexivity.
Qed.

Lemma small_headers_lower b body media charset : keys_lower (small_headers b body media charset).
Proof.
  unfold small_headers.
  set (h0 := hinit (b_headers b)). assert (H0 : keys_lower h0) by apply hinit_keys_lower.
  set (h1 := match body with [] => h0 | _ => _ end).
  assert (H1 : keys_lower h1).
  { subst h1. destruct body; [exact H0|]. destruct (hmem _ h0); [exact H0|apply hset'_keys_lower; exact H0]. }
  destruct media; [exact H1|]. destruct (hmem _ h1); [exact H1|apply hset'_keys_lower; exact H1].
Qed.

Lemma sse_headers_lower asgi b charset : keys_lower (sse_headers asgi b charset).
Proof. unfold sse_headers. apply hinit_keys_lower. Qed.

Lemma start_headers_lower r :
  (forall fr, r <> RFile fr) ->
  forallb (fun kv => no_upper (fst kv)) (start_headers true r) = true.
Proof.
  intros Hnf. destruct r as [b|b body media charset|b loc|b ct prod|b ch prod|fr]; cbn [start_headers].
  - apply list_headers_lower, hset'_keys_lower, hinit_keys_lower.
  - apply list_headers_lower, small_headers_lower.
  - apply list_headers_lower, hset'_keys_lower, hset'_keys_lower, hinit_keys_lower.
  - apply list_headers_lower, hset'_keys_lower, hinit_keys_lower.
  - apply list_headers_lower, sse_headers_lower.
  - exfalso. apply (Hnf fr). reflexivity.
Qed.

(* ---------- file responses ---------- *)

Lemma shape_ok_bodies evs : shape_ok false evs -> asgi_bodies_ok true evs = true.
Proof.
  induction evs as [|e r IH]; [intros []|].
  destruct r as [|e' r'].
  - cbn [shape_ok asgi_bodies_ok]. destruct e as [| d m | o c m |]; cbn [more_flag is_last]; intros H; try discriminate;
      injection H as ->; reflexivity.
  - intros [A B]. cbn [asgi_bodies_ok].
    destruct e as [| d m | o c m |]; cbn [more_flag] in A; try discriminate; injection A as ->;
      cbn [is_last is_more andb]; apply IH; exact B.
Qed.

Lemma file_start_ok zc fr :
  1 <= fr_chunk fr ->
  exists st hs, asgi_file zc fr = Start st hs :: asgi_rest zc fr /\
                asgi_start_ok (Start st hs) = true /\ asgi_bodies_ok true (asgi_rest zc fr) = true.
Proof.
  intros Hcs. destruct (asgi_body_exact_proof zc fr Hcs) as (st & hs & Heq & Hst & Hhs & _ & Hshape).
  exists st, hs. split; [exact Heq|]. split; [|apply shape_ok_bodies; exact Hshape].
  subst st hs. unfold wsgi_file. destruct (decide fr); cbn [w_status w_headers asgi_start_ok];
    unfold common_headers; destruct (fr_disp fr); reflexivity.
Qed.

(* ---------- ASGI: the main statements ---------- *)

Definition status_ok (r : recipe) : Prop :=
  match r with
  | RFile fr => 1 <= fr_chunk fr
  | _ => 100 <= b_status (base_of r) <= 999
  end.

Lemma start_ok_intro st hs :
  100 <= st <= 999 -> forallb (fun h => no_upper (fst h)) hs = true -> asgi_start_ok (Start st hs) = true.
Proof.
  intros [A B] H. unfold asgi_start_ok. apply andb_true_iff. split; [apply andb_true_iff; split|exact H];
    apply Nat.leb_le; assumption.
Qed.

Lemma asgi_full_legal r ca :
  status_ok r ->
  match snd (asgi_full r ca) with
  | Returned => asgi_legal true (fst (asgi_full r ca)) = true
  | ProducerRaised => asgi_legal false (fst (asgi_full r ca)) = true /\
                      forallb is_more (tl (fst (asgi_full r ca))) = true
  | SendRaised => False
  end.
Proof.
  intros Hs.
  destruct r as [b|b body media charset|b loc|b ct prod|b ch prod|fr]; cbn [asgi_full fst snd status_ok base_of] in *.
  - cbn [asgi_legal asgi_bodies_ok is_last]. rewrite start_ok_intro; [reflexivity|exact Hs|].
    apply start_headers_lower. intros fr; discriminate.
  - cbn [asgi_legal asgi_bodies_ok is_last]. rewrite start_ok_intro; [reflexivity|exact Hs|].
    apply start_headers_lower. intros fr; discriminate.
  - cbn [asgi_legal asgi_bodies_ok is_last]. rewrite start_ok_intro; [reflexivity|exact Hs|].
    apply start_headers_lower. intros fr; discriminate.
  - pose proof (stream_loop_ok prod 0 ca) as H. destruct (asgi_stream_loop prod 0 ca) as [evs o].
    cbn [fst snd] in *.
    assert (Hso : asgi_start_ok (Start (b_status b) (start_headers true (RStream b ct prod))) = true).
    { apply start_ok_intro; [exact Hs|]. apply start_headers_lower. intros fr; discriminate. }
    destruct o; cbn [fst snd tl asgi_legal]; [rewrite Hso; exact H|rewrite Hso; exact H|exact H].
  - pose proof (stream_loop_ok prod 0 ca) as H. destruct (asgi_stream_loop prod 0 ca) as [evs o].
    cbn [fst snd] in *.
    assert (Hso : asgi_start_ok (Start (b_status b) (start_headers true (RSSE b ch prod))) = true).
    { apply start_ok_intro; [exact Hs|]. apply start_headers_lower. intros fr; discriminate. }
    destruct o; cbn [fst snd tl asgi_legal]; [rewrite Hso; exact H|rewrite Hso; exact H|exact H].
  - destruct (file_start_ok false fr Hs) as (st & hs & Heq & A & B). rewrite Heq.
    cbn [asgi_legal]. rewrite A, B. reflexivity.
Qed.

Theorem asgi_trace_legal_proof r ca :
  status_ok r ->
  match snd (asgi_run r ca None) with
  | Returned => asgi_legal true (fst (asgi_run r ca None)) = true
  | ProducerRaised => asgi_legal false (fst (asgi_run r ca None)) = true /\
                      forallb is_more (tl (fst (asgi_run r ca None))) = true
  | SendRaised => False
  end.
Proof.
  intros Hs. pose proof (asgi_full_legal r ca Hs) as H. unfold asgi_run.
  destruct (asgi_full r ca) as [evs o]. exact H.
Qed.

Theorem asgi_fault_prefix_legal_proof r ca sf :
  status_ok r -> asgi_legal false (fst (asgi_run r ca sf)) = true.
Proof.
  intros Hs. pose proof (asgi_full_legal r ca Hs) as H. unfold asgi_run.
  destruct (asgi_full r ca) as [evs o]. cbn [fst snd] in H.
  assert (Hl : asgi_legal false evs = true).
  { destruct o; [|destruct H as [H _]; exact H|destruct H].
    destruct evs as [|s rest]; [discriminate|]. cbn [asgi_legal] in *.
    apply andb_true_iff in H as [A B]. rewrite A. apply bodies_ok_weaken. exact B. }
  destruct sf as [n|]; [|exact Hl].
  destruct (n <? length evs); cbn [fst]; [|exact Hl].
  apply (asgi_legal_firstn false). exact Hl.
Qed.

(* ---------- WSGI ---------- *)

Lemma wsgi_items_yield prod : forallb is_yield (fst (wsgi_stream_items prod)) = true.
Proof.
  induction prod as [|a rest IH]; cbn [wsgi_stream_items]; [reflexivity|].
  destruct a; [|reflexivity]. destruct (wsgi_stream_items rest) as [evs o]. cbn [fst forallb is_yield andb] in *. exact IH.
Qed.

(* shape: one start first, then only yields — for every recipe, no hypothesis *)
Definition wsgi_shape (evs : list wevent) : bool :=
  match evs with
  | [] => true
  | WStart _ _ :: r => forallb is_yield r
  | _ => false
  end.

Lemma wsgi_full_shape r : wsgi_shape (fst (wsgi_full r)) = true /\ fst (wsgi_full r) <> [].
Proof.
  destruct r as [b|b body media charset|b loc|b ct prod|b ch prod|fr]; cbn [wsgi_full fst].
  1-3: split; [reflexivity|discriminate].
  - pose proof (wsgi_items_yield prod) as H. destruct (wsgi_stream_items prod) as [evs o]. split; [exact H|discriminate].
  - pose proof (wsgi_items_yield prod) as H. destruct (wsgi_stream_items prod) as [evs o]. split; [exact H|discriminate].
  - cbn [wsgi_shape]. split; [|discriminate]. rewrite forallb_forall. intros x Hx.
    apply in_map_iff in Hx as (c & <- & _). reflexivity.
Qed.

Lemma In_firstn {A} (x : A) n : forall l, In x (firstn n l) -> In x l.
Proof.
  induction n as [|n IH]; intros l H; [destruct H|].
  destruct l as [|y l]; [destruct H|]. cbn [firstn In] in *. destruct H as [H|H]; [left; exact H|right; apply IH; exact H].
Qed.

Lemma wsgi_shape_firstn evs n : wsgi_shape evs = true -> wsgi_shape (firstn n evs) = true.
Proof.
  destruct evs as [|e r]; [rewrite firstn_nil; auto|]. destruct n; [reflexivity|].
  cbn [firstn]. destruct e; cbn [wsgi_shape]; [|discriminate].
  intros H. rewrite forallb_forall in *. intros x Hx. apply H. apply (In_firstn x n). exact Hx.
Qed.

Theorem wsgi_trace_shape_proof r close_after :
  wsgi_shape (fst (wsgi_run r close_after)) = true /\
  (close_after = None -> fst (wsgi_run r close_after) <> []).
Proof.
  unfold wsgi_run. destruct (wsgi_full_shape r) as [A B]. destruct (wsgi_full r) as [evs o]. cbn [fst] in *.
  destruct close_after as [n|]; [|split; [exact A|intros _; exact B]].
  split; [|discriminate].
  destruct (is_generator r && (n =? 0)); [reflexivity|].
  destruct (n <=? length evs - 1); cbn [fst]; [apply wsgi_shape_firstn|]; exact A.
Qed.

(* header text: clean Latin-1 and no hop-by-hop names, given clean developer input *)

Lemma clean_app a b : clean_text (a ++ b) = clean_text a && clean_text b.
Proof. unfold clean_text. apply forallb_app. Qed.

Lemma lower_c_clean c :
  (N.ltb c 256 && negb (N.ltb c 32) && negb (N.eqb c 127))%bool = true ->
  (N.ltb (lower_c c) 256 && negb (N.ltb (lower_c c) 32) && negb (N.eqb (lower_c c) 127))%bool = true.
Proof.
  unfold lower_c. destruct (N.leb 65 c && N.leb c 90)%bool eqn:E; [|auto].
  intros _. apply andb_true_iff in E as [A B]. apply N.leb_le in A, B.
  apply andb_true_iff. split; [apply andb_true_iff; split|].
  - apply N.ltb_lt. lia.
  - apply negb_true_iff, N.ltb_ge. lia.
  - apply negb_true_iff, N.eqb_neq. lia.
Qed.

Lemma lower_clean s : clean_text s = true -> clean_text (lower s) = true.
Proof.
  unfold clean_text, lower. rewrite !forallb_forall. intros H c Hc.
  apply in_map_iff in Hc as (x & <- & Hx). apply lower_c_clean. apply H. exact Hx.
Qed.

Lemma lower_c_idem c : lower_c (lower_c c) = lower_c c.
Proof.
  unfold lower_c. destruct (N.leb 65 c && N.leb c 90)%bool eqn:E.
  - destruct (N.leb 65 (c + 32) && N.leb (c + 32) 90)%bool eqn:E2; [|reflexivity].
    apply andb_true_iff in E as [A B]. apply N.leb_le in A, B.
    apply andb_true_iff in E2 as [_ B2]. apply N.leb_le in B2. lia.
  - rewrite E. reflexivity.
Qed.

Lemma lower_idem s : lower (lower s) = lower s.
Proof. unfold lower. rewrite map_map. apply map_ext. apply lower_c_idem. Qed.

Definition hdr_ok (kv : header) : Prop := wsgi_header_ok kv = true.
Definition store_ok (h : hstore) : Prop := Forall hdr_ok h.

Lemma hput_ok k v h : hdr_ok (k, v) -> store_ok h -> store_ok (hput k v h).
Proof.
  intros Hk. induction h as [|[k' v'] r IH]; intros H; cbn [hput].
  - constructor; [exact Hk|constructor].
  - inversion H as [|? ? Hh Hr]; subst. destruct (bytes_eqb k' k); constructor.
    + exact Hk.
    + exact Hr.
    + exact Hh.
    + apply IH. exact Hr.
Qed.

Lemma hget_ok k h v : store_ok h -> hget k h = Some v -> clean_text v = true.
Proof.
  induction h as [|[k' v'] r IH]; cbn [hget]; [discriminate|].
  intros H. inversion H as [|? ? Hh Hr]; subst.
  destruct (bytes_eqb k' k); [|apply IH; exact Hr].
  intros E. injection E as <-. unfold hdr_ok, wsgi_header_ok in Hh. cbn [fst snd] in Hh.
  apply andb_true_iff in Hh as [Hh _]. apply andb_true_iff in Hh as [_ Hh]. exact Hh.
Qed.

Lemma hdr_ok_lower k v : hdr_ok (k, v) -> hdr_ok (lower k, v).
Proof.
  unfold hdr_ok, wsgi_header_ok. cbn [fst snd]. intros H.
  apply andb_true_iff in H as [H C]. apply andb_true_iff in H as [A B].
  rewrite lower_idem, C, B, (lower_clean k A). reflexivity.
Qed.

Lemma hdr_ok_value k v v' : hdr_ok (k, v) -> clean_text v' = true -> hdr_ok (k, v').
Proof.
  unfold hdr_ok, wsgi_header_ok. cbn [fst snd]. intros H Hv.
  apply andb_true_iff in H as [H C]. apply andb_true_iff in H as [A B].
  rewrite A, Hv, C. reflexivity.
Qed.

Lemma hinit_ok items : Forall hdr_ok items -> store_ok (hinit items).
Proof.
  unfold hinit. intros Hi.
  assert (G : forall st, store_ok st ->
              store_ok (fold_left (fun st kv =>
                 let k := lower (fst kv) in
                 match hget k st with
                 | Some old => hput k (old ++ lit ", " ++ snd kv) st
                 | None => hput k (snd kv) st
                 end) items st)).
  { induction items as [|[k v] r IH]; intros st H; cbn [fold_left]; [exact H|].
    inversion Hi as [|? ? Hkv Hr]; subst. apply (IH Hr).
    change (store_ok (match hget (lower k) st with
                      | Some old => hput (lower k) (old ++ lit ", " ++ v) st
                      | None => hput (lower k) v st end)).
    pose proof (hdr_ok_lower k v Hkv) as Hl.
    destruct (hget (lower k) st) as [old|] eqn:E.
    - apply hput_ok; [|exact H]. apply (hdr_ok_value _ v); [exact Hl|].
      rewrite !clean_app. rewrite (hget_ok _ _ _ H E). cbn [andb].
      unfold hdr_ok, wsgi_header_ok in Hkv. cbn [fst snd] in Hkv.
      apply andb_true_iff in Hkv as [Hkv _]. apply andb_true_iff in Hkv as [_ Hv]. rewrite Hv. reflexivity.
    - apply hput_ok; assumption. }
  apply G. constructor.
Qed.

(* developer input inside the stated domain *)
Definition clean_base (b : base) : Prop :=
  100 <= b_status b <= 999 /\ Forall hdr_ok (b_headers b) /\ Forall (fun c => clean_text c = true) (b_cookies b).

Lemma clean_decn n : clean_text (decn n) = true.
Proof.
  unfold decn, dec. generalize (N.to_uint (N.of_nat n)). intros u.
  induction u; cbn [uint_digits clean_text forallb]; try reflexivity; exact IHu.
Qed.

Lemma list_headers_ok h cookies :
  store_ok h -> Forall (fun c => clean_text c = true) cookies ->
  forallb wsgi_header_ok (list_headers h cookies) = true.
Proof.
  intros H Hc. unfold list_headers. rewrite forallb_app. apply andb_true_iff. split.
  - rewrite forallb_forall. unfold store_ok in H. rewrite Forall_forall in H. exact H.
  - rewrite forallb_forall. intros x Hx. apply in_map_iff in Hx as (c & <- & Hin).
    rewrite Forall_forall in Hc. specialize (Hc c Hin).
    unfold wsgi_header_ok. cbn [fst snd]. rewrite Hc. reflexivity.
Qed.

Lemma hset'_lit_ok (k : bytes) v h :
  wsgi_header_ok (lower k, []) = true -> clean_text v = true -> store_ok h -> store_ok (hset' k v h).
Proof.
  intros Hk Hv H. unfold hset'. apply hput_ok; [|exact H].
  apply (hdr_ok_value _ []); [exact Hk|exact Hv].
Qed.

Theorem wsgi_simple_headers_clean_proof b :
  clean_base b ->
  (forall loc, clean_text loc = true ->
     wsgi_start_ok (WStart (b_status b) (start_headers false (RRedirect b loc))) = true) /\
  wsgi_start_ok (WStart (b_status b) (start_headers false (RPlain b))) = true /\
  (forall body media charset, clean_text media = true -> clean_text charset = true ->
     wsgi_start_ok (WStart (b_status b) (start_headers false (RSmall b body media charset))) = true) /\
  (forall ct prod, clean_text ct = true ->
     wsgi_start_ok (WStart (b_status b) (start_headers false (RStream b ct prod))) = true).
Proof.
  intros ((S1 & S2) & Hh & Hc).
  assert (Hst : forall hs, forallb wsgi_header_ok hs = true -> wsgi_start_ok (WStart (b_status b) hs) = true).
  { intros hs H. unfold wsgi_start_ok. apply andb_true_iff. split; [apply andb_true_iff; split|exact H];
      apply Nat.leb_le; assumption. }
  pose proof (hinit_ok _ Hh) as H0.
  split; [|split; [|split]].
  - intros loc Hl. apply Hst. cbn [start_headers].
    apply list_headers_ok; [|exact Hc].
    apply hset'_lit_ok; [reflexivity|reflexivity|]. apply hset'_lit_ok; [reflexivity|exact Hl|exact H0].
  - apply Hst. cbn [start_headers].
    apply list_headers_ok; [|exact Hc]. apply hset'_lit_ok; [reflexivity|reflexivity|exact H0].
  - intros body media charset Hm Hch. apply Hst. cbn [start_headers].
    apply list_headers_ok; [|exact Hc]. unfold small_headers.
    set (h1 := match body with [] => hinit (b_headers b) | _ => _ end).
    assert (H1 : store_ok h1).
    { subst h1. destruct body; [exact H0|]. destruct (hmem _ _); [exact H0|].
      apply hset'_lit_ok; [reflexivity|apply clean_decn|exact H0]. }
    destruct media as [|m0 media']; [exact H1|]. destruct (hmem _ h1); [exact H1|].
    apply hset'_lit_ok; [reflexivity| |exact H1].
    destruct (starts_with _ _); [|exact Hm]. rewrite !clean_app, Hm, Hch. reflexivity.
  - intros ct prod Hct. apply Hst. cbn [start_headers].
    apply list_headers_ok; [|exact Hc]. apply hset'_lit_ok; [reflexivity|exact Hct|exact H0].
Qed.

(* ---------- non-vacuity ---------- *)

Example ex_stream_fault :
  asgi_run (RStream {| b_status := 200; b_headers := [(lit "X-A", lit "b")]; b_cookies := [] |} (lit "text/plain")
                    [Item (lit "a"); Item (lit "b"); Raise]) (Some 1) (Some 5)
  = ([Start 200 [(lit "x-a", lit "b"); (lit "content-type", lit "text/plain")]; Body (lit "a") true; Body [] false], Returned).
Proof. vm_compute. reflexivity. Qed.

(* ---------- the file vanishes between stat and open ---------- *)

Theorem vanished_file_prefix_legal_proof r :
  status_ok r ->
  asgi_legal false (asgi_vanished r) = true /\ wsgi_shape (wsgi_vanished r) = true.
Proof.
  intros Hs. split.
  - pose proof (asgi_fault_prefix_legal_proof r None (Some 1) Hs) as H. unfold asgi_run in H. unfold asgi_vanished.
    destruct (asgi_full r None) as [evs o]. cbn [fst] in *.
    destruct (1 <? length evs) eqn:E; cbn [fst] in H; [exact H|].
    apply Nat.ltb_ge in E. rewrite firstn_all2 by exact E. exact H.
  - unfold wsgi_vanished. apply wsgi_shape_firstn. apply wsgi_full_shape.
Qed.

(* ---------- the file response's constructor ---------- *)

Lemma setitem_refuses_app a b : setitem_refuses (a ++ b) = setitem_refuses a || setitem_refuses b.
Proof. unfold setitem_refuses. apply existsb_app. Qed.

Lemma clean_text_not_refused s : clean_text s = true -> setitem_refuses s = false.
Proof.
  unfold clean_text, setitem_refuses. induction s as [|c s IH]; cbn [forallb existsb]; [reflexivity|].
  rewrite andb_true_iff. intros [Hc Hs]. rewrite (IH Hs), orb_false_r.
  rewrite !andb_true_iff, !negb_true_iff, N.ltb_lt, N.ltb_ge, N.eqb_neq in Hc.
  destruct Hc as [[_ H32] _].
  destruct (N.eqb_spec c 10) as [->|_]; [lia|]. destruct (N.eqb_spec c 13) as [->|_]; [lia|].
  destruct (N.eqb_spec c 0) as [->|_]; [lia|]. reflexivity.
Qed.

Lemma clean_text_app a b : clean_text (a ++ b) = clean_text a && clean_text b.
Proof. unfold clean_text. apply forallb_app. Qed.

(* A file response either is refused by its constructor, or its Content-Disposition value has no CR, LF
   or NUL: exactly the names with such a character that are Latin-1 are refused (quote() yields clean
   ASCII: premise); when the name itself is clean Latin-1 text the whole value is clean Latin-1 text. *)
Theorem file_disposition_clean_proof (name quoted : bytes) :
  clean_text quoted = true ->
  (file_ctor_refuses name quoted = false -> setitem_refuses (disposition name quoted) = false) /\
  (file_ctor_refuses name quoted = true <-> is_latin1 name = true /\ setitem_refuses name = true) /\
  (clean_text name = true -> clean_text (disposition name quoted) = true).
Proof.
  intros Hq. pose proof (clean_text_not_refused _ Hq) as Hqr.
  unfold file_ctor_refuses, disposition. split; [|split].
  - tauto.
  - destruct (is_latin1 name) eqn:El.
    + rewrite !setitem_refuses_app, Hqr. vm_compute (setitem_refuses (lit "attachment; filename=""")).
      vm_compute (setitem_refuses (lit """; filename*=utf-8''")). rewrite !orb_false_r. cbn [orb]. tauto.
    + rewrite setitem_refuses_app, Hqr. vm_compute (setitem_refuses (lit "attachment; filename*=utf-8''")).
      cbn [orb]. split; [discriminate|intros [H _]; discriminate].
  - intros Hn. assert (El : is_latin1 name = true).
    { unfold clean_text in Hn. unfold is_latin1. rewrite forallb_forall in *. intros c Hc. specialize (Hn c Hc).
      rewrite !andb_true_iff in Hn. tauto. }
    rewrite El, !clean_text_app, Hn, Hq. reflexivity.
Qed.
