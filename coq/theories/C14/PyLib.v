(* C14 — the few Python operations that the functions translated by tools/py2coq_c14.py use and that Lib/PyStr.v does
   not have.  Text and bytes are lists of code points / byte values (N), a Python int is a Z.

     res A                 what a piece of Python code comes to: Ok value, or Raise exception
     dexc                  the exception classes email.utils.parsedate_to_datetime(..).timestamp() can leave with
                           (TypeError before Python 3.10 for an unparsable text, ValueError, OverflowError)
     exc                   the exceptions of the translated code: those, AssertionError, HTTPException(code)
     cls, isinstance_exc   the class names an `except` clause may list, and isinstance(e, C) along the builtin hierarchy
     try_catch             try: <body> / except (<classes>): <handler> / <rest>
     str_truth             bool(<str>)
     opt_and b o           `b and o` for a bool b and an Optional o, as the Optional whose truth value the test has
     dict_get_default      d.get(k, default) for a dict given as an association list in insertion order (first hit: the keys
                           of a dict are distinct)
     decode_latin1         bytes.decode("latin-1"): byte value = code point
     str_int               str(<int>), the text of an f-string field without conversion / format (C02/PyLib.v, also checked
                           against the interpreter there)
     response              Response(<status>) / FileResponse(path, stat_result=st) with the list of headers appended to
                           response.headers afterwards
     action                what __call__ ends with: the response object is called, or self.handle_404 is

   Nothing here is assumed: tools/py2coq_c14.py (pylib_check) evaluates dict_get_default, str_truth, decode_latin1, str_int,
   isinstance_exc inside coqc on every check run and compares with what the running interpreter gives. *)
From Coq Require Import List NArith ZArith Bool.
From Baize Require Import Lib.PyStr.
From Baize Require C02.PyLib.
Import ListNotations.

Inductive dexc := DTypeError | DValueError | DOverflowError.

Inductive exc := EDate (d : dexc) | EAssertion | EHTTP (code : N).

Inductive res (A : Type) := Ok (a : A) | Raise (e : exc).
Arguments Ok {A} a.
Arguments Raise {A} e.

Definition bind {A B : Type} (r : res A) (k : A -> res B) : res B :=
  match r with
  | Ok a => k a
  | Raise e => Raise e
  end.

(* the result of a library call that leaves with one of the three exceptions, or with a value *)
Definition of_date {A : Type} (r : A + dexc) : res A :=
  match r with
  | inl a => Ok a
  | inr d => Raise (EDate d)
  end.

Inductive cls := CTypeError | CValueError | COverflowError | CArithmeticError | CAssertionError | CHTTPException
               | CException | CBaseException.

Definition isinstance_exc (e : exc) (c : cls) : bool :=
  match c, e with
  | CBaseException, _ => true
  | CException, _ => true
  | CTypeError, EDate DTypeError => true
  | CValueError, EDate DValueError => true
  | COverflowError, EDate DOverflowError => true
  | CArithmeticError, EDate DOverflowError => true
  | CAssertionError, EAssertion => true
  | CHTTPException, EHTTP _ => true
  | _, _ => false
  end.

Definition try_catch {A B : Type} (body : res A) (classes : list cls) (handler : res B) (rest : A -> res B) : res B :=
  match body with
  | Ok a => rest a
  | Raise e => if existsb (isinstance_exc e) classes then handler else Raise e
  end.

Definition str_truth (s : list N) : bool := negb (is_empty s).

Definition opt_and {A : Type} (b : bool) (o : option A) : option A := if b then o else None.

Fixpoint dict_get_default (d : list (list N * list N)) (k : list N) (default : list N) : list N :=
  match d with
  | [] => default
  | (k', v) :: r => if str_eqb k' k then v else dict_get_default r k default
  end.

Definition decode_latin1 (b : list N) : list N := b.

Definition str_int (z : Z) : list N := Baize.C02.PyLib.str_int z.

(* ---------- responses ---------- *)

Inductive rkind (P St : Type) := KStatus (code : N) | KFile (p : P) (st : St).
Arguments KStatus {P St} code.
Arguments KFile {P St} p st.

Record presp (P St : Type) := mkResp { rk : rkind P St; rh : list (list N * list N) }.
Arguments mkResp {P St} rk rh.
Arguments rk {P St} _.
Arguments rh {P St} _.

(* Response(code) *)
Definition new_response {P St : Type} (code : N) : presp P St := mkResp (KStatus code) [].
(* FileResponse(p, stat_result=st) *)
Definition new_file_response {P St : Type} (p : P) (st : St) : presp P St := mkResp (KFile p st) [].
(* response.headers.append(k, v) *)
Definition headers_append {P St : Type} (r : presp P St) (k v : list N) : presp P St :=
  mkResp (rk r) (rh r ++ [(k, v)]).

Inductive action (P St : Type) := ACall (r : presp P St) | AHandle404.
Arguments ACall {P St} r.
Arguments AHandle404 {P St}.
