(* C14 — source-level tie for BaseFiles.if_none_match.

   tools/py2coq.py regenerates the Gallina definition G.if_none_match from the CURRENT Python source of
   baize/staticfiles.py on every check run (harness/c14.py: extra_obligations); this file is then re-checked by
   coqc against the fresh definition (the two lines between the markers below are re-pointed at the fresh
   file; nothing else is changed).  Generated_ref.v is the committed copy of what the translator emitted for the
   source as it was when this file was written, so that the normal build checks the proof too.

   The theorem: the translated function and the hand-written model function C14.Model.if_none_match are the same
   function, for all texts. *)
From Coq Require Import List NArith Bool.
From Baize Require Import Lib.PyStr Lib.PyStrFacts.
From Baize Require C14.Model.
(* GENERATED-BEGIN *)
From Baize Require C14.Generated_ref.
Module G := Baize.C14.Generated_ref.
(* GENERATED-END *)
Module M := Baize.C14.Model.
Import ListNotations.
Local Open Scope N_scope.

(* ---------- PyStr functions = the model's own string functions ---------- *)

Lemma str_eqb_model : forall a b, PyStr.str_eqb a b = M.str_eqb a b.
Proof.
  induction a as [|x a IH]; intros [|y b]; cbn [PyStr.str_eqb M.str_eqb];
    first [reflexivity | rewrite IH; reflexivity].
Qed.

Lemma lstrip_model : forall sp s, PyStr.lstrip_by sp s = M.lstrip sp s.
Proof.
  intros sp. induction s as [|c r IH]; [reflexivity|].
  cbn [PyStr.lstrip_by M.lstrip]. first [reflexivity | rewrite IH; reflexivity].
Qed.

Lemma rstrip_model : forall sp s, PyStr.rstrip_by sp s = M.rstrip sp s.
Proof.
  intros sp. induction s as [|c r IH]; [reflexivity|].
  cbn [PyStr.rstrip_by M.rstrip]. first [reflexivity | rewrite IH; reflexivity].
Qed.

Lemma strip_by_model : forall sp s, PyStr.strip_by sp s = M.strip sp s.
Proof.
  intros sp s. unfold PyStr.strip_by, M.strip. rewrite lstrip_model, rstrip_model. reflexivity.
Qed.

(* s.strip() *)
Lemma strip_ws_model : forall s, PyStr.strip_ws s = M.strip M.is_uspace s.
Proof.
  intros s. unfold PyStr.strip_ws. rewrite strip_by_model. reflexivity.
Qed.

(* s.strip(<one double quote>) *)
Lemma strip_quote_model : forall s, PyStr.strip_chars [34] s = M.strip M.is_quote s.
Proof.
  intros s. unfold PyStr.strip_chars. rewrite <- (strip_by_model M.is_quote s).
  apply strip_by_ext. intro c. unfold PyStr.mem, M.is_quote. cbn [existsb]. apply orb_false_r.
Qed.

(* matching against the literal W/ is two code-point tests *)
Lemma drop_weak_cases : forall i,
  M.drop_weak i = match i with
                  | a :: b :: r => if N.eqb 87 a && N.eqb 47 b then r else i
                  | _ => i
                  end.
Proof.
  intros i. unfold M.drop_weak.
  destruct i as [|a [|b r]].
  - reflexivity.
  - destruct a as [|p]; [reflexivity|].
    do 7 (destruct p as [p|p|]; try reflexivity).
  - destruct (N.eqb_spec 87 a) as [Ha|Ha].
    + subst a. destruct (N.eqb_spec 47 b) as [Hb|Hb].
      * subst b. reflexivity.
      * cbn [andb]. destruct b as [|p]; [reflexivity|].
        do 6 (destruct p as [p|p|]; try reflexivity). exfalso. apply Hb. reflexivity.
    + cbn [andb]. destruct a as [|p]; [reflexivity|].
      do 7 (destruct p as [p|p|]; try reflexivity). exfalso. apply Ha. reflexivity.
Qed.

(* if i.startswith("W/"): i = i[2:] *)
Lemma drop_weak_model : forall i,
  (if PyStr.starts_with [87; 47] i then PyStr.slice_from 2 i else i) = M.drop_weak i.
Proof.
  intros i. rewrite drop_weak_cases. unfold PyStr.slice_from.
  destruct i as [|a [|b r]]; cbn [PyStr.starts_with skipn]; rewrite ?andb_false_r, ?andb_true_r; reflexivity.
Qed.

(* s.split(",") *)
Lemma split_aux_model : forall s, PyStr.split_aux [44] 0 s = M.split_comma_aux s.
Proof.
  induction s as [|c r IH]; [reflexivity|].
  rewrite split_aux_single. cbn [M.split_comma_aux]. rewrite IH.
  destruct (M.split_comma_aux r) as [w ws]. rewrite (N.eqb_sym 44 c). reflexivity.
Qed.

Lemma split_model : forall s, PyStr.split [44] s = M.split_comma s.
Proof.
  intros s. unfold PyStr.split, M.split_comma. rewrite split_aux_model. reflexivity.
Qed.

(* one round of the loop body: what a member is compared as *)
Lemma member_model : forall i,
  PyStr.strip_chars [34]
    (if PyStr.starts_with [87; 47] (PyStr.strip_ws i) then PyStr.slice_from 2 (PyStr.strip_ws i) else PyStr.strip_ws i)
  = M.member_norm i.
Proof.
  intros i. unfold M.member_norm. rewrite drop_weak_model, strip_quote_model, strip_ws_model. reflexivity.
Qed.

(* ---------- the tie ---------- *)

Lemma if_none_match_translated_lemma : forall etag h, G.if_none_match etag h = M.if_none_match etag h.
Proof.
  intros etag h. unfold G.if_none_match, M.if_none_match.
  rewrite split_model, !str_eqb_model.
  destruct h as [|c r]; [reflexivity|].
  cbv beta iota delta [PyStr.is_empty].
  destruct (M.str_eqb (c :: r) [42]); [reflexivity|].
  generalize (M.split_comma (c :: r)) as ms.
  induction ms as [|i ms IH]; [reflexivity|].
  cbn [existsb]. rewrite <- IH. clear IH.
  cbv zeta. rewrite member_model, str_eqb_model.
  destruct (M.str_eqb etag (M.member_norm i)); reflexivity.
Qed.

Theorem if_none_match_translated : forall etag h : list N, G.if_none_match etag h = M.if_none_match etag h.
Proof. exact if_none_match_translated_lemma. Qed.
Print Assumptions if_none_match_translated.
