(* C14 — wire interface.

   hist  app iface now0 ( ver size mtime ctime ) ( forms ) ( ops ) ( etag table ) ( isec table )
         app: 0 Files, 1 Pages; iface: 0 WSGI, 1 ASGI
         form: ( inm ims )
           inm: 0 | x<raw header> | ( ( befores ) ws1 weak ws2 ( afters ) )
           ims: 0 absent | 1 Last-Modified of response j | ( ) unparseable/empty | ( p ) parsed second
         op:   ( 0 dt size ) rewrite | ( 1 dt ) touch | ( 2 dt ) wait | ( 4 dt size ) restore (old mtime kept) | ( 5 dt back ) utime | ( 3 j form-index ) request
         etag table: ( mtime_ns size x<etag> )  — generate_etag of the implementation for each file state
         isec table: ( t_ns second )            — int(float timestamp) as CPython computes it
      -> one ( status ( ver len )|() etag|() lm|() ) per request, then ( "laws" ) (the implementation side lists
         there the premises of the theorems that fail on this history: none)
   inm   etag header -> 0/1 *)
From Coq Require Import List NArith ZArith Bool.
From Baize Require Import Lib.Wire C14.Model.
Import ListNotations.
Local Open Scope N_scope.

Fixpoint lookup2 (t : list (N * N * str)) (k s : N) : option str :=
  match t with
  | [] => None
  | (k', s', v) :: r => if (k' =? k) && (s' =? s) then Some v else lookup2 r k s
  end.

Fixpoint lookup1 (t : list (N * N)) (k : N) : option N :=
  match t with
  | [] => None
  | (k', v) :: r => if k' =? k then Some v else lookup1 r k
  end.

Definition sha_of (t : list (N * N * str)) (k s : N) : str :=
  match lookup2 t k s with
  | Some v => v
  | None => 63 :: dec k ++ 45 :: dec s
  end.

Definition isec_of (t : list (N * N)) (k : N) : N :=
  match lookup1 t k with
  | Some v => v
  | None => k / 1000000000
  end.

Definition rd_etag_row (x : sx) : N * N * str :=
  match x with
  | Lst [Num m; Num s; Str e] => (Z.to_N m, Z.to_N s, e)
  | _ => (0, 0, [])
  end.

Definition rd_isec_row (x : sx) : N * N :=
  match x with
  | Lst [Num t; Num s] => (Z.to_N t, Z.to_N s)
  | _ => (0, 0)
  end.

Definition rd_inm (x : sx) : inm_spec :=
  match x with
  | Str h => IRaw h
  | Lst [Lst b; Str ws1; Num wk; Str ws2; Lst a] =>
      ITmpl (map sx_s b) ws1 (negb (Z.eqb wk 0)) ws2 (map sx_s a)
  | _ => INone
  end.

Definition rd_ims (x : sx) : ims_spec :=
  match x with
  | Num 1%Z => MLm
  | Lst [] => MRaw None
  | Lst [Num p] => MRaw (Some p)
  | _ => MNone
  end.

Definition rd_form (x : sx) : inm_spec * ims_spec :=
  match x with
  | Lst [i; m] => (rd_inm i, rd_ims m)
  | _ => (INone, MNone)
  end.

Definition rd_op (forms : list (inm_spec * ims_spec)) (x : sx) : option op :=
  match x with
  | Lst [Num 0%Z; Num dt; Num sz] => Some (Rewrite (Z.to_N dt) (Z.to_N sz))
  | Lst [Num 1%Z; Num dt] => Some (Touch (Z.to_N dt))
  | Lst [Num 2%Z; Num dt] => Some (Wait (Z.to_N dt))
  | Lst [Num 4%Z; Num dt; Num sz] => Some (Restore (Z.to_N dt) (Z.to_N sz))
  | Lst [Num 5%Z; Num dt; Num back] => Some (SetMtime (Z.to_N dt) (Z.to_N back))
  | Lst [Num 3%Z; Num j; Num k] =>
      match nth_error forms (Z.to_nat k) with
      | Some (i, m) => Some (Req (Z.to_nat j) i m)
      | None => None
      end
  | _ => None
  end.

Fixpoint rd_ops (forms : list (inm_spec * ims_spec)) (l : list sx) : option (list op) :=
  match l with
  | [] => Some []
  | x :: r =>
      match rd_op forms x, rd_ops forms r with
      | Some o, Some os => Some (o :: os)
      | _, _ => None
      end
  end.

Definition show_resp (r : resp) : sx :=
  Lst [ of_N (r_status r);
        match r_body r with Some (v, n) => Lst [of_N v; of_N n] | None => Lst [] end;
        match r_etag r with Some e => Str e | None => Lst [] end;
        match r_lm r with Some l => of_N l | None => Lst [] end ].

Definition run_case (c : list sx) : list sx :=
  match c with
  | [Str kind; Num a; Num i; Num now0; Lst [Num v; Num sz; Num mt; Num ct]; Lst forms; Lst ops; Lst et; Lst it] =>
      if str_eqb kind (lit "hist") then
        let fs := map rd_form forms in
        match rd_ops fs ops with
        | None => [tag (lit "badop")]
        | Some os =>
            let sha := sha_of (map rd_etag_row et) in
            let isec := isec_of (map rd_isec_row it) in
            let w := mkW (Z.to_N now0) O (mkF (Z.to_N v) (Z.to_N sz) (Z.to_N mt) (Z.to_N ct)) in
            map (fun e => show_resp (e_resp e))
                (run (fun k => k) sha isec
                     (if Z.eqb a 0 then Files else Pages) (if Z.eqb i 0 then Wsgi else Asgi) w os)
            ++ [Lst [tag (lit "laws")]]
        end
      else [tag (lit "badcase")]
  | [Str kind; Str etag; Str h] =>
      if str_eqb kind (lit "inm") then [of_bool (if_none_match etag h)]
      else [tag (lit "badcase")]
  | _ => [tag (lit "badcase")]
  end.

Definition run_line (l : list N) : list N := print_line (run_case (parse_line l)).
