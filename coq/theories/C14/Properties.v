(* C14 — Conditional requests never yield a stale 304 and always revalidate a fresh copy.

   Vocabulary (C14/Model.v): [run fkey sha isec a i w ops] is the list of requests served
   during the history [ops] from the initial world [w], each entry with the file state it
   was served from ([e_file]), the number of modifications made before it ([e_gen]), the
   response [e_j] whose validators it carries, in which form ([e_inm], [e_ims]), and the
   response it got ([e_resp]).  [fkey], [sha], [isec] stand for the float st_mtime of a
   nanosecond timestamp, the SHA-1 hex digest of "<float>-<size>" and int(<float>); the
   premises [sha_injective] ... [second_steps] are what the theorems need of them.
   [wf_world]: mtime <= ctime <= clock in the initial state (every operation keeps it). *)
From Coq Require Import List NArith ZArith Bool.
From Baize Require Import C14.Model C14.Proofs.
Import ListNotations.
Local Open Scope N_scope.

(* The operation alphabet: Rewrite / Touch set both timestamps to now; Restore puts new content in
   place with the OLD mtime and SetMtime (os.utime) moves mtime to any earlier time — both move only
   ctime to now; Wait; Req.  [wf_world]: mtime <= ctime <= clock initially (every operation keeps it).

   What cannot hold and is therefore a premise, not a conclusion: the ETag is a function of (float mtime,
   size) only, so a Restore with the SAME size (or two size changes back and forth within one float)
   keeps the ETag although the content changed.  The ETag clauses below are stated on what is hashed. *)

(* A 304 to validators of the full response j: with its ETag sent (in any well-formed list form, with
   or without its date) the file has the (float mtime, size) it had at response j — or a decoy member of
   the list denotes the current tag; with only its date sent, the change time is still in the whole
   second it was in at response j, which is the second Last-Modified named. *)
Theorem no_stale_304 :
  forall fkey sha isec a i,
    sha_injective sha -> sha_hexdigest sha -> second_monotone isec ->
  forall w ops n en ej,
    wf_world w ->
    nth_error (run fkey sha isec a i w ops) n = Some en -> r_status (e_resp en) = 304 ->
    (e_j en < n)%nat -> nth_error (run fkey sha isec a i w ops) (e_j en) = Some ej ->
    r_status (e_resp ej) = 200 ->
    (forall b ws1 wk ws2 af, e_inm en = ITmpl b ws1 wk ws2 af -> wf_tmpl b ws1 ws2 af ->
       (fkey (f_mtime (e_file en)) = fkey (f_mtime (e_file ej)) /\ f_size (e_file en) = f_size (e_file ej))
       \/ exists d, In d (b ++ af) /\ member_norm d = etag_of fkey sha (e_file en))
    /\
    (e_inm en = INone -> e_ims en = MLm ->
       isec (f_ctime (e_file en)) = isec (f_ctime (e_file ej)) /\
       isec (f_ctime (e_file ej)) = isec (f_mtime (e_file ej))).
Proof. exact no_stale_304_l. Qed.
Print Assumptions no_stale_304.

(* A 304 to the date alone means no change of any kind a second or more after response j: every
   operation that changes the file (content, size, either timestamp) moves ctime to its own time, and
   the current ctime is less than a second after the one at response j, in the second Last-Modified named. *)
Theorem date_304_unchanged :
  forall fkey sha isec a i,
    second_monotone isec -> second_steps isec ->
  forall w ops n en ej,
    wf_world w ->
    nth_error (run fkey sha isec a i w ops) n = Some en -> r_status (e_resp en) = 304 ->
    (e_j en < n)%nat -> nth_error (run fkey sha isec a i w ops) (e_j en) = Some ej ->
    r_status (e_resp ej) = 200 ->
    e_inm en = INone -> e_ims en = MLm ->
    f_ctime (e_file ej) <= f_ctime (e_file en) /\ f_ctime (e_file en) < f_ctime (e_file ej) + ns_per_s /\
    isec (f_ctime (e_file en)) = isec (f_mtime (e_file ej)).
Proof. exact date_304_unchanged_l. Qed.
Print Assumptions date_304_unchanged.

(* The decision for the date alone, exactly: 304 iff the whole second of the CHANGE time is not later
   than the second Last-Modified of response j named. *)
Theorem date_decision :
  forall fkey sha isec a i w ops n en ej,
    wf_world w ->
    nth_error (run fkey sha isec a i w ops) n = Some en ->
    (e_j en < n)%nat -> nth_error (run fkey sha isec a i w ops) (e_j en) = Some ej ->
    r_status (e_resp ej) = 200 ->
    e_inm en = INone -> e_ims en = MLm ->
    (isec (f_ctime (e_file en)) <= isec (f_mtime (e_file ej)) -> e_resp en = not_modified) /\
    (isec (f_mtime (e_file ej)) < isec (f_ctime (e_file en)) ->
       e_resp en = full_response fkey sha isec (e_file en)).
Proof. exact date_decision_l. Qed.
Print Assumptions date_decision.

(* After a change of the size, or of mtime by a second or more (in either direction), a request with
   the ETag of response j (no decoy denoting the current tag) gets the full response of the current
   version with a different ETag.  After ANY change a second or more later (ctime moved by >= 1 s:
   rewrite, touch, restore with the old mtime and the same or another size, utime) a request with only
   the date of response j gets the full response of the current version. *)
Theorem fresh_after_change :
  forall fkey sha isec a i,
    sha_injective sha -> sha_hexdigest sha -> float_separates_seconds fkey ->
    second_monotone isec -> second_steps isec ->
  forall w ops n en ej,
    wf_world w ->
    nth_error (run fkey sha isec a i w ops) n = Some en ->
    (e_j en < n)%nat -> nth_error (run fkey sha isec a i w ops) (e_j en) = Some ej ->
    r_status (e_resp ej) = 200 ->
    (forall b ws1 wk ws2 af, e_inm en = ITmpl b ws1 wk ws2 af -> wf_tmpl b ws1 ws2 af ->
       decoys_miss (etag_of fkey sha (e_file en)) (b ++ af) ->
       f_size (e_file en) <> f_size (e_file ej) \/
       f_mtime (e_file ej) + ns_per_s <= f_mtime (e_file en) \/
       f_mtime (e_file en) + ns_per_s <= f_mtime (e_file ej) ->
       e_resp en = full_response fkey sha isec (e_file en) /\ r_etag (e_resp en) <> r_etag (e_resp ej))
    /\
    (e_inm en = INone -> e_ims en = MLm ->
       f_ctime (e_file ej) + ns_per_s <= f_ctime (e_file en) ->
       e_resp en = full_response fkey sha isec (e_file en)).
Proof. exact fresh_after_change_l. Qed.
Print Assumptions fresh_after_change.

(* '*' gets 304 (no body, no validators) whatever the file; while no modification of any kind was made
   since the full response j, its ETag gets 304 when sent plain or weak, alone or as any member of a
   list with arbitrary comma-free decoys, white space around it allowed. *)
Theorem etag_revalidates :
  forall fkey sha isec a i,
    sha_hexdigest sha ->
  forall w ops n en,
    wf_world w ->
    nth_error (run fkey sha isec a i w ops) n = Some en ->
    (e_inm en = IRaw [42] -> e_resp en = not_modified)
    /\
    (forall ej b ws1 wk ws2 af,
       (e_j en < n)%nat -> nth_error (run fkey sha isec a i w ops) (e_j en) = Some ej ->
       r_status (e_resp ej) = 200 -> e_gen en = e_gen ej ->
       e_inm en = ITmpl b ws1 wk ws2 af -> wf_tmpl b ws1 ws2 af ->
       e_resp en = not_modified).
Proof. exact etag_revalidates_l. Qed.
Print Assumptions etag_revalidates.

(* Every full response names in Last-Modified the whole second of mtime as the comparison computes
   seconds (not a later one); a request without validators gets the full response; the date of an
   unmodified file revalidates to 304 when its change time lies in the second Last-Modified names
   (always after a rewrite or touch; after a restore / utime that left mtime a second or more behind
   ctime the date never revalidates — a full response, never a stale one). *)
Theorem lm_floor :
  forall fkey sha isec a i w ops n en,
    wf_world w ->
    nth_error (run fkey sha isec a i w ops) n = Some en ->
    (r_status (e_resp en) = 200 ->
       e_resp en = full_response fkey sha isec (e_file en) /\
       r_lm (e_resp en) = Some (isec (f_mtime (e_file en)))) /\
    (e_inm en = INone -> e_ims en = MNone -> e_resp en = full_response fkey sha isec (e_file en)) /\
    (forall ej,
       (e_j en < n)%nat -> nth_error (run fkey sha isec a i w ops) (e_j en) = Some ej ->
       r_status (e_resp ej) = 200 -> e_gen en = e_gen ej ->
       e_inm en = INone -> e_ims en = MLm ->
       isec (f_ctime (e_file en)) <= isec (f_mtime (e_file en)) ->
       e_resp en = not_modified).
Proof. exact lm_floor_l. Qed.
Print Assumptions lm_floor.

(* Comparing the date with the modification time instead (the time Last-Modified is made from) breaks
   the date clause of fresh_after_change: under premises that are satisfiable, a history in which the
   file is replaced three seconds after response j by one of another size that carries the old mtime
   gets 304 for the date of j. *)
Theorem mtime_comparison_refuted :
  exists fkey sha isec,
    (sha_injective sha /\ sha_hexdigest sha /\ float_separates_seconds fkey /\
     second_monotone isec /\ second_steps isec) /\
  exists w ops n en ej,
    wf_world w /\
    nth_error (run_with (file_response_mtime fkey sha isec) w ops) n = Some en /\
    (e_j en < n)%nat /\
    nth_error (run_with (file_response_mtime fkey sha isec) w ops) (e_j en) = Some ej /\
    r_status (e_resp ej) = 200 /\ e_inm en = INone /\ e_ims en = MLm /\
    f_ctime (e_file ej) + ns_per_s <= f_ctime (e_file en) /\
    f_size (e_file en) <> f_size (e_file ej) /\ f_ver (e_file en) <> f_ver (e_file ej) /\
    e_resp en = not_modified.
Proof. exact mtime_variant_refuted_l. Qed.
Print Assumptions mtime_comparison_refuted.

(* The string code, for every header text: a match is '*' alone or a member of the comma list
   that denotes the tag (white space, one W/ prefix and surrounding quotes removed) ... *)
Theorem inm_sound :
  forall etag h, if_none_match etag h = true ->
    h = [42] \/ exists m, In m (split_comma h) /\ member_norm m = etag.
Proof. exact inm_sound_l. Qed.
Print Assumptions inm_sound.

(* ... and every such member matches, in whatever position. *)
Theorem inm_complete :
  forall etag h m, h <> [] -> In m (split_comma h) -> member_norm m = etag -> if_none_match etag h = true.
Proof. exact inm_complete_l. Qed.
Print Assumptions inm_complete.

(* the member a quoted tag is sent as denotes the tag *)
Theorem target_denotes_tag :
  forall ws1 weak e ws2, all_ws ws1 -> all_ws ws2 -> hexlike e ->
    member_norm (target ws1 weak (quote e) ws2) = e.
Proof. exact target_norm_hex. Qed.
Print Assumptions target_denotes_tag.

(* the premises are satisfiable together *)
Example premises_satisfiable :
  sha_injective ex_sha /\ sha_hexdigest ex_sha /\ float_separates_seconds ex_fkey /\
  second_monotone ex_isec /\ second_steps ex_isec.
Proof. exact ex_laws. Qed.

(* a history exercising every clause (statuses, bodies as (version, length), Last-Modified second):
   200; 304 to the weak tag inside a list, to the date, to '*'; after a rewrite with another size in
   the same second 200 to ETag + date; after a touch 0.4 s later the old date still gets 304 (same
   second), the old tag 200; one second later the old date gets 200 with a later Last-Modified *)
Example example_history :
  wf_world ex_w0 /\
  map (fun e => (r_status (e_resp e), r_body (e_resp e), r_lm (e_resp e)))
      (run ex_fkey ex_sha ex_isec Files Wsgi ex_w0 ex_ops)
  = [ (200, Some (1, 8), Some 5); (304, None, None); (304, None, None); (304, None, None);
      (200, Some (2, 9), Some 5); (200, Some (2, 9), Some 5);
      (304, None, None); (200, Some (2, 9), Some 5);
      (200, Some (2, 9), Some 6) ].
Proof. exact (conj ex_w0_wf ex_history_l). Qed.

(* the history of the refutation on the code itself: the date of response 0 gets the new version *)
Example example_restore_history :
  map (fun e => (r_status (e_resp e), r_body (e_resp e), r_lm (e_resp e)))
      (run ex_fkey ex_sha ex_isec Pages Asgi ex_w0 ex_restore_ops)
  = [ (200, Some (1, 8), Some 5); (200, Some (2, 9), Some 5) ].
Proof. exact ex_restore_history_l. Qed.
