(* C14 — proofs. *)
From Coq Require Import List NArith ZArith Bool Lia ZifyBool.
From Baize Require Import Lib.Wire C14.Model.
Import ListNotations.
Local Open Scope N_scope.

(* ================================================================ strings *)

Lemma str_eqb_refl a : str_eqb a a = true.
Proof. induction a as [|x a IH]; cbn [str_eqb]; [reflexivity|]. now rewrite N.eqb_refl, IH. Qed.

Lemma str_eqb_eq a b : str_eqb a b = true <-> a = b.
Proof.
  split; [|intros ->; apply str_eqb_refl].
  revert b; induction a as [|x a IH]; intros [|y b] H; cbn [str_eqb] in H; try discriminate; [reflexivity|].
  apply andb_true_iff in H as [H1 H2]. apply N.eqb_eq in H1. subst y. f_equal. now apply IH.
Qed.

Lemma lstrip_ws sp ws s : forallb sp ws = true -> lstrip sp (ws ++ s) = lstrip sp s.
Proof.
  induction ws as [|c ws IH]; cbn [forallb app lstrip]; [reflexivity|].
  intros H. apply andb_true_iff in H as [H1 H2]. rewrite H1. now apply IH.
Qed.

Lemma lstrip_stop sp c s : sp c = false -> lstrip sp (c :: s) = c :: s.
Proof. intros H. cbn [lstrip]. now rewrite H. Qed.

Lemma rstrip_all sp ws : forallb sp ws = true -> rstrip sp ws = [].
Proof.
  induction ws as [|c ws IH]; cbn [forallb rstrip]; [reflexivity|].
  intros H. apply andb_true_iff in H as [H1 H2]. rewrite (IH H2). now rewrite H1.
Qed.

Lemma rstrip_ws sp s ws : forallb sp ws = true -> rstrip sp (s ++ ws) = rstrip sp s.
Proof.
  intros H. induction s as [|c s IH]; cbn [app rstrip].
  - now apply rstrip_all.
  - now rewrite IH.
Qed.

Lemma rstrip_last sp s c : sp c = false -> rstrip sp (s ++ [c]) = s ++ [c].
Proof.
  intros H. induction s as [|x s IH]; cbn [app rstrip].
  - now rewrite H.
  - rewrite IH. destruct (s ++ [c]) eqn:E; [|reflexivity].
    apply app_eq_nil in E as [_ E]. discriminate.
Qed.

Lemma rstrip_none sp s : forallb (fun c => negb (sp c)) s = true -> rstrip sp s = s.
Proof.
  induction s as [|c s IH]; cbn [forallb rstrip]; [reflexivity|].
  intros H. apply andb_true_iff in H as [H1 H2]. rewrite (IH H2).
  destruct s; [|reflexivity]. apply negb_true_iff in H1. now rewrite H1.
Qed.

Lemma lstrip_none sp s t : forallb (fun c => negb (sp c)) s = true -> s <> [] -> lstrip sp (s ++ t) = s ++ t.
Proof.
  destruct s as [|c s]; [congruence|]. cbn [forallb app]. intros H _.
  apply andb_true_iff in H as [H1 _]. apply negb_true_iff in H1. now apply lstrip_stop.
Qed.

(* ---- facts about single characters ---- *)

Lemma hex_not_space c : is_hex c = true -> is_uspace c = false.
Proof. unfold is_hex, is_uspace. intros H. lia. Qed.

Lemma hex_not_quote c : is_hex c = true -> is_quote c = false.
Proof. unfold is_hex, is_quote. intros H. lia. Qed.

Lemma hex_not_comma c : is_hex c = true -> negb (c =? 44) = true.
Proof. unfold is_hex. intros H. lia. Qed.

Lemma space_not_comma c : is_uspace c = true -> negb (c =? 44) = true.
Proof. unfold is_uspace. intros H. lia. Qed.

Lemma forallb_impl {A} (p q : A -> bool) l :
  (forall x, p x = true -> q x = true) -> forallb p l = true -> forallb q l = true.
Proof.
  intros I. induction l as [|x l IH]; cbn [forallb]; [reflexivity|].
  intros H. apply andb_true_iff in H as [H1 H2]. now rewrite (I _ H1), (IH H2).
Qed.

Lemma hexlike_no_quote e : hexlike e -> forallb (fun c => negb (is_quote c)) e = true.
Proof. apply forallb_impl. intros c H. now rewrite (hex_not_quote _ H). Qed.

Lemma hexlike_comma_free e : hexlike e -> comma_free e.
Proof. apply forallb_impl. exact hex_not_comma. Qed.

Lemma ws_comma_free s : all_ws s -> comma_free s.
Proof. apply forallb_impl. exact space_not_comma. Qed.

Lemma comma_free_app a b : comma_free a -> comma_free b -> comma_free (a ++ b).
Proof. unfold comma_free. intros Ha Hb. rewrite forallb_app. now rewrite Ha, Hb. Qed.

(* ---- the member the target is sent as ---- *)

Definition no_quote (e : str) : Prop := forallb (fun c => negb (is_quote c)) e = true.

Lemma strip_quotes_quote e : no_quote e -> strip is_quote (quote e) = e.
Proof.
  intros H. unfold strip, quote. cbn [lstrip]. change (is_quote 34) with true. cbn match.
  destruct e as [|c e].
  - reflexivity.
  - rewrite (lstrip_none is_quote (c :: e) [34] H) by discriminate.
    rewrite rstrip_ws by reflexivity. now apply rstrip_none.
Qed.

Lemma target_norm ws1 weak e ws2 :
  all_ws ws1 -> all_ws ws2 -> no_quote e -> member_norm (target ws1 weak (quote e) ws2) = e.
Proof.
  intros H1 H2 He. unfold member_norm, target.
  assert (S : strip is_uspace (ws1 ++ weak_prefix weak ++ quote e ++ ws2) = weak_prefix weak ++ quote e).
  { unfold strip. rewrite (lstrip_ws _ _ _ H1).
    assert (L : lstrip is_uspace (weak_prefix weak ++ quote e ++ ws2) = weak_prefix weak ++ quote e ++ ws2).
    { destruct weak; cbn [weak_prefix app quote]; now apply lstrip_stop. }
    rewrite L. rewrite app_assoc. rewrite (rstrip_ws _ _ _ H2).
    unfold quote. change (34 :: e ++ [34]) with ((34 :: e) ++ [34]). rewrite app_assoc.
    now apply rstrip_last. }
  rewrite S.
  assert (D : drop_weak (weak_prefix weak ++ quote e) = quote e).
  { destruct weak; reflexivity. }
  rewrite D. now apply strip_quotes_quote.
Qed.

Lemma target_norm_hex ws1 weak e ws2 :
  all_ws ws1 -> all_ws ws2 -> hexlike e -> member_norm (target ws1 weak (quote e) ws2) = e.
Proof. intros H1 H2 He. apply target_norm; try assumption. now apply hexlike_no_quote. Qed.

Lemma target_comma_free ws1 weak e ws2 :
  all_ws ws1 -> all_ws ws2 -> comma_free e -> comma_free (target ws1 weak (quote e) ws2).
Proof.
  intros H1 H2 He. unfold target. apply comma_free_app; [now apply ws_comma_free|].
  apply comma_free_app; [destruct weak; reflexivity|].
  apply comma_free_app; [|now apply ws_comma_free].
  unfold quote. change (34 :: e ++ [34]) with ([34] ++ e ++ [34]).
  apply comma_free_app; [reflexivity|]. apply comma_free_app; [exact He|reflexivity].
Qed.

Lemma target_has_quote ws1 weak e ws2 : In 34 (target ws1 weak (quote e) ws2).
Proof.
  unfold target, quote. apply in_or_app. right. apply in_or_app. right. apply in_or_app. left. now left.
Qed.

(* ---- split and join ---- *)

Lemma split_aux_comma_free m : comma_free m -> split_comma_aux m = (m, []).
Proof.
  induction m as [|c m IH]; cbn [split_comma_aux]; [reflexivity|].
  unfold comma_free. cbn [forallb]. intros H. apply andb_true_iff in H as [H1 H2].
  rewrite (IH H2). apply negb_true_iff in H1. now rewrite H1.
Qed.

Lemma split_aux_app m rest :
  comma_free m ->
  split_comma_aux (m ++ 44 :: rest) = (m, fst (split_comma_aux rest) :: snd (split_comma_aux rest)).
Proof.
  induction m as [|c m IH]; cbn [app split_comma_aux].
  - intros _. destruct (split_comma_aux rest) as [w ws]. reflexivity.
  - unfold comma_free. cbn [forallb]. intros H. apply andb_true_iff in H as [H1 H2].
    rewrite (IH H2). apply negb_true_iff in H1. now rewrite H1.
Qed.

Lemma split_join ms : ms <> [] -> Forall comma_free ms -> split_comma (join_comma ms) = ms.
Proof.
  induction ms as [|m ms IH]; [congruence|]. intros _ H. inversion H as [|? ? Hm Hms]; subst.
  destruct ms as [|m2 ms].
  - cbn [join_comma]. unfold split_comma. now rewrite split_aux_comma_free.
  - change (join_comma (m :: m2 :: ms)) with (m ++ 44 :: join_comma (m2 :: ms)).
    unfold split_comma. rewrite (split_aux_app _ _ Hm).
    assert (IH' := IH ltac:(discriminate) Hms). unfold split_comma in IH'.
    destruct (split_comma_aux (join_comma (m2 :: ms))) as [w ws]. cbn [fst snd]. now rewrite IH'.
Qed.

Lemma join_nonempty b t a : t <> [] -> join_comma (b ++ t :: a) <> [].
Proof.
  intros Ht. destruct b as [|x b]; cbn [app].
  - destruct a; cbn [join_comma]; [exact Ht|]. destruct t; [congruence|discriminate].
  - destruct (b ++ t :: a) eqn:E.
    + apply app_eq_nil in E as [_ E]. discriminate.
    + cbn [join_comma]. intros H. apply app_eq_nil in H as [_ H]. discriminate.
Qed.

(* ---- if_none_match ---- *)

Lemma inm_sound_l etag h :
  if_none_match etag h = true ->
  h = [42] \/ exists m, In m (split_comma h) /\ member_norm m = etag.
Proof.
  unfold if_none_match. destruct h as [|c h]; [discriminate|].
  destruct (str_eqb (c :: h) [42]) eqn:E.
  - intros _. left. now apply str_eqb_eq.
  - intros H. right. apply existsb_exists in H as [m [Hin Hm]]. exists m. split; [exact Hin|].
    symmetry. now apply str_eqb_eq.
Qed.

Lemma inm_complete_l etag h m :
  h <> [] -> In m (split_comma h) -> member_norm m = etag -> if_none_match etag h = true.
Proof.
  intros Hh Hin Hm. unfold if_none_match. destruct h as [|c h]; [congruence|].
  destruct (str_eqb (c :: h) [42]); [reflexivity|].
  apply existsb_exists. exists m. split; [exact Hin|]. apply str_eqb_eq. now symmetry.
Qed.

Lemma inm_star_l etag : if_none_match etag [42] = true.
Proof. reflexivity. Qed.

Lemma inm_empty_l etag : if_none_match etag [] = false.
Proof. reflexivity. Qed.

(* the header built from a well-formed list around the quoted tag e *)
Definition tmpl_header (b : list str) ws1 (wk : bool) (e : str) ws2 (a : list str) : str :=
  join_comma (b ++ [target ws1 wk (quote e) ws2] ++ a).

Lemma tmpl_split b ws1 wk e ws2 a :
  wf_tmpl b ws1 ws2 a -> hexlike e ->
  split_comma (tmpl_header b ws1 wk e ws2 a) = b ++ [target ws1 wk (quote e) ws2] ++ a.
Proof.
  intros (Hb & Ha & H1 & H2) He. unfold tmpl_header. apply split_join.
  - intros E. apply app_eq_nil in E as [_ E]. discriminate.
  - apply Forall_app. split; [exact Hb|]. apply Forall_app. split; [|exact Ha].
    constructor; [|constructor]. apply target_comma_free; try assumption. now apply hexlike_comma_free.
Qed.

Lemma tmpl_matches_own b ws1 wk e ws2 a :
  wf_tmpl b ws1 ws2 a -> hexlike e -> if_none_match e (tmpl_header b ws1 wk e ws2 a) = true.
Proof.
  intros W He. apply inm_complete_l with (m := target ws1 wk (quote e) ws2).
  - unfold tmpl_header. cbn [app]. apply join_nonempty. intros E.
    pose proof (target_has_quote ws1 wk e ws2) as Q. rewrite E in Q. destruct Q.
  - rewrite (tmpl_split _ _ _ _ _ _ W He). apply in_or_app. right. now left.
  - destruct W as (_ & _ & H1 & H2). apply target_norm; try assumption. now apply hexlike_no_quote.
Qed.

Lemma tmpl_sound cur b ws1 wk e ws2 a :
  wf_tmpl b ws1 ws2 a -> hexlike e ->
  if_none_match cur (tmpl_header b ws1 wk e ws2 a) = true ->
  cur = e \/ exists d, In d (b ++ a) /\ member_norm d = cur.
Proof.
  intros W He H. apply inm_sound_l in H as [H|[m [Hin Hm]]].
  - exfalso. assert (S := tmpl_split _ _ wk _ _ _ W He). rewrite H in S.
    change (split_comma [42]) with [[42]] in S.
    assert (Hin : In (target ws1 wk (quote e) ws2) [[42]]).
    { rewrite S. apply in_or_app. right. now left. }
    destruct Hin as [Hin|[]]. pose proof (target_has_quote ws1 wk e ws2) as Q. rewrite <- Hin in Q.
    destruct Q as [Q|[]]. discriminate.
  - rewrite (tmpl_split _ _ _ _ _ _ W He) in Hin.
    apply in_app_or in Hin as [Hin|Hin]; [right; exists m; split; [apply in_or_app; now left|exact Hm]|].
    destruct Hin as [Hin|Hin].
    + left. subst m. destruct W as (_ & _ & H1 & H2). rewrite target_norm in Hm; try assumption.
      * now symmetry.
      * now apply hexlike_no_quote.
    + right. exists m. split; [apply in_or_app; now right|exact Hm].
Qed.

Lemma tmpl_misses cur b ws1 wk e ws2 a :
  wf_tmpl b ws1 ws2 a -> hexlike e -> cur <> e -> decoys_miss cur (b ++ a) ->
  if_none_match cur (tmpl_header b ws1 wk e ws2 a) = false.
Proof.
  intros W He Hne Hd. destruct (if_none_match cur (tmpl_header b ws1 wk e ws2 a)) eqn:E; [|reflexivity].
  exfalso. apply tmpl_sound in E as [E|[d [Hin Hm]]]; try assumption; [congruence|].
  now apply (Hd d Hin).
Qed.

(* ================================================================ histories *)

Lemma nth_error_firstn_lt {A} (l : list A) n j : (j < n)%nat -> nth_error (firstn n l) j = nth_error l j.
Proof.
  revert n j. induction l as [|x l IH]; intros n j H.
  - rewrite firstn_nil. reflexivity.
  - destruct n as [|n]; [lia|]. destruct j as [|j]; [reflexivity|]. cbn [firstn nth_error]. apply IH. lia.
Qed.

Lemma firstn_snoc_le {A} (l : list A) x n : (n <= length l)%nat -> firstn n (l ++ [x]) = firstn n l.
Proof. intros H. rewrite firstn_app. replace (n - length l)%nat with O by lia. cbn [firstn]. apply app_nil_r. Qed.

Lemma nth_error_snoc {A} (l : list A) x n e :
  nth_error (l ++ [x]) n = Some e ->
  ((n < length l)%nat /\ nth_error l n = Some e) \/ (n = length l /\ e = x).
Proof.
  intros H. destruct (Nat.lt_ge_cases n (length l)) as [L|L].
  - left. split; [exact L|]. now rewrite nth_error_app1 in H.
  - right. rewrite nth_error_app2 in H by exact L.
    destruct (n - length l)%nat as [|k] eqn:E.
    + cbn in H. injection H as <-. split; [lia|reflexivity].
    + cbn in H. destruct k; discriminate.
Qed.

Section History.

Variable fkey : N -> N.
Variable sha : N -> N -> str.
Variable isec : N -> N.
Variable a : appkind.
Variable i : iface.

Notation etag_of := (etag_of fkey sha).
Notation full_response := (full_response fkey sha isec).
Notation file_response := (file_response fkey sha isec).
Notation serve := (serve fkey sha isec).
Notation step := (step fkey sha isec a i).
Notation run_from := (run_from fkey sha isec a i).
Notation run := (run fkey sha isec a i).

Lemma serve_file_response f inm ims : serve a i f inm ims = file_response f inm ims.
Proof. destruct a, i; reflexivity. Qed.

(* what the entry at position n of a log must be *)
Definition entry_ok (log : list entry) (n : nat) (e : entry) : Prop :=
  wf_file (e_file e) /\
  e_resp e = file_response (e_file e) (render_inm (firstn n log) (e_j e) (e_inm e))
                                      (render_ims (firstn n log) (e_j e) (e_ims e)).

Definition before_eq (e1 e2 : entry) : Prop :=
  (e_gen e1 <= e_gen e2)%nat /\
  (e_gen e1 = e_gen e2 -> e_file e1 = e_file e2) /\
  f_ctime (e_file e1) <= f_ctime (e_file e2).

Definition inv (st : world * list entry) : Prop :=
  let (w, log) := st in
  wf_world w /\
  (forall n e, nth_error log n = Some e ->
     entry_ok log n e /\
     (e_gen e <= w_gen w)%nat /\ (e_gen e = w_gen w -> e_file e = w_file w) /\
     f_ctime (e_file e) <= f_ctime (w_file w)) /\
  (forall n m en em, (n <= m)%nat -> nth_error log n = Some en -> nth_error log m = Some em ->
     before_eq en em).

Lemma inv_step st o : inv st -> inv (step st o).
Proof.
  destruct st as [w log]. intros (W & E & P). destruct W as [Wf Wn]. unfold wf_file in Wf.
  destruct o as [dt sz|dt|dt sz|dt back|dt|j si sm]; unfold Model.step; cbn [Model.step_with].
  1-4: (split; [|split];
        [ unfold wf_world, wf_file; cbn; lia
        | intros n e H; destruct (E n e H) as (Ok & G & _ & M); split; [exact Ok|]; cbn;
          split; [lia|]; split; [lia|lia]
        | exact P ]).
  - (* Wait *)
    split; [|split].
    + split; cbn; [exact Wf|lia].
    + exact E.
    + exact P.
  - (* Req *)
    set (x := mkE (w_gen w) (w_file w) j si sm
                  (Model.serve fkey sha isec a i (w_file w) (render_inm log j si) (render_ims log j sm))).
    assert (Xok : entry_ok (log ++ [x]) (length log) x).
    { split; [exact Wf|]. subst x. cbn [e_resp e_file e_j e_inm e_ims].
      rewrite firstn_app, firstn_all, Nat.sub_diag. cbn [firstn]. rewrite app_nil_r.
      apply serve_file_response. }
    split; [|split].
    + split; assumption.
    + intros n e H. apply nth_error_snoc in H as [[L H]|[-> ->]].
      * destruct (E n e H) as ((Ok1 & Ok2) & R). split; [|exact R].
        split; [exact Ok1|]. rewrite firstn_snoc_le by lia. exact Ok2.
      * split; [exact Xok|]. subst x. cbn. split; [lia|]. split; [reflexivity|lia].
    + intros n m en em L Hn Hm.
      apply nth_error_snoc in Hm as [[Lm Hm]|[-> ->]].
      * apply nth_error_snoc in Hn as [[Ln Hn]|[-> _]]; [|lia]. exact (P n m en em L Hn Hm).
      * apply nth_error_snoc in Hn as [[Ln Hn]|[_ ->]].
        -- destruct (E n en Hn) as (_ & G1 & G2 & G3). subst x. unfold before_eq. cbn. auto.
        -- unfold before_eq. split; [lia|]. split; [reflexivity|lia].
Qed.

Lemma inv_run_from ops : forall st, inv st -> inv (run_from st ops).
Proof.
  induction ops as [|o ops IH]; intros st H; [exact H|].
  unfold Model.run_from. cbn [fold_left]. apply (IH (step st o)). now apply inv_step.
Qed.

Lemma inv_run w ops : wf_world w -> inv (w, []) /\ inv (run_from (w, []) ops).
Proof.
  intros W. assert (I0 : inv (w, [])).
  { split; [exact W|]. split; [intros n e H; destruct n; discriminate|intros n m en em _ H; destruct n; discriminate]. }
  split; [exact I0|]. now apply inv_run_from.
Qed.

(* facts about the final log, in the form the theorems use *)
Lemma run_facts w ops n en :
  wf_world w -> nth_error (run w ops) n = Some en ->
  wf_file (e_file en) /\
  e_resp en = file_response (e_file en) (render_inm (firstn n (run w ops)) (e_j en) (e_inm en))
                                        (render_ims (firstn n (run w ops)) (e_j en) (e_ims en)).
Proof.
  intros W H. destruct (inv_run w ops W) as [_ I]. unfold Model.run in *.
  destruct (run_from (w, []) ops) as [w' log]. cbn [snd] in *.
  destruct I as (_ & E & _). exact (proj1 (E n en H)).
Qed.

Lemma run_order w ops n m en em :
  wf_world w -> (n <= m)%nat -> nth_error (run w ops) n = Some en -> nth_error (run w ops) m = Some em ->
  before_eq en em.
Proof.
  intros W L Hn Hm. destruct (inv_run w ops W) as [_ I]. unfold Model.run in *.
  destruct (run_from (w, []) ops) as [w' log]. cbn [snd] in *.
  destruct I as (_ & _ & P). exact (P n m en em L Hn Hm).
Qed.

(* a response is one of the two *)
Lemma file_response_cases f inm ims :
  (file_response f inm ims = not_modified) \/ (file_response f inm ims = full_response f).
Proof. unfold Model.file_response. destruct (match inm with [] => _ | _ => _ end); auto. Qed.

Lemma status_200_full w ops n en :
  wf_world w -> nth_error (run w ops) n = Some en -> r_status (e_resp en) = 200 ->
  e_resp en = full_response (e_file en).
Proof.
  intros W H S. destruct (run_facts w ops n en W H) as [_ R].
  destruct (file_response_cases (e_file en) (render_inm (firstn n (run w ops)) (e_j en) (e_inm en))
              (render_ims (firstn n (run w ops)) (e_j en) (e_ims en))) as [C|C]; rewrite C in R.
  - rewrite R in S. discriminate.
  - exact R.
Qed.

Lemma status_304_nm w ops n en :
  wf_world w -> nth_error (run w ops) n = Some en -> r_status (e_resp en) = 304 ->
  e_resp en = not_modified.
Proof.
  intros W H S. destruct (run_facts w ops n en W H) as [_ R].
  destruct (file_response_cases (e_file en) (render_inm (firstn n (run w ops)) (e_j en) (e_inm en))
              (render_ims (firstn n (run w ops)) (e_j en) (e_ims en))) as [C|C]; rewrite C in R.
  - exact R.
  - rewrite R in S. discriminate.
Qed.

(* the validators a request takes from an earlier full response *)
Lemma etag_at_200 w ops n j ej :
  wf_world w -> (j < n)%nat -> nth_error (run w ops) j = Some ej -> r_status (e_resp ej) = 200 ->
  etag_at (firstn n (run w ops)) j = Some (quote (etag_of (e_file ej))) /\
  lm_at (firstn n (run w ops)) j = Some (isec (f_mtime (e_file ej))).
Proof.
  intros W L H S. unfold etag_at, lm_at. rewrite (nth_error_firstn_lt _ _ _ L), H.
  rewrite (status_200_full w ops j ej W H S). split; reflexivity.
Qed.

Lemma render_tmpl w ops n j ej b ws1 wk ws2 af :
  wf_world w -> (j < n)%nat -> nth_error (run w ops) j = Some ej -> r_status (e_resp ej) = 200 ->
  render_inm (firstn n (run w ops)) j (ITmpl b ws1 wk ws2 af) = tmpl_header b ws1 wk (etag_of (e_file ej)) ws2 af.
Proof.
  intros W L H S. unfold render_inm. now rewrite (proj1 (etag_at_200 w ops n j ej W L H S)).
Qed.

Lemma tmpl_header_nonempty b ws1 wk e ws2 af : tmpl_header b ws1 wk e ws2 af <> [].
Proof.
  unfold tmpl_header. cbn [app]. apply join_nonempty. intros E.
  pose proof (target_has_quote ws1 wk e ws2) as Q. rewrite E in Q. destruct Q.
Qed.

Lemma file_response_inm f h ims :
  h <> [] -> file_response f h ims = if if_none_match (etag_of f) h then not_modified else full_response f.
Proof. intros Hh. unfold Model.file_response. destruct h; [congruence|reflexivity]. Qed.

Lemma file_response_ims f ims :
  file_response f [] ims = if if_modified_since (Z.of_N (isec (f_ctime f))) ims then not_modified else full_response f.
Proof. reflexivity. Qed.

Lemma full_not_304 f : r_status (full_response f) = 304 -> False.
Proof. cbn. discriminate. Qed.

(* ---------------- the date decision; lm_floor ---------------- *)

(* a date-only request with the Last-Modified of the full response j *)
Lemma date_decision_l w ops n en ej :
  wf_world w ->
  nth_error (run w ops) n = Some en ->
  (e_j en < n)%nat -> nth_error (run w ops) (e_j en) = Some ej -> r_status (e_resp ej) = 200 ->
  e_inm en = INone -> e_ims en = MLm ->
  (isec (f_ctime (e_file en)) <= isec (f_mtime (e_file ej)) -> e_resp en = not_modified) /\
  (isec (f_mtime (e_file ej)) < isec (f_ctime (e_file en)) -> e_resp en = full_response (e_file en)).
Proof.
  intros W Hn L Hj Sj Ei Em. destruct (run_facts w ops n en W Hn) as [Wf R].
  rewrite Ei, Em in R. cbn [render_inm render_ims] in R.
  rewrite (proj2 (etag_at_200 w ops n (e_j en) ej W L Hj Sj)) in R.
  rewrite file_response_ims in R. cbn [if_modified_since] in R.
  split; intros C.
  - assert (T : (Z.of_N (isec (f_ctime (e_file en))) <=? Z.of_N (isec (f_mtime (e_file ej))))%Z = true)
      by (apply Z.leb_le; lia).
    rewrite T in R. exact R.
  - assert (T : (Z.of_N (isec (f_ctime (e_file en))) <=? Z.of_N (isec (f_mtime (e_file ej))))%Z = false)
      by (apply Z.leb_gt; lia).
    rewrite T in R. exact R.
Qed.

Lemma lm_floor_l w ops n en :
  wf_world w ->
  nth_error (run w ops) n = Some en ->
  (r_status (e_resp en) = 200 ->
     e_resp en = full_response (e_file en) /\ r_lm (e_resp en) = Some (isec (f_mtime (e_file en)))) /\
  (e_inm en = INone -> e_ims en = MNone -> e_resp en = full_response (e_file en)) /\
  (forall ej,
     (e_j en < n)%nat -> nth_error (run w ops) (e_j en) = Some ej -> r_status (e_resp ej) = 200 ->
     e_gen en = e_gen ej -> e_inm en = INone -> e_ims en = MLm ->
     isec (f_ctime (e_file en)) <= isec (f_mtime (e_file en)) ->
     e_resp en = not_modified).
Proof.
  intros W Hn. destruct (run_facts w ops n en W Hn) as [Wf R]. split; [|split].
  - intros S. rewrite (status_200_full w ops n en W Hn S). split; reflexivity.
  - intros Ei Em. rewrite Ei, Em in R. exact R.
  - intros ej L Hj Sj G Ei Em C.
    assert (O := run_order w ops (e_j en) n ej en W ltac:(lia) Hj Hn). destruct O as (_ & O & _).
    apply (proj1 (date_decision_l w ops n en ej W Hn L Hj Sj Ei Em)).
    rewrite (O (eq_sym G)). exact C.
Qed.

(* a 304 to the date alone: the change time has not left the second Last-Modified named *)
Lemma date_304_same_second_l (isec_mono : second_monotone isec) w ops n en ej :
  wf_world w ->
  nth_error (run w ops) n = Some en -> r_status (e_resp en) = 304 ->
  (e_j en < n)%nat -> nth_error (run w ops) (e_j en) = Some ej -> r_status (e_resp ej) = 200 ->
  e_inm en = INone -> e_ims en = MLm ->
  isec (f_ctime (e_file en)) = isec (f_ctime (e_file ej)) /\
  isec (f_ctime (e_file ej)) = isec (f_mtime (e_file ej)).
Proof.
  intros W Hn S L Hj Sj Ei Em.
  destruct (N.le_gt_cases (isec (f_ctime (e_file en))) (isec (f_mtime (e_file ej)))) as [C|C].
  - assert (O := run_order w ops (e_j en) n ej en W ltac:(lia) Hj Hn). destruct O as (_ & _ & O).
    destruct (run_facts w ops (e_j en) ej W Hj) as [Wfj _]. unfold wf_file in Wfj.
    pose proof (isec_mono _ _ O). pose proof (isec_mono _ _ Wfj). lia.
  - rewrite (proj2 (date_decision_l w ops n en ej W Hn L Hj Sj Ei Em) C) in S. cbn in S. discriminate.
Qed.

(* a 304 to the date alone: no change of any kind a second or more after response j *)
Lemma date_304_unchanged_l (isec_mono : second_monotone isec) (isec_step : second_steps isec) w ops n en ej :
  wf_world w ->
  nth_error (run w ops) n = Some en -> r_status (e_resp en) = 304 ->
  (e_j en < n)%nat -> nth_error (run w ops) (e_j en) = Some ej -> r_status (e_resp ej) = 200 ->
  e_inm en = INone -> e_ims en = MLm ->
  f_ctime (e_file ej) <= f_ctime (e_file en) /\ f_ctime (e_file en) < f_ctime (e_file ej) + ns_per_s /\
  isec (f_ctime (e_file en)) = isec (f_mtime (e_file ej)).
Proof.
  intros W Hn S L Hj Sj Ei Em.
  destruct (date_304_same_second_l isec_mono w ops n en ej W Hn S L Hj Sj Ei Em) as [E1 E2].
  assert (O := run_order w ops (e_j en) n ej en W ltac:(lia) Hj Hn). destruct O as (_ & _ & O).
  split; [exact O|]. split; [|congruence].
  destruct (N.lt_ge_cases (f_ctime (e_file en)) (f_ctime (e_file ej) + ns_per_s)) as [C|C]; [exact C|].
  pose proof (isec_step _ _ C). lia.
Qed.

Hypothesis sha_inj : sha_injective sha.
Hypothesis sha_hex : sha_hexdigest sha.

Lemma etag_hex f : hexlike (etag_of f).
Proof. apply sha_hex. Qed.

Lemma etag_eq_inv f g : etag_of f = etag_of g -> fkey (f_mtime f) = fkey (f_mtime g) /\ f_size f = f_size g.
Proof. apply sha_inj. Qed.

Lemma quote_inj e1 e2 : quote e1 = quote e2 -> e1 = e2.
Proof. unfold quote. intros H. injection H as H. now apply app_inv_tail in H. Qed.

(* ---------------- no_stale_304 ---------------- *)

Lemma no_stale_304_l (isec_mono : second_monotone isec) w ops n en ej :
  wf_world w ->
  nth_error (run w ops) n = Some en -> r_status (e_resp en) = 304 ->
  (e_j en < n)%nat -> nth_error (run w ops) (e_j en) = Some ej -> r_status (e_resp ej) = 200 ->
  (forall b ws1 wk ws2 af, e_inm en = ITmpl b ws1 wk ws2 af -> wf_tmpl b ws1 ws2 af ->
     (fkey (f_mtime (e_file en)) = fkey (f_mtime (e_file ej)) /\ f_size (e_file en) = f_size (e_file ej))
     \/ exists d, In d (b ++ af) /\ member_norm d = etag_of (e_file en))
  /\
  (e_inm en = INone -> e_ims en = MLm ->
     isec (f_ctime (e_file en)) = isec (f_ctime (e_file ej)) /\
     isec (f_ctime (e_file ej)) = isec (f_mtime (e_file ej))).
Proof.
  intros W Hn S L Hj Sj. destruct (run_facts w ops n en W Hn) as [Wf R]. split.
  - intros b ws1 wk ws2 af Ei Wt. rewrite Ei in R.
    rewrite (render_tmpl w ops n (e_j en) ej b ws1 wk ws2 af W L Hj Sj) in R.
    rewrite file_response_inm in R by apply tmpl_header_nonempty.
    destruct (if_none_match (etag_of (e_file en)) (tmpl_header b ws1 wk (etag_of (e_file ej)) ws2 af)) eqn:M.
    + apply tmpl_sound in M as [M|M]; [left; now apply etag_eq_inv|right; exact M|exact Wt|apply etag_hex].
    + rewrite R in S. cbn in S. discriminate.
  - intros Ei Em. exact (date_304_same_second_l isec_mono w ops n en ej W Hn S L Hj Sj Ei Em).
Qed.

(* ---------------- fresh_after_change ---------------- *)

Lemma fresh_after_change_l (fkey_sep : float_separates_seconds fkey)
      (isec_mono : second_monotone isec) (isec_step : second_steps isec) w ops n en ej :
  wf_world w ->
  nth_error (run w ops) n = Some en ->
  (e_j en < n)%nat -> nth_error (run w ops) (e_j en) = Some ej -> r_status (e_resp ej) = 200 ->
  (forall b ws1 wk ws2 af, e_inm en = ITmpl b ws1 wk ws2 af -> wf_tmpl b ws1 ws2 af ->
     decoys_miss (etag_of (e_file en)) (b ++ af) ->
     f_size (e_file en) <> f_size (e_file ej) \/
     f_mtime (e_file ej) + ns_per_s <= f_mtime (e_file en) \/
     f_mtime (e_file en) + ns_per_s <= f_mtime (e_file ej) ->
     e_resp en = full_response (e_file en) /\ r_etag (e_resp en) <> r_etag (e_resp ej))
  /\
  (e_inm en = INone -> e_ims en = MLm ->
     f_ctime (e_file ej) + ns_per_s <= f_ctime (e_file en) ->
     e_resp en = full_response (e_file en)).
Proof.
  intros W Hn L Hj Sj. destruct (run_facts w ops n en W Hn) as [Wf R].
  assert (Fj := status_200_full w ops (e_j en) ej W Hj Sj).
  assert (Ne : f_size (e_file en) <> f_size (e_file ej) \/
               f_mtime (e_file ej) + ns_per_s <= f_mtime (e_file en) \/
               f_mtime (e_file en) + ns_per_s <= f_mtime (e_file ej) ->
               etag_of (e_file en) <> etag_of (e_file ej)).
  { intros C E. apply etag_eq_inv in E as [E1 E2]. destruct C as [C|[C|C]]; [congruence| |].
    - apply (fkey_sep _ _ C). now symmetry.
    - now apply (fkey_sep _ _ C). }
  split.
  - intros b ws1 wk ws2 af Ei Wt Dm C. rewrite Ei in R.
    rewrite (render_tmpl w ops n (e_j en) ej b ws1 wk ws2 af W L Hj Sj) in R.
    rewrite file_response_inm in R by apply tmpl_header_nonempty.
    rewrite (tmpl_misses _ _ _ _ _ _ _ Wt (etag_hex _) (Ne C) Dm) in R.
    split; [exact R|]. rewrite R, Fj. cbn. intros E. injection E as E. apply app_inv_tail in E. now apply (Ne C).
  - intros Ei Em C.
    apply (proj2 (date_decision_l w ops n en ej W Hn L Hj Sj Ei Em)).
    destruct (run_facts w ops (e_j en) ej W Hj) as [Wfj _]. unfold wf_file in Wfj.
    pose proof (isec_mono _ _ Wfj). pose proof (isec_step _ _ C). lia.
Qed.

(* ---------------- etag_revalidates ---------------- *)

Lemma etag_revalidates_l w ops n en :
  wf_world w ->
  nth_error (run w ops) n = Some en ->
  (e_inm en = IRaw [42] -> e_resp en = not_modified)
  /\
  (forall ej b ws1 wk ws2 af,
     (e_j en < n)%nat -> nth_error (run w ops) (e_j en) = Some ej -> r_status (e_resp ej) = 200 ->
     e_gen en = e_gen ej ->
     e_inm en = ITmpl b ws1 wk ws2 af -> wf_tmpl b ws1 ws2 af ->
     e_resp en = not_modified).
Proof.
  intros W Hn. destruct (run_facts w ops n en W Hn) as [Wf R]. split.
  - intros Ei. rewrite Ei in R. cbn [render_inm] in R. exact R.
  - intros ej b ws1 wk ws2 af L Hj Sj G Ei Wt. rewrite Ei in R.
    rewrite (render_tmpl w ops n (e_j en) ej b ws1 wk ws2 af W L Hj Sj) in R.
    rewrite file_response_inm in R by apply tmpl_header_nonempty.
    assert (O := run_order w ops (e_j en) n ej en W ltac:(lia) Hj Hn). destruct O as (_ & O & _).
    rewrite <- (O (eq_sym G)) in R.
    rewrite (tmpl_matches_own _ _ _ _ _ _ Wt (etag_hex _)) in R. exact R.
Qed.

End History.

(* ================================================================ the premises can be met; an example *)

Definition ex_fkey (t : N) : N := t.
Definition ex_isec (t : N) : N := t / ns_per_s.
Definition ex_sha (k s : N) : str := dec k ++ 97 :: dec s.

Lemma uint_digits_inj u : forall v, uint_digits u = uint_digits v -> u = v.
Proof.
  induction u; destruct v; cbn [uint_digits]; intros H; try discriminate; try reflexivity;
    injection H as H; f_equal; auto.
Qed.

Lemma dec_inj n m : dec n = dec m -> n = m.
Proof.
  unfold dec. intros H. apply uint_digits_inj in H.
  rewrite <- (DecimalN.Unsigned.of_to n), <- (DecimalN.Unsigned.of_to m). now rewrite H.
Qed.

Lemma uint_digits_range u : Forall (fun c => 48 <= c /\ c <= 57) (uint_digits u).
Proof. induction u; cbn [uint_digits]; constructor; try assumption; lia. Qed.

Lemma digits_no_sep l : Forall (fun c => 48 <= c /\ c <= 57) l -> ~ In 97 l.
Proof. intros F H. rewrite Forall_forall in F. apply F in H. lia. Qed.

Lemma digits_hexlike l : Forall (fun c => 48 <= c /\ c <= 57) l -> hexlike l.
Proof.
  unfold hexlike. induction 1 as [|c l Hc _ IH]; cbn [forallb]; [reflexivity|].
  rewrite IH. unfold is_hex. lia.
Qed.

Lemma sep_split (l1 : str) : forall l1' l2 l2',
  ~ In 97 l1 -> ~ In 97 l1' -> l1 ++ 97 :: l2 = l1' ++ 97 :: l2' -> l1 = l1' /\ l2 = l2'.
Proof.
  induction l1 as [|c l1 IH]; intros [|c' l1'] l2 l2' N1 N2 H; cbn [List.app] in H.
  - injection H as H. auto.
  - injection H as H _. exfalso. apply N2. left. now symmetry.
  - injection H as H _. exfalso. apply N1. now left.
  - injection H as Hc H. subst c'. destruct (IH l1' l2 l2') as [E1 E2]; try assumption.
    + intros I. apply N1. now right.
    + intros I. apply N2. now right.
    + subst. auto.
Qed.

Local Ltac Zify.zify_post_hook ::= Z.to_euclidean_division_equations.

Lemma ex_laws :
  sha_injective ex_sha /\ sha_hexdigest ex_sha /\ float_separates_seconds ex_fkey /\
  second_monotone ex_isec /\ second_steps ex_isec.
Proof.
  split; [|split; [|split; [|split]]].
  - intros k s k' s' H. unfold ex_sha in H.
    apply sep_split in H as [H1 H2]; try (apply digits_no_sep, uint_digits_range).
    split; now apply dec_inj.
  - intros k s. unfold ex_sha, hexlike, dec. rewrite forallb_app. cbn [forallb].
    rewrite (digits_hexlike _ (uint_digits_range _)), (digits_hexlike _ (uint_digits_range _)). reflexivity.
  - intros t t' H. unfold ex_fkey, ns_per_s in *. lia.
  - intros t t' H. unfold ex_isec, ns_per_s. lia.
  - intros t t' H. unfold ex_isec, ns_per_s in *. lia.
Qed.

(* a history: full response; unchanged -> 304 to the weak tag in a list; rewritten with another size in
   the same second -> full response to ETag + date; touched 0.4 s later -> the old date still gets 304
   (same second) but the tag does not; 1 s later the date gets a full response too *)
Definition ex_w0 : world := mkW 5300000000 O (mkF 1 8 5300000000 5300000000).
Definition ex_weak_in_list : inm_spec := ITmpl [[34; 120; 34]] [32] true [] [].
Definition ex_plain_tag : inm_spec := ITmpl [] [] false [] [].
Definition ex_ops : list op :=
  [ Req 0 INone MNone; Req 0 ex_weak_in_list MNone; Req 0 INone MLm; Req 0 (IRaw [42]) MNone;
    Rewrite 0 9; Req 0 ex_plain_tag MLm; Req 0 INone MNone;
    Touch 400000000; Req 5 INone MLm; Req 5 ex_plain_tag MNone;
    Touch 1000000000; Req 5 INone MLm ].

Lemma ex_history_l :
  map (fun e => (r_status (e_resp e), r_body (e_resp e), r_lm (e_resp e)))
      (run ex_fkey ex_sha ex_isec Files Wsgi ex_w0 ex_ops)
  = [ (200, Some (1, 8), Some 5); (304, None, None); (304, None, None); (304, None, None);
      (200, Some (2, 9), Some 5); (200, Some (2, 9), Some 5);
      (304, None, None); (200, Some (2, 9), Some 5);
      (200, Some (2, 9), Some 6) ].
Proof. vm_compute. reflexivity. Qed.

Lemma ex_w0_wf : wf_world ex_w0.
Proof. unfold wf_world, wf_file, ex_w0. cbn. lia. Qed.

(* the variant of file_response that compares the date with the modification time: the file is
   replaced 3 s after response 0 by one of another size carrying the old mtime *)
Definition ex_restore_ops : list op := [ Req 0 INone MNone; Restore 3000000000 9; Req 0 INone MLm ].

Lemma mtime_variant_refuted_l :
  exists fkey sha isec,
    (sha_injective sha /\ sha_hexdigest sha /\ float_separates_seconds fkey /\
     second_monotone isec /\ second_steps isec) /\
  exists w ops n en ej,
    wf_world w /\
    nth_error (run_with (file_response_mtime fkey sha isec) w ops) n = Some en /\
    (e_j en < n)%nat /\
    nth_error (run_with (file_response_mtime fkey sha isec) w ops) (e_j en) = Some ej /\
    r_status (e_resp ej) = 200 /\ e_inm en = INone /\ e_ims en = MLm /\
    f_ctime (e_file ej) + ns_per_s <= f_ctime (e_file en) /\
    f_size (e_file en) <> f_size (e_file ej) /\ f_ver (e_file en) <> f_ver (e_file ej) /\
    e_resp en = not_modified.
Proof.
  exists ex_fkey, ex_sha, ex_isec. split; [exact ex_laws|].
  exists ex_w0, ex_restore_ops, 1%nat.
  eexists. eexists. split; [exact ex_w0_wf|].
  split; [vm_compute; reflexivity|].
  split; [vm_compute; lia|]. split; [vm_compute; reflexivity|].
  repeat split; vm_compute; try reflexivity; try discriminate.
Qed.

(* the code itself answers that history with the full response of the new version *)
Lemma ex_restore_history_l :
  map (fun e => (r_status (e_resp e), r_body (e_resp e), r_lm (e_resp e)))
      (run ex_fkey ex_sha ex_isec Pages Asgi ex_w0 ex_restore_ops)
  = [ (200, Some (1, 8), Some 5); (200, Some (2, 9), Some 5) ].
Proof. vm_compute. reflexivity. Qed.
