(* C14 — source-level tie for BaseFiles.if_modified_since, BaseFiles.set_response_headers (baize/staticfiles.py) and for
   Files.file_response / Files.__call__ of baize/wsgi/staticfiles.py and baize/asgi/staticfiles.py.

   tools/py2coq_c14.py regenerates the Gallina definitions G.base_if_modified_since, G.base_set_response_headers,
   G.wsgi_file_response, G.wsgi_call, G.asgi_file_response, G.asgi_call from the CURRENT Python source on every check run
   (harness/c14.py: extra_obligations); this file is then re-checked by coqc against the fresh definitions (the two lines
   between the markers below are re-pointed at the fresh file; nothing else is changed).  GeneratedMore_ref.v is the committed
   copy of what the translator emitted for the source as it was when this file was written, so that the normal build checks the
   proofs too.

   What is not baize's is an argument of the generated functions (C14/PyLib.v says what each is):
     int_float, parsedate_timestamp (a float or TypeError / ValueError / OverflowError), generate_etag, st_ctime, st_mtime,
     ensure_absolute_path, check_path_is_file, handle_404_is_none, cacheability, max_age: the theorems quantify over them;
     self_if_none_match: quantified in the *_eq lemmas and in translated_304_only_if_validator_agrees, instantiated with
     C14.Model.if_none_match (= the translated BaseFiles.if_none_match, C14/Translated.v) in the *_decision_translated theorems;
     for the model's file states: F := N (a nanosecond timestamp), int_float := the model's isec, St := the model's fstate,
     generate_etag := the model's etag_of fkey sha, st_ctime := f_ctime, st_mtime := f_mtime — for every fkey, sha, isec. *)
From Coq Require Import List NArith ZArith Bool.
From Baize Require Import Lib.PyStr Lib.PyStrFacts C14.PyLib.
From Baize Require C14.Model.
(* GENERATED-BEGIN *)
From Baize Require C14.GeneratedMore_ref.
Module G := Baize.C14.GeneratedMore_ref.
(* GENERATED-END *)
Module M := Baize.C14.Model.
Import ListNotations.
Local Open Scope N_scope.

(* ---------- BaseFiles.if_modified_since ---------- *)

(* what the model's if_modified_since is given: int(parsedate_to_datetime(text).timestamp()), None when the text is empty or
   the library leaves with one of its three exceptions *)
Definition ims_view {F : Type} (int_float : F -> Z) (parse : list N -> F + dexc) (text : list N) : option Z :=
  match text with
  | [] => None
  | _ => match parse text with
         | inl f => Some (int_float f)
         | inr _ => None
         end
  end.

Lemma if_modified_since_translated_lemma :
  forall (F : Type) (int_float : F -> Z) (parse : list N -> F + dexc) (lm : F) (text : list N),
    G.base_if_modified_since int_float parse lm text
    = Ok (M.if_modified_since (int_float lm) (ims_view int_float parse text)).
Proof.
  intros F int_float parse lm text.
  destruct text as [|c r].
  - reflexivity.
  - cbv beta iota zeta delta [G.base_if_modified_since try_catch bind of_date str_truth is_empty negb ims_view M.if_modified_since].
    destruct (parse (c :: r)) as [f|d].
    + reflexivity.
    + destruct d; reflexivity.
Qed.

Theorem if_modified_since_translated :
  forall (F : Type) (int_float : F -> Z) (parse : list N -> F + dexc) (lm : F) (text : list N),
    G.base_if_modified_since int_float parse lm text
    = Ok (M.if_modified_since (int_float lm) (ims_view int_float parse text)).
Proof. exact if_modified_since_translated_lemma. Qed.
Print Assumptions if_modified_since_translated.

(* ---------- BaseFiles.set_response_headers ---------- *)

(* Cache-Control: <cacheability>, max-age=<max_age> and Vary: Accept-Encoding, User-Agent, Cookie, Referer *)
Definition std_headers (cacheability : list N) (max_age : Z) : list (list N * list N) :=
  [([67; 97; 99; 104; 101; 45; 67; 111; 110; 116; 114; 111; 108],
    cacheability ++ [44; 32; 109; 97; 120; 45; 97; 103; 101; 61] ++ str_int max_age);
   ([86; 97; 114; 121],
    [65; 99; 99; 101; 112; 116; 45; 69; 110; 99; 111; 100; 105; 110; 103; 44; 32; 85; 115; 101; 114; 45; 65; 103; 101; 110;
     116; 44; 32; 67; 111; 111; 107; 105; 101; 44; 32; 82; 101; 102; 101; 114; 101; 114])].

Lemma set_response_headers_translated_lemma :
  forall (P St : Type) (cacheability : list N) (max_age : Z) (r : presp P St),
    G.base_set_response_headers cacheability max_age r = mkResp (rk r) (rh r ++ std_headers cacheability max_age).
Proof.
  intros P St cacheability max_age r.
  cbv beta iota zeta delta [G.base_set_response_headers headers_append rk rh std_headers].
  destruct r as [k h]. rewrite <- !app_assoc. reflexivity.
Qed.

Theorem set_response_headers_translated :
  forall (P St : Type) (cacheability : list N) (max_age : Z) (r : presp P St),
    G.base_set_response_headers cacheability max_age r = mkResp (rk r) (rh r ++ std_headers cacheability max_age).
Proof. exact set_response_headers_translated_lemma. Qed.
Print Assumptions set_response_headers_translated.

(* ---------- Files.file_response ---------- *)

(* the validator that decides: If-None-Match when it is there, If-Modified-Since otherwise *)
Definition validator {F St : Type} (int_float : F -> Z) (parse : list N -> F + dexc) (generate_etag : St -> list N)
           (st_ctime : St -> F) (inm_fn : list N -> list N -> bool) (st : St) (inm text : list N) : bool :=
  match inm with
  | [] => M.if_modified_since (int_float (st_ctime st)) (ims_view int_float parse text)
  | _ => inm_fn (generate_etag st) inm
  end.

Definition file_response_spec {F P St : Type} (int_float : F -> Z) (parse : list N -> F + dexc) (generate_etag : St -> list N)
           (st_ctime : St -> F) (inm_fn : list N -> list N -> bool) (cacheability : list N) (max_age : Z)
           (p : P) (st : St) (inm text : list N) : presp P St :=
  mkResp (if validator int_float parse generate_etag st_ctime inm_fn st inm text then KStatus 304 else KFile p st)
         (std_headers cacheability max_age).

Lemma wsgi_file_response_eq :
  forall (F P St : Type) int_float parse generate_etag st_ctime (st_mtime : St -> F) inm_fn cacheability max_age (p : P) (st : St) inm text,
    G.wsgi_file_response (F:=F) int_float parse generate_etag st_ctime st_mtime inm_fn cacheability max_age p st inm text
    = Ok (file_response_spec int_float parse generate_etag st_ctime inm_fn cacheability max_age p st inm text).
Proof.
  intros. unfold G.wsgi_file_response, file_response_spec, validator.
  rewrite if_modified_since_translated_lemma.
  destruct inm as [|c r]; cbv beta iota zeta delta [str_truth is_empty negb bind];
    match goal with |- (if ?b then _ else _) = _ => destruct b end;
    rewrite set_response_headers_translated_lemma; reflexivity.
Qed.

Lemma asgi_file_response_eq :
  forall (F P St : Type) int_float parse generate_etag st_ctime (st_mtime : St -> F) inm_fn cacheability max_age (p : P) (st : St) inm text,
    G.asgi_file_response (F:=F) int_float parse generate_etag st_ctime st_mtime inm_fn cacheability max_age p st inm text
    = Ok (file_response_spec int_float parse generate_etag st_ctime inm_fn cacheability max_age p st inm text).
Proof.
  intros. unfold G.asgi_file_response, file_response_spec, validator.
  rewrite if_modified_since_translated_lemma.
  destruct inm as [|c r]; cbv beta iota zeta delta [str_truth is_empty negb bind];
    match goal with |- (if ?b then _ else _) = _ => destruct b end;
    rewrite set_response_headers_translated_lemma; reflexivity.
Qed.

(* ---------- Files.__call__ ---------- *)

Definition call_spec {F P St : Type} (int_float : F -> Z) (parse : list N -> F + dexc) (generate_etag : St -> list N)
           (st_ctime : St -> F) (inm_fn : list N -> list N -> bool) (cacheability : list N) (max_age : Z)
           (ensure : list N -> option P) (check : option P -> option St * bool) (h404_none : bool)
           (path inm text : list N) : res (action P St) :=
  match check (ensure path) with
  | (Some st, true) =>
      match ensure path with
      | None => Raise EAssertion      (* assert filepath is not None; check_path_is_file never answers a file for None *)
      | Some p => Ok (ACall (file_response_spec int_float parse generate_etag st_ctime inm_fn cacheability max_age p st inm text))
      end
  | _ => if h404_none then Raise (EHTTP 404) else Ok AHandle404
  end.

Definition k_path_info : list N := [80; 65; 84; 72; 95; 73; 78; 70; 79].
Definition k_http_inm : list N := [72; 84; 84; 80; 95; 73; 70; 95; 78; 79; 78; 69; 95; 77; 65; 84; 67; 72].
Definition k_http_ims : list N := [72; 84; 84; 80; 95; 73; 70; 95; 77; 79; 68; 73; 70; 73; 69; 68; 95; 83; 73; 78; 67; 69].
Definition h_inm : list N := [105; 102; 45; 110; 111; 110; 101; 45; 109; 97; 116; 99; 104].
Definition h_ims : list N := [105; 102; 45; 109; 111; 100; 105; 102; 105; 101; 100; 45; 115; 105; 110; 99; 101].

Lemma wsgi_call_eq :
  forall (F P St : Type) int_float parse generate_etag st_ctime (st_mtime : St -> F) inm_fn cacheability max_age
         (ensure : list N -> option P) (check : option P -> option St * bool) h404 environ,
    G.wsgi_call (F:=F) int_float parse generate_etag st_ctime st_mtime inm_fn cacheability max_age ensure check h404 environ
    = call_spec int_float parse generate_etag st_ctime inm_fn cacheability max_age ensure check h404
                (dict_get_default environ k_path_info []) (dict_get_default environ k_http_inm [])
                (dict_get_default environ k_http_ims []).
Proof.
  intros. unfold G.wsgi_call, call_spec, k_path_info, k_http_inm, k_http_ims.
  cbv zeta.
  destruct (ensure _) as [p|]; destruct (check _) as [[st|] [|]]; cbv beta iota delta [opt_and];
    rewrite ?wsgi_file_response_eq; reflexivity.
Qed.

(* the value of the last header with this name, [dflt] when there is none *)
Definition hdr_last (name : list N) (hs : list (list N * list N)) (dflt : list N) : list N :=
  fold_left (fun acc kv => if str_eqb (fst kv) name then decode_latin1 (snd kv) else acc) hs dflt.

Lemma fold_pair :
  forall (A B C : Type) (f : A * B -> C -> A * B) (g : A -> C -> A) (h : B -> C -> B),
    (forall a b c, f (a, b) c = (g a c, h b c)) ->
    forall l a b, fold_left f l (a, b) = (fold_left g l a, fold_left h l b).
Proof.
  intros A B C f g h Hf. induction l as [|c l IH]; intros a b; [reflexivity|].
  cbn [fold_left]. rewrite Hf. apply IH.
Qed.

Lemma names_differ : forall k, str_eqb k h_inm = true -> str_eqb k h_ims = true -> False.
Proof.
  intros k H1 H2. apply str_eqb_eq in H1. apply str_eqb_eq in H2. subst k. discriminate H2.
Qed.

Lemma asgi_call_eq :
  forall (F P St : Type) int_float parse generate_etag st_ctime (st_mtime : St -> F) inm_fn cacheability max_age
         (ensure : list N -> option P) (check : option P -> option St * bool) h404 hs path,
    G.asgi_call (F:=F) int_float parse generate_etag st_ctime st_mtime inm_fn cacheability max_age ensure check h404 hs path
    = call_spec int_float parse generate_etag st_ctime inm_fn cacheability max_age ensure check h404
                path (hdr_last h_inm hs []) (hdr_last h_ims hs []).
Proof.
  intros. unfold G.asgi_call, call_spec.
  cbv zeta.
  rewrite (fold_pair _ _ _ _
             (fun acc kv => if str_eqb (fst kv) h_ims then decode_latin1 (snd kv) else acc)
             (fun acc kv => if str_eqb (fst kv) h_inm then decode_latin1 (snd kv) else acc)).
  - fold (hdr_last h_ims hs []). fold (hdr_last h_inm hs []).
    destruct (ensure _) as [p|]; destruct (check _) as [[st|] [|]]; cbv beta iota delta [opt_and];
      rewrite ?asgi_file_response_eq; reflexivity.
  - intros a b [k v]. cbv beta iota delta [fst snd].
    fold h_inm. fold h_ims.
    destruct (str_eqb k h_inm) eqn:E1; destruct (str_eqb k h_ims) eqn:E2; try reflexivity.
    exfalso. exact (names_differ k E1 E2).
Qed.

(* ---------- translated = model ---------- *)

Section Model.

Variable fkey : N -> N.
Variable sha : N -> N -> M.str.
Variable isec : N -> N.
Variable P : Type.
Variable parse : list N -> N + dexc.

(* int(<float of a nanosecond timestamp>) *)
Definition int_ns (t : N) : Z := Z.of_N (isec t).

(* the model's response behind a translated one *)
Definition resp_of (r : presp P M.fstate) : M.resp :=
  match rk r with
  | KStatus c => M.mkR c None None None
  | KFile _ f => M.full_response fkey sha isec f
  end.

(* the translated response for a model response: Response(304) for status 304, FileResponse(p, stat_result=f) otherwise *)
Definition resp_from_model (p : P) (f : M.fstate) (r : M.resp) (hs : list (list N * list N)) : presp P M.fstate :=
  mkResp (if N.eqb (M.r_status r) 304 then KStatus 304 else KFile p f) hs.

Lemma spec_is_model :
  forall cacheability max_age p f inm text,
    file_response_spec int_ns parse (M.etag_of fkey sha) M.f_ctime M.if_none_match cacheability max_age p f inm text
    = resp_from_model p f (M.file_response fkey sha isec f inm (ims_view int_ns parse text)) (std_headers cacheability max_age).
Proof.
  intros. unfold file_response_spec, resp_from_model, validator, M.file_response, int_ns.
  destruct inm as [|c r];
    match goal with |- context [if ?b then M.not_modified else _] => destruct b end; reflexivity.
Qed.

(* nothing is lost: the model's response is read back from the translated one *)
Lemma resp_roundtrip_lemma :
  forall p f inm ims hs,
    resp_of (resp_from_model p f (M.file_response fkey sha isec f inm ims) hs) = M.file_response fkey sha isec f inm ims.
Proof.
  intros. unfold resp_of, resp_from_model, M.file_response.
  match goal with |- context [if ?b then M.not_modified else _] => destruct b end; reflexivity.
Qed.

Lemma serve_is_file_response : forall a i f inm ims, M.serve fkey sha isec a i f inm ims = M.file_response fkey sha isec f inm ims.
Proof. intros [|] [|]; reflexivity. Qed.

(* what __call__ comes to, in the model's terms *)
Definition call_model (a : M.appkind) (i : M.iface) (cacheability : list N) (max_age : Z)
           (ensure : list N -> option P) (check : option P -> option M.fstate * bool) (h404_none : bool)
           (path inm text : list N) : res (action P M.fstate) :=
  match check (ensure path) with
  | (Some f, true) =>
      match ensure path with
      | None => Raise EAssertion
      | Some p => Ok (ACall (resp_from_model p f (M.serve fkey sha isec a i f inm (ims_view int_ns parse text))
                                             (std_headers cacheability max_age)))
      end
  | _ => if h404_none then Raise (EHTTP 404) else Ok AHandle404
  end.

Lemma call_spec_is_model :
  forall a i cacheability max_age ensure check h404 path inm text,
    call_spec int_ns parse (M.etag_of fkey sha) M.f_ctime M.if_none_match cacheability max_age ensure check h404 path inm text
    = call_model a i cacheability max_age ensure check h404 path inm text.
Proof.
  intros. unfold call_spec, call_model.
  destruct (ensure path) as [p|]; destruct (check _) as [[f|] [|]]; try reflexivity.
  rewrite spec_is_model, serve_is_file_response. reflexivity.
Qed.

Lemma wsgi_files_decision_translated_lemma :
  forall cacheability max_age ensure check h404 environ,
    G.wsgi_call int_ns parse (M.etag_of fkey sha) M.f_ctime M.f_mtime M.if_none_match cacheability max_age ensure check h404 environ
    = call_model M.Files M.Wsgi cacheability max_age ensure check h404
                 (dict_get_default environ k_path_info []) (dict_get_default environ k_http_inm [])
                 (dict_get_default environ k_http_ims []).
Proof. intros. rewrite wsgi_call_eq. apply call_spec_is_model. Qed.

Lemma asgi_files_decision_translated_lemma :
  forall cacheability max_age ensure check h404 hs path,
    G.asgi_call int_ns parse (M.etag_of fkey sha) M.f_ctime M.f_mtime M.if_none_match cacheability max_age ensure check h404 hs path
    = call_model M.Files M.Asgi cacheability max_age ensure check h404 path (hdr_last h_inm hs []) (hdr_last h_ims hs []).
Proof. intros. rewrite asgi_call_eq. apply call_spec_is_model. Qed.

End Model.

(* Files.__call__ of baize/wsgi/staticfiles.py: 404 / handle_404 unless the path resolves to a regular file; otherwise the
   response object called is the model's serve Files Wsgi on the two header texts of the environ, with the two headers of
   set_response_headers *)
Theorem wsgi_files_decision_translated :
  forall (fkey : N -> N) (sha : N -> N -> M.str) (isec : N -> N) (P : Type) (parse : list N -> N + dexc)
         cacheability max_age (ensure : list N -> option P) check h404 environ,
    G.wsgi_call (int_ns isec) parse (M.etag_of fkey sha) M.f_ctime M.f_mtime M.if_none_match cacheability max_age ensure check h404 environ
    = call_model fkey sha isec P parse M.Files M.Wsgi cacheability max_age ensure check h404
                 (dict_get_default environ k_path_info []) (dict_get_default environ k_http_inm [])
                 (dict_get_default environ k_http_ims []).
Proof. exact wsgi_files_decision_translated_lemma. Qed.
Print Assumptions wsgi_files_decision_translated.

(* Files.__call__ of baize/asgi/staticfiles.py: the same, the header texts being those of the last if-none-match /
   if-modified-since pair of scope["headers"] *)
Theorem asgi_files_decision_translated :
  forall (fkey : N -> N) (sha : N -> N -> M.str) (isec : N -> N) (P : Type) (parse : list N -> N + dexc)
         cacheability max_age (ensure : list N -> option P) check h404 hs path,
    G.asgi_call (int_ns isec) parse (M.etag_of fkey sha) M.f_ctime M.f_mtime M.if_none_match cacheability max_age ensure check h404 hs path
    = call_model fkey sha isec P parse M.Files M.Asgi cacheability max_age ensure check h404 path
                 (hdr_last h_inm hs []) (hdr_last h_ims hs []).
Proof. exact asgi_files_decision_translated_lemma. Qed.
Print Assumptions asgi_files_decision_translated.

Theorem resp_roundtrip :
  forall fkey sha isec (P : Type) (p : P) f inm ims hs,
    resp_of fkey sha isec P (resp_from_model P p f (M.file_response fkey sha isec f inm ims) hs)
    = M.file_response fkey sha isec f inm ims.
Proof. exact resp_roundtrip_lemma. Qed.
Print Assumptions resp_roundtrip.

(* ---------- from the translated definitions: a 304 only when the validator that counts says so ---------- *)

Lemma spec_304 :
  forall (F P St : Type) int_float parse generate_etag st_ctime inm_fn cacheability max_age
         (ensure : list N -> option P) (check : option P -> option St * bool) h404 path inm text r,
    call_spec (F:=F) int_float parse generate_etag st_ctime inm_fn cacheability max_age ensure check h404 path inm text
    = Ok (ACall r) ->
    rk r = KStatus 304 ->
    exists st, check (ensure path) = (Some st, true) /\
               ((inm <> [] /\ inm_fn (generate_etag st) inm = true) \/
                (inm = [] /\ G.base_if_modified_since int_float parse (st_ctime st) text = Ok true)).
Proof.
  intros F P St int_float parse generate_etag st_ctime inm_fn cacheability max_age ensure check h404 path inm text r Hc Hk.
  unfold call_spec in Hc.
  destruct (check (ensure path)) as [[st|] [|]].
  - destruct (ensure path) as [p|]; [|discriminate Hc].
    injection Hc as Hr. subst r. exists st. split; [reflexivity|].
    unfold file_response_spec in Hk. cbn [rk] in Hk.
    rewrite if_modified_since_translated_lemma.
    unfold validator in Hk.
    destruct inm as [|c l].
    + right. split; [reflexivity|].
      destruct (M.if_modified_since (int_float (st_ctime st)) (ims_view int_float parse text)); [reflexivity|discriminate Hk].
    + left. split; [discriminate|].
      destruct (inm_fn (generate_etag st) (c :: l)); [reflexivity|discriminate Hk].
  - destruct h404; discriminate Hc.
  - destruct h404; discriminate Hc.
  - destruct h404; discriminate Hc.
Qed.

(* whatever the library functions do: when the response object that Files.__call__ (WSGI, ASGI) calls is a 304, the path was
   a regular file with stat result st, and either If-None-Match is there and self.if_none_match(generate_etag(st), it) is
   True, or it is not there and the translated if_modified_since(st.st_ctime, If-Modified-Since) is True — If-Modified-Since is
   never consulted when If-None-Match is present *)
Theorem translated_304_only_if_validator_agrees :
  forall (F P St : Type) (int_float : F -> Z) (parse : list N -> F + dexc) (generate_etag : St -> list N) (st_ctime st_mtime : St -> F)
         (inm_fn : list N -> list N -> bool) cacheability max_age
         (ensure : list N -> option P) (check : option P -> option St * bool) h404,
    (forall environ r,
        G.wsgi_call int_float parse generate_etag st_ctime st_mtime inm_fn cacheability max_age ensure check h404 environ = Ok (ACall r) ->
        rk r = KStatus 304 ->
        let inm := dict_get_default environ k_http_inm [] in
        let text := dict_get_default environ k_http_ims [] in
        exists st, check (ensure (dict_get_default environ k_path_info [])) = (Some st, true) /\
                   ((inm <> [] /\ inm_fn (generate_etag st) inm = true) \/
                    (inm = [] /\ G.base_if_modified_since int_float parse (st_ctime st) text = Ok true))) /\
    (forall hs path r,
        G.asgi_call int_float parse generate_etag st_ctime st_mtime inm_fn cacheability max_age ensure check h404 hs path = Ok (ACall r) ->
        rk r = KStatus 304 ->
        let inm := hdr_last h_inm hs [] in
        let text := hdr_last h_ims hs [] in
        exists st, check (ensure path) = (Some st, true) /\
                   ((inm <> [] /\ inm_fn (generate_etag st) inm = true) \/
                    (inm = [] /\ G.base_if_modified_since int_float parse (st_ctime st) text = Ok true))).
Proof.
  intros. split.
  - intros environ r Hc Hk. rewrite wsgi_call_eq in Hc. exact (spec_304 _ _ _ _ _ _ _ _ _ _ _ _ _ _ _ _ _ Hc Hk).
  - intros hs path r Hc Hk. rewrite asgi_call_eq in Hc. exact (spec_304 _ _ _ _ _ _ _ _ _ _ _ _ _ _ _ _ _ Hc Hk).
Qed.
Print Assumptions translated_304_only_if_validator_agrees.
