(* C14 — conditional requests to the static-file applications.

   Anchors (repaired code):
     baize/staticfiles.py      BaseFiles.if_none_match, BaseFiles.if_modified_since
     baize/responses.py        FileResponseMixin.generate_etag, generate_common_headers
     baize/{wsgi,asgi}/staticfiles.py   Files.file_response (shared by Pages)

   What is baize's is modelled concretely: the If-None-Match string code
   (split at ",", strip, "W/" prefix, strip of the quote character, "*"), the one-second comparison of
   If-Modified-Since against int(st_ctime), the order of the 304/200 decision
   (If-Modified-Since is consulted only when If-None-Match is empty), the validators
   put on the full response.  What is not baize's enters as Section variables:
     fkey  : the float st_mtime CPython derives from the nanosecond timestamp,
     sha   : the SHA-1 hex digest of the text "<float>-<size>", as a function of
             (float, size),
     isec  : int(<float timestamp>), the whole second of a nanosecond timestamp as
             the code sees it (also the second printed by formatdate(int(st_mtime))).
   Time is in nanoseconds on a virtual clock.  Strings are lists of code points. *)
From Coq Require Import List NArith ZArith Bool.
Import ListNotations.
Local Open Scope N_scope.

Definition str := list N.

(* ---------- str methods used by if_none_match ---------- *)

(* str.isspace(), i.e. what str.strip() removes *)
Definition is_uspace (c : N) : bool :=
  (N.leb 9 c && N.leb c 13) || (N.leb 28 c && N.leb c 32) || N.eqb c 133 || N.eqb c 160 ||
  N.eqb c 5760 || (N.leb 8192 c && N.leb c 8202) || N.eqb c 8232 || N.eqb c 8233 ||
  N.eqb c 8239 || N.eqb c 8287 || N.eqb c 12288.

Definition is_quote (c : N) : bool := N.eqb c 34.

Fixpoint lstrip (sp : N -> bool) (s : str) : str :=
  match s with
  | c :: r => if sp c then lstrip sp r else s
  | [] => []
  end.

Fixpoint rstrip (sp : N -> bool) (s : str) : str :=
  match s with
  | [] => []
  | c :: r =>
      match rstrip sp r with
      | [] => if sp c then [] else [c]
      | r' => c :: r'
      end
  end.

Definition strip (sp : N -> bool) (s : str) : str := rstrip sp (lstrip sp s).

Fixpoint str_eqb (a b : str) : bool :=
  match a, b with
  | [], [] => true
  | x :: a', y :: b' => N.eqb x y && str_eqb a' b'
  | _, _ => false
  end.

(* s.split(","): first member and the remaining members *)
Fixpoint split_comma_aux (s : str) : str * list str :=
  match s with
  | [] => ([], [])
  | c :: r =>
      let (w, ws) := split_comma_aux r in
      if N.eqb c 44 then ([], w :: ws) else (c :: w, ws)
  end.

Definition split_comma (s : str) : list str :=
  let (w, ws) := split_comma_aux s in w :: ws.

(* if i.startswith("W/"): i = i[2:] *)
Definition drop_weak (i : str) : str :=
  match i with
  | 87 :: 47 :: r => r
  | _ => i
  end.

(* what one member of the list is compared as *)
Definition member_norm (i : str) : str := strip is_quote (drop_weak (strip is_uspace i)).

(* BaseFiles.if_none_match(etag, if_none_match) *)
Definition if_none_match (etag h : str) : bool :=
  match h with
  | [] => false
  | _ =>
      if str_eqb h [42] then true
      else existsb (fun i => str_eqb etag (member_norm i)) (split_comma h)
  end.

(* BaseFiles.if_modified_since(last_modified, if_modified_since):
   [lm] is int(last_modified); [ims] is int(parsedate_to_datetime(text).timestamp()),
   None when the text is empty or not a date *)
Definition if_modified_since (lm : Z) (ims : option Z) : bool :=
  match ims with
  | None => false
  | Some p => (lm <=? p)%Z
  end.

(* ---------- files, responses, requests ---------- *)

Record fstate := mkF { f_ver : N; f_size : N; f_mtime : N; f_ctime : N }.

Record resp := mkR {
  r_status : N;
  r_body : option (N * N);      (* version of the content delivered, its length *)
  r_etag : option str;          (* ETag header value, quotes included *)
  r_lm : option N               (* second named by Last-Modified *)
}.

Inductive appkind := Files | Pages.
Inductive iface := Wsgi | Asgi.

(* the If-None-Match header of a request *)
Inductive inm_spec :=
| INone
| IRaw (h : str)
| ITmpl (before : list str) (ws1 : str) (weak : bool) (ws2 : str) (after : list str).
    (* the ETag of response j as one member of a list: decoy members before and
       after, optional white space around it, optionally sent as a weak tag *)

(* the If-Modified-Since header of a request *)
Inductive ims_spec :=
| MNone
| MLm                            (* the Last-Modified of response j *)
| MRaw (p : option Z).           (* any other text, as parsedate reads it *)

Inductive op :=
| Rewrite (dt sz : N)            (* new content of size sz (same or other size) *)
| Touch (dt : N)
| Restore (dt sz : N)            (* new content of size sz put in place with the OLD mtime (rsync -t, tar x,
                                    cp -p, SOURCE_DATE_EPOCH): only ctime moves to now *)
| SetMtime (dt back : N)         (* os.utime: mtime := now - back (clipped at 0), ctime := now, content kept *)
| Wait (dt : N)
| Req (j : nat) (i : inm_spec) (m : ims_spec).

Fixpoint join_comma (ms : list str) : str :=
  match ms with
  | [] => []
  | [m] => m
  | m :: r => m ++ 44 :: join_comma r
  end.

Definition weak_prefix (weak : bool) : str := if weak then [87; 47] else [].

Definition target (ws1 : str) (weak : bool) (e : str) (ws2 : str) : str :=
  ws1 ++ weak_prefix weak ++ e ++ ws2.

Definition quote (e : str) : str := 34 :: e ++ [34].

Section Env.

Variable fkey : N -> N.
Variable sha : N -> N -> str.
Variable isec : N -> N.

(* FileResponse.generate_etag(stat_result) *)
Definition etag_of (f : fstate) : str := sha (fkey (f_mtime f)) (f_size f).

(* FileResponse(filepath, stat_result=stat_result) answering a plain GET *)
Definition full_response (f : fstate) : resp :=
  mkR 200 (Some (f_ver f, f_size f)) (Some (quote (etag_of f))) (Some (isec (f_mtime f))).

(* Response(304) *)
Definition not_modified : resp := mkR 304 None None None.

(* Files.file_response *)
Definition file_response (f : fstate) (inm : str) (ims : option Z) : resp :=
  if match inm with
     | [] => if_modified_since (Z.of_N (isec (f_ctime f))) ims
     | _ => if_none_match (etag_of f) inm
     end
  then not_modified
  else full_response f.

(* the four __call__ methods read the two header texts, resolve the path to the
   regular file, stat it once and hand everything to file_response *)
Definition serve (a : appkind) (i : iface) (f : fstate) (inm : str) (ims : option Z) : resp :=
  match a, i with
  | Files, Wsgi => file_response f inm ims
  | Files, Asgi => file_response f inm ims
  | Pages, Wsgi => file_response f inm ims
  | Pages, Asgi => file_response f inm ims
  end.

(* ---------- histories ---------- *)

Record world := mkW { w_now : N; w_gen : nat; w_file : fstate }.

Record entry := mkE {
  e_gen : nat;                   (* modifications made before this request *)
  e_file : fstate;               (* the file as it was when the request was served *)
  e_j : nat; e_inm : inm_spec; e_ims : ims_spec;
  e_resp : resp
}.

Definition etag_at (log : list entry) (j : nat) : option str :=
  match nth_error log j with
  | Some e => r_etag (e_resp e)
  | None => None
  end.

Definition lm_at (log : list entry) (j : nat) : option N :=
  match nth_error log j with
  | Some e => r_lm (e_resp e)
  | None => None
  end.

Definition render_inm (log : list entry) (j : nat) (s : inm_spec) : str :=
  match s with
  | INone => []
  | IRaw h => h
  | ITmpl before ws1 weak ws2 after =>
      match etag_at log j with
      | Some e => join_comma (before ++ [target ws1 weak e ws2] ++ after)
      | None => []
      end
  end.

Definition render_ims (log : list entry) (j : nat) (s : ims_spec) : option Z :=
  match s with
  | MNone => None
  | MLm => match lm_at log j with Some l => Some (Z.of_N l) | None => None end
  | MRaw p => p
  end.

(* [sv]: how a request is served; the applications use [serve a i] *)
Definition step_with (sv : fstate -> str -> option Z -> resp)
           (st : world * list entry) (o : op) : world * list entry :=
  let (w, log) := st in
  match o with
  | Rewrite dt sz =>
      let t := w_now w + dt in
      (mkW t (S (w_gen w)) (mkF (f_ver (w_file w) + 1) sz t t), log)
  | Touch dt =>
      let t := w_now w + dt in
      (mkW t (S (w_gen w)) (mkF (f_ver (w_file w)) (f_size (w_file w)) t t), log)
  | Restore dt sz =>
      let t := w_now w + dt in
      (mkW t (S (w_gen w)) (mkF (f_ver (w_file w) + 1) sz (f_mtime (w_file w)) t), log)
  | SetMtime dt back =>
      let t := w_now w + dt in
      (mkW t (S (w_gen w)) (mkF (f_ver (w_file w)) (f_size (w_file w)) (t - back) t), log)
  | Wait dt => (mkW (w_now w + dt) (w_gen w) (w_file w), log)
  | Req j si sm =>
      let r := sv (w_file w) (render_inm log j si) (render_ims log j sm) in
      (w, log ++ [mkE (w_gen w) (w_file w) j si sm r])
  end.

Definition run_with (sv : fstate -> str -> option Z -> resp) (w : world) (ops : list op) : list entry :=
  snd (fold_left (step_with sv) ops (w, [])).

Definition step (a : appkind) (i : iface) := step_with (serve a i).

Definition run_from (a : appkind) (i : iface) (st : world * list entry) (ops : list op) : world * list entry :=
  fold_left (step a i) ops st.

Definition run (a : appkind) (i : iface) (w : world) (ops : list op) : list entry :=
  snd (run_from a i (w, []) ops).

(* NOT the code: file_response comparing the date with the modification time
   (the time Last-Modified is made from) instead of the change time — refuted in Proofs.v *)
Definition file_response_mtime (f : fstate) (inm : str) (ims : option Z) : resp :=
  if match inm with
     | [] => if_modified_since (Z.of_N (isec (f_mtime f))) ims
     | _ => if_none_match (etag_of f) inm
     end
  then not_modified
  else full_response f.

End Env.

(* ---------- vocabulary of the statements (Properties.v) ---------- *)

Definition ns_per_s : N := 1000000000.

Definition all_ws (s : str) : Prop := forallb is_uspace s = true.
Definition comma_free (s : str) : Prop := forallb (fun c => negb (N.eqb c 44)) s = true.
Definition is_hex (c : N) : bool := (N.leb 48 c && N.leb c 57) || (N.leb 97 c && N.leb c 102).
Definition hexlike (s : str) : Prop := forallb is_hex s = true.

(* a well-formed list around the target: decoys without a comma of their own,
   only white space between the target and the commas *)
Definition wf_tmpl (before : list str) (ws1 ws2 : str) (after : list str) : Prop :=
  Forall comma_free before /\ Forall comma_free after /\ all_ws ws1 /\ all_ws ws2.

(* no decoy member denotes the tag e *)
Definition decoys_miss (e : str) (ds : list str) : Prop :=
  forall d, In d ds -> member_norm d <> e.

(* the modification time is not later than the change time, which is not later than the clock
   (every operation keeps this; a file stamped with a future mtime is outside) *)
Definition wf_file (f : fstate) : Prop := f_mtime f <= f_ctime f.
Definition wf_world (w : world) : Prop :=
  wf_file (w_file w) /\ f_ctime (w_file w) <= w_now w.

(* the premises about what is not baize's *)
Definition sha_injective (sha : N -> N -> str) : Prop :=
  forall k s k' s', sha k s = sha k' s' -> k = k' /\ s = s'.
Definition sha_hexdigest (sha : N -> N -> str) : Prop :=
  forall k s, hexlike (sha k s).
Definition float_separates_seconds (fkey : N -> N) : Prop :=
  forall t t', t + ns_per_s <= t' -> fkey t <> fkey t'.
Definition second_monotone (isec : N -> N) : Prop :=
  forall t t', t <= t' -> isec t <= isec t'.
Definition second_steps (isec : N -> N) : Prop :=
  forall t t', t + ns_per_s <= t' -> isec t < isec t'.
