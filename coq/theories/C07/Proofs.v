(* C07 — proofs.  The statements of the property are in Properties.v. *)
From Coq Require Import List NArith Bool Lia Arith.
From Baize Require Import Lib.Order Lib.Wire Lib.Path Lib.PathFacts C07.Model.
Import ListNotations.
Local Open Scope N_scope.

(* ---------- confinement, as a relation on path texts ---------- *)

(* [p] is the directory, or the directory followed by "/" and segments none of which is
   empty, ".", ".." or contains a slash (no segment at all: the directory written with a
   trailing slash) *)
Definition below (dir p : list N) : Prop :=
  p = dir \/ exists rest, Forall good_seg rest /\ p = dir ++ SL :: join_sep rest.

(* ---------- the shape of a well-formed directory ---------- *)

Lemma wf_dir_render dir : wf_dir dir = true ->
  exists k dsegs, (k = 1 \/ k = 2)%nat /\ Forall good_seg dsegs /\ dsegs <> [] /\ dir = render k dsegs.
Proof.
  unfold wf_dir. rewrite !andb_true_iff, negb_true_iff. intros [[Hs He] Hn].
  apply bytes_eqb_eq in Hn. rewrite normpath_rooted in Hn by exact Hs.
  exists (initial_slashes dir), (norm_comps true (comps dir)).
  split; [apply initial_slashes_range; exact Hs|].
  split; [apply norm_comps_rooted_good; apply comps_slash_free_all|].
  split; [|symmetry; exact Hn].
  intros E. rewrite E in Hn. unfold render in Hn. cbn [join_sep] in Hn. rewrite app_nil_r in Hn.
  rewrite <- Hn in He. destruct (initial_slashes_range dir Hs) as [K|K]; rewrite K in He; discriminate.
Qed.

Lemma render_facts k dsegs : (k = 1 \/ k = 2)%nat -> Forall good_seg dsegs -> dsegs <> [] ->
  comps (render k dsegs) = dsegs /\ initial_slashes (render k dsegs) = k /\
  starts_slash (render k dsegs) = true /\ ends_slash (render k dsegs) = false /\ render k dsegs <> [].
Proof.
  intros Hk Hd Hn. pose proof (Forall_plain_of_good _ Hd) as Hp.
  split; [apply comps_render; exact Hp|].
  split; [rewrite <- (app_nil_r (render k dsegs)); apply initial_slashes_render; assumption|].
  split; [apply starts_slash_render; exact Hk|].
  split; [apply ends_slash_render; assumption|apply render_nonnil; exact Hk].
Qed.

(* ---------- lex is the rooted normpath loop ---------- *)

Lemma lex_fold cs : forall st, Forall good_seg st -> Forall slash_free cs ->
  fold_left (norm_step true) cs st = lex st cs.
Proof.
  induction cs as [|c cs IH]; intros st Hst Hcs; [reflexivity|].
  inversion Hcs as [|? ? Hc Hr]; subst. cbn [fold_left lex].
  pose proof (norm_step_rooted_good st c Hc Hst) as Hnext.
  rewrite IH by assumption. f_equal. clear IH Hnext.
  unfold norm_step. destruct (negb (nonempty c) || is_dot c); [reflexivity|].
  destruct (is_dotdot c); [|reflexivity].
  destruct st as [|t r]; [reflexivity|].
  inversion Hst as [|? ? Ht _]; subst.
  destruct (good_seg_flags t Ht) as [_ [_ H3]]. rewrite H3. reflexivity.
Qed.

Lemma lex_cases st c r :
  lex st (c :: r) = lex (if negb (nonempty c) || is_dot c then st else if is_dotdot c then tl st else c :: st) r.
Proof. cbn [lex]. destruct (negb (nonempty c) || is_dot c); [reflexivity|]. destruct (is_dotdot c); reflexivity. Qed.

Lemma resolved_eq dsegs path : Forall good_seg dsegs ->
  norm_comps true (dsegs ++ comps path) = rev (lex (rev dsegs) (split path)).
Proof.
  intros Hd. rewrite norm_comps_good_prefix by exact Hd. f_equal.
  unfold comps. rewrite <- fold_norm_filter.
  apply lex_fold; [apply Forall_rev; exact Hd|apply split_all_slash_free].
Qed.

(* ---------- ensure_absolute_path computes the lexical target ---------- *)

Lemma ensure_files_lexical cwd dir path : wf_dir dir = true ->
  ensure_files cwd dir path =
  match lexical_target dir path with Some t => EPath t | None => ENone end.
Proof.
  intros Hwf. destruct (wf_dir_render dir Hwf) as [k [dsegs [Hk [Hd [Hn ->]]]]].
  destruct (render_facts k dsegs Hk Hd Hn) as [Hc [Hi [Hs [He Hne]]]].
  unfold ensure_files, lexical_target. rewrite Hc, Hi.
  pose proof (join_star_comps path) as Hj. cbn zeta in Hj. fold (join_star (split path)) in Hj.
  destruct Hj as [Hj1 Hj2]. set (rel := join_star (split path)) in *.
  unfold join. cbn [fold_left]. rewrite join2_rel by assumption.
  assert (Hroot : starts_slash (render k dsegs ++ SL :: rel) = true)
    by (rewrite starts_slash_app by exact Hne; exact Hs).
  rewrite abspath_rooted by exact Hroot. rewrite normpath_rooted by exact Hroot.
  rewrite comps_app, Hc, Hj2.
  rewrite initial_slashes_render; [|exact Hk|apply Forall_plain_of_good; exact Hd|exact Hn].
  rewrite <- resolved_eq by exact Hd.
  set (R := norm_comps true (dsegs ++ comps path)).
  assert (HR : Forall good_seg R).
  { apply norm_comps_rooted_good. apply Forall_app. split; [|apply comps_slash_free_all].
    eapply Forall_impl; [|exact Hd]. intros s [[_ H] _]. exact H. }
  set (ab' := if bytes_eqb path [SL] then render k R ++ [SL] else render k R).
  assert (Hab : starts_slash ab' = true).
  { unfold ab'. destruct (bytes_eqb path [SL]); [rewrite starts_slash_app by (apply render_nonnil; exact Hk)|];
      apply starts_slash_render; exact Hk. }
  assert (Hcomps : norm_comps true (comps ab') = R).
  { assert (E : comps ab' = R).
    { unfold ab'. destruct (bytes_eqb path [SL]); [rewrite comps_snoc_slash|];
        apply comps_render; apply Forall_plain_of_good; exact HR. }
    rewrite E. apply norm_comps_good. exact HR. }
  destruct (relpath_test cwd k dsegs ab' Hk Hd Hab) as [rp [Hrp Htest]].
  rewrite Hrp. change PARDIR_SEP with [46; 46; 47]. rewrite Htest, Hcomps.
  destruct (Nat.eqb (common_len dsegs R) (length dsegs)); cbn [negb]; [|reflexivity].
  f_equal. unfold ab'. destruct (bytes_eqb path [SL]); [reflexivity|]. rewrite app_nil_r. reflexivity.
Qed.

(* ---------- the lexical target is the directory or below it ---------- *)

Lemma lexical_target_shape dir path t : wf_dir dir = true -> lexical_target dir path = Some t ->
  exists rest, Forall good_seg rest /\
    ((rest = [] /\ t = dir ++ (if bytes_eqb path [SL] then [SL] else [])) \/
     (rest <> [] /\ bytes_eqb path [SL] = false /\ t = dir ++ SL :: join_sep rest)).
Proof.
  intros Hwf. destruct (wf_dir_render dir Hwf) as [k [dsegs [Hk [Hd [Hn ->]]]]].
  destruct (render_facts k dsegs Hk Hd Hn) as [Hc [Hi _]].
  unfold lexical_target. rewrite Hc, Hi. rewrite <- resolved_eq by exact Hd.
  set (R := norm_comps true (dsegs ++ comps path)).
  assert (HR : Forall good_seg R).
  { apply norm_comps_rooted_good. apply Forall_app. split; [|apply comps_slash_free_all].
    eapply Forall_impl; [|exact Hd]. intros s [[_ H] _]. exact H. }
  destruct (Nat.eqb (common_len dsegs R) (length dsegs)) eqn:E; [|discriminate].
  intros H. injection H as <-. apply Nat.eqb_eq in E.
  pose proof (common_len_full dsegs R E) as ER. set (rest := skipn (length dsegs) R) in *.
  assert (Hrest : Forall good_seg rest) by (rewrite ER in HR; apply Forall_app in HR; exact (proj2 HR)).
  exists rest. split; [exact Hrest|].
  destruct rest as [|a r] eqn:Erest.
  - left. split; [reflexivity|]. rewrite ER, app_nil_r. reflexivity.
  - right. split; [discriminate|].
    assert (Hp : bytes_eqb path [SL] = false).
    { destruct (bytes_eqb path [SL]) eqn:Ep; [|reflexivity]. exfalso.
      apply bytes_eqb_eq in Ep. subst path. unfold R in ER.
      change (comps [SL]) with (@nil (list N)) in ER. rewrite app_nil_r, norm_comps_good in ER by exact Hd.
      apply (f_equal (@length _)) in ER. rewrite app_length in ER. cbn [length] in ER. lia. }
    split; [exact Hp|]. rewrite Hp, app_nil_r, ER. apply render_app; [exact Hn|discriminate].
Qed.

Lemma lexical_target_below dir path t : wf_dir dir = true -> lexical_target dir path = Some t -> below dir t.
Proof.
  intros Hwf Ht. destruct (lexical_target_shape dir path t Hwf Ht) as [rest [Hr [[-> ->]|[_ [_ ->]]]]].
  - destruct (bytes_eqb path [SL]); [right; exists []; split; [constructor|reflexivity]|left; apply app_nil_r].
  - right. exists rest. split; [exact Hr|reflexivity].
Qed.

Lemma ends_slash_plain_last x s : plain_seg s -> ends_slash (x ++ SL :: s) = false.
Proof.
  intros H. change (SL :: s) with ([SL] ++ s). rewrite app_assoc. apply ends_slash_app_plain. exact H.
Qed.

(* the target ends with a slash exactly for the root URL "/" *)
Lemma lexical_target_slash dir path t : wf_dir dir = true -> lexical_target dir path = Some t ->
  ends_slash t = bytes_eqb path [SL] /\ (bytes_eqb path [SL] = true -> t = dir ++ [SL]).
Proof.
  intros Hwf Ht. destruct (wf_dir_render dir Hwf) as [k [dsegs [Hk [Hd [Hn Edir]]]]].
  destruct (render_facts k dsegs Hk Hd Hn) as [_ [_ [_ [He _]]]]. rewrite <- Edir in He. clear Edir.
  destruct (lexical_target_shape dir path t Hwf Ht) as [rest [Hr [[-> ->]|[Hne [Hp ->]]]]].
  - destruct (bytes_eqb path [SL]); [split; [apply ends_slash_snoc|reflexivity]|].
    rewrite app_nil_r. split; [exact He|discriminate].
  - rewrite Hp. split; [|discriminate].
    destruct (exists_last Hne) as [l [s El]]. rewrite El in Hr |- *.
    apply Forall_app in Hr. destruct Hr as [_ Hs]. inversion Hs as [|? ? Hs' _]; subst.
    destruct l as [|a l].
    + cbn [app]. change (join_sep [s]) with s. apply ends_slash_plain_last. exact (plain_of_good _ Hs').
    + rewrite join_sep_app by discriminate. change (join_sep [s]) with s.
      replace (dir ++ SL :: join_sep (a :: l) ++ SL :: s) with ((dir ++ SL :: join_sep (a :: l)) ++ SL :: s)
        by (rewrite <- app_assoc; reflexivity).
      apply ends_slash_plain_last. exact (plain_of_good _ Hs').
Qed.

(* ---------- decision tables ---------- *)

Lemma files_table fs cwd dir path : wf_dir dir = true ->
  files_call fs cwd dir path =
  match lexical_target dir path with
  | None => (NotFound, [])
  | Some t =>
      match fs t with
      | NFile id => (Served t id, [AStat t; AOpen t])
      | _ => (NotFound, [AStat t])
      end
  end.
Proof.
  intros Hwf. unfold files_call. rewrite (ensure_files_lexical cwd dir path Hwf).
  destruct (lexical_target dir path) as [t|]; [|reflexivity].
  cbn [eopt check]. destruct (fs t); reflexivity.
Qed.

Definition pages_spec (fs : fsys) (dir path : list N) : outcome * list access :=
  match lexical_target dir path with
  | None => (NotFound, [])
  | Some t =>
      let p := pages_first t in
      match fs p with
      | NFile id => (Served p id, [AStat p; AOpen p])
      | NDir =>
          if ends_slash path then
            let p' := join p [INDEX_HTML] in
            match fs p' with
            | NFile id => (Served p' id, [AStat p; AStat p'; AOpen p'])
            | _ => (NotFound, [AStat p; AStat p'])
            end
          else (Redirect (path ++ [SL]), [AStat p])
      | NOther => (NotFound, [AStat p])
      | _ =>
          if negb (suffixb DOT_HTML p) && negb (bytes_eqb p dir) then
            let p' := p ++ DOT_HTML in
            match fs p' with
            | NFile id => (Served p' id, [AStat p; AStat p'; AOpen p'])
            | _ => (NotFound, [AStat p; AStat p'])
            end
          else (NotFound, [AStat p])
      end
  end.

Lemma pages_table fs cwd dir path : wf_dir dir = true ->
  pages_call fs cwd dir path = pages_spec fs dir path.
Proof.
  intros Hwf. unfold pages_call, ensure_pages, pages_spec.
  rewrite (ensure_files_lexical cwd dir path Hwf).
  destruct (lexical_target dir path) as [t|]; [|reflexivity].
  fold (pages_first t). cbn zeta. set (p := pages_first t).
  cbn [check]. destruct (fs p) eqn:E1; cbn [app]; try reflexivity.
  - destruct (ends_slash path); [|reflexivity]. cbn [check].
    destruct (fs (join p [INDEX_HTML])); reflexivity.
  - destruct (negb (suffixb DOT_HTML p) && negb (bytes_eqb p dir)); [|reflexivity]. cbn [check].
    destruct (fs (p ++ DOT_HTML)); reflexivity.
  - destruct (negb (suffixb DOT_HTML p) && negb (bytes_eqb p dir)); [|reflexivity]. cbn [check].
    destruct (fs (p ++ DOT_HTML)); reflexivity.
Qed.

(* ---------- small facts about the constants ---------- *)

Lemma good_index : good_seg INDEX_HTML.
Proof.
  unfold good_seg, plain_seg, slash_free. repeat split; try discriminate.
  cbv. intuition discriminate.
Qed.

Lemma good_seg_html s : plain_seg s -> good_seg (s ++ DOT_HTML).
Proof.
  intros [Hn Hs]. split; [split|split].
  - destruct s; [congruence|discriminate].
  - intros Hin. apply in_app_or in Hin. destruct Hin as [H|H]; [exact (Hs H)|].
    cbv in H. intuition discriminate.
  - intros E. apply (f_equal (@length _)) in E. rewrite app_length in E. cbv [DOT_HTML DOT length lit] in E.
    cbn in E. lia.
  - intros E. apply (f_equal (@length _)) in E. rewrite app_length in E. cbn in E. lia.
Qed.

Lemma suffix_html_index t : suffixb DOT_HTML (t ++ INDEX_HTML) = true.
Proof. unfold suffixb. rewrite rev_app_distr. reflexivity. Qed.

Lemma suffix_html_index_cons t : suffixb DOT_HTML (t ++ SL :: INDEX_HTML) = true.
Proof. change (SL :: INDEX_HTML) with ([SL] ++ INDEX_HTML). rewrite app_assoc. apply suffix_html_index. Qed.

Lemma join_child p s : p <> [] -> ends_slash p = false -> starts_slash s = false -> join p [s] = p ++ SL :: s.
Proof. intros Hp He Hs. unfold join. cbn [fold_left]. apply join2_rel; assumption. Qed.

(* ---------- below is closed under the steps Pages takes ---------- *)

Lemma below_child dir p s : below dir p -> ends_slash p = false -> good_seg s -> below dir (p ++ SL :: s).
Proof.
  intros [->|[rest [Hr ->]]] He Hs.
  - right. exists [s]. split; [constructor; [exact Hs|constructor]|reflexivity].
  - destruct rest as [|a r].
    + cbn [join_sep] in He. rewrite ends_slash_snoc in He. discriminate.
    + right. exists ((a :: r) ++ [s]). split; [apply Forall_app; split; [exact Hr|constructor; [exact Hs|constructor]]|].
      rewrite join_sep_app by discriminate. cbn [join_sep]. rewrite <- app_assoc. reflexivity.
Qed.

Lemma below_html dir p : below dir p -> p <> dir -> ends_slash p = false -> below dir (p ++ DOT_HTML).
Proof.
  intros [->|[rest [Hr ->]]] Hne He; [congruence|].
  destruct rest as [|a r].
  - cbn [join_sep] in He. rewrite ends_slash_snoc in He. discriminate.
  - assert (Hn : a :: r <> []) by discriminate.
    destruct (exists_last Hn) as [l [s El]]. rewrite El in Hr |- *.
    apply Forall_app in Hr. destruct Hr as [Hl Hs]. inversion Hs as [|? ? Hs' _]; subst.
    right. exists (l ++ [s ++ DOT_HTML]).
    split; [apply Forall_app; split; [exact Hl|constructor; [apply good_seg_html; exact (plain_of_good _ Hs')|constructor]]|].
    destruct l as [|b l].
    + cbn [app join_sep]. rewrite <- app_assoc. reflexivity.
    + rewrite !join_sep_app by discriminate. cbn [join_sep].
      rewrite <- !app_assoc. cbn [app]. rewrite <- app_assoc. reflexivity.
Qed.

Lemma first_below dir path t : wf_dir dir = true -> lexical_target dir path = Some t ->
  below dir (pages_first t) /\ ends_slash (pages_first t) = false /\ pages_first t <> [].
Proof.
  intros Hwf Ht. pose proof (lexical_target_below dir path t Hwf Ht) as Hb.
  destruct (lexical_target_slash dir path t Hwf Ht) as [Hs Hroot].
  unfold pages_first. destruct (ends_slash t) eqn:E.
  - rewrite <- Hs in Hroot. rewrite (Hroot eq_refl).
    split; [right; exists [INDEX_HTML]; split; [constructor; [exact good_index|constructor]|rewrite <- app_assoc; reflexivity]|].
    split; [apply ends_slash_app_plain; exact (plain_of_good _ good_index)|].
    destruct dir; discriminate.
  - split; [exact Hb|]. split; [exact E|].
    intros ->. destruct Hb as [Hd|[rest [_ Hd]]].
    + destruct (wf_dir_render dir Hwf) as [k [dsegs [Hk [_ [_ ->]]]]]. exact (render_nonnil k dsegs Hk (eq_sym Hd)).
    + destruct dir; discriminate.
Qed.

(* ---------- confined ---------- *)

Ltac fa := repeat (apply Forall_cons; [cbn [acc_path]; assumption|]); apply Forall_nil.

Lemma confined_files fs cwd dir path : wf_dir dir = true ->
  Forall (fun a => below dir (acc_path a)) (snd (files_call fs cwd dir path)).
Proof.
  intros Hwf. rewrite files_table by exact Hwf.
  destruct (lexical_target dir path) as [t|] eqn:Ht; [|constructor].
  pose proof (lexical_target_below dir path t Hwf Ht) as Hb.
  destruct (fs t); cbn [snd]; fa.
Qed.

Lemma confined_pages fs cwd dir path : wf_dir dir = true ->
  Forall (fun a => below dir (acc_path a)) (snd (pages_call fs cwd dir path)).
Proof.
  intros Hwf. rewrite pages_table by exact Hwf. unfold pages_spec.
  destruct (lexical_target dir path) as [t|] eqn:Ht; [|constructor].
  destruct (first_below dir path t Hwf Ht) as [Hb [He Hn]]. cbn zeta. set (p := pages_first t) in *.
  assert (Hidx : below dir (join p [INDEX_HTML])).
  { rewrite join_child; [|exact Hn|exact He|reflexivity]. apply below_child; [exact Hb|exact He|exact good_index]. }
  assert (Hhtml : negb (suffixb DOT_HTML p) && negb (bytes_eqb p dir) = true -> below dir (p ++ DOT_HTML)).
  { rewrite andb_true_iff, !negb_true_iff. intros [_ H]. apply below_html; [exact Hb|apply bytes_eqb_false; exact H|exact He]. }
  destruct (fs p).
  - cbn [snd]. fa.
  - destruct (ends_slash path); [|cbn [snd]; fa].
    destruct (fs (join p [INDEX_HTML])); cbn [snd]; fa.
  - cbn [snd]. fa.
  - destruct (negb (suffixb DOT_HTML p) && negb (bytes_eqb p dir)); [|cbn [snd]; fa].
    specialize (Hhtml eq_refl). destruct (fs (p ++ DOT_HTML)); cbn [snd]; fa.
  - destruct (negb (suffixb DOT_HTML p) && negb (bytes_eqb p dir)); [|cbn [snd]; fa].
    specialize (Hhtml eq_refl). destruct (fs (p ++ DOT_HTML)); cbn [snd]; fa.
Qed.

Lemma confined_proof k fs cwd dir path : wf_dir dir = true ->
  Forall (fun a => below dir (acc_path a)) (snd (app_call k fs cwd dir path)).
Proof. destruct k; [apply confined_files|apply confined_pages]. Qed.

(* the textual reading of [below] *)
Lemma below_textual_proof dir p : wf_dir dir = true -> below dir p ->
  p = dir \/ (prefixb (dir ++ [SL]) p = true /\ ~ In DOTDOT (split p) /\ ~ In DOT (split p)).
Proof.
  intros Hwf [->|[rest [Hr ->]]]; [left; reflexivity|right].
  assert (Hpre : forall a b, prefixb a (a ++ b) = true).
  { induction a as [|x a IH]; intros b; [reflexivity|]. cbn [app prefixb]. rewrite N.eqb_refl. apply IH. }
  split; [change (SL :: join_sep rest) with ([SL] ++ join_sep rest); rewrite app_assoc; apply Hpre|].
  destruct (wf_dir_render dir Hwf) as [k [dsegs [Hk [Hd [Hn ->]]]]].
  rewrite split_app. unfold render. rewrite split_repeat_slash.
  rewrite split_join_sep; [|exact Hn|eapply Forall_impl; [|exact Hd]; intros s [[_ H] _]; exact H].
  assert (Hgood : forall s, In s dsegs \/ In s rest -> s <> DOTDOT /\ s <> DOT).
  { intros s [H|H]; [rewrite Forall_forall in Hd; destruct (Hd s H) as [_ [H1 H2]]
                    |rewrite Forall_forall in Hr; destruct (Hr s H) as [_ [H1 H2]]]; split; assumption. }
  assert (Hrest : forall s, In s (split (join_sep rest)) -> s = [] \/ In s rest).
  { intros s Hs. destruct rest as [|a r]; [cbn in Hs; destruct Hs as [<-|[]]; left; reflexivity|].
    rewrite split_join_sep in Hs; [right; exact Hs|discriminate|].
    eapply Forall_impl; [|exact Hr]. intros x [[_ H] _]. exact H. }
  assert (Hall : forall s, In s ((repeat [] k ++ dsegs) ++ split (join_sep rest)) -> s <> DOTDOT /\ s <> DOT).
  { intros s Hs. apply in_app_or in Hs. destruct Hs as [Hs|Hs].
    - apply in_app_or in Hs. destruct Hs as [Hs|Hs]; [apply repeat_spec in Hs; subst s; split; discriminate|].
      apply Hgood. left. exact Hs.
    - destruct (Hrest s Hs) as [->|H]; [split; discriminate|apply Hgood; right; exact H]. }
  split; intros Hin; destruct (Hall _ Hin) as [H1 H2]; congruence.
Qed.

(* ---------- serves_resolved ---------- *)

Lemma serves_resolved_files_proof fs cwd dir path p id : wf_dir dir = true ->
  fst (files_call fs cwd dir path) = Served p id ->
  lexical_target dir path = Some p /\ fs p = NFile id.
Proof.
  intros Hwf. rewrite files_table by exact Hwf.
  destruct (lexical_target dir path) as [t|]; [|discriminate].
  destruct (fs t) eqn:E; cbn [fst]; try discriminate.
  intros H. injection H as <- <-. split; [reflexivity|exact E].
Qed.

Definition with_slash (t : list N) : list N := if ends_slash t then t else t ++ [SL].

Lemma serves_resolved_pages_proof fs cwd dir path p id : wf_dir dir = true ->
  fs (dir ++ SL :: INDEX_HTML) <> NDir ->
  fst (pages_call fs cwd dir path) = Served p id ->
  exists t, lexical_target dir path = Some t /\ fs p = NFile id /\
    (p = t \/
     (p = t ++ DOT_HTML /\ t <> dir /\ (fs t = NAbsent \/ fs t = NError)) \/
     (p = with_slash t ++ INDEX_HTML /\ ends_slash path = true /\ (ends_slash t = true \/ fs t = NDir))).
Proof.
  intros Hwf Hidx. rewrite pages_table by exact Hwf. unfold pages_spec.
  destruct (lexical_target dir path) as [t|] eqn:Ht; [|discriminate].
  destruct (first_below dir path t Hwf Ht) as [_ [He Hn]].
  destruct (lexical_target_slash dir path t Hwf Ht) as [Hs Hroot].
  cbn zeta. unfold pages_first in *. unfold with_slash.
  destruct (ends_slash t) eqn:Et.
  - (* the root URL "/" *)
    rewrite <- Hs in Hroot. specialize (Hroot eq_refl).
    assert (Hp : ends_slash path = true).
    { symmetry in Hs. apply bytes_eqb_eq in Hs. subst path. reflexivity. }
    assert (E0 : t ++ INDEX_HTML = dir ++ SL :: INDEX_HTML) by (rewrite Hroot, <- app_assoc; reflexivity).
    rewrite suffix_html_index. cbn [negb andb].
    destruct (fs (t ++ INDEX_HTML)) eqn:E; cbn [fst]; try discriminate.
    + intros H. injection H as <- <-. exists t. split; [reflexivity|]. split; [exact E|].
      right. right. split; [rewrite Et; reflexivity|]. split; [exact Hp|left; exact Et].
    + exfalso. apply Hidx. rewrite <- E0. exact E.
  - destruct (fs t) eqn:E; cbn [fst]; try discriminate.
    + intros H. injection H as <- <-. exists t. split; [reflexivity|]. split; [exact E|left; reflexivity].
    + destruct (ends_slash path) eqn:Ep; [|discriminate].
      rewrite join_child; [|exact Hn|exact He|reflexivity].
      destruct (fs (t ++ SL :: INDEX_HTML)) eqn:E2; cbn [fst]; try discriminate.
      intros H. injection H as <- <-. exists t. split; [reflexivity|]. split; [exact E2|].
      right. right. split; [rewrite Et, <- app_assoc; reflexivity|]. split; [reflexivity|right; exact E].
    + destruct (negb (suffixb DOT_HTML t) && negb (bytes_eqb t dir)) eqn:C; [|discriminate].
      destruct (fs (t ++ DOT_HTML)) eqn:E2; cbn [fst]; try discriminate.
      intros H. injection H as <- <-. exists t. split; [reflexivity|]. split; [exact E2|].
      right. left. split; [reflexivity|]. apply andb_true_iff in C. destruct C as [_ C].
      apply negb_true_iff in C. split; [apply bytes_eqb_false; exact C|left; exact E].
    + destruct (negb (suffixb DOT_HTML t) && negb (bytes_eqb t dir)) eqn:C; [|discriminate].
      destruct (fs (t ++ DOT_HTML)) eqn:E2; cbn [fst]; try discriminate.
      intros H. injection H as <- <-. exists t. split; [reflexivity|]. split; [exact E2|].
      right. left. split; [reflexivity|]. apply andb_true_iff in C. destruct C as [_ C].
      apply negb_true_iff in C. split; [apply bytes_eqb_false; exact C|right; exact E].
Qed.

(* ---------- complete ---------- *)

Lemma lexical_target_own dir names : wf_dir dir = true -> Forall good_seg names -> names <> [] ->
  lexical_target dir (SL :: join_sep names) = Some (dir ++ SL :: join_sep names).
Proof.
  intros Hwf Hg Hne. destruct (wf_dir_render dir Hwf) as [k [dsegs [Hk [Hd [Hn ->]]]]].
  destruct (render_facts k dsegs Hk Hd Hn) as [Hc [Hi _]].
  unfold lexical_target. rewrite Hc, Hi, <- resolved_eq by exact Hd.
  assert (Ec : comps (SL :: join_sep names) = names).
  { change (SL :: join_sep names) with ([] ++ SL :: join_sep names). rewrite comps_app, comps_nil.
    apply comps_join_sep. apply Forall_plain_of_good. exact Hg. }
  rewrite Ec, norm_comps_good by (apply Forall_app; split; assumption).
  rewrite common_len_prefix, Nat.eqb_refl.
  assert (Ep : bytes_eqb (SL :: join_sep names) [SL] = false).
  { destruct names as [|a r]; [congruence|]. inversion Hg as [|? ? Ha _]; subst.
    destruct (join_sep_head a r (plain_of_good _ Ha)) as [c [x [E _]]]. rewrite E. reflexivity. }
  rewrite Ep, app_nil_r, render_app by assumption. reflexivity.
Qed.

Lemma complete_proof k fs cwd dir names id : wf_dir dir = true -> Forall good_seg names -> names <> [] ->
  fs (dir ++ SL :: join_sep names) = NFile id ->
  fst (app_call k fs cwd dir (SL :: join_sep names)) = Served (dir ++ SL :: join_sep names) id.
Proof.
  intros Hwf Hg Hne Hfs. pose proof (lexical_target_own dir names Hwf Hg Hne) as Ht.
  destruct k; cbn [app_call].
  - rewrite files_table, Ht, Hfs by exact Hwf. reflexivity.
  - rewrite pages_table by exact Hwf. unfold pages_spec. rewrite Ht. cbn zeta.
    destruct (lexical_target_slash _ _ _ Hwf Ht) as [Hs _].
    assert (Ep : bytes_eqb (SL :: join_sep names) [SL] = false).
    { destruct names as [|a r]; [congruence|]. inversion Hg as [|? ? Ha _]; subst.
      destruct (join_sep_head a r (plain_of_good _ Ha)) as [c [x [E _]]]. rewrite E. reflexivity. }
    unfold pages_first. rewrite Hs, Ep, Hfs. reflexivity.
Qed.

(* ---------- not_found_otherwise ---------- *)

Lemma outside_untouched_proof k fs cwd dir path : wf_dir dir = true -> lexical_target dir path = None ->
  app_call k fs cwd dir path = (NotFound, []).
Proof.
  intros Hwf Ht. destruct k; cbn [app_call].
  - rewrite files_table, Ht by exact Hwf. reflexivity.
  - rewrite pages_table by exact Hwf. unfold pages_spec. rewrite Ht. reflexivity.
Qed.

Lemma not_found_otherwise_files_proof fs cwd dir path : wf_dir dir = true ->
  fst (files_call fs cwd dir path) = NotFound \/
  exists t id, lexical_target dir path = Some t /\ fs t = NFile id /\
               fst (files_call fs cwd dir path) = Served t id.
Proof.
  intros Hwf. rewrite files_table by exact Hwf.
  destruct (lexical_target dir path) as [t|]; [|left; reflexivity].
  destruct (fs t) eqn:E; try (left; reflexivity).
  right. exists t, id. repeat split. exact E.
Qed.

Lemma not_found_otherwise_pages_proof fs cwd dir path : wf_dir dir = true ->
  let o := fst (pages_call fs cwd dir path) in
  o = NotFound \/ (exists p id, o = Served p id) \/
  (o = Redirect (path ++ [SL]) /\ ends_slash path = false /\
   exists t, lexical_target dir path = Some t /\ fs t = NDir).
Proof.
  intros Hwf. cbn zeta. rewrite pages_table by exact Hwf. unfold pages_spec.
  destruct (lexical_target dir path) as [t|] eqn:Ht; [|left; reflexivity].
  destruct (lexical_target_slash dir path t Hwf Ht) as [Hs Hroot]. cbn zeta.
  destruct (fs (pages_first t)) eqn:E.
  - right. left. eexists. eexists. reflexivity.
  - destruct (ends_slash path) eqn:Ep.
    + destruct (fs (join (pages_first t) [INDEX_HTML])); try (left; reflexivity).
      right. left. eexists. eexists. reflexivity.
    + right. right. split; [reflexivity|]. split; [reflexivity|]. exists t. split; [reflexivity|].
      unfold pages_first in E. destruct (ends_slash t) eqn:Et; [|exact E].
      symmetry in Hs. apply bytes_eqb_eq in Hs. subst path. discriminate.
  - left. reflexivity.
  - destruct (negb (suffixb DOT_HTML (pages_first t)) && negb (bytes_eqb (pages_first t) dir)); [|left; reflexivity].
    destruct (fs (pages_first t ++ DOT_HTML)); try (left; reflexivity).
    right. left. eexists. eexists. reflexivity.
  - destruct (negb (suffixb DOT_HTML (pages_first t)) && negb (bytes_eqb (pages_first t) dir)); [|left; reflexivity].
    destruct (fs (pages_first t ++ DOT_HTML)); try (left; reflexivity).
    right. left. eexists. eexists. reflexivity.
Qed.

(* ---------- redirect_then_index ---------- *)

Lemma lex_app a : forall st b, lex st (a ++ b) = lex (lex st a) b.
Proof.
  induction a as [|c a IH]; intros st b; [reflexivity|].
  cbn [app]. rewrite !lex_cases. apply IH.
Qed.

Lemma lexical_target_add_slash dir path t : ends_slash path = false ->
  lexical_target dir path = Some t ->
  lexical_target dir (path ++ [SL]) = Some (if nonempty path then t else t ++ [SL]).
Proof.
  intros He. unfold lexical_target.
  rewrite split_app. change (split []) with [@nil N]. rewrite lex_app.
  change (lex (lex (rev (comps dir)) (split path)) [[]]) with (lex (rev (comps dir)) (split path)).
  destruct (Nat.eqb _ _); [|discriminate].
  assert (E1 : bytes_eqb path [SL] = false).
  { destruct (bytes_eqb path [SL]) eqn:E; [|reflexivity]. apply bytes_eqb_eq in E. subst path. discriminate. }
  rewrite E1, app_nil_r. intros H. injection H as <-. f_equal.
  destruct path as [|c r]; [reflexivity|].
  cbn [nonempty app bytes_eqb]. replace (bytes_eqb (r ++ [SL]) []) with false by (destruct r; reflexivity).
  rewrite andb_false_r, app_nil_r. reflexivity.
Qed.

Lemma redirect_then_index_proof fs cwd dir path loc : wf_dir dir = true ->
  fst (pages_call fs cwd dir path) = Redirect loc ->
  loc = path ++ [SL] /\ ends_slash path = false /\
  exists t, lexical_target dir path = Some t /\ fs t = NDir /\
    (forall id, fs (t ++ SL :: INDEX_HTML) = NFile id ->
       fst (pages_call fs cwd dir loc) = Served (t ++ SL :: INDEX_HTML) id) /\
    (forall l2, fst (pages_call fs cwd dir loc) <> Redirect l2).
Proof.
  intros Hwf Hr. pose proof (not_found_otherwise_pages_proof fs cwd dir path Hwf) as H. cbn zeta in H.
  rewrite Hr in H. destruct H as [H|[[p [id H]]|[H [Hp [t [Ht Hdir]]]]]]; try discriminate.
  injection H as ->. split; [reflexivity|]. split; [exact Hp|]. exists t. split; [exact Ht|]. split; [exact Hdir|].
  pose proof (lexical_target_add_slash dir path t Hp Ht) as Ht'.
  assert (Hloc : ends_slash (path ++ [SL]) = true) by (rewrite ends_slash_snoc; reflexivity).
  rewrite pages_table by exact Hwf. unfold pages_spec. rewrite Ht'. cbn zeta.
  destruct (nonempty path) eqn:Ene.
  - (* same target, now with the slash *)
    destruct (lexical_target_slash _ _ _ Hwf Ht') as [Hs _].
    assert (E2 : bytes_eqb (path ++ [SL]) [SL] = false).
    { destruct path as [|c r]; [discriminate|]. cbn [app bytes_eqb].
      replace (bytes_eqb (r ++ [SL]) []) with false by (destruct r; reflexivity). apply andb_false_r. }
    rewrite E2 in Hs. destruct (first_below dir _ t Hwf Ht') as [_ [He Hn]].
    unfold pages_first in *. rewrite Hs in *. rewrite Hdir, Hloc.
    rewrite join_child; [|exact Hn|exact He|reflexivity].
    split.
    + intros id Hid. rewrite Hid. reflexivity.
    + intros l2. destruct (fs (t ++ SL :: INDEX_HTML)); cbn [fst]; discriminate.
  - (* the empty path: the directory itself, redirected to "/" *)
    destruct path; [|discriminate]. cbn [app] in *.
    destruct (lexical_target_slash _ _ _ Hwf Ht') as [Hs _]. change (bytes_eqb [SL] [SL]) with true in Hs.
    unfold pages_first. rewrite Hs, <- app_assoc. cbn [app]. rewrite suffix_html_index_cons.
    cbn [negb andb].
    split.
    + intros id Hid. rewrite Hid. reflexivity.
    + intros l2. destruct (fs (t ++ SL :: INDEX_HTML)); cbn [fst]; try discriminate.
      change (ends_slash [SL]) with true. cbn iota.
      destruct (fs (join (t ++ SL :: INDEX_HTML) [INDEX_HTML])); cbn [fst]; discriminate.
Qed.

(* ---------- normalize_dir_path yields a well-formed directory ---------- *)

Lemma join2_rooted a b : starts_slash a = true -> starts_slash (join2 a b) = true.
Proof.
  intros Ha. unfold join2. destruct (starts_slash b) eqn:Eb; [exact Eb|].
  destruct a as [|c a]; [discriminate|].
  destruct (negb (nonempty (c :: a)) || ends_slash (c :: a)); exact Ha.
Qed.

Lemma normpath_rooted_wf x : starts_slash x = true ->
  wf_dir (normpath x) = true \/ normpath x = [SL] \/ normpath x = [SL; SL].
Proof.
  intros Hx. rewrite normpath_rooted by exact Hx.
  pose proof (initial_slashes_range x Hx) as Hk. set (k := initial_slashes x) in *.
  assert (HR : Forall good_seg (norm_comps true (comps x))) by (apply norm_comps_rooted_good; apply comps_slash_free_all).
  set (R := norm_comps true (comps x)) in *.
  destruct R as [|a r] eqn:ER.
  - right. unfold render. cbn [join_sep]. rewrite app_nil_r. destruct Hk as [-> | ->]; [left|right]; reflexivity.
  - left. unfold wf_dir. rewrite starts_slash_render by exact Hk.
    rewrite ends_slash_render; [|apply Forall_plain_of_good; exact HR|discriminate].
    rewrite normpath_render by assumption. rewrite bytes_eqb_refl. reflexivity.
Qed.

Lemma normalize_dir_wf_proof fs cwd directory pkg dir :
  starts_slash (match pkg with None => cwd | Some origin => origin end) = true ->
  normalize_dir fs cwd directory pkg = Some dir ->
  wf_dir dir = true \/ dir = [SL] \/ dir = [SL; SL].
Proof.
  intros Habs. unfold normalize_dir. destruct pkg as [origin|].
  - destruct (starts_slash directory) eqn:Ed; [discriminate|].
    destruct (fs (normpath (join origin [DOTDOT; directory]))); try discriminate.
    intros H. injection H as <-. apply normpath_rooted_wf.
    unfold join. cbn [fold_left]. apply join2_rooted. apply join2_rooted. exact Habs.
  - intros H. injection H as <-. unfold abspath. apply normpath_rooted_wf.
    destruct (starts_slash directory) eqn:Ed; [exact Ed|]. apply join2_rooted. exact Habs.
Qed.

Lemma confined_both_proof k fs cwd dir path : wf_dir dir = true ->
  Forall (fun a => below dir (acc_path a)) (snd (wsgi_call k fs cwd dir path)) /\
  Forall (fun a => below dir (acc_path a)) (snd (asgi_call k fs cwd dir path)).
Proof. intros H. split; apply confined_proof; exact H. Qed.

(* ---------- a small file system for the examples of Properties.v ---------- *)

Definition ex_dir : list N := lit "/srv/www".
Definition ex_fs : fsys := fun p =>
  if bytes_eqb p (lit "/srv/www") then NDir
  else if bytes_eqb p (lit "/srv/www/sub") then NDir
  else if bytes_eqb p (lit "/srv/www/sub/index.html") then NFile 1
  else if bytes_eqb p (lit "/srv/www/..name") then NFile 2
  else if bytes_eqb p (lit "/srv/www/about.html") then NFile 3
  else if bytes_eqb p (lit "/srv/wwwx/secret") then NFile 4
  else if bytes_eqb p (lit "/srv/www.html") then NFile 5
  else NAbsent.


(* ---------- the code before the repairs does not have the property ---------- *)

Lemma not_below_sibling : ~ below ex_dir (lit "/srv/www.html").
Proof.
  intros [H|[rest [_ H]]]; [discriminate|].
  unfold ex_dir in H. vm_compute in H. discriminate.
Qed.

Lemma found_dotdot_name_proof :
  exists fs cwd dir names id, wf_dir dir = true /\ Forall good_seg names /\ names <> [] /\
    fs (dir ++ SL :: join_sep names) = NFile id /\
    fst (files_call_found fs cwd dir (SL :: join_sep names)) = NotFound.
Proof.
  exists ex_fs, (lit "/"), ex_dir, [lit "..name"], 2.
  split; [reflexivity|]. split.
  { constructor; [|constructor]. unfold good_seg, plain_seg, slash_free. repeat split; try discriminate.
    cbv. intuition discriminate. }
  split; [discriminate|]. split; reflexivity.
Qed.

Lemma found_stat_error_proof :
  exists fs cwd dir path, wf_dir dir = true /\ fst (files_call_found fs cwd dir path) = Crash.
Proof.
  exists (fun p => if bytes_eqb p (lit "/srv/www/a.txt/x") then NError else NAbsent), (lit "/"), ex_dir, (lit "/a.txt/x").
  split; reflexivity.
Qed.

Lemma found_dir_slash_proof :
  exists fs cwd dir path id, wf_dir dir = true /\
    lexical_target dir path = Some (lit "/srv/www/sub") /\ fs (lit "/srv/www/sub") = NDir /\
    fs (lit "/srv/www/sub/index.html") = NFile id /\ ends_slash path = true /\
    fst (pages_call_found fs cwd dir path) = Redirect (path ++ [SL]).
Proof.
  exists ex_fs, (lit "/"), ex_dir, (lit "/sub/"), 1. repeat split; reflexivity.
Qed.

Lemma planned_html_sibling_proof :
  exists fs cwd dir path, wf_dir dir = true /\
    ~ Forall (fun a => below dir (acc_path a)) (snd (pages_call_planned fs cwd dir path)) /\
    fst (pages_call_planned fs cwd dir path) = Served (lit "/srv/www.html") 5.
Proof.
  exists (fun p => if bytes_eqb p (lit "/srv/www.html") then NFile 5 else NAbsent), (lit "/"), ex_dir, [].
  split; [reflexivity|]. split; [|reflexivity].
  intros H. vm_compute in H. inversion H as [|? ? _ H2]; subst. inversion H2 as [|? ? H3 _]; subst.
  apply not_below_sibling. exact H3.
Qed.

Lemma planned_html_dir_loop_proof :
  exists fs cwd dir path, wf_dir dir = true /\
    lexical_target dir path = Some (lit "/srv/www/d") /\ fs (lit "/srv/www/d") = NAbsent /\
    fst (pages_call_planned fs cwd dir path) = Redirect (path ++ [SL]) /\
    fst (pages_call_planned fs cwd dir (path ++ [SL])) = Redirect (path ++ [SL; SL]).
Proof.
  exists (fun p => if bytes_eqb p (lit "/srv/www/d.html") then NDir else if bytes_eqb p (lit "/srv/www") then NDir else NAbsent),
         (lit "/"), ex_dir, (lit "/d").
  repeat split; reflexivity.
Qed.
