(* C07 — wire interface of the model: one case line in, one observation line out.

   path stream (Lib/Path.v against os.path):
     x"normpath" p | x"join" a ( b ... ) | x"abspath" cwd p | x"relpath" cwd p start | x"split" p
   request stream:
     x"req" kind iface base cwd directory ( [origin] ) ( path ... ) ( ( relpath nodekind id ) ... )
       kind 0 = Files, 1 = Pages; iface 0 = WSGI, 1 = ASGI (same decision procedure);
       base = the root of the generated tree; node paths are relative to it;
       nodekind 0 file, 1 directory, 2 other, 3 stat error; everything else is absent.
     -> ( dir ) or ( ) when the constructor's assert fails, then per path
        ( outcome ( accessed paths, sorted, distinct ) ( ) | ( outcome accesses ) )   the last = the redirect followed *)
From Coq Require Import List NArith ZArith Bool.
From Baize Require Import Lib.Order Lib.Wire Lib.Path C07.Model.
Import ListNotations.
Local Open Scope N_scope.

Definition rd_node (x : sx) : list N * node :=
  match x with
  | Lst [Str p; Num k; Num id] =>
      (p, match k with
          | 0%Z => NFile (Z.to_N id)
          | 1%Z => NDir
          | 2%Z => NOther
          | _ => NError
          end)
  | _ => ([], NAbsent)
  end.

Fixpoint lookup (nodes : list (list N * node)) (p : list N) : node :=
  match nodes with
  | [] => NAbsent
  | (q, n) :: r => if bytes_eqb q p then n else lookup r p
  end.

Definition fs_of (base : list N) (nodes : list (list N * node)) : fsys :=
  fun p =>
    match strip_prefix (base ++ [SL]) p with
    | Some rel => lookup nodes rel
    | None => if bytes_eqb p base then NDir else NAbsent
    end.

(* paths below the tree root are printed relative to it, others as they are *)
Definition canon (base p : list N) : list N :=
  match strip_prefix (base ++ [SL]) p with Some rel => rel | None => p end.

Fixpoint dedup (l : list (list N)) : list (list N) :=
  match l with
  | a :: ((b :: _) as r) => if bytes_eqb a b then dedup r else a :: dedup r
  | _ => l
  end.

Definition show_accesses (base : list N) (acc : list access) : sx :=
  Lst (map Str (dedup (sort_by bytes_leb (map (fun a => canon base (acc_path a)) acc)))).

Definition show_outcome (base : list N) (o : outcome) : sx :=
  match o with
  | Served p id => Lst [tag (lit "200"); Str (canon base p); of_N id]
  | Redirect loc => Lst [tag (lit "307"); Str loc]
  | NotFound => Lst [tag (lit "404")]
  | Crash => Lst [tag (lit "crash")]
  end.

Definition show_call (base : list N) (r : outcome * list access) : list sx :=
  [show_outcome base (fst r); show_accesses base (snd r)].

Definition run_req (k : kind) (fs : fsys) (base cwd dir path : list N) : sx :=
  Lst (show_call base (app_call k fs cwd dir path) ++
       [match follow k fs cwd dir path with
        | Some r => Lst (show_call base r)
        | None => Lst []
        end]).

Definition show_rel (r : option (list N)) : sx :=
  match r with Some s => Lst [tag (lit "ok"); Str s] | None => Lst [tag (lit "ValueError")] end.

Definition run (c : list sx) : list sx :=
  match c with
  | [Str op; Num kd; Num _; Str base; Str cwd; Str directory; Lst pkg; Lst paths; Lst nodes] =>
      let fs := fs_of base (map rd_node nodes) in
      let k := match kd with 0%Z => KFiles | _ => KPages end in
      let pk := match pkg with [Str origin] => Some origin | _ => None end in
      match normalize_dir fs cwd directory pk with
      | None => [Lst []]
      | Some dir => Lst [Str (canon base dir)] :: map (fun p => run_req k fs base cwd dir (sx_s p)) paths
      end
  | [Str op; Str p] =>
      if bytes_eqb op (lit "normpath") then [Str (normpath p)]
      else if bytes_eqb op (lit "split") then [Lst (map Str (split p))]
      else [tag (lit "badcase")]
  | [Str op; Str a; Lst ps] =>
      if bytes_eqb op (lit "join") then [Str (join a (map sx_s ps))] else [tag (lit "badcase")]
  | [Str op; Str cwd; Str p] =>
      if bytes_eqb op (lit "abspath") then [Str (abspath cwd p)] else [tag (lit "badcase")]
  | [Str op; Str cwd; Str p; Str start] =>
      if bytes_eqb op (lit "relpath") then [show_rel (relpath cwd p start)] else [tag (lit "badcase")]
  | _ => [tag (lit "badcase")]
  end.

Definition run_line (l : list N) : list N := print_line (run (parse_line l)).
