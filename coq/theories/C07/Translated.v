(* C07 — source-level tie for the path confinement of the static-file applications:
       baize/staticfiles.py       BaseFiles.ensure_absolute_path
     baize/staticfiles.py       BaseFiles.check_path_is_file     (os.stat, the try / except around it)
     baize/wsgi/staticfiles.py  Pages.ensure_absolute_path   (index.html for a path that ends with a slash)
     baize/asgi/staticfiles.py  Pages.ensure_absolute_path

   tools/py2coq_c07.py regenerates the Gallina definition G.ensure_absolute_path from the CURRENT Python source on every
   check run (harness/c07.py: extra_obligations); the text before the first marked segment and the segment of the method
   are then re-checked by coqc against the fresh definition (the two lines between the GENERATED markers are re-pointed at
   the fresh file; nothing else is changed).  Generated_ref.v is the committed copy of what the translator emitted when
   this file was written.

   In the generated text every os.path.* call is the function of Lib/Path.v of the same name (CPython 3.12 posixpath on
   text, the working directory an argument), which the "path" case stream of harness/c07.py compares with the
   interpreter's os.path on every run; os.path.join( *l), os.path.relpath's ValueError, os.pardir and os.sep are
   C07/PyLib.v; split / == / startswith / + are Lib/PyStr.v.  self.directory and os.getcwd() are ARGUMENTS, and the
   theorem holds for all of them: the model's ensure_files has no premise either.

   The proof does not depend on the spelling of the source: names of the variables, temporaries, the order of the
   operands of `or`, a negated test with swapped branches. *)
From Coq Require Import List NArith ZArith Bool.
From Baize Require Import Lib.Order Lib.PyStr Lib.PyStrFacts.
From Baize Require Lib.Path Lib.PathFacts C07.Model C07.Properties C07.PyLib.
(* GENERATED-BEGIN *)
From Baize Require C07.Generated_ref.
Module G := Baize.C07.Generated_ref.
(* GENERATED-END *)
Module M := Baize.C07.Model.
Import ListNotations.
Local Open Scope N_scope.

(* ---------- the str operations of Lib/PyStr.v are the ones the model is written with ---------- *)

Lemma str_eqb_bytes : forall a b, PyStr.str_eqb a b = bytes_eqb a b.
Proof.
  induction a as [|x a IH]; intros [|y b]; cbn [PyStr.str_eqb bytes_eqb]; try reflexivity;
    rewrite IH; reflexivity.
Qed.

Lemma bytes_eqb_sym : forall a b, bytes_eqb a b = bytes_eqb b a.
Proof.
  induction a as [|x a IH]; intros [|y b]; cbn [bytes_eqb]; try reflexivity.
  rewrite IH, N.eqb_sym. reflexivity.
Qed.

Lemma starts_with_prefixb : forall p s, PyStr.starts_with p s = Path.prefixb p s.
Proof.
  induction p as [|x p IH]; intros [|y s]; cbn [PyStr.starts_with Path.prefixb]; try reflexivity;
    rewrite IH; reflexivity.
Qed.

Lemma ends_with_suffixb : forall p s, PyStr.ends_with p s = Path.suffixb p s.
Proof. intros p s. unfold PyStr.ends_with, Path.suffixb. apply starts_with_prefixb. Qed.

(* s.endswith("/") *)
Lemma ends_with_slash : forall s, PyStr.ends_with [Path.SL] s = Path.ends_slash s.
Proof.
  intros s. unfold PyStr.ends_with. destruct s as [|c s] using rev_ind; [reflexivity|].
  rewrite rev_unit, PathFacts.ends_slash_snoc. cbn [rev app PyStr.starts_with].
  rewrite andb_true_r. apply N.eqb_sym.
Qed.

(* s.split("/") of PyStr (any non-empty separator) is the model's one-character split *)
Lemma split_aux_slash : forall s,
  (let (w, ws) := PyStr.split_aux [Path.SL] 0 s in w :: ws) = Path.split s.
Proof.
  induction s as [|c r IH]; [reflexivity|].
  rewrite split_aux_single. cbn [Path.split]. rewrite <- IH.
  rewrite (N.eqb_sym c Path.SL).
  destruct (PyStr.split_aux [Path.SL] 0 r) as [w ws].
  destruct (N.eqb Path.SL c); reflexivity.
Qed.

Lemma split_slash : forall s, PyStr.split [47] s = Path.split s.
Proof. intros s. unfold PyStr.split. apply split_aux_slash. Qed.

Lemma path_split_nonempty : forall s, Path.split s <> [].
Proof.
  intros [|c r]; cbn [Path.split]; [discriminate|].
  destruct (c =? Path.SL); [discriminate|]. destruct (Path.split r); discriminate.
Qed.

(* ---------- os.path.join( *l): the fold of join over the list ---------- *)

(* posixpath.join(a, *p) folds its loop body over p from a; with the whole list starred the first item is a *)
Lemma join_star_fold : forall a r, PyLib.join_star (a :: r) = Ret (Path.join a r).
Proof. reflexivity. Qed.

Lemma join_star_app : forall a r r',
  PyLib.join_star ((a :: r) ++ r') = PyLib.bind (PyLib.join_star (a :: r)) (fun x => PyLib.join_star (x :: r')).
Proof. intros a r r'. cbn [app PyLib.join_star PyLib.bind]. rewrite fold_left_app. reflexivity. Qed.

(* on a list that is not empty — every result of str.split — it is the model's join_star and does not raise *)
Lemma join_star_model : forall l, l <> [] -> PyLib.join_star l = Ret (M.join_star l).
Proof. intros [|a r] H; [contradiction H; reflexivity | reflexivity]. Qed.

Lemma join_star_split : forall s, PyLib.join_star (PyStr.split [47] s) = Ret (M.join_star (Path.split s)).
Proof. intros s. rewrite split_slash. apply join_star_model, path_split_nonempty. Qed.

(* ---------- the results ---------- *)

(* the model's three results as the outcome of the Python method: a str, None, ValueError out of os.path.relpath *)
Definition of_eres (e : M.eres) : outcome (option str) :=
  match e with
  | M.EPath p => Ret (Some p)
  | M.ENone => Ret None
  | M.ERaise => Raise PyLib.ValueError
  end.

Lemma pardir_sep : PyLib.pardir ++ PyLib.sep = M.PARDIR_SEP.
Proof. reflexivity. Qed.

Lemma pardir_dotdot : PyLib.pardir = Path.DOTDOT.
Proof. reflexivity. Qed.

(* case analysis over every test and over relpath's result, whatever the order they are written in; the operations of
   PyStr / PyLib are rewritten into the model's as soon as they are no longer under a binder *)
Ltac bridge :=
  repeat rewrite join_star_split;
  repeat rewrite str_eqb_bytes; repeat rewrite starts_with_prefixb; repeat rewrite ends_with_suffixb;
  repeat rewrite pardir_sep; repeat rewrite pardir_dotdot;
  change [47] with [Path.SL]; unfold PyStr.str;
  (* a comparison written with the constant on the left *)
  repeat match goal with
         | |- context [bytes_eqb Path.DOTDOT ?x] =>
             lazymatch x with Path.DOTDOT => fail | _ => rewrite (bytes_eqb_sym Path.DOTDOT x) end
         | |- context [bytes_eqb [Path.SL] ?x] =>
             lazymatch x with [Path.SL] => fail | _ => rewrite (bytes_eqb_sym [Path.SL] x) end
         end.

Ltac path_cases :=
  repeat (bridge;
          match goal with
          | |- context [bytes_eqb ?x ?y] => destruct (bytes_eqb x y)
          | |- context [Path.prefixb ?x ?y] => destruct (Path.prefixb x y)
          | |- context [Path.relpath ?a ?b ?c] => destruct (Path.relpath a b c)
          end; cbv beta iota zeta);
  reflexivity.

(* ---------- Pages.ensure_absolute_path ---------- *)

(* super().ensure_absolute_path is an ARGUMENT of the generated functions (the translator checks that it is
   BaseFiles.ensure_absolute_path: class Pages(Files), class Files(staticfiles.BaseFiles[..]) without a method of that
   name).  The theorems instantiate it with the model's ensure_files — which the segment above ties to the source of
   BaseFiles.ensure_absolute_path. *)
Definition super_model (cwd dir : str) : str -> outcome (option str) :=
  fun p => of_eres (M.ensure_files cwd dir p).

Ltac pages_cases :=
  intros cwd dir path; unfold super_model, M.ensure_pages, PyLib.bind;
  destruct (M.ensure_files cwd dir path) as [p| |]; cbn [of_eres]; cbv beta iota zeta; try reflexivity;
  change [47] with [Path.SL]; repeat rewrite ends_with_slash;
  destruct (Path.ends_slash p); cbv beta iota zeta; reflexivity.

(* ---------- BaseFiles.check_path_is_file ---------- *)

(* os.stat and the composition stat.S_ISREG(<its result>.st_mode) are ARGUMENTS of the generated function.  The theorem
   instantiates them with the model's file system: os.stat of a path is what the function fs says about it — a regular
   file / directory / other node is returned, an absent node is FileNotFoundError, an erroneous one raises the class
   [err p], about which only what the model says of NError is assumed: it is an OSError or a ValueError (a subclass,
   by the table of C07/PyLib.v, which is compared with the interpreter's issubclass on every run). *)
Definition FileNotFoundError : str := [70; 105; 108; 101; 78; 111; 116; 70; 111; 117; 110; 100; 69; 114; 114; 111; 114].
Definition OSError : str := [79; 83; 69; 114; 114; 111; 114].

Definition stat_model (fs : M.fsys) (err : str -> str) : str -> outcome M.statres :=
  fun p =>
    match fs p with
    | M.NFile id => Ret (M.SFile id)
    | M.NDir => Ret M.SDir
    | M.NOther => Ret M.SOther
    | M.NAbsent => Raise FileNotFoundError
    | M.NError => Raise (err p)
    end.

Definition is_reg (s : M.statres) : bool := match s with M.SFile _ => true | _ => false end.

Definition os_error (e : str) : Prop :=
  PyLib.is_subclass e OSError = true \/ PyLib.is_subclass e PyLib.ValueError = true.

Lemma catches_intro : forall cs e c, In c cs -> PyLib.is_subclass e c = true -> PyLib.catches cs e = true.
Proof.
  intros cs e c Hin Hsub. unfold PyLib.catches. apply existsb_exists. exists c. split; assumption.
Qed.

Lemma catches_os_error : forall cs e,
  os_error e -> In OSError cs -> In PyLib.ValueError cs -> PyLib.catches cs e = true.
Proof.
  intros cs e [H|H] H1 H2; [apply (catches_intro cs e OSError) | apply (catches_intro cs e PyLib.ValueError)]; assumption.
Qed.

Ltac in_list := cbn [In]; first [left; reflexivity | right; left; reflexivity | right; right; left; reflexivity
                                 | right; right; right; left; reflexivity].

(* METHOD-BEGIN ensure_absolute_path *)
(* BaseFiles.ensure_absolute_path translated from the source = the model's ensure_files, for every working directory,
   every self.directory and every request path (no premise: neither absolute nor normalised is needed here) *)
Theorem ensure_absolute_path_translated : forall cwd dir path,
  G.ensure_absolute_path cwd dir path = of_eres (M.ensure_files cwd dir path).
Proof.
  intros cwd dir path.
  unfold G.ensure_absolute_path, M.ensure_files, PyLib.bind, PyLib.relpath, of_eres. cbv beta zeta.
  path_cases.
Qed.

(* in particular: the method raises nothing but relpath's ValueError, and that only when the model says so *)
Theorem ensure_absolute_path_returns : forall cwd dir path p,
  G.ensure_absolute_path cwd dir path = Ret (Some p) <-> M.ensure_files cwd dir path = M.EPath p.
Proof.
  intros cwd dir path p. rewrite ensure_absolute_path_translated.
  destruct (M.ensure_files cwd dir path) as [q| |]; cbn [of_eres]; split; intros H;
    try discriminate H; injection H as H; subst; reflexivity.
Qed.

(* with the theorem of C07/Properties.v about the model (ensure_is_lexical), under its premise — the directory is absolute,
   normalised and not the root, which is what normalize_dir_path returns: the method read from the source raises nothing
   and returns the request path resolved segment by segment below the directory, None when that is outside *)
Theorem ensure_absolute_path_lexical : forall cwd dir path, M.wf_dir dir = true ->
  G.ensure_absolute_path cwd dir path = Ret (M.lexical_target dir path).
Proof.
  intros cwd dir path Hwf. rewrite ensure_absolute_path_translated.
  rewrite (Baize.C07.Properties.ensure_is_lexical cwd dir path Hwf).
  destruct (M.lexical_target dir path); reflexivity.
Qed.

Print Assumptions ensure_absolute_path_translated.
Print Assumptions ensure_absolute_path_returns.
Print Assumptions ensure_absolute_path_lexical.
(* METHOD-END ensure_absolute_path *)

(* METHOD-BEGIN check_path_is_file *)
(* BaseFiles.check_path_is_file translated from the source = the model's check (its stat result and its is-a-file flag;
   the list of accesses the model also returns is outside a pure function: the case-based tie records it), for every
   file system and every path or None; in particular no exception of os.stat escapes *)
Theorem check_path_is_file_translated : forall fs err, (forall p, os_error (err p)) -> forall p,
  G.check_path_is_file (stat_model fs err) is_reg p =
  Ret (fst (fst (M.check fs p)), snd (fst (M.check fs p))).
Proof.
  intros fs err Herr p.
  unfold G.check_path_is_file, M.check, stat_model, PyLib.try_except, PyLib.bind.
  destruct p as [p|]; [|reflexivity].
  (* an absent node: FileNotFoundError is caught, by evaluation of the table; an erroneous one: by the premise *)
  destruct (fs p); cbv beta iota zeta; try reflexivity.
  match goal with
  | |- context [PyLib.catches ?cs (err ?q)] =>
      rewrite (catches_os_error cs (err q) (Herr q)) by in_list
  end.
  reflexivity.
Qed.

Print Assumptions check_path_is_file_translated.
(* METHOD-END check_path_is_file *)

(* METHOD-BEGIN wsgi_pages_ensure_absolute_path *)
Theorem wsgi_pages_ensure_absolute_path_translated : forall cwd dir path,
  G.wsgi_pages_ensure_absolute_path (super_model cwd dir) cwd dir path = of_eres (M.ensure_pages cwd dir path).
Proof. unfold G.wsgi_pages_ensure_absolute_path. pages_cases. Qed.

Print Assumptions wsgi_pages_ensure_absolute_path_translated.
(* METHOD-END wsgi_pages_ensure_absolute_path *)

(* METHOD-BEGIN asgi_pages_ensure_absolute_path *)
Theorem asgi_pages_ensure_absolute_path_translated : forall cwd dir path,
  G.asgi_pages_ensure_absolute_path (super_model cwd dir) cwd dir path = of_eres (M.ensure_pages cwd dir path).
Proof. unfold G.asgi_pages_ensure_absolute_path. pages_cases. Qed.

Print Assumptions asgi_pages_ensure_absolute_path_translated.
(* METHOD-END asgi_pages_ensure_absolute_path *)
