(* C07 — executable model of baize's static-file applications
   (baize/staticfiles.py, baize/wsgi/staticfiles.py, baize/asgi/staticfiles.py).

   Text is [list N] (code points).  The file system is a parameter: a function
   from absolute path text to a node (what os.stat / open would find); it does
   not change during one request.  Every model function that touches the file
   system returns, beside its result, the list of paths it stats or opens, in
   order.  No proofs here. *)
From Coq Require Import List NArith Bool.
From Baize Require Import Lib.Order Lib.Wire Lib.Path.
Import ListNotations.
Local Open Scope N_scope.

(* ---------- the file system as seen through os.stat / open ---------- *)

Inductive node : Type :=
| NFile (id : N)     (* regular file; [id] identifies its content *)
| NDir               (* directory *)
| NOther             (* fifo, socket, device: stat succeeds, neither S_ISREG nor S_ISDIR *)
| NAbsent            (* FileNotFoundError *)
| NError.            (* any other OSError / ValueError of os.stat (ENOTDIR, ELOOP, ENAMETOOLONG, NUL) *)

Definition fsys := list N -> node.

Inductive access : Type :=
| AStat (p : list N)
| AOpen (p : list N).

Definition acc_path (a : access) : list N := match a with AStat p => p | AOpen p => p end.

(* ---------- constants ---------- *)

Definition INDEX_HTML : list N := lit "index.html".
Definition DOT_HTML : list N := lit ".html".
Definition PARDIR_SEP : list N := [46; 46; 47].

(* ---------- BaseFiles.normalize_dir_path ---------- *)

(* [pkg] = None: no package; Some origin: importlib's spec.origin of the package
   (the path of its __init__.py).  None as a result = the constructor's assert fails. *)
Definition normalize_dir (fs : fsys) (cwd directory : list N) (pkg : option (list N)) : option (list N) :=
  match pkg with
  | None => Some (abspath cwd directory)
  | Some origin =>
      if starts_slash directory then None
      else
        let d := normpath (join origin [DOTDOT; directory]) in
        match fs d with NDir => Some d | _ => None end
  end.

(* ---------- BaseFiles.ensure_absolute_path ---------- *)

Inductive eres : Type :=
| EPath (p : list N)
| ENone              (* returns None: outside the directory *)
| ERaise.            (* relpath raised ValueError (empty path) *)

(* os.path.join applied to the items of path.split("/") *)
Definition join_star (segs : list (list N)) : list N :=
  match segs with a :: r => join a r | [] => [] end.

Definition ensure_files (cwd dir path : list N) : eres :=
  let ab := abspath cwd (join dir [join_star (split path)]) in
  let ab' := if bytes_eqb path [SL] then ab ++ [SL] else ab in
  match relpath cwd ab' dir with
  | None => ERaise
  | Some rp =>
      if bytes_eqb rp DOTDOT || prefixb PARDIR_SEP rp then ENone else EPath ab'
  end.

(* Pages.ensure_absolute_path *)
Definition ensure_pages (cwd dir path : list N) : eres :=
  match ensure_files cwd dir path with
  | EPath p => EPath (if ends_slash p then p ++ INDEX_HTML else p)
  | e => e
  end.

(* ---------- BaseFiles.check_path_is_file ---------- *)

Inductive statres : Type := SFile (id : N) | SDir | SOther.

Definition check (fs : fsys) (p : option (list N)) : option statres * bool * list access :=
  match p with
  | None => (None, false, [])
  | Some p =>
      match fs p with
      | NFile id => (Some (SFile id), true, [AStat p])
      | NDir => (Some SDir, false, [AStat p])
      | NOther => (Some SOther, false, [AStat p])
      | NAbsent => (None, false, [AStat p])
      | NError => (None, false, [AStat p])
      end
  end.

(* ---------- the applications ---------- *)

Inductive outcome : Type :=
| Served (p : list N) (id : N)   (* 200, body = content [id] read from path [p] *)
| Redirect (loc : list N)        (* 307, Location = the request URL with this path *)
| NotFound                       (* HTTPException(404) / handle_404 *)
| Crash.                         (* an exception that is not an HTTP answer *)

Definition eopt (e : eres) : option (list N) := match e with EPath p => Some p | _ => None end.

(* Files.__call__ (identical text in the WSGI and the ASGI class) *)
Definition files_call (fs : fsys) (cwd dir path : list N) : outcome * list access :=
  match ensure_files cwd dir path with
  | ERaise => (Crash, [])
  | e =>
      let fp := eopt e in
      match check fs fp with
      | (Some (SFile id), true, acc) =>
          match fp with
          | Some p => (Served p id, acc ++ [AOpen p])
          | None => (NotFound, acc)
          end
      | (_, _, acc) => (NotFound, acc)
      end
  end.

(* Pages.__call__ *)
Definition pages_call (fs : fsys) (cwd dir path : list N) : outcome * list access :=
  match ensure_pages cwd dir path with
  | ERaise => (Crash, [])
  | ENone => (NotFound, [])
  | EPath p =>
      match check fs (Some p) with
      | (st, isf, acc1) =>
          let second :=
            match st with
            | None =>
                if negb (suffixb DOT_HTML p) && negb (bytes_eqb p dir) then
                  let p' := p ++ DOT_HTML in
                  match check fs (Some p') with
                  | (Some (SFile id), _, a) => (p', Some (SFile id), a)
                  | (_, _, a) => (p', None, a)      (* only a regular file can stand in *)
                  end
                else (p, st, [])
            | Some SDir =>
                if ends_slash path then
                  let p' := join p [INDEX_HTML] in
                  match check fs (Some p') with
                  | (Some (SFile id), _, a) => (p', Some (SFile id), a)
                  | (_, _, a) => (p', None, a)
                  end
                else (p, st, [])
            | _ => (p, st, [])
            end in
          match second with
          | (p2, Some (SFile id), acc2) => (Served p2 id, acc1 ++ acc2 ++ [AOpen p2])
          | (_, Some SDir, acc2) => (Redirect (path ++ [SL]), acc1 ++ acc2)
          | (_, _, acc2) => (NotFound, acc1 ++ acc2)
          end
      end
  end.

Inductive kind : Type := KFiles | KPages.

Definition app_call (k : kind) : fsys -> list N -> list N -> list N -> outcome * list access :=
  match k with KFiles => files_call | KPages => pages_call end.

(* the request a client makes next when it is redirected *)
Definition follow (k : kind) (fs : fsys) (cwd dir path : list N) : option (outcome * list access) :=
  match fst (app_call k fs cwd dir path) with
  | Redirect loc => Some (app_call k fs cwd dir loc)
  | _ => None
  end.

(* ---------- specification vocabulary (executable; used by the statements) ---------- *)

(* Lexical resolution of a list of path segments on a stack of segments (top first):
   empty segments and "." are skipped, ".." removes the segment before it (nothing
   above the root), any other segment is entered. *)
Fixpoint lex (st cs : list (list N)) : list (list N) :=
  match cs with
  | [] => st
  | c :: r =>
      if negb (nonempty c) || is_dot c then lex st r
      else if is_dotdot c then lex (tl st) r
      else lex (c :: st) r
  end.

(* the directory a Files/Pages application works with: absolute, normalised, not the root *)
Definition wf_dir (dir : list N) : bool :=
  starts_slash dir && negb (ends_slash dir) && bytes_eqb (normpath dir) dir.

(* The request path resolved lexically below [dir]: the segments of [dir] followed by
   those of the path, resolved by [lex]; [None] when the result is not [dir] or below it.
   The text is the one handed to the file system: for the root URL "/" (and only for
   it) baize writes the directory with a trailing slash. *)
Definition lexical_target (dir path : list N) : option (list N) :=
  let d := comps dir in
  let r := rev (lex (rev d) (split path)) in
  if Nat.eqb (common_len d r) (length d)
  then Some (render (initial_slashes dir) r ++ (if bytes_eqb path [SL] then [SL] else []))
  else None.

(* Pages: what is looked at first *)
Definition pages_first (t : list N) : list N := if ends_slash t then t ++ INDEX_HTML else t.

(* interface instances: the decision procedure is the same text in both classes *)
Definition wsgi_call := app_call.
Definition asgi_call := app_call.

(* ---------- the code before the repairs (only for the refutation theorems) ---------- *)

(* ensure_absolute_path as found: relpath(...).startswith("..") *)
Definition ensure_files_found (cwd dir path : list N) : eres :=
  let ab := abspath cwd (join dir [join_star (split path)]) in
  let ab' := if bytes_eqb path [SL] then ab ++ [SL] else ab in
  match relpath cwd ab' dir with
  | None => ERaise
  | Some rp => if prefixb DOTDOT rp then ENone else EPath ab'
  end.

Definition ensure_pages_found (cwd dir path : list N) : eres :=
  match ensure_files_found cwd dir path with
  | EPath p => EPath (if ends_slash p then p ++ INDEX_HTML else p)
  | e => e
  end.

(* Files.__call__ as found: only FileNotFoundError is caught by check_path_is_file *)
Definition files_call_found (fs : fsys) (cwd dir path : list N) : outcome * list access :=
  match ensure_files_found cwd dir path with
  | ERaise => (Crash, [])
  | ENone => (NotFound, [])
  | EPath p =>
      match fs p with
      | NFile id => (Served p id, [AStat p; AOpen p])
      | NError => (Crash, [AStat p])
      | _ => (NotFound, [AStat p])
      end
  end.

(* Pages.__call__ with a switch for the planned repair 0013 (index.html for a directory URL
   ending in "/") and without the two repairs made for this property; stat errors as repaired *)
Definition pages_call_old (with_0013 : bool) (ens : list N -> list N -> list N -> eres)
    (fs : fsys) (cwd dir path : list N) : outcome * list access :=
  match ens cwd dir path with
  | ERaise => (Crash, [])
  | ENone => (NotFound, [])
  | EPath p =>
      match check fs (Some p) with
      | (st, isf, acc1) =>
          let second :=
            match st with
            | None =>
                if negb (suffixb DOT_HTML p) then
                  match check fs (Some (p ++ DOT_HTML)) with (s, _, a) => (p ++ DOT_HTML, s, a) end
                else (p, st, [])
            | Some SDir =>
                if with_0013 && ends_slash path then
                  match check fs (Some (join p [INDEX_HTML])) with (s, _, a) => (join p [INDEX_HTML], s, a) end
                else (p, st, [])
            | _ => (p, st, [])
            end in
          match second with
          | (p2, Some (SFile id), acc2) => (Served p2 id, acc1 ++ acc2 ++ [AOpen p2])
          | (_, Some SDir, acc2) => (Redirect (path ++ [SL]), acc1 ++ acc2)
          | (_, _, acc2) => (NotFound, acc1 ++ acc2)
          end
      end
  end.

Definition pages_call_found := pages_call_old false ensure_pages_found.
Definition pages_call_planned := pages_call_old true ensure_pages.
