(* C07 — Static-file applications serve exactly the files inside their directory.
   Statements only; every proof is a reference to C07/Proofs.v.

   Vocabulary (C07/Model.v, Lib/Path.v, Lib/PathFacts.v):
     wf_dir dir             dir is absolute, normalised (normpath dir = dir) and not "/" or "//"
     lexical_target dir p   the request path p resolved segment by segment below dir
                            ([lex]: "" and "." skipped, ".." removes its predecessor), None when
                            the result is not dir or below it; the text handed to the file system
     below dir p            p = dir, or p = dir ++ "/" ++ s1/.../sn, no si empty, ".", ".." or with "/"
     app_call k fs cwd dir p = (outcome, every path given to the file system, in order)
   All statements hold for every request path text, every file-system function [fs], every
   working directory [cwd]; wsgi_call and asgi_call are the same decision procedure. *)
From Coq Require Import List NArith Bool.
From Baize Require Import Lib.Order Lib.Wire Lib.Path Lib.PathFacts C07.Model C07.Proofs.
Import ListNotations.
Local Open Scope N_scope.

(* the directory computed by the constructor is well-formed (or the root), whatever was passed *)
Theorem normalize_dir_wf : forall fs cwd directory pkg dir,
  starts_slash (match pkg with None => cwd | Some origin => origin end) = true ->
  normalize_dir fs cwd directory pkg = Some dir ->
  wf_dir dir = true \/ dir = [SL] \/ dir = [SL; SL].
Proof. exact normalize_dir_wf_proof. Qed.

(* what ensure_absolute_path computes — join, abspath, relpath and the ".." test — is the lexical target *)
Theorem ensure_is_lexical : forall cwd dir path, wf_dir dir = true ->
  ensure_files cwd dir path = match lexical_target dir path with Some t => EPath t | None => ENone end.
Proof. exact ensure_files_lexical. Qed.

(* every path handed to the file system is the directory or lexically below it *)
Theorem confined : forall k fs cwd dir path, wf_dir dir = true ->
  Forall (fun a => below dir (acc_path a)) (snd (app_call k fs cwd dir path)).
Proof. exact confined_proof. Qed.

Theorem below_textual : forall dir p, wf_dir dir = true -> below dir p ->
  p = dir \/ (prefixb (dir ++ [SL]) p = true /\ ~ In DOTDOT (split p) /\ ~ In DOT (split p)).
Proof. exact below_textual_proof. Qed.

(* a path that resolves outside is answered 404 without asking the file system anything *)
Theorem outside_untouched : forall k fs cwd dir path, wf_dir dir = true ->
  lexical_target dir path = None -> app_call k fs cwd dir path = (NotFound, []).
Proof. exact outside_untouched_proof. Qed.

(* a 200 body is the regular file at the lexical resolution *)
Theorem serves_resolved_files : forall fs cwd dir path p id, wf_dir dir = true ->
  fst (files_call fs cwd dir path) = Served p id ->
  lexical_target dir path = Some p /\ fs p = NFile id.
Proof. exact serves_resolved_files_proof. Qed.

(* Pages: the resolution itself, or + ".html" when there is nothing at the resolution, or
   index.html of the directory for a URL ending in "/" *)
Theorem serves_resolved_pages : forall fs cwd dir path p id, wf_dir dir = true ->
  fs (dir ++ SL :: INDEX_HTML) <> NDir ->
  fst (pages_call fs cwd dir path) = Served p id ->
  exists t, lexical_target dir path = Some t /\ fs p = NFile id /\
    (p = t \/
     (p = t ++ DOT_HTML /\ t <> dir /\ (fs t = NAbsent \/ fs t = NError)) \/
     (p = with_slash t ++ INDEX_HTML /\ ends_slash path = true /\ (ends_slash t = true \/ fs t = NDir))).
Proof. exact serves_resolved_pages_proof. Qed.

(* every regular file below the directory is served at its own path (Files and Pages) *)
Theorem complete : forall k fs cwd dir names id, wf_dir dir = true ->
  Forall good_seg names -> names <> [] ->
  fs (dir ++ SL :: join_sep names) = NFile id ->
  fst (app_call k fs cwd dir (SL :: join_sep names)) = Served (dir ++ SL :: join_sep names) id.
Proof. exact complete_proof. Qed.

(* every other path yields not-found: Files answers 404 or serves the resolved regular file *)
Theorem not_found_otherwise_files : forall fs cwd dir path, wf_dir dir = true ->
  fst (files_call fs cwd dir path) = NotFound \/
  exists t id, lexical_target dir path = Some t /\ fs t = NFile id /\
               fst (files_call fs cwd dir path) = Served t id.
Proof. exact not_found_otherwise_files_proof. Qed.

(* Pages answers 404, serves a file (which one: serves_resolved_pages), or redirects a
   directory URL without trailing slash to the same URL plus "/"; it never raises *)
Theorem not_found_otherwise_pages : forall fs cwd dir path, wf_dir dir = true ->
  let o := fst (pages_call fs cwd dir path) in
  o = NotFound \/ (exists p id, o = Served p id) \/
  (o = Redirect (path ++ [SL]) /\ ends_slash path = false /\
   exists t, lexical_target dir path = Some t /\ fs t = NDir).
Proof. exact not_found_otherwise_pages_proof. Qed.

(* the redirect target, requested next, serves the directory's index page and never redirects again *)
Theorem redirect_then_index : forall fs cwd dir path loc, wf_dir dir = true ->
  fst (pages_call fs cwd dir path) = Redirect loc ->
  loc = path ++ [SL] /\ ends_slash path = false /\
  exists t, lexical_target dir path = Some t /\ fs t = NDir /\
    (forall id, fs (t ++ SL :: INDEX_HTML) = NFile id ->
       fst (pages_call fs cwd dir loc) = Served (t ++ SL :: INDEX_HTML) id) /\
    (forall l2, fst (pages_call fs cwd dir loc) <> Redirect l2).
Proof. exact redirect_then_index_proof. Qed.

(* both interfaces *)
Theorem confined_wsgi_asgi : forall k fs cwd dir path, wf_dir dir = true ->
  Forall (fun a => below dir (acc_path a)) (snd (wsgi_call k fs cwd dir path)) /\
  Forall (fun a => below dir (acc_path a)) (snd (asgi_call k fs cwd dir path)).
Proof. exact confined_both_proof. Qed.

(* ---------- the code before the repairs does not have the property (witnesses replay on /repo) ---------- *)

(* as found: a regular file called "..name" inside the directory is 404 *)
Theorem found_dotdot_name_refuted :
  exists fs cwd dir names id, wf_dir dir = true /\ Forall good_seg names /\ names <> [] /\
    fs (dir ++ SL :: join_sep names) = NFile id /\
    fst (files_call_found fs cwd dir (SL :: join_sep names)) = NotFound.
Proof. exact found_dotdot_name_proof. Qed.

(* as found: an os.stat error other than "not found" escapes *)
Theorem found_stat_error_refuted :
  exists fs cwd dir path, wf_dir dir = true /\ fst (files_call_found fs cwd dir path) = Crash.
Proof. exact found_stat_error_proof. Qed.

(* as found: Pages redirects a sub-directory URL that already ends in "/" *)
Theorem found_dir_slash_refuted :
  exists fs cwd dir path id, wf_dir dir = true /\
    lexical_target dir path = Some (lit "/srv/www/sub") /\ fs (lit "/srv/www/sub") = NDir /\
    fs (lit "/srv/www/sub/index.html") = NFile id /\ ends_slash path = true /\
    fst (pages_call_found fs cwd dir path) = Redirect (path ++ [SL]).
Proof. exact found_dir_slash_proof. Qed.

(* with the planned repairs 0011-0013 only: Pages asks for, and serves, <directory>.html beside a missing directory *)
Theorem planned_html_sibling_refuted :
  exists fs cwd dir path, wf_dir dir = true /\
    ~ Forall (fun a => below dir (acc_path a)) (snd (pages_call_planned fs cwd dir path)) /\
    fst (pages_call_planned fs cwd dir path) = Served (lit "/srv/www.html") 5.
Proof. exact planned_html_sibling_proof. Qed.

(* with the planned repairs only: <path>.html being a directory gives a redirect that redirects again *)
Theorem planned_html_dir_loop_refuted :
  exists fs cwd dir path, wf_dir dir = true /\
    lexical_target dir path = Some (lit "/srv/www/d") /\ fs (lit "/srv/www/d") = NAbsent /\
    fst (pages_call_planned fs cwd dir path) = Redirect (path ++ [SL]) /\
    fst (pages_call_planned fs cwd dir (path ++ [SL])) = Redirect (path ++ [SL; SL]).
Proof. exact planned_html_dir_loop_proof. Qed.

(* ---------- non-vacuity ---------- *)

Example ex_wf : wf_dir ex_dir = true.
Proof. reflexivity. Qed.

Example ex_premise : ex_fs (ex_dir ++ SL :: INDEX_HTML) <> NDir.
Proof. discriminate. Qed.

Example ex_dotdot_name : files_call ex_fs (lit "/") ex_dir (lit "/x/../..name") =
  (Served (lit "/srv/www/..name") 2, [AStat (lit "/srv/www/..name"); AOpen (lit "/srv/www/..name")]).
Proof. reflexivity. Qed.

Example ex_sibling : files_call ex_fs (lit "/") ex_dir (lit "/../wwwx/secret") = (NotFound, []).
Proof. reflexivity. Qed.

Example ex_redirect : fst (pages_call ex_fs (lit "/") ex_dir (lit "/sub")) = Redirect (lit "/sub/") /\
  fst (pages_call ex_fs (lit "/") ex_dir (lit "/sub/")) = Served (lit "/srv/www/sub/index.html") 1.
Proof. split; reflexivity. Qed.

Example ex_html : fst (pages_call ex_fs (lit "/") ex_dir (lit "/about")) = Served (lit "/srv/www/about.html") 3.
Proof. reflexivity. Qed.

Example ex_names : Forall good_seg [lit "..name"] /\ [lit "..name"] <> [].
Proof.
  split; [|discriminate]. constructor; [|constructor].
  unfold good_seg, plain_seg, slash_free. repeat split; try discriminate. cbv. intuition discriminate.
Qed.

Print Assumptions normalize_dir_wf.
Print Assumptions ensure_is_lexical.
Print Assumptions confined.
Print Assumptions below_textual.
Print Assumptions outside_untouched.
Print Assumptions serves_resolved_files.
Print Assumptions serves_resolved_pages.
Print Assumptions complete.
Print Assumptions not_found_otherwise_files.
Print Assumptions not_found_otherwise_pages.
Print Assumptions redirect_then_index.
Print Assumptions confined_wsgi_asgi.
Print Assumptions found_dotdot_name_refuted.
Print Assumptions found_stat_error_refuted.
Print Assumptions found_dir_slash_refuted.
Print Assumptions planned_html_sibling_refuted.
Print Assumptions planned_html_dir_loop_refuted.
