(* C07/PyLib.v — the os / os.path operations that tools/py2coq_c07.py emits calls to, as total Gallina functions.

   The path functions themselves are NOT defined here: os.path.join / normpath / abspath / relpath are the functions of
   Lib/Path.v (CPython 3.12 posixpath on text, the working directory a parameter), which the "path" case stream of
   harness/c07.py compares with the interpreter's os.path on every run.  This file only adds what the Python of
   baize/staticfiles.py needs around them:

     os.pardir, os.sep                    the two constants
     os.path.join( *l)                     a call with a starred list: posixpath.join(a, *p) applied to the items of l —
                                          the first item is a, the others are folded in from the left (Path.join is that
                                          fold); an empty list is a call without the required argument: TypeError
     os.path.relpath(p, start)            Path.relpath; its None is ValueError("no path specified")
     bind                                 sequencing of expressions that may raise
     try: .. except (C1, C2): ..          try_except, over the table of the built-in exception classes (EXC_BASES)

   The translator (fail-closed) only emits these for the argument shapes stated.  Everything here is evaluated inside
   coqc and compared with the running interpreter on every run (tools/py2coq_c07.py: pylib_check).

   No proofs in this file (the facts are in C07/Translated.v). *)
From Coq Require Import List NArith Bool.
From Baize Require Import Lib.PyStr.
From Baize Require Lib.Path.
Import ListNotations.
Local Open Scope N_scope.

Definition pardir : str := [46; 46].   (* os.pardir  '..' *)
Definition sep : str := [47].          (* os.sep     '/'  *)

Definition TypeError : str := [84; 121; 112; 101; 69; 114; 114; 111; 114].
Definition ValueError : str := [86; 97; 108; 117; 101; 69; 114; 114; 111; 114].

Definition bind {A B : Type} (o : outcome A) (f : A -> outcome B) : outcome B :=
  match o with
  | Ret a => f a
  | Raise e => Raise e
  end.

(* os.path.join( *l)   (l a list of str) *)
Definition join_star (l : list str) : outcome str :=
  match l with
  | [] => Raise TypeError
  | a :: r => Ret (fold_left Path.join2 r a)
  end.

(* os.path.relpath(p, start)   (both str; cwd = os.getcwd()) *)
Definition relpath (cwd p start : str) : outcome str :=
  match Path.relpath cwd p start with
  | Some r => Ret r
  | None => Raise ValueError
  end.

(* ---------- try / except over the built-in exception classes ---------- *)

(* (class, direct base) for every exception class of the builtins module (CPython 3.12; ExceptionGroup has two bases).
   Aliases (IOError, EnvironmentError = OSError) are not names of classes of their own and are refused by the translator. *)
Definition EXC_BASES : list (str * str) := [
    ([66; 97; 115; 101; 69; 120; 99; 101; 112; 116; 105; 111; 110; 71; 114; 111; 117; 112], [66; 97; 115; 101; 69; 120; 99; 101; 112; 116; 105; 111; 110]); (* BaseExceptionGroup < BaseException *)
    ([69; 120; 99; 101; 112; 116; 105; 111; 110; 71; 114; 111; 117; 112], [66; 97; 115; 101; 69; 120; 99; 101; 112; 116; 105; 111; 110; 71; 114; 111; 117; 112]); (* ExceptionGroup < BaseExceptionGroup *)
    ([69; 120; 99; 101; 112; 116; 105; 111; 110], [66; 97; 115; 101; 69; 120; 99; 101; 112; 116; 105; 111; 110]); (* Exception < BaseException *)
    ([65; 114; 105; 116; 104; 109; 101; 116; 105; 99; 69; 114; 114; 111; 114], [69; 120; 99; 101; 112; 116; 105; 111; 110]); (* ArithmeticError < Exception *)
    ([70; 108; 111; 97; 116; 105; 110; 103; 80; 111; 105; 110; 116; 69; 114; 114; 111; 114], [65; 114; 105; 116; 104; 109; 101; 116; 105; 99; 69; 114; 114; 111; 114]); (* FloatingPointError < ArithmeticError *)
    ([79; 118; 101; 114; 102; 108; 111; 119; 69; 114; 114; 111; 114], [65; 114; 105; 116; 104; 109; 101; 116; 105; 99; 69; 114; 114; 111; 114]); (* OverflowError < ArithmeticError *)
    ([90; 101; 114; 111; 68; 105; 118; 105; 115; 105; 111; 110; 69; 114; 114; 111; 114], [65; 114; 105; 116; 104; 109; 101; 116; 105; 99; 69; 114; 114; 111; 114]); (* ZeroDivisionError < ArithmeticError *)
    ([65; 115; 115; 101; 114; 116; 105; 111; 110; 69; 114; 114; 111; 114], [69; 120; 99; 101; 112; 116; 105; 111; 110]); (* AssertionError < Exception *)
    ([65; 116; 116; 114; 105; 98; 117; 116; 101; 69; 114; 114; 111; 114], [69; 120; 99; 101; 112; 116; 105; 111; 110]); (* AttributeError < Exception *)
    ([66; 117; 102; 102; 101; 114; 69; 114; 114; 111; 114], [69; 120; 99; 101; 112; 116; 105; 111; 110]); (* BufferError < Exception *)
    ([69; 79; 70; 69; 114; 114; 111; 114], [69; 120; 99; 101; 112; 116; 105; 111; 110]); (* EOFError < Exception *)
    ([73; 109; 112; 111; 114; 116; 69; 114; 114; 111; 114], [69; 120; 99; 101; 112; 116; 105; 111; 110]); (* ImportError < Exception *)
    ([77; 111; 100; 117; 108; 101; 78; 111; 116; 70; 111; 117; 110; 100; 69; 114; 114; 111; 114], [73; 109; 112; 111; 114; 116; 69; 114; 114; 111; 114]); (* ModuleNotFoundError < ImportError *)
    ([76; 111; 111; 107; 117; 112; 69; 114; 114; 111; 114], [69; 120; 99; 101; 112; 116; 105; 111; 110]); (* LookupError < Exception *)
    ([73; 110; 100; 101; 120; 69; 114; 114; 111; 114], [76; 111; 111; 107; 117; 112; 69; 114; 114; 111; 114]); (* IndexError < LookupError *)
    ([75; 101; 121; 69; 114; 114; 111; 114], [76; 111; 111; 107; 117; 112; 69; 114; 114; 111; 114]); (* KeyError < LookupError *)
    ([77; 101; 109; 111; 114; 121; 69; 114; 114; 111; 114], [69; 120; 99; 101; 112; 116; 105; 111; 110]); (* MemoryError < Exception *)
    ([78; 97; 109; 101; 69; 114; 114; 111; 114], [69; 120; 99; 101; 112; 116; 105; 111; 110]); (* NameError < Exception *)
    ([85; 110; 98; 111; 117; 110; 100; 76; 111; 99; 97; 108; 69; 114; 114; 111; 114], [78; 97; 109; 101; 69; 114; 114; 111; 114]); (* UnboundLocalError < NameError *)
    ([79; 83; 69; 114; 114; 111; 114], [69; 120; 99; 101; 112; 116; 105; 111; 110]); (* OSError < Exception *)
    ([66; 108; 111; 99; 107; 105; 110; 103; 73; 79; 69; 114; 114; 111; 114], [79; 83; 69; 114; 114; 111; 114]); (* BlockingIOError < OSError *)
    ([67; 104; 105; 108; 100; 80; 114; 111; 99; 101; 115; 115; 69; 114; 114; 111; 114], [79; 83; 69; 114; 114; 111; 114]); (* ChildProcessError < OSError *)
    ([67; 111; 110; 110; 101; 99; 116; 105; 111; 110; 69; 114; 114; 111; 114], [79; 83; 69; 114; 114; 111; 114]); (* ConnectionError < OSError *)
    ([66; 114; 111; 107; 101; 110; 80; 105; 112; 101; 69; 114; 114; 111; 114], [67; 111; 110; 110; 101; 99; 116; 105; 111; 110; 69; 114; 114; 111; 114]); (* BrokenPipeError < ConnectionError *)
    ([67; 111; 110; 110; 101; 99; 116; 105; 111; 110; 65; 98; 111; 114; 116; 101; 100; 69; 114; 114; 111; 114], [67; 111; 110; 110; 101; 99; 116; 105; 111; 110; 69; 114; 114; 111; 114]); (* ConnectionAbortedError < ConnectionError *)
    ([67; 111; 110; 110; 101; 99; 116; 105; 111; 110; 82; 101; 102; 117; 115; 101; 100; 69; 114; 114; 111; 114], [67; 111; 110; 110; 101; 99; 116; 105; 111; 110; 69; 114; 114; 111; 114]); (* ConnectionRefusedError < ConnectionError *)
    ([67; 111; 110; 110; 101; 99; 116; 105; 111; 110; 82; 101; 115; 101; 116; 69; 114; 114; 111; 114], [67; 111; 110; 110; 101; 99; 116; 105; 111; 110; 69; 114; 114; 111; 114]); (* ConnectionResetError < ConnectionError *)
    ([70; 105; 108; 101; 69; 120; 105; 115; 116; 115; 69; 114; 114; 111; 114], [79; 83; 69; 114; 114; 111; 114]); (* FileExistsError < OSError *)
    ([70; 105; 108; 101; 78; 111; 116; 70; 111; 117; 110; 100; 69; 114; 114; 111; 114], [79; 83; 69; 114; 114; 111; 114]); (* FileNotFoundError < OSError *)
    ([73; 110; 116; 101; 114; 114; 117; 112; 116; 101; 100; 69; 114; 114; 111; 114], [79; 83; 69; 114; 114; 111; 114]); (* InterruptedError < OSError *)
    ([73; 115; 65; 68; 105; 114; 101; 99; 116; 111; 114; 121; 69; 114; 114; 111; 114], [79; 83; 69; 114; 114; 111; 114]); (* IsADirectoryError < OSError *)
    ([78; 111; 116; 65; 68; 105; 114; 101; 99; 116; 111; 114; 121; 69; 114; 114; 111; 114], [79; 83; 69; 114; 114; 111; 114]); (* NotADirectoryError < OSError *)
    ([80; 101; 114; 109; 105; 115; 115; 105; 111; 110; 69; 114; 114; 111; 114], [79; 83; 69; 114; 114; 111; 114]); (* PermissionError < OSError *)
    ([80; 114; 111; 99; 101; 115; 115; 76; 111; 111; 107; 117; 112; 69; 114; 114; 111; 114], [79; 83; 69; 114; 114; 111; 114]); (* ProcessLookupError < OSError *)
    ([84; 105; 109; 101; 111; 117; 116; 69; 114; 114; 111; 114], [79; 83; 69; 114; 114; 111; 114]); (* TimeoutError < OSError *)
    ([82; 101; 102; 101; 114; 101; 110; 99; 101; 69; 114; 114; 111; 114], [69; 120; 99; 101; 112; 116; 105; 111; 110]); (* ReferenceError < Exception *)
    ([82; 117; 110; 116; 105; 109; 101; 69; 114; 114; 111; 114], [69; 120; 99; 101; 112; 116; 105; 111; 110]); (* RuntimeError < Exception *)
    ([78; 111; 116; 73; 109; 112; 108; 101; 109; 101; 110; 116; 101; 100; 69; 114; 114; 111; 114], [82; 117; 110; 116; 105; 109; 101; 69; 114; 114; 111; 114]); (* NotImplementedError < RuntimeError *)
    ([82; 101; 99; 117; 114; 115; 105; 111; 110; 69; 114; 114; 111; 114], [82; 117; 110; 116; 105; 109; 101; 69; 114; 114; 111; 114]); (* RecursionError < RuntimeError *)
    ([83; 116; 111; 112; 65; 115; 121; 110; 99; 73; 116; 101; 114; 97; 116; 105; 111; 110], [69; 120; 99; 101; 112; 116; 105; 111; 110]); (* StopAsyncIteration < Exception *)
    ([83; 116; 111; 112; 73; 116; 101; 114; 97; 116; 105; 111; 110], [69; 120; 99; 101; 112; 116; 105; 111; 110]); (* StopIteration < Exception *)
    ([83; 121; 110; 116; 97; 120; 69; 114; 114; 111; 114], [69; 120; 99; 101; 112; 116; 105; 111; 110]); (* SyntaxError < Exception *)
    ([73; 110; 100; 101; 110; 116; 97; 116; 105; 111; 110; 69; 114; 114; 111; 114], [83; 121; 110; 116; 97; 120; 69; 114; 114; 111; 114]); (* IndentationError < SyntaxError *)
    ([84; 97; 98; 69; 114; 114; 111; 114], [73; 110; 100; 101; 110; 116; 97; 116; 105; 111; 110; 69; 114; 114; 111; 114]); (* TabError < IndentationError *)
    ([83; 121; 115; 116; 101; 109; 69; 114; 114; 111; 114], [69; 120; 99; 101; 112; 116; 105; 111; 110]); (* SystemError < Exception *)
    ([84; 121; 112; 101; 69; 114; 114; 111; 114], [69; 120; 99; 101; 112; 116; 105; 111; 110]); (* TypeError < Exception *)
    ([86; 97; 108; 117; 101; 69; 114; 114; 111; 114], [69; 120; 99; 101; 112; 116; 105; 111; 110]); (* ValueError < Exception *)
    ([85; 110; 105; 99; 111; 100; 101; 69; 114; 114; 111; 114], [86; 97; 108; 117; 101; 69; 114; 114; 111; 114]); (* UnicodeError < ValueError *)
    ([85; 110; 105; 99; 111; 100; 101; 68; 101; 99; 111; 100; 101; 69; 114; 114; 111; 114], [85; 110; 105; 99; 111; 100; 101; 69; 114; 114; 111; 114]); (* UnicodeDecodeError < UnicodeError *)
    ([85; 110; 105; 99; 111; 100; 101; 69; 110; 99; 111; 100; 101; 69; 114; 114; 111; 114], [85; 110; 105; 99; 111; 100; 101; 69; 114; 114; 111; 114]); (* UnicodeEncodeError < UnicodeError *)
    ([85; 110; 105; 99; 111; 100; 101; 84; 114; 97; 110; 115; 108; 97; 116; 101; 69; 114; 114; 111; 114], [85; 110; 105; 99; 111; 100; 101; 69; 114; 114; 111; 114]); (* UnicodeTranslateError < UnicodeError *)
    ([87; 97; 114; 110; 105; 110; 103], [69; 120; 99; 101; 112; 116; 105; 111; 110]); (* Warning < Exception *)
    ([66; 121; 116; 101; 115; 87; 97; 114; 110; 105; 110; 103], [87; 97; 114; 110; 105; 110; 103]); (* BytesWarning < Warning *)
    ([68; 101; 112; 114; 101; 99; 97; 116; 105; 111; 110; 87; 97; 114; 110; 105; 110; 103], [87; 97; 114; 110; 105; 110; 103]); (* DeprecationWarning < Warning *)
    ([69; 110; 99; 111; 100; 105; 110; 103; 87; 97; 114; 110; 105; 110; 103], [87; 97; 114; 110; 105; 110; 103]); (* EncodingWarning < Warning *)
    ([70; 117; 116; 117; 114; 101; 87; 97; 114; 110; 105; 110; 103], [87; 97; 114; 110; 105; 110; 103]); (* FutureWarning < Warning *)
    ([73; 109; 112; 111; 114; 116; 87; 97; 114; 110; 105; 110; 103], [87; 97; 114; 110; 105; 110; 103]); (* ImportWarning < Warning *)
    ([80; 101; 110; 100; 105; 110; 103; 68; 101; 112; 114; 101; 99; 97; 116; 105; 111; 110; 87; 97; 114; 110; 105; 110; 103], [87; 97; 114; 110; 105; 110; 103]); (* PendingDeprecationWarning < Warning *)
    ([82; 101; 115; 111; 117; 114; 99; 101; 87; 97; 114; 110; 105; 110; 103], [87; 97; 114; 110; 105; 110; 103]); (* ResourceWarning < Warning *)
    ([82; 117; 110; 116; 105; 109; 101; 87; 97; 114; 110; 105; 110; 103], [87; 97; 114; 110; 105; 110; 103]); (* RuntimeWarning < Warning *)
    ([83; 121; 110; 116; 97; 120; 87; 97; 114; 110; 105; 110; 103], [87; 97; 114; 110; 105; 110; 103]); (* SyntaxWarning < Warning *)
    ([85; 110; 105; 99; 111; 100; 101; 87; 97; 114; 110; 105; 110; 103], [87; 97; 114; 110; 105; 110; 103]); (* UnicodeWarning < Warning *)
    ([85; 115; 101; 114; 87; 97; 114; 110; 105; 110; 103], [87; 97; 114; 110; 105; 110; 103]); (* UserWarning < Warning *)
    ([69; 120; 99; 101; 112; 116; 105; 111; 110; 71; 114; 111; 117; 112], [69; 120; 99; 101; 112; 116; 105; 111; 110]); (* ExceptionGroup < Exception *)
    ([71; 101; 110; 101; 114; 97; 116; 111; 114; 69; 120; 105; 116], [66; 97; 115; 101; 69; 120; 99; 101; 112; 116; 105; 111; 110]); (* GeneratorExit < BaseException *)
    ([75; 101; 121; 98; 111; 97; 114; 100; 73; 110; 116; 101; 114; 114; 117; 112; 116], [66; 97; 115; 101; 69; 120; 99; 101; 112; 116; 105; 111; 110]); (* KeyboardInterrupt < BaseException *)
    ([83; 121; 115; 116; 101; 109; 69; 120; 105; 116], [66; 97; 115; 101; 69; 120; 99; 101; 112; 116; 105; 111; 110]) (* SystemExit < BaseException *)
  ].

(* issubclass(e, c) for two class names of the table (BaseException itself included); a name that is not in the table
   is a subclass of itself only.  The fuel is the depth of the hierarchy (at most 6). *)
Fixpoint is_subclass_fuel (fuel : nat) (e c : str) : bool :=
  if str_eqb e c then true
  else
    match fuel with
    | O => false
    | S k => existsb (fun eb => if str_eqb (fst eb) e then is_subclass_fuel k (snd eb) c else false) EXC_BASES
    end.

Definition is_subclass (e c : str) : bool := is_subclass_fuel 8 e c.

(* does `except (c1, c2, ..):` catch an exception of class e *)
Definition catches (cs : list str) (e : str) : bool := existsb (is_subclass e) cs.

(* try: <body>  except (c1, c2, ..): <handler>     (no `as`, no else, no finally; nothing follows the statement:
   both blocks end in return or raise).  An exception raised by the handler itself is not caught. *)
Definition try_except {A : Type} (body : outcome A) (cs : list str) (handler : outcome A) : outcome A :=
  match body with
  | Ret a => Ret a
  | Raise e => if catches cs e then handler else Raise e
  end.
