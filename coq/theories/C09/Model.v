(* C09 — model of the prefix mounts and the host dispatch:
     baize/routing.py        BaseSubpaths (__init__ asserts, search), BaseHosts.search
     baize/wsgi/routing.py   Subpaths.__call__, Hosts.__call__
     baize/asgi/routing.py   Subpaths.__call__, Hosts.__call__
   Text is a list of code points.  A request is the part of the environ / scope
   the mounts read and write: the root path (SCRIPT_NAME / root_path), the path
   (PATH_INFO / path) — each possibly absent — and whether an ASGI scope is a
   lifespan scope.  Regular expressions are not modelled: the host dispatch is
   written over an oracle  fullmatch : pattern -> text -> bool. *)
From Coq Require Import List NArith Bool.
From Baize Require Import Lib.Wire.
Import ListNotations.

Definition str := list N.
Definition slash : N := 47%N.

Fixpoint str_eqb (a b : str) {struct a} : bool :=
  match a, b with
  | [], [] => true
  | x :: a', y :: b' => N.eqb x y && str_eqb a' b'
  | _, _ => false
  end.

(* s.startswith(p) *)
Fixpoint starts_with (p s : str) {struct p} : bool :=
  match p, s with
  | [], _ => true
  | x :: p', y :: s' => N.eqb x y && starts_with p' s'
  | _ :: _, [] => false
  end.

(* ---------- BaseSubpaths.search ---------- *)

(* path.startswith(prefix + "/") or path == prefix *)
Definition matches (prefix path : str) : bool :=
  starts_with (prefix ++ [slash]) path || str_eqb path prefix.

Fixpoint search {A : Type} (routes : list (str * A)) (path : str) : option (str * A) :=
  match routes with
  | [] => None
  | (prefix, endpoint) :: rest =>
      if matches prefix path then Some (prefix, endpoint) else search rest path
  end.

(* ---------- BaseSubpaths.__init__ : the two assertions ---------- *)

Definition ends_with_slash (s : str) : bool :=
  match rev s with
  | c :: _ => N.eqb c slash
  | [] => false
  end.

Definition prefix_ok (p : str) : bool :=
  match p with
  | [] => true                                   (* "" sets the default app *)
  | c :: _ => N.eqb c slash && negb (ends_with_slash p)
  end.

(* ---------- requests, applications ---------- *)

Record req := mkReq { root : option str; path : option str; lifespan : bool }.

(* d.get(key, "") *)
Definition get (o : option str) : str := match o with Some s => s | None => [] end.

Inductive app :=
| Leaf (id : N)
| Mount (routes : list (str * app)).

Inductive err := KeyError | RuntimeError.

Inductive result :=
| Ran (id : N) (r : req)       (* leaf [id] was called and saw request [r] *)
| NotFound (r : req)           (* Response(404); [r] is the request as it is then *)
| Raised (e : err).

(* every Subpaths(...) in the tree can be constructed *)
Fixpoint constructible (a : app) : bool :=
  match a with
  | Leaf _ => true
  | Mount routes =>
      (fix go (l : list (str * app)) : bool :=
         match l with
         | [] => true
         | (p, sub) :: rest => prefix_ok p && constructible sub && go rest
         end) routes
  end.

(* ---------- the two __call__ bodies ---------- *)

(* WSGI:  path = environ.get("PATH_INFO", "") *)
Definition wsgi_read_path (r : req) : str + err := inl (get (path r)).

(* environ["SCRIPT_NAME"] = environ.get("SCRIPT_NAME", "") + prefix
   environ["PATH_INFO"] = path[len(prefix):] *)
Definition wsgi_rewrite (prefix p : str) (r : req) : req :=
  mkReq (Some (get (root r) ++ prefix)) (Some (skipn (length prefix) p)) (lifespan r).

(* ASGI:  if scope["type"] == "lifespan": raise RuntimeError;  path = scope["path"] *)
Definition asgi_read_path (r : req) : str + err :=
  if lifespan r then inr RuntimeError
  else match path r with
       | Some p => inl p
       | None => inr KeyError
       end.

(* scope["root_path"] = scope.get("root_path", "") + prefix
   scope["path"] = path[len(prefix):] *)
Definition asgi_rewrite (prefix p : str) (r : req) : req :=
  mkReq (Some (get (root r) ++ prefix)) (Some (skipn (length prefix) p)) (lifespan r).

Inductive iface := WSGI | ASGI.

Definition read_path (i : iface) : req -> str + err :=
  match i with WSGI => wsgi_read_path | ASGI => asgi_read_path end.

Definition rewrite (i : iface) : str -> str -> req -> req :=
  match i with WSGI => wsgi_rewrite | ASGI => asgi_rewrite end.

(* Calling an application.  The inner loop is [search] fused with the call of
   the endpoint it returns (Proofs.eval_mount states exactly that); written
   this way the recursion is structural on the tree. *)
Fixpoint eval (i : iface) (a : app) (r : req) : result :=
  match a with
  | Leaf id => Ran id r
  | Mount routes =>
      match read_path i r with
      | inr e => Raised e
      | inl p =>
          (fix go (l : list (str * app)) : result :=
             match l with
             | [] => NotFound r
             | (prefix, sub) :: rest =>
                 if matches prefix p then eval i sub (rewrite i prefix p r) else go rest
             end) routes
      end
  end.

(* One __call__ of a mount, as written: read the path, [search], rewrite. *)
Inductive step :=
| Call (prefix : str) (sub : app) (r' : req)   (* response = endpoint, called with r' *)
| Stop404                                      (* response = Response(404), request as it was *)
| Fail (e : err).

Definition dispatch (i : iface) (routes : list (str * app)) (r : req) : step :=
  match read_path i r with
  | inr e => Fail e
  | inl p =>
      match search routes p with
      | None => Stop404
      | Some (prefix, sub) => Call prefix sub (rewrite i prefix p r)
      end
  end.

(* ---------- BaseHosts.search over an oracle for Pattern.fullmatch ---------- *)

Section HostsSearch.
  Context {P A : Type}.
  Variable fullmatch : P -> str -> bool.

  Fixpoint hosts_search (table : list (P * A)) (host : str) : option A :=
    match table with
    | [] => None
    | (pattern, endpoint) :: rest =>
        if fullmatch pattern host then Some endpoint else hosts_search rest host
    end.
End HostsSearch.

(* WSGI: environ.get("HTTP_HOST", "") *)
Definition wsgi_host (h : option str) : str := get h.

(* ASGI: host = ""; for k, v in scope["headers"]: if k == b"host": host = v.decode("latin-1") *)
Definition asgi_host (headers : list (str * str)) : str :=
  fold_left (fun host kv => if str_eqb (fst kv) (lit "host") then snd kv else host) headers [].

Inductive hresult :=
| HRan (id : N)
| HNotFound                  (* PlainTextResponse(b"Invalid host", 404) *)
| HRaised (e : err).

Section HostsCall.
  Context {P : Type}.
  Variable fullmatch : P -> str -> bool.

  Definition hosts_wsgi (table : list (P * N)) (h : option str) : hresult :=
    match hosts_search fullmatch table (wsgi_host h) with
    | Some id => HRan id
    | None => HNotFound
    end.

  Definition hosts_asgi (table : list (P * N)) (is_lifespan : bool)
    (headers : list (str * str)) : hresult :=
    if is_lifespan then HRaised RuntimeError
    else match hosts_search fullmatch table (asgi_host headers) with
         | Some id => HRan id
         | None => HNotFound
         end.
End HostsCall.

(* The oracle as a finite table supplied with a case: for every text that can be
   looked up, the row of answers of re.fullmatch, one per pattern (a pattern is
   named by its position in the host table). *)
Fixpoint row_of (t : str) (tab : list (str * list bool)) : list bool :=
  match tab with
  | [] => []
  | (t', row) :: rest => if str_eqb t' t then row else row_of t rest
  end.

Definition table_fullmatch (tab : list (str * list bool)) (pattern : nat) (t : str) : bool :=
  nth pattern (row_of t tab) false.
