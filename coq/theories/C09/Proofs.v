(* C09 — proofs about the mount / host dispatch model. *)
From Coq Require Import List NArith Bool Arith Lia.
From Baize Require Import Lib.Wire C09.Model.
Import ListNotations.

(* ---------- strings ---------- *)

Lemma str_eqb_eq : forall a b, str_eqb a b = true <-> a = b.
Proof.
  induction a as [|x a IH]; destruct b as [|y b]; cbn [str_eqb]; split; intro H;
    try reflexivity; try discriminate.
  - apply andb_true_iff in H. destruct H as [H1 H2].
    apply N.eqb_eq in H1. apply IH in H2. subst. reflexivity.
  - injection H as -> ->. rewrite N.eqb_refl. cbn [andb]. apply IH. reflexivity.
Qed.

Lemma starts_with_spec : forall p s, starts_with p s = true <-> exists rest, s = p ++ rest.
Proof.
  induction p as [|x p IH]; intro s.
  - cbn [starts_with List.app]. split; [intros _; exists s; reflexivity | reflexivity].
  - destruct s as [|y s]; cbn [starts_with].
    + split; [discriminate | intros [rest H]; discriminate].
    + rewrite andb_true_iff, N.eqb_eq, IH. split.
      * intros [-> [rest ->]]. exists rest. reflexivity.
      * intros [rest H]. cbn [List.app] in H. injection H as -> ->.
        split; [reflexivity | exists rest; reflexivity].
Qed.

Lemma skipn_prefix : forall (p rest : str), skipn (length p) (p ++ rest) = rest.
Proof. induction p as [|x p IH]; intro rest; [reflexivity | cbn; apply IH]. Qed.

Lemma skipn_add : forall (x y : nat) (l : str), skipn y (skipn x l) = skipn (x + y) l.
Proof.
  induction x as [|x IH]; intros y l; [reflexivity|].
  destruct l as [|c l]; cbn [skipn Nat.add]; [destruct y; reflexivity | apply IH].
Qed.

(* ---------- the matching rule ---------- *)

(* the prefix equals the path, or is followed by '/' in it *)
Definition seg_match (prefix p : str) : Prop :=
  p = prefix \/ exists rest, p = prefix ++ slash :: rest.

(* "" or "/..." *)
Definition pathlike (s : str) : Prop := s = [] \/ exists t, s = slash :: t.

Lemma matches_spec : forall prefix p, matches prefix p = true <-> seg_match prefix p.
Proof.
  intros prefix p. unfold matches, seg_match.
  rewrite orb_true_iff, starts_with_spec, str_eqb_eq. split.
  - intros [[rest ->]|H].
    + right. exists rest. rewrite <- app_assoc. reflexivity.
    + left. exact H.
  - intros [H|[rest ->]].
    + right. exact H.
    + left. exists rest. rewrite <- app_assoc. reflexivity.
Qed.

Lemma matches_false : forall prefix p, matches prefix p = false <-> ~ seg_match prefix p.
Proof.
  intros prefix p. rewrite <- matches_spec. destruct (matches prefix p); split; intro H;
    try reflexivity; try discriminate; try (intro; discriminate). exfalso. apply H. reflexivity.
Qed.

Lemma seg_match_split : forall prefix p,
  seg_match prefix p ->
  p = prefix ++ skipn (length prefix) p /\ pathlike (skipn (length prefix) p).
Proof.
  intros prefix p [->|[rest ->]].
  - rewrite skipn_all, app_nil_r. split; [reflexivity | left; reflexivity].
  - rewrite skipn_prefix. split; [reflexivity | right; exists rest; reflexivity].
Qed.

(* ---------- search: the least matching index ---------- *)

Definition first_match {A : Type} (routes : list (str * A)) (p : str)
  (i : nat) (prefix : str) (a : A) : Prop :=
  nth_error routes i = Some (prefix, a) /\
  seg_match prefix p /\
  forall j q b, j < i -> nth_error routes j = Some (q, b) -> ~ seg_match q p.

Lemma search_some : forall (A : Type) (routes : list (str * A)) (p prefix : str) (a : A),
  search routes p = Some (prefix, a) <-> exists i, first_match routes p i prefix a.
Proof.
  intros A. induction routes as [|[q b] rest IH]; intros p prefix a; cbn [search].
  - split; [discriminate|]. intros [i [H _]]. destruct i; discriminate.
  - destruct (matches q p) eqn:E.
    + split.
      * intro H. injection H as -> ->. exists 0. split; [reflexivity|].
        split; [apply matches_spec; exact E|]. intros j q' b' Hj. lia.
      * intros [i [Hn [Hm Hl]]]. destruct i as [|i].
        -- cbn in Hn. injection Hn as -> ->. reflexivity.
        -- exfalso. apply (Hl 0 q b); [lia | reflexivity | apply matches_spec; exact E].
    + rewrite IH. split.
      * intros [i [Hn [Hm Hl]]]. exists (S i). split; [exact Hn|]. split; [exact Hm|].
        intros j q' b' Hj Hnj. destruct j as [|j].
        -- cbn in Hnj. injection Hnj as <- <-. apply matches_false. exact E.
        -- apply (Hl j q' b'); [lia | exact Hnj].
      * intros [i [Hn [Hm Hl]]]. destruct i as [|i].
        -- cbn in Hn. injection Hn as -> ->. apply matches_spec in Hm. congruence.
        -- exists i. split; [exact Hn|]. split; [exact Hm|].
           intros j q' b' Hj Hnj. apply (Hl (S j) q' b'); [lia | exact Hnj].
Qed.

Lemma search_none : forall (A : Type) (routes : list (str * A)) (p : str),
  search routes p = None <-> forall q b, In (q, b) routes -> ~ seg_match q p.
Proof.
  intros A. induction routes as [|[q b] rest IH]; intro p; cbn [search].
  - split; [intros _ q b []| reflexivity].
  - destruct (matches q p) eqn:E.
    + split; [discriminate|]. intro H. exfalso. apply (H q b); [left; reflexivity|].
      apply matches_spec. exact E.
    + rewrite IH. split.
      * intros H q' b' [Heq|Hin].
        -- injection Heq as <- <-. apply matches_false. exact E.
        -- apply (H q' b'). exact Hin.
      * intros H q' b' Hin. apply (H q' b'). right. exact Hin.
Qed.

Lemma search_in : forall (A : Type) (routes : list (str * A)) (p prefix : str) (a : A),
  search routes p = Some (prefix, a) -> In (prefix, a) routes /\ seg_match prefix p.
Proof.
  intros A routes p prefix a H. apply search_some in H. destruct H as [i [Hn [Hm _]]].
  split; [exact (nth_error_In _ _ Hn) | exact Hm].
Qed.

Lemma mount_first_proof : forall (A : Type) (routes : list (str * A)) (p : str),
  (forall prefix a, search routes p = Some (prefix, a) <-> exists i, first_match routes p i prefix a) /\
  (search routes p = None <-> forall q b, In (q, b) routes -> ~ seg_match q p).
Proof. intros. split; [intros; apply search_some | apply search_none]. Qed.

(* the least index is unique, so [search] is determined by the property *)
Lemma first_match_unique : forall (A : Type) (routes : list (str * A)) p i j prefix a prefix' a',
  first_match routes p i prefix a -> first_match routes p j prefix' a' ->
  i = j /\ prefix = prefix' /\ a = a'.
Proof.
  intros A routes p i j prefix a prefix' a' [Hn [Hm Hl]] [Hn' [Hm' Hl']].
  assert (i = j) as ->.
  { destruct (lt_eq_lt_dec i j) as [[Hlt|Heq]|Hgt]; [|exact Heq|].
    - exfalso. exact (Hl' i prefix a Hlt Hn Hm).
    - exfalso. exact (Hl j prefix' a' Hgt Hn' Hm'). }
  rewrite Hn in Hn'. injection Hn' as -> ->. repeat split.
Qed.

(* ---------- one dispatch ---------- *)

Definition full (r : req) : str := get (root r) ++ get (path r).

Lemma read_path_get : forall i r p, read_path i r = inl p -> p = get (path r).
Proof.
  intros [|] r p; cbn [read_path]; unfold wsgi_read_path, asgi_read_path.
  - intro H. injection H as <-. reflexivity.
  - destruct (lifespan r); [discriminate|]. destruct (path r) as [s|]; [|discriminate].
    intro H. injection H as <-. reflexivity.
Qed.

Lemma rewrite_eq : forall i prefix p r,
  rewrite i prefix p r =
  mkReq (Some (get (root r) ++ prefix)) (Some (skipn (length prefix) p)) (lifespan r).
Proof. intros [|] prefix p r; reflexivity. Qed.

Lemma dispatch_call : forall i routes r prefix sub r',
  dispatch i routes r = Call prefix sub r' ->
  search routes (get (path r)) = Some (prefix, sub) /\
  read_path i r = inl (get (path r)) /\
  r' = mkReq (Some (get (root r) ++ prefix))
             (Some (skipn (length prefix) (get (path r)))) (lifespan r).
Proof.
  intros i routes r prefix sub r'. unfold dispatch.
  destruct (read_path i r) as [p|e] eqn:R; [|discriminate].
  apply read_path_get in R as Hp. subst p.
  destruct (search routes (get (path r))) as [[q b]|] eqn:S; [|discriminate].
  intro H. injection H as <- <- <-. rewrite rewrite_eq. repeat split.
Qed.

Lemma mount_split_proof : forall i routes r prefix sub r',
  dispatch i routes r = Call prefix sub r' ->
  root r' = Some (get (root r) ++ prefix) /\
  (exists p', path r' = Some p' /\ get (path r) = prefix ++ p' /\ pathlike p') /\
  full r' = full r /\
  lifespan r' = lifespan r.
Proof.
  intros i routes r prefix sub r' H. apply dispatch_call in H. destruct H as [S [_ ->]].
  apply search_in in S. destruct S as [_ Hm]. apply seg_match_split in Hm. destruct Hm as [Hs Hp].
  cbn [root path lifespan]. split; [reflexivity|]. split.
  - exists (skipn (length prefix) (get (path r))). split; [reflexivity|]. split; assumption.
  - split; [|reflexivity]. unfold full. cbn [root path get].
    rewrite <- app_assoc. rewrite <- Hs. reflexivity.
Qed.

(* ---------- calling a mount = dispatch, then call the selected endpoint ---------- *)

Lemma eval_go : forall i r p routes,
  (fix go (l : list (str * app)) : result :=
     match l with
     | [] => NotFound r
     | (prefix, sub) :: rest =>
         if matches prefix p then eval i sub (rewrite i prefix p r) else go rest
     end) routes
  = match search routes p with
    | None => NotFound r
    | Some (prefix, sub) => eval i sub (rewrite i prefix p r)
    end.
Proof.
  intros i r p. induction routes as [|[q b] rest IH]; [reflexivity|].
  cbn [search]. destruct (matches q p); [reflexivity | exact IH].
Qed.

Lemma eval_mount : forall i routes r,
  eval i (Mount routes) r =
  match dispatch i routes r with
  | Call _ sub r' => eval i sub r'
  | Stop404 => NotFound r
  | Fail e => Raised e
  end.
Proof.
  intros i routes r. unfold dispatch. cbn [eval].
  destruct (read_path i r) as [p|e]; [|reflexivity].
  rewrite eval_go. destruct (search routes p) as [[prefix sub]|]; reflexivity.
Qed.

(* ---------- induction over the tree ---------- *)

Section AppInd.
  Variable P : app -> Prop.
  Hypothesis HLeaf : forall id, P (Leaf id).
  Hypothesis HMount : forall routes, Forall (fun pa => P (snd pa)) routes -> P (Mount routes).

  Fixpoint app_ind' (a : app) : P a :=
    match a with
    | Leaf id => HLeaf id
    | Mount routes =>
        HMount routes
          ((fix go (l : list (str * app)) : Forall (fun pa => P (snd pa)) l :=
              match l with
              | [] => Forall_nil _
              | pa :: rest => Forall_cons pa (app_ind' (snd pa)) (go rest)
              end) routes)
    end.
End AppInd.

(* [r'] is [r] after the text [consumed] moved from the front of the path to the
   end of the root path *)
Definition moved (r r' : req) (consumed : str) : Prop :=
  get (root r') = get (root r) ++ consumed /\
  get (path r) = consumed ++ get (path r') /\
  lifespan r' = lifespan r.

Definition seen_req (x : result) : option req :=
  match x with
  | Ran _ r' => Some r'
  | NotFound r' => Some r'
  | Raised _ => None
  end.

Lemma moved_full : forall r r' c, moved r r' c -> full r' = full r.
Proof.
  intros r r' c [H1 [H2 _]]. unfold full. rewrite H1, H2, app_assoc. reflexivity.
Qed.

Lemma eval_moved : forall i a r r',
  seen_req (eval i a r) = Some r' -> exists consumed, moved r r' consumed.
Proof.
  intros i a. induction a as [id|routes IH] using app_ind'; intros r r'.
  - cbn [eval seen_req]. intro H. injection H as <-. exists []. unfold moved.
    rewrite app_nil_r. repeat split.
  - rewrite eval_mount. destruct (dispatch i routes r) as [prefix sub r1| |e] eqn:D.
    + intro H. apply dispatch_call in D. destruct D as [S [_ Hr1]].
      apply search_in in S. destruct S as [Hin Hm].
      rewrite Forall_forall in IH. specialize (IH (prefix, sub) Hin r1 r' H).
      destruct IH as [c [H1 [H2 H3]]]. apply seg_match_split in Hm. destruct Hm as [Hs _].
      subst r1. cbn [root path lifespan get] in H1, H2, H3.
      exists (prefix ++ c). unfold moved. split; [|split].
      * rewrite H1. rewrite app_assoc. reflexivity.
      * rewrite Hs at 1. rewrite H2. rewrite app_assoc. reflexivity.
      * exact H3.
    + cbn [seen_req]. intro H. injection H as <-. exists []. unfold moved.
      rewrite app_nil_r. repeat split.
    + cbn [seen_req]. discriminate.
Qed.

Lemma eval_pathlike : forall i a r id r',
  (pathlike (get (path r)) \/ exists routes, a = Mount routes) ->
  eval i a r = Ran id r' -> pathlike (get (path r')).
Proof.
  intros i a. induction a as [id0|routes IH] using app_ind'; intros r id r' Hpre.
  - cbn [eval]. intro H. injection H as _ <-. destruct Hpre as [Hp|[routes Hr]]; [exact Hp | discriminate].
  - rewrite eval_mount. destruct (dispatch i routes r) as [prefix sub r1| |e] eqn:D; try discriminate.
    intro H. apply mount_split_proof in D as Hsplit. apply dispatch_call in D. destruct D as [S _].
    apply search_in in S. destruct S as [Hin _].
    rewrite Forall_forall in IH. apply (IH (prefix, sub) Hin r1 id r'); [|exact H].
    left. destruct Hsplit as [_ [[p' [Hp' [_ Hl]]] _]]. rewrite Hp'. exact Hl.
Qed.

Lemma mount_nested_proof : forall i a r,
  (forall id r', eval i a r = Ran id r' ->
     (exists consumed, moved r r' consumed) /\ full r' = full r /\
     ((exists routes, a = Mount routes) -> pathlike (get (path r')))) /\
  (forall r', eval i a r = NotFound r' ->
     (exists consumed, moved r r' consumed) /\ full r' = full r).
Proof.
  intros i a r. split.
  - intros id r' H. assert (Hs : seen_req (eval i a r) = Some r') by (rewrite H; reflexivity).
    apply eval_moved in Hs. destruct Hs as [c Hc]. split; [exists c; exact Hc|].
    split; [exact (moved_full _ _ _ Hc)|]. intro Hm. apply (eval_pathlike i a r id r'); [right; exact Hm | exact H].
  - intros r' H. assert (Hs : seen_req (eval i a r) = Some r') by (rewrite H; reflexivity).
    apply eval_moved in Hs. destruct Hs as [c Hc]. split; [exists c; exact Hc|].
    exact (moved_full _ _ _ Hc).
Qed.

(* ---------- 404 ---------- *)

Lemma mount_404_proof : forall i routes r p,
  read_path i r = inl p ->
  ((forall q b, In (q, b) routes -> ~ seg_match q p) <-> dispatch i routes r = Stop404) /\
  (dispatch i routes r = Stop404 -> eval i (Mount routes) r = NotFound r).
Proof.
  intros i routes r p R. split.
  - rewrite <- search_none. unfold dispatch. rewrite R.
    destruct (search routes p) as [[q b]|]; split; intro H; try reflexivity; discriminate.
  - intro H. rewrite eval_mount, H. reflexivity.
Qed.

(* ---------- nesting composes ---------- *)

Lemma seg_match_compose : forall p q s,
  pathlike q ->
  (seg_match p s /\ seg_match q (skipn (length p) s)) <-> seg_match (p ++ q) s.
Proof.
  intros p q s Hq. split.
  - intros [Hp Hq']. apply seg_match_split in Hp. destruct Hp as [Hs _].
    rewrite Hs. destruct Hq' as [->|[rest ->]].
    + left. reflexivity.
    + right. exists rest. rewrite <- app_assoc. reflexivity.
  - intros [->|[rest ->]].
    + rewrite skipn_prefix. split; [|left; reflexivity].
      destruct Hq as [->|[t ->]]; [left; apply app_nil_r | right; exists t; reflexivity].
    + rewrite <- app_assoc. rewrite skipn_prefix. split; [|right; exists rest; reflexivity].
      destruct Hq as [->|[t ->]]; right; [exists rest | exists (t ++ slash :: rest)]; reflexivity.
Qed.

Lemma matches_compose : forall p q s,
  pathlike q -> matches (p ++ q) s = matches p s && matches q (skipn (length p) s).
Proof.
  intros p q s Hq. apply eq_true_iff_eq. rewrite andb_true_iff, !matches_spec.
  symmetry. apply seg_match_compose. exact Hq.
Qed.

Lemma dispatch_single : forall i p a r,
  dispatch i [(p, a)] r =
  match read_path i r with
  | inr e => Fail e
  | inl s => if matches p s then Call p a (rewrite i p s r) else Stop404
  end.
Proof.
  intros. unfold dispatch. destruct (read_path i r) as [s|e]; [|reflexivity].
  cbn [search]. destruct (matches p s); reflexivity.
Qed.

Lemma read_path_rewrite : forall i p s r,
  read_path i r = inl s -> read_path i (rewrite i p s r) = inl (skipn (length p) s).
Proof.
  intros [|] p s r; cbn [read_path rewrite]; unfold wsgi_read_path, asgi_read_path, wsgi_rewrite, asgi_rewrite;
    cbn [path lifespan get].
  - intros _. reflexivity.
  - destruct (lifespan r); [discriminate|]. intros _. reflexivity.
Qed.

Lemma mount_compose_proof : forall i p q a r,
  pathlike q ->
  eval i (Mount [(p, Mount [(q, a)])]) r = eval i (Mount [(p ++ q, a)]) r \/
  (eval i (Mount [(p ++ q, a)]) r = NotFound r /\
   exists r1, eval i (Mount [(p, Mount [(q, a)])]) r = NotFound r1).
Proof.
  intros i p q a r Hq. rewrite !eval_mount, !dispatch_single.
  destruct (read_path i r) as [s|e] eqn:R; [|left; reflexivity].
  rewrite (matches_compose p q s Hq). destruct (matches p s) eqn:Ep; cbn [andb].
  - rewrite eval_mount, dispatch_single. rewrite (read_path_rewrite i p s r R).
    destruct (matches q (skipn (length p) s)) eqn:Eq.
    + left. f_equal. rewrite !rewrite_eq. cbn [root path lifespan get].
      rewrite <- (app_assoc (get (root r)) p q), skipn_add, app_length. reflexivity.
    + right. split; [reflexivity|]. eexists. reflexivity.
  - left. reflexivity.
Qed.

(* ---------- hosts ---------- *)

Section HostsFacts.
  Context {P A : Type}.
  Variable fullmatch : P -> str -> bool.

  Definition first_host (table : list (P * A)) (host : str) (i : nat) (a : A) : Prop :=
    exists pattern,
      nth_error table i = Some (pattern, a) /\
      fullmatch pattern host = true /\
      forall j q b, j < i -> nth_error table j = Some (q, b) -> fullmatch q host = false.

  Lemma hosts_some : forall (table : list (P * A)) host a,
    hosts_search fullmatch table host = Some a <-> exists i, first_host table host i a.
  Proof.
    induction table as [|[q b] rest IH]; intros host a; cbn [hosts_search].
    - split; [discriminate|]. intros [i [pat [H _]]]. destruct i; discriminate.
    - destruct (fullmatch q host) eqn:E.
      + split.
        * intro H. injection H as ->. exists 0, q. split; [reflexivity|].
          split; [exact E|]. intros j q' b' Hj. lia.
        * intros [i [pat [Hn [Hm Hl]]]]. destruct i as [|i].
          -- cbn in Hn. injection Hn as -> ->. reflexivity.
          -- rewrite (Hl 0 q b) in E; [discriminate | lia | reflexivity].
      + rewrite IH. split.
        * intros [i [pat [Hn [Hm Hl]]]]. exists (S i), pat. split; [exact Hn|]. split; [exact Hm|].
          intros j q' b' Hj Hnj. destruct j as [|j].
          -- cbn in Hnj. injection Hnj as <- <-. exact E.
          -- apply (Hl j q' b'); [lia | exact Hnj].
        * intros [i [pat [Hn [Hm Hl]]]]. destruct i as [|i].
          -- cbn in Hn. injection Hn as -> ->. congruence.
          -- exists i, pat. split; [exact Hn|]. split; [exact Hm|].
             intros j q' b' Hj Hnj. apply (Hl (S j) q' b'); [lia | exact Hnj].
  Qed.

  Lemma hosts_none : forall (table : list (P * A)) host,
    hosts_search fullmatch table host = None <->
    forall q b, In (q, b) table -> fullmatch q host = false.
  Proof.
    induction table as [|[q b] rest IH]; intro host; cbn [hosts_search].
    - split; [intros _ q b []| reflexivity].
    - destruct (fullmatch q host) eqn:E.
      + split; [discriminate|]. intro H. rewrite (H q b) in E; [discriminate | left; reflexivity].
      + rewrite IH. split.
        * intros H q' b' [Heq|Hin]; [injection Heq as <- <-; exact E | apply (H q' b'); exact Hin].
        * intros H q' b' Hin. apply (H q' b'). right. exact Hin.
  Qed.
End HostsFacts.

Lemma hosts_first_proof : forall (P A : Type) (fullmatch : P -> str -> bool)
  (table : list (P * A)) (host : str),
  (forall a, hosts_search fullmatch table host = Some a <->
             exists i, first_host fullmatch table host i a) /\
  (hosts_search fullmatch table host = None <->
   forall q b, In (q, b) table -> fullmatch q host = false).
Proof. intros. split; [intro a; apply hosts_some | apply hosts_none]. Qed.

(* the two gateways: which text is the Host, and what a miss answers *)
Lemma hosts_call_proof : forall (P : Type) (fullmatch : P -> str -> bool) (table : list (P * N)),
  (forall h id, hosts_wsgi fullmatch table h = HRan id <->
                hosts_search fullmatch table (get h) = Some id) /\
  (forall h, hosts_wsgi fullmatch table h = HNotFound <->
             hosts_search fullmatch table (get h) = None) /\
  (forall headers id, hosts_asgi fullmatch table false headers = HRan id <->
                      hosts_search fullmatch table (asgi_host headers) = Some id) /\
  (forall headers, hosts_asgi fullmatch table false headers = HNotFound <->
                   hosts_search fullmatch table (asgi_host headers) = None).
Proof.
  intros P fullmatch table. unfold hosts_wsgi, hosts_asgi, wsgi_host. repeat split;
    try (destruct (hosts_search fullmatch table _); intro H; try discriminate; try reflexivity;
         injection H as ->; reflexivity).
Qed.

(* the ASGI loop keeps the value of the last header named "host"; "" without one *)
Lemma str_eqb_neq : forall a b, a <> b -> str_eqb a b = false.
Proof.
  intros a b H. destruct (str_eqb a b) eqn:E; [|reflexivity].
  exfalso. apply H. apply str_eqb_eq. exact E.
Qed.

Lemma host_fold_skip : forall (headers : list (str * str)) (acc : str),
  (forall k w, In (k, w) headers -> k <> lit "host") ->
  fold_left (fun host kv => if str_eqb (fst kv) (lit "host") then snd kv else host) headers acc = acc.
Proof.
  induction headers as [|[k w] rest IH]; intros acc H; [reflexivity|].
  cbn [fold_left fst snd]. rewrite (str_eqb_neq _ _ (H k w (or_introl eq_refl))). apply IH.
  intros k' w' Hin. apply (H k' w'). right. exact Hin.
Qed.

Lemma asgi_host_proof : forall headers,
  ((forall k w, In (k, w) headers -> k <> lit "host") -> asgi_host headers = []) /\
  (forall before after v,
     headers = before ++ (lit "host", v) :: after ->
     (forall k w, In (k, w) after -> k <> lit "host") ->
     asgi_host headers = v).
Proof.
  intro headers. split.
  - intro H. unfold asgi_host. apply host_fold_skip. exact H.
  - intros before after v -> H. unfold asgi_host. rewrite fold_left_app.
    cbn [fold_left fst snd].
    replace (str_eqb (lit "host") (lit "host")) with true by reflexivity.
    apply host_fold_skip. exact H.
Qed.

(* ---------- examples: the statements are not vacuous ---------- *)

Example ex_boundary :
  matches (lit "/api") (lit "/api") = true /\ matches (lit "/api") (lit "/api/x") = true /\
  matches (lit "/api") (lit "/apix") = false /\ matches [] (lit "/apix") = true /\
  matches [] [] = true /\ matches [] (lit "apix") = false.
Proof. vm_compute. repeat split. Qed.

(* a "" default entry placed first shadows everything that starts with "/" *)
Example ex_default_first :
  exists i, first_match [([], 0%N); (lit "/api", 1%N)] (lit "/api/x") i [] 0%N.
Proof. apply search_some. vm_compute. reflexivity. Qed.

Example ex_nested :
  let a := Mount [(lit "/api", Mount [(lit "/v1", Leaf 0); ([], Leaf 1)]); ([], Leaf 2)] in
  let r s := mkReq (Some (lit "/root")) (Some s) false in
  eval WSGI a (r (lit "/api/v1/x")) = Ran 0 (mkReq (Some (lit "/root/api/v1")) (Some (lit "/x")) false) /\
  eval ASGI a (r (lit "/api/v1x")) = Ran 1 (mkReq (Some (lit "/root/api")) (Some (lit "/v1x")) false) /\
  eval ASGI a (r (lit "/apix")) = Ran 2 (mkReq (Some (lit "/root")) (Some (lit "/apix")) false) /\
  eval WSGI a (r (lit "apix")) = NotFound (r (lit "apix")).
Proof. vm_compute. repeat split. Qed.

(* a 404 below a successful outer dispatch keeps the outer rewrite *)
Example ex_inner_404 :
  eval WSGI (Mount [(lit "/api", Mount [(lit "/v1", Leaf 0)])]) (mkReq None (Some (lit "/api/v2")) false)
  = NotFound (mkReq (Some (lit "/api")) (Some (lit "/v2")) false).
Proof. vm_compute. reflexivity. Qed.

Example ex_404_hypotheses :
  let r := mkReq None (Some (lit "/apix")) false in
  read_path ASGI r = inl (lit "/apix") /\
  (forall q b, In (q, b) [(lit "/api", Leaf 0)] -> ~ seg_match q (lit "/apix")) /\
  eval ASGI (Mount [(lit "/api", Leaf 0)]) r = NotFound r.
Proof.
  split; [reflexivity|]. split; [|vm_compute; reflexivity].
  apply search_none. vm_compute. reflexivity.
Qed.

Example ex_absent_keys :
  eval WSGI (Mount [([], Leaf 0)]) (mkReq None None false) = Ran 0 (mkReq (Some []) (Some []) false) /\
  eval ASGI (Mount [([], Leaf 0)]) (mkReq None None false) = Raised KeyError /\
  eval ASGI (Mount [([], Leaf 0)]) (mkReq None None true) = Raised RuntimeError.
Proof. vm_compute. repeat split. Qed.

Example ex_hosts :
  let tab := [([], [false; true]); (lit "a.example.com", [false; true; true])] in
  let table := [(0, 0%N); (1, 1%N); (2, 2%N)] in
  hosts_wsgi (table_fullmatch tab) table (Some (lit "a.example.com")) = HRan 1%N /\
  hosts_wsgi (table_fullmatch tab) [(0, 0%N)] (Some (lit "a.example.com")) = HNotFound /\
  hosts_asgi (table_fullmatch tab) [(0, 0%N); (2, 2%N)] false
    [(lit "host", lit "b"); (lit "host", lit "a.example.com"); (lit "Host", lit "b")] = HRan 2%N /\
  (exists i, first_host (table_fullmatch tab) table (lit "a.example.com") i 1%N).
Proof.
  cbv zeta. split; [vm_compute; reflexivity|]. split; [vm_compute; reflexivity|].
  split; [vm_compute; reflexivity|]. apply hosts_some. vm_compute. reflexivity.
Qed.
