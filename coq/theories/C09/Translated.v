(* C09 — source-level tie for BaseSubpaths.search.

   tools/py2coq.py regenerates the Gallina definition G.search from the CURRENT Python source of baize/routing.py on
   every check run (harness/c09.py: extra_obligations); this file is then re-checked by coqc against the fresh
   definition (the two lines between the markers are re-pointed at the fresh file; nothing else is changed).
   Generated_ref.v is the committed copy of what the translator emitted when this file was written.

   self._route_array is declared to the translator as a list of (prefix, endpoint) pairs (BaseSubpaths.__init__:
   self._route_array = [*routes]); the endpoint type is arbitrary.

   The theorem: the translated loop and C09.Model.search are the same function, for every route list (well-formed
   prefixes or not) and every path. *)
From Coq Require Import List NArith Bool.
From Baize Require Import Lib.PyStr Lib.PyStrFacts.
From Baize Require C09.Model.
(* GENERATED-BEGIN *)
From Baize Require C09.Generated_ref.
Module G := Baize.C09.Generated_ref.
(* GENERATED-END *)
Module M := Baize.C09.Model.
Import ListNotations.
Local Open Scope N_scope.

Lemma str_eqb_model : forall a b, PyStr.str_eqb a b = M.str_eqb a b.
Proof.
  induction a as [|x a IH]; intros [|y b]; cbn [PyStr.str_eqb M.str_eqb];
    first [reflexivity | rewrite IH; reflexivity].
Qed.

Lemma starts_with_model : forall p s, PyStr.starts_with p s = M.starts_with p s.
Proof.
  induction p as [|x p IH]; intros [|y s]; cbn [PyStr.starts_with M.starts_with];
    first [reflexivity | rewrite IH; reflexivity].
Qed.

(* the test of one route *)
Lemma matches_model : forall prefix path,
  PyStr.starts_with (prefix ++ [47]) path || PyStr.str_eqb path prefix = M.matches prefix path.
Proof.
  intros prefix path. unfold M.matches, M.slash. rewrite starts_with_model, str_eqb_model. reflexivity.
Qed.

Lemma search_translated_lemma : forall (A : Type) (routes : list (list N * A)) (path : list N),
  G.search routes path = M.search routes path.
Proof.
  intros A routes path. unfold G.search.
  induction routes as [|[prefix endpoint] rest IH]; [reflexivity|].
  cbn [M.search]. rewrite <- IH. clear IH.
  cbv zeta. rewrite <- (matches_model prefix path).
  destruct (PyStr.starts_with (prefix ++ [47]) path); destruct (PyStr.str_eqb path prefix); reflexivity.
Qed.

Theorem search_translated : forall (A : Type) (routes : list (list N * A)) (path : list N),
  G.search routes path = M.search routes path.
Proof. exact search_translated_lemma. Qed.
Print Assumptions search_translated.
