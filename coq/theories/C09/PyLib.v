(* C09 — the library the translated __call__ bodies (C09/GeneratedCall_ref.v, tools/py2coq_c09.py) are made of.

   An environ / scope is the part of the Python dict whose values are str: an insertion-ordered association
   list with str keys (Lib/PyStr.v: dict_set).  scope["headers"] (a list of pairs of bytes) is not a str and is
   a separate argument of the translated function (None: the key is absent).

   Every function here is compared with the running interpreter's dict / bytes.decode by evaluation inside coqc
   on every check run (tools/py2coq_c09.py: pylib_check). *)
From Coq Require Import List NArith ZArith Bool.
From Baize Require Import Lib.PyStr.
Import ListNotations.
Local Open Scope N_scope.

Definition dict := list (str * str).

(* the first entry under the key (dict_set never makes a second one) *)
Fixpoint dict_lookup (d : dict) (k : str) : option str :=
  match d with
  | [] => None
  | (k', v) :: r => if str_eqb k' k then Some v else dict_lookup r k
  end.

(* d.get(k, default) *)
Definition dict_get (d : dict) (k default : str) : str :=
  match dict_lookup d k with
  | Some v => v
  | None => default
  end.

Definition KeyError : str := [75; 101; 121; 69; 114; 114; 111; 114].

(* d[k] *)
Definition dict_getitem (d : dict) (k : str) : outcome str :=
  match dict_lookup d k with
  | Some v => Ret v
  | None => Raise KeyError
  end.

(* d[k] for the key kept in an argument of its own *)
Definition field_getitem {A : Type} (o : option A) : outcome A :=
  match o with
  | Some v => Ret v
  | None => Raise KeyError
  end.

(* evaluation order: x = <may raise>; rest *)
Definition bind {A B : Type} (o : outcome A) (f : A -> outcome B) : outcome B :=
  match o with
  | Ret a => f a
  | Raise e => Raise e
  end.

(* b.decode("latin-1"): byte n is code point n *)
Definition decode_latin1 (b : list N) : str := b.

(* what ends up in the variable `response` *)
Inductive response (App : Type) :=
| Endpoint (a : App)                                  (* an application of the table *)
| Response (status : Z)                               (* Response(status) *)
| PlainTextResponse (body : list N) (status : Z).     (* PlainTextResponse(body, status) *)
Arguments Endpoint {App} a.
Arguments Response {App} status.
Arguments PlainTextResponse {App} body status.
