(* C09 — Mounting preserves the full path and dispatches on segment boundaries.
   Statements only; every proof is a reference to C09/Proofs.v.

   Vocabulary (C09/Proofs.v):
     seg_match prefix p   :=  p = prefix \/ exists rest, p = prefix ++ "/" :: rest
     pathlike s           :=  s = "" \/ exists t, s = "/" :: t
     first_match routes p i prefix a
                          :=  entry i of routes is (prefix, a), seg_match prefix p, and no entry
                              j < i has a prefix q with seg_match q p
     full r               :=  get (root r) ++ get (path r)          (absent key reads as "")
     moved r r' c         :=  get (root r') = get (root r) ++ c /\ get (path r) = c ++ get (path r')
                              /\ lifespan r' = lifespan r
     first_host fm table host i a
                          :=  entry i of table is (pattern, a), fm pattern host = true, and
                              fm q host = false for the pattern q of every entry j < i *)
From Coq Require Import List NArith.
From Baize Require Import Lib.Wire C09.Model C09.Proofs.
Import ListNotations.

(* BaseSubpaths.search returns exactly the entry with the least index whose prefix
   equals the path or is followed by '/' in it; None iff no entry matches so. *)
Theorem mount_first : forall (A : Type) (routes : list (str * A)) (p : str),
  (forall prefix a, search routes p = Some (prefix, a) <-> exists i, first_match routes p i prefix a) /\
  (search routes p = None <-> forall q b, In (q, b) routes -> ~ seg_match q p).
Proof. exact mount_first_proof. Qed.

(* ... and that entry is unique, so the property determines the answer of search. *)
Theorem mount_first_unique : forall (A : Type) (routes : list (str * A)) p i j prefix a prefix' a',
  first_match routes p i prefix a -> first_match routes p j prefix' a' ->
  i = j /\ prefix = prefix' /\ a = a'.
Proof. exact first_match_unique. Qed.

(* One dispatch, WSGI and ASGI: the sub-application gets root path = old root path
   ++ prefix, path = the remainder, which is "" or starts with '/'; root path ++ path
   is unchanged. *)
Theorem mount_split : forall (i : iface) (routes : list (str * app)) (r : req)
  (prefix : str) (sub : app) (r' : req),
  dispatch i routes r = Call prefix sub r' ->
  root r' = Some (get (root r) ++ prefix) /\
  (exists p', path r' = Some p' /\ get (path r) = prefix ++ p' /\ pathlike p') /\
  full r' = full r /\
  lifespan r' = lifespan r.
Proof. exact mount_split_proof. Qed.

(* Calling a mount is: one dispatch, then calling what it selected. *)
Theorem mount_unfold : forall (i : iface) (routes : list (str * app)) (r : req),
  eval i (Mount routes) r =
  match dispatch i routes r with
  | Call _ sub r' => eval i sub r'
  | Stop404 => NotFound r
  | Fail e => Raised e
  end.
Proof. exact eval_mount. Qed.

(* Any nesting depth: the leaf that runs (and a 404 anywhere below) sees a request
   whose root path grew by exactly the text that left the front of the path. *)
Theorem mount_nested : forall (i : iface) (a : app) (r : req),
  (forall id r', eval i a r = Ran id r' ->
     (exists consumed, moved r r' consumed) /\ full r' = full r /\
     ((exists routes, a = Mount routes) -> pathlike (get (path r')))) /\
  (forall r', eval i a r = NotFound r' ->
     (exists consumed, moved r r' consumed) /\ full r' = full r).
Proof. exact mount_nested_proof. Qed.

(* No entry matches  <->  the mount answers 404, and then the request is the very
   same value (absent keys stay absent). *)
Theorem mount_404_untouched : forall (i : iface) (routes : list (str * app)) (r : req) (p : str),
  read_path i r = inl p ->
  ((forall q b, In (q, b) routes -> ~ seg_match q p) <-> dispatch i routes r = Stop404) /\
  (dispatch i routes r = Stop404 -> eval i (Mount routes) r = NotFound r).
Proof. exact mount_404_proof. Qed.

(* Nested mounts compose: mounting q below p behaves as mounting p ++ q, except
   that a miss of the inner table is a 404 after the outer rewrite. *)
Theorem mount_compose : forall (i : iface) (p q : str) (a : app) (r : req),
  pathlike q ->
  eval i (Mount [(p, Mount [(q, a)])]) r = eval i (Mount [(p ++ q, a)]) r \/
  (eval i (Mount [(p ++ q, a)]) r = NotFound r /\
   exists r1, eval i (Mount [(p, Mount [(q, a)])]) r = NotFound r1).
Proof. exact mount_compose_proof. Qed.

(* BaseHosts.search, for every oracle [fullmatch]: the endpoint of the least entry
   whose pattern matches the entire host text; None iff no pattern does. *)
Theorem hosts_first : forall (P A : Type) (fullmatch : P -> str -> bool)
  (table : list (P * A)) (host : str),
  (forall a, hosts_search fullmatch table host = Some a <->
             exists i, first_host fullmatch table host i a) /\
  (hosts_search fullmatch table host = None <->
   forall q b, In (q, b) table -> fullmatch q host = false).
Proof. exact hosts_first_proof. Qed.

(* The two gateways run the selected endpoint and answer 404 otherwise; the text is
   HTTP_HOST resp. the value chosen by the header loop ("" when absent). *)
Theorem hosts_call : forall (P : Type) (fullmatch : P -> str -> bool) (table : list (P * N)),
  (forall h id, hosts_wsgi fullmatch table h = HRan id <->
                hosts_search fullmatch table (get h) = Some id) /\
  (forall h, hosts_wsgi fullmatch table h = HNotFound <->
             hosts_search fullmatch table (get h) = None) /\
  (forall headers id, hosts_asgi fullmatch table false headers = HRan id <->
                      hosts_search fullmatch table (asgi_host headers) = Some id) /\
  (forall headers, hosts_asgi fullmatch table false headers = HNotFound <->
                   hosts_search fullmatch table (asgi_host headers) = None).
Proof. exact hosts_call_proof. Qed.

(* The ASGI header loop: "" without a header named host, else the last one's value. *)
Theorem hosts_asgi_header : forall headers : list (str * str),
  ((forall k w, In (k, w) headers -> k <> lit "host") -> asgi_host headers = []) /\
  (forall before after v,
     headers = before ++ (lit "host", v) :: after ->
     (forall k w, In (k, w) after -> k <> lit "host") ->
     asgi_host headers = v).
Proof. exact asgi_host_proof. Qed.

Print Assumptions mount_first.
Print Assumptions mount_first_unique.
Print Assumptions mount_split.
Print Assumptions mount_unfold.
Print Assumptions mount_nested.
Print Assumptions mount_404_untouched.
Print Assumptions mount_compose.
Print Assumptions hosts_first.
Print Assumptions hosts_call.
Print Assumptions hosts_asgi_header.
