(* C09 — wire interface of the model: one case line in, one observation line out.

   mount  <tree> <root?> <path?> <lifespan>
       tree  := <leaf id>  |  ( ( <prefix> <tree> ) ... )
       x?    := ( ) absent | ( <text> )
     -> <wsgi> <asgi>   each  ( "ran" id root? path? ( ) ) | ( "404" root? path? ( ) )
                              | ( "exc" name )      (the trailing ( ) : no other key changed)
     -> ( "exc" "AssertionError" )  when a Subpaths(...) of the tree cannot be constructed

   hosts  <patterns> <HTTP_HOST?> ( ( <name> <value> ) ... ) <lifespan> ( ( <text> ( b ... ) ) ... )
     -> <wsgi> <asgi>   each  ( "ran" index ) | ( "404" ) | ( "exc" name ) *)
From Coq Require Import List NArith ZArith Bool.
From Baize Require Import Lib.Wire C09.Model.
Import ListNotations.

Fixpoint app_of_sx (s : sx) : app :=
  match s with
  | Num z => Leaf (Z.to_N z)
  | Str _ => Leaf 0
  | Lst l =>
      Mount ((fix go (l : list sx) : list (str * app) :=
                match l with
                | [] => []
                | e :: r =>
                    match e with
                    | Lst [Str p; a] => (p, app_of_sx a) :: go r
                    | _ => go r
                    end
                end) l)
  end.

Definition opt_of_sx (s : sx) : option str :=
  match s with
  | Lst [Str t] => Some t
  | _ => None
  end.

Definition show_opt (o : option str) : sx :=
  match o with
  | Some t => Lst [Str t]
  | None => Lst []
  end.

Definition show_err (e : err) : sx :=
  match e with
  | KeyError => Lst [tag (lit "exc"); tag (lit "KeyError")]
  | RuntimeError => Lst [tag (lit "exc"); tag (lit "RuntimeError")]
  end.

Definition show_result (x : result) : sx :=
  match x with
  | Ran id r => Lst [tag (lit "ran"); of_N id; show_opt (root r); show_opt (path r); Lst []]
  | NotFound r => Lst [tag (lit "404"); show_opt (root r); show_opt (path r); Lst []]
  | Raised e => show_err e
  end.

Definition show_hresult (x : hresult) : sx :=
  match x with
  | HRan id => Lst [tag (lit "ran"); of_N id]
  | HNotFound => Lst [tag (lit "404")]
  | HRaised e => show_err e
  end.

Definition header_of_sx (s : sx) : str * str :=
  match s with
  | Lst [Str k; Str v] => (k, v)
  | _ => ([], [])
  end.

Definition row_of_sx (s : sx) : str * list bool :=
  match s with
  | Lst [Str t; Lst bs] => (t, map sx_b bs)
  | _ => ([], [])
  end.

(* the host table: pattern k (named by its position) in front of leaf k *)
Fixpoint index_table (n : nat) (k : nat) : list (nat * N) :=
  match n with
  | O => []
  | S m => (k, N.of_nat k) :: index_table m (S k)
  end.

Definition run (c : list sx) : list sx :=
  match c with
  | [Str op; tree; ro; pa; Num ls] =>
      if str_eqb op (lit "mount") then
        let a := app_of_sx tree in
        let r := mkReq (opt_of_sx ro) (opt_of_sx pa) (sx_b (Num ls)) in
        if constructible a
        then [show_result (eval WSGI a r); show_result (eval ASGI a r)]
        else [Lst [tag (lit "exc"); tag (lit "AssertionError")]]
      else [tag (lit "badcase")]
  | [Str op; Lst pats; wh; Lst hdrs; Num ls; Lst rows] =>
      if str_eqb op (lit "hosts") then
        let fm := table_fullmatch (map row_of_sx rows) in
        let table := index_table (length pats) 0 in
        [show_hresult (hosts_wsgi fm table (opt_of_sx wh));
         show_hresult (hosts_asgi fm table (sx_b (Num ls)) (map header_of_sx hdrs))]
      else [tag (lit "badcase")]
  | _ => [tag (lit "badcase")]
  end.

Definition run_line (l : list N) : list N := print_line (run (parse_line l)).
