(* C09 — source-level tie for the four __call__ bodies around the search loops:
     baize/wsgi/routing.py  Subpaths.__call__, Hosts.__call__
     baize/asgi/routing.py  Subpaths.__call__, Hosts.__call__

   tools/py2coq_c09.py regenerates the Gallina definitions G.wsgi_subpaths_call, G.asgi_subpaths_call,
   G.wsgi_hosts_call, G.asgi_hosts_call from the CURRENT Python source on every check run (harness/c09.py:
   extra_obligations); the text before the first marked segment and the segment of one function are then re-checked
   by coqc against the fresh definition (the two lines between the GENERATED markers are re-pointed at the fresh file;
   nothing else is changed).  GeneratedCall_ref.v is the committed copy of what the translator emitted when this
   file was written.

   self.search is an ARGUMENT of the generated functions.  The theorems instantiate it with the model's own search
   (C09.Model.search routes — which C09/Translated.v ties to the source of BaseSubpaths.search — and
   C09.Model.hosts_search fullmatch table for an arbitrary oracle fullmatch, as the model has it).

   The environ / scope is an association list (C09/PyLib.v); the model's request is what it says under the three
   keys the model speaks about (req_of_environ, req_of_scope).  The proofs do not depend on the spelling of the
   source: the order of the two item assignments, the names of the variables. *)
From Coq Require Import List NArith ZArith Bool.
From Baize Require Import Lib.PyStr Lib.PyStrFacts Lib.Wire.
From Baize Require C09.Model C09.PyLib.
(* GENERATED-BEGIN *)
From Baize Require C09.GeneratedCall_ref.
Module G := Baize.C09.GeneratedCall_ref.
(* GENERATED-END *)
Module M := Baize.C09.Model.
Import ListNotations.
Local Open Scope N_scope.

Definition SCRIPT_NAME : str := Eval vm_compute in lit "SCRIPT_NAME".
Definition PATH_INFO : str := Eval vm_compute in lit "PATH_INFO".
Definition HTTP_HOST : str := Eval vm_compute in lit "HTTP_HOST".
Definition ROOT_PATH : str := Eval vm_compute in lit "root_path".
Definition PATH : str := Eval vm_compute in lit "path".
Definition TYPE : str := Eval vm_compute in lit "type".
Definition LIFESPAN : str := Eval vm_compute in lit "lifespan".
Definition RUNTIME_ERROR : str := Eval vm_compute in lit "RuntimeError".
Definition INVALID_HOST : list N := Eval vm_compute in lit "Invalid host".

(* ---------- the association list ---------- *)

Lemma lookup_set_same : forall (d : PyLib.dict) k v, PyLib.dict_lookup (PyStr.dict_set k v d) k = Some v.
Proof.
  induction d as [|[k0 v0] r IH]; intros k v; cbn [PyStr.dict_set PyLib.dict_lookup].
  - rewrite str_eqb_refl. reflexivity.
  - destruct (PyStr.str_eqb k0 k) eqn:E; cbn [PyLib.dict_lookup]; rewrite E; [reflexivity | apply IH].
Qed.

Lemma lookup_set_other : forall (d : PyLib.dict) k v k',
  PyStr.str_eqb k k' = false -> PyLib.dict_lookup (PyStr.dict_set k v d) k' = PyLib.dict_lookup d k'.
Proof.
  induction d as [|[k0 v0] r IH]; intros k v k' H; cbn [PyStr.dict_set PyLib.dict_lookup].
  - rewrite H. reflexivity.
  - destruct (PyStr.str_eqb k0 k) eqn:E; cbn [PyLib.dict_lookup].
    + apply str_eqb_eq in E. subst k0. rewrite H. reflexivity.
    + destruct (PyStr.str_eqb k0 k'); [reflexivity | apply IH; exact H].
Qed.

Ltac dict_simpl :=
  repeat first [ rewrite lookup_set_same | rewrite lookup_set_other by reflexivity ].

Lemma str_eqb_model : forall a b, PyStr.str_eqb a b = M.str_eqb a b.
Proof.
  induction a as [|x a IH]; intros [|y b]; cbn [PyStr.str_eqb M.str_eqb];
    first [reflexivity | rewrite IH; reflexivity].
Qed.

(* ---------- what the model's request is in an environ / a scope ---------- *)

Definition req_of_environ (e : PyLib.dict) : M.req :=
  M.mkReq (PyLib.dict_lookup e SCRIPT_NAME) (PyLib.dict_lookup e PATH_INFO) false.

(* scope["type"] == "lifespan" (a scope without the key: see asgi_call_no_type) *)
Definition lifespan_of (s : PyLib.dict) : bool :=
  match PyLib.dict_lookup s TYPE with
  | Some t => PyStr.str_eqb t LIFESPAN
  | None => false
  end.

Definition req_of_scope (s : PyLib.dict) : M.req :=
  M.mkReq (PyLib.dict_lookup s ROOT_PATH) (PyLib.dict_lookup s PATH) (lifespan_of s).

Definition err_of (e : str) : option M.err :=
  if PyStr.str_eqb e PyLib.KeyError then Some M.KeyError
  else if PyStr.str_eqb e RUNTIME_ERROR then Some M.RuntimeError
  else None.

(* what one __call__ of a mount does, without the prefix (which the caller of `response` does not see) *)
Inductive seen :=
| SCall (sub : M.app) (r : M.req)     (* an application of the table is called and sees r *)
| S404 (r : M.req)                    (* Response(404) is called and sees r *)
| SFail (e : M.err).

Definition seen_of_step (r : M.req) (s : M.step) : seen :=
  match s with
  | M.Call _ sub r' => SCall sub r'
  | M.Stop404 => S404 r
  | M.Fail e => SFail e
  end.

Definition seen_of_outcome (view : PyLib.dict -> M.req) (o : outcome (PyLib.response M.app * PyLib.dict)) : option seen :=
  match o with
  | Ret (PyLib.Endpoint sub, d) => Some (SCall sub (view d))
  | Ret (PyLib.Response status, d) => if Z.eqb status 404 then Some (S404 (view d)) else None
  | Ret (PyLib.PlainTextResponse _ _, _) => None
  | Raise e => option_map SFail (err_of e)
  end.

Definition hresult_of_outcome (o : outcome (PyLib.response N * PyLib.dict)) : option M.hresult :=
  match o with
  | Ret (PyLib.Endpoint id, _) => Some (M.HRan id)
  | Ret (PyLib.PlainTextResponse body status, _) =>
      if Z.eqb status 404 && PyStr.str_eqb body INVALID_HOST then Some M.HNotFound else None
  | Ret (PyLib.Response _, _) => None
  | Raise e => option_map M.HRaised (err_of e)
  end.

(* METHOD-BEGIN wsgi_subpaths_call *)
(* The WSGI mount: for every table, and every environ, what `response` is and the environ it is called with are the
   model's dispatch on the request the environ holds. *)
Lemma wsgi_call_translated_lemma : forall (routes : list (str * M.app)) (environ : PyLib.dict),
  seen_of_outcome req_of_environ (G.wsgi_subpaths_call (M.search routes) environ) =
  Some (seen_of_step (req_of_environ environ) (M.dispatch M.WSGI routes (req_of_environ environ))).
Proof.
  intros routes environ.
  unfold G.wsgi_subpaths_call, M.dispatch, PyLib.dict_get, PyStr.slice_from. cbv zeta.
  cbn [M.read_path M.wsgi_read_path M.rewrite M.wsgi_rewrite M.get M.path M.root M.lifespan req_of_environ].
  fold PATH_INFO SCRIPT_NAME.
  destruct (PyLib.dict_lookup environ PATH_INFO) as [p|]; cbn [M.get];
    (match goal with |- context [M.search routes ?q] => destruct (M.search routes q) as [[prefix sub]|] end;
     [| cbn [seen_of_outcome seen_of_step Z.eqb Pos.eqb]; reflexivity]);
    cbn [seen_of_outcome seen_of_step]; unfold req_of_environ; dict_simpl; reflexivity.
Qed.

(* No other key is touched, and nothing at all on the 404 path — whatever self.search is. *)
Lemma wsgi_call_frame_lemma : forall (App : Type) (search : str -> option (str * App)) (environ environ' : PyLib.dict)
  (resp : PyLib.response App),
  G.wsgi_subpaths_call search environ = Ret (resp, environ') ->
  (forall k, PyStr.str_eqb SCRIPT_NAME k = false -> PyStr.str_eqb PATH_INFO k = false ->
             PyLib.dict_lookup environ' k = PyLib.dict_lookup environ k) /\
  ((forall a, resp <> PyLib.Endpoint a) -> environ' = environ).
Proof.
  intros App search environ environ' resp. unfold G.wsgi_subpaths_call. cbv zeta.
  match goal with |- context [search ?q] => destruct (search q) as [[prefix sub]|] end;
    intro H; inversion H; subst; clear H; split.
  - intros k H1 H2. fold PATH_INFO SCRIPT_NAME. repeat rewrite lookup_set_other by assumption. reflexivity.
  - intro H. exfalso. apply (H sub). reflexivity.
  - intros k _ _. reflexivity.
  - intros _. reflexivity.
Qed.

Theorem wsgi_call_translated : forall (routes : list (str * M.app)) (environ : PyLib.dict),
  seen_of_outcome req_of_environ (G.wsgi_subpaths_call (M.search routes) environ) =
  Some (seen_of_step (req_of_environ environ) (M.dispatch M.WSGI routes (req_of_environ environ))).
Proof. exact wsgi_call_translated_lemma. Qed.

Theorem wsgi_call_frame : forall (App : Type) (search : str -> option (str * App)) (environ environ' : PyLib.dict)
  (resp : PyLib.response App),
  G.wsgi_subpaths_call search environ = Ret (resp, environ') ->
  (forall k, PyStr.str_eqb SCRIPT_NAME k = false -> PyStr.str_eqb PATH_INFO k = false ->
             PyLib.dict_lookup environ' k = PyLib.dict_lookup environ k) /\
  ((forall a, resp <> PyLib.Endpoint a) -> environ' = environ).
Proof. exact wsgi_call_frame_lemma. Qed.
Print Assumptions wsgi_call_translated.
Print Assumptions wsgi_call_frame.
(* METHOD-END wsgi_subpaths_call *)

(* METHOD-BEGIN asgi_subpaths_call *)
(* The ASGI mount, for every table and every scope that has the key "type" (every ASGI scope has; the model's
   request has no place for its absence: asgi_call_no_type). *)
Lemma asgi_call_translated_lemma : forall (routes : list (str * M.app)) (scope : PyLib.dict),
  PyLib.dict_lookup scope TYPE <> None ->
  seen_of_outcome req_of_scope (G.asgi_subpaths_call (M.search routes) scope) =
  Some (seen_of_step (req_of_scope scope) (M.dispatch M.ASGI routes (req_of_scope scope))).
Proof.
  intros routes scope HT.
  unfold G.asgi_subpaths_call, M.dispatch, PyLib.dict_get, PyLib.dict_getitem, PyStr.slice_from. cbv zeta.
  unfold M.read_path, M.asgi_read_path, M.rewrite, M.asgi_rewrite, req_of_scope.
  cbn [M.path M.root M.lifespan].
  fold TYPE PATH ROOT_PATH LIFESPAN.
  assert (HL : forall d, PyLib.dict_lookup d TYPE = PyLib.dict_lookup scope TYPE -> lifespan_of d = lifespan_of scope).
  { intros d H. unfold lifespan_of. rewrite H. reflexivity. }
  destruct (PyLib.dict_lookup scope TYPE) as [t|] eqn:ET; [clear HT | contradiction HT; reflexivity].
  assert (ELs : lifespan_of scope = PyStr.str_eqb t LIFESPAN) by (unfold lifespan_of; rewrite ET; reflexivity).
  rewrite ELs in *. cbn [PyLib.bind].
  destruct (PyStr.str_eqb t LIFESPAN) eqn:EL; [reflexivity|].
  destruct (PyLib.dict_lookup scope PATH) as [p|] eqn:EP; cbn [PyLib.bind M.get]; [| reflexivity].
  match goal with |- context [M.search routes ?q] => destruct (M.search routes q) as [[prefix sub]|] end;
    cbn [seen_of_outcome seen_of_step Z.eqb Pos.eqb]; unfold req_of_scope.
  - rewrite HL by (dict_simpl; exact ET). dict_simpl. reflexivity.
  - rewrite EP, (HL scope ET). reflexivity.
Qed.

Lemma asgi_call_no_type_lemma : forall (App : Type) (search : str -> option (str * App)) (scope : PyLib.dict),
  PyLib.dict_lookup scope TYPE = None -> G.asgi_subpaths_call search scope = Raise PyLib.KeyError.
Proof.
  intros App search scope H. unfold G.asgi_subpaths_call, PyLib.dict_getitem. fold TYPE. rewrite H. reflexivity.
Qed.

Lemma asgi_call_frame_lemma : forall (App : Type) (search : str -> option (str * App)) (scope scope' : PyLib.dict)
  (resp : PyLib.response App),
  G.asgi_subpaths_call search scope = Ret (resp, scope') ->
  (forall k, PyStr.str_eqb ROOT_PATH k = false -> PyStr.str_eqb PATH k = false ->
             PyLib.dict_lookup scope' k = PyLib.dict_lookup scope k) /\
  ((forall a, resp <> PyLib.Endpoint a) -> scope' = scope).
Proof.
  intros App search scope scope' resp. unfold G.asgi_subpaths_call, PyLib.dict_getitem. cbv zeta.
  fold TYPE PATH ROOT_PATH.
  destruct (PyLib.dict_lookup scope TYPE) as [t|]; cbn [PyLib.bind]; [| discriminate].
  match goal with |- context [if ?c then _ else _] => destruct c end; [discriminate|].
  destruct (PyLib.dict_lookup scope PATH) as [p|]; cbn [PyLib.bind]; [| discriminate].
  match goal with |- context [search ?q] => destruct (search q) as [[prefix sub]|] end;
    intro H; inversion H; subst; clear H; split.
  - intros k H1 H2. repeat rewrite lookup_set_other by assumption. reflexivity.
  - intro H. exfalso. apply (H sub). reflexivity.
  - intros k _ _. reflexivity.
  - intros _. reflexivity.
Qed.

Theorem asgi_call_translated : forall (routes : list (str * M.app)) (scope : PyLib.dict),
  PyLib.dict_lookup scope TYPE <> None ->
  seen_of_outcome req_of_scope (G.asgi_subpaths_call (M.search routes) scope) =
  Some (seen_of_step (req_of_scope scope) (M.dispatch M.ASGI routes (req_of_scope scope))).
Proof. exact asgi_call_translated_lemma. Qed.

Theorem asgi_call_no_type : forall (App : Type) (search : str -> option (str * App)) (scope : PyLib.dict),
  PyLib.dict_lookup scope TYPE = None -> G.asgi_subpaths_call search scope = Raise PyLib.KeyError.
Proof. exact asgi_call_no_type_lemma. Qed.

Theorem asgi_call_frame : forall (App : Type) (search : str -> option (str * App)) (scope scope' : PyLib.dict)
  (resp : PyLib.response App),
  G.asgi_subpaths_call search scope = Ret (resp, scope') ->
  (forall k, PyStr.str_eqb ROOT_PATH k = false -> PyStr.str_eqb PATH k = false ->
             PyLib.dict_lookup scope' k = PyLib.dict_lookup scope k) /\
  ((forall a, resp <> PyLib.Endpoint a) -> scope' = scope).
Proof. exact asgi_call_frame_lemma. Qed.
Print Assumptions asgi_call_translated.
Print Assumptions asgi_call_no_type.
Print Assumptions asgi_call_frame.
(* METHOD-END asgi_subpaths_call *)

(* METHOD-BEGIN wsgi_hosts_call *)
(* The WSGI host dispatch, for every oracle fullmatch, every table and every environ: the selected endpoint runs, or
   PlainTextResponse(b"Invalid host", 404); the environ is passed on as it was. *)
Lemma wsgi_hosts_call_translated_lemma : forall (P : Type) (fullmatch : P -> str -> bool) (table : list (P * N))
  (environ : PyLib.dict),
  hresult_of_outcome (G.wsgi_hosts_call (M.hosts_search fullmatch table) environ) =
  Some (M.hosts_wsgi fullmatch table (PyLib.dict_lookup environ HTTP_HOST)) /\
  (forall resp d, G.wsgi_hosts_call (M.hosts_search fullmatch table) environ = Ret (resp, d) -> d = environ).
Proof.
  intros P fullmatch table environ.
  unfold G.wsgi_hosts_call, M.hosts_wsgi, M.wsgi_host, PyLib.dict_get, M.get. cbv zeta. fold HTTP_HOST.
  destruct (PyLib.dict_lookup environ HTTP_HOST) as [h|];
    match goal with |- context [M.hosts_search fullmatch table ?q] => destruct (M.hosts_search fullmatch table q) as [id|] end;
    (split; [reflexivity | intros resp d H; inversion H; reflexivity]).
Qed.

Theorem wsgi_hosts_call_translated : forall (P : Type) (fullmatch : P -> str -> bool) (table : list (P * N))
  (environ : PyLib.dict),
  hresult_of_outcome (G.wsgi_hosts_call (M.hosts_search fullmatch table) environ) =
  Some (M.hosts_wsgi fullmatch table (PyLib.dict_lookup environ HTTP_HOST)) /\
  (forall resp d, G.wsgi_hosts_call (M.hosts_search fullmatch table) environ = Ret (resp, d) -> d = environ).
Proof. exact wsgi_hosts_call_translated_lemma. Qed.
Print Assumptions wsgi_hosts_call_translated.
(* METHOD-END wsgi_hosts_call *)

(* METHOD-BEGIN asgi_hosts_call *)
(* a function that walks the header list the way the model's fold does *)
Lemma host_loop_spec : forall (F : list (list N * list N) -> str -> str),
  (forall h, F [] h = h) ->
  (forall k v l h, F ((k, v) :: l) h = F l (if PyStr.str_eqb k (lit "host") then v else h)) ->
  forall l h, F l h = fold_left (fun host kv => if M.str_eqb (fst kv) (lit "host") then snd kv else host) l h.
Proof.
  intros F H0 H1. induction l as [|[k v] l IH]; intro h.
  - apply H0.
  - rewrite H1, IH. cbn [fold_left fst snd]. rewrite str_eqb_model. reflexivity.
Qed.

Lemma host_loop_model : forall (F : list (list N * list N) -> str -> str),
  (forall h, F [] h = h) ->
  (forall k v l h, F ((k, v) :: l) h = F l (if PyStr.str_eqb k (lit "host") then v else h)) ->
  forall l, F l [] = M.asgi_host l.
Proof. intros F H0 H1 l. unfold M.asgi_host. apply (host_loop_spec F H0 H1). Qed.

(* The ASGI host dispatch, for every oracle, table, scope that has "type" and header list: the header loop is the
   model's asgi_host; the scope is passed on as it was. *)
Lemma asgi_hosts_call_translated_lemma : forall (P : Type) (fullmatch : P -> str -> bool) (table : list (P * N))
  (scope : PyLib.dict) (headers : list (list N * list N)),
  PyLib.dict_lookup scope TYPE <> None ->
  hresult_of_outcome (G.asgi_hosts_call (M.hosts_search fullmatch table) scope (Some headers)) =
  Some (M.hosts_asgi fullmatch table (lifespan_of scope) headers) /\
  (forall resp d, G.asgi_hosts_call (M.hosts_search fullmatch table) scope (Some headers) = Ret (resp, d) -> d = scope).
Proof.
  intros P fullmatch table scope headers HT.
  unfold G.asgi_hosts_call, PyLib.dict_getitem, PyLib.field_getitem, PyLib.decode_latin1, lifespan_of. cbv zeta.
  fold TYPE LIFESPAN.
  destruct (PyLib.dict_lookup scope TYPE) as [t|]; [clear HT | contradiction HT; reflexivity].
  cbn [PyLib.bind].
  match goal with
  | |- context [?F headers (@nil N)] =>
      rewrite (host_loop_model F (fun h => eq_refl) (fun k v l h => eq_refl) headers)
  end.
  unfold M.hosts_asgi.
  destruct (PyStr.str_eqb t LIFESPAN); [split; [reflexivity | discriminate]|].
  destruct (M.hosts_search fullmatch table (M.asgi_host headers)) as [id|];
    (split; [reflexivity | intros resp d H; inversion H; reflexivity]).
Qed.

Theorem asgi_hosts_call_translated : forall (P : Type) (fullmatch : P -> str -> bool) (table : list (P * N))
  (scope : PyLib.dict) (headers : list (list N * list N)),
  PyLib.dict_lookup scope TYPE <> None ->
  hresult_of_outcome (G.asgi_hosts_call (M.hosts_search fullmatch table) scope (Some headers)) =
  Some (M.hosts_asgi fullmatch table (lifespan_of scope) headers) /\
  (forall resp d, G.asgi_hosts_call (M.hosts_search fullmatch table) scope (Some headers) = Ret (resp, d) -> d = scope).
Proof. exact asgi_hosts_call_translated_lemma. Qed.
Print Assumptions asgi_hosts_call_translated.
(* METHOD-END asgi_hosts_call *)
