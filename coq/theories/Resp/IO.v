(* Resp/IO.v — wire codec for response recipes and traces (shared by C04, C05, C20). *)
From Coq Require Import List NArith ZArith Bool.
From Baize Require Import Lib.Wire Lib.Order C02.Model C02.IO Resp.Model.
Import ListNotations.

Definition rd_header (x : sx) : header :=
  match x with Lst [Str k; Str v] => (k, v) | _ => ([], []) end.

Definition rd_base (st hs cs : sx) : base :=
  {| b_status := Z.to_nat (sx_z st); b_headers := map rd_header (sx_l hs); b_cookies := map sx_s (sx_l cs) |}.

Definition rd_answer (x : sx) : answer :=
  match x with Lst [Str _; Str c] => Item c | _ => Raise end.

Definition rd_recipe (x : sx) : option recipe :=
  match x with
  | Lst (Str kind :: args) =>
      if bytes_eqb kind (lit "plain") then
        match args with [st; hs; cs] => Some (RPlain (rd_base st hs cs)) | _ => None end
      else if bytes_eqb kind (lit "small") then
        match args with [st; hs; cs; Str body; Str media; Str charset] =>
                          Some (RSmall (rd_base st hs cs) body media charset) | _ => None end
      else if bytes_eqb kind (lit "redirect") then
        match args with [st; hs; cs; Str loc] => Some (RRedirect (rd_base st hs cs) loc) | _ => None end
      else if bytes_eqb kind (lit "stream") then
        match args with [st; hs; cs; Str ct; Lst prod] =>
                          Some (RStream (rd_base st hs cs) ct (map rd_answer prod)) | _ => None end
      else if bytes_eqb kind (lit "sse") then
        match args with [st; hs; cs; Str ch; Lst prod] =>
                          Some (RSSE (rd_base st hs cs) ch (map rd_answer prod)) | _ => None end
      else if bytes_eqb kind (lit "file") then
        match rd_req args with Some r => Some (RFile r) | None => None end
      else None
  | _ => None
  end.

Definition rd_optnat (x : sx) : option nat :=
  match x with Lst [Num n] => Some (Z.to_nat n) | _ => None end.

Definition show_outcome (o : outcome) : sx :=
  match o with
  | Returned => tag (lit "returned")
  | ProducerRaised => tag (lit "producer-raised")
  | SendRaised => tag (lit "send-raised")
  end.

Definition show_event (e : event) : sx :=
  match e with
  | Start st h => Lst [tag (lit "start"); of_nat st; show_headers h]
  | Body d m => Lst [tag (lit "body"); Str d; of_bool m]
  | ZeroCopy o c m => Lst [tag (lit "zerocopy"); show_optn o; show_optn c; of_bool m]
  | Spin => Lst [tag (lit "spin")]
  end.

Definition show_wevent (phrase : option bytes) (e : wevent) : sx :=
  match e with
  | WStart code h => Lst [tag (lit "start"); Str (status_line code phrase); show_headers h]
  | WYield c => Lst [tag (lit "yield"); Str c]
  end.
