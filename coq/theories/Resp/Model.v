(* Resp/Model.v — shared model of the response classes on both interfaces
   (baize/responses.py BaseResponse, baize/wsgi/responses.py, baize/asgi/responses.py,
   baize/asgi/helper.py, Headers/MutableHeaders of baize/datastructures.py).
   Used by C05 (protocol legality), C04 (WSGI/ASGI equivalence), C20 (middleware). *)
From Coq Require Import List NArith Bool Arith.
From Baize Require Import Lib.Wire Lib.Order C02.Model.
Import ListNotations.

(* ---------- text helpers ---------- *)

(* str.lower() restricted to ASCII (header names are HTTP tokens) *)
Definition lower_c (c : N) : N := if (N.leb 65 c && N.leb c 90)%bool then (c + 32)%N else c.
Definition lower (s : bytes) : bytes := map lower_c s.

Fixpoint starts_with (p s : bytes) : bool :=
  match p, s with
  | [], _ => true
  | x :: p', y :: s' => N.eqb x y && starts_with p' s'
  | _ :: _, [] => false
  end.

(* ---------- Headers / MutableHeaders : insertion-ordered, keys lower-cased ---------- *)

Definition hstore := list header.

Fixpoint hget (k : bytes) (h : hstore) : option bytes :=
  match h with
  | [] => None
  | (k', v) :: r => if bytes_eqb k' k then Some v else hget k r
  end.

Fixpoint hput (k v : bytes) (h : hstore) : hstore :=
  match h with
  | [] => [(k, v)]
  | (k', v') :: r => if bytes_eqb k' k then (k, v) :: r else (k', v') :: hput k v r
  end.

(* Headers.__init__ : lower-case the key, fold duplicates with ", " *)
Definition hinit (items : list header) : hstore :=
  fold_left (fun st kv =>
               let k := lower (fst kv) in
               match hget k st with
               | Some old => hput k (old ++ lit ", " ++ snd kv) st
               | None => hput k (snd kv) st
               end) items [].

Definition has_ctl (s : bytes) : bool := existsb (fun c => N.eqb c 10 || N.eqb c 13 || N.eqb c 0) s.

(* MutableHeaders.__setitem__ ; None = ValueError *)
Definition hset (k v : bytes) (h : hstore) : option hstore :=
  if has_ctl k || has_ctl v then None else Some (hput (lower k) v h).

(* baize's own assignments use clean literal keys; values may come from the developer *)
Definition hset' (k v : bytes) (h : hstore) : hstore := hput (lower k) v h.

Definition hmem (k : bytes) (h : hstore) : bool :=
  match hget (lower k) h with Some _ => true | None => false end.

(* list_headers : the mapping's items, then one set-cookie per cookie *)
Definition list_headers (h : hstore) (cookies : list bytes) : list header :=
  h ++ map (fun c => (lit "set-cookie", c)) cookies.

(* ---------- what a body producer does when asked for its next item ---------- *)

Inductive answer :=
| Item (chunk : bytes)
| Raise.              (* the user's generator raises its own exception *)
(* the end of the list is StopIteration / StopAsyncIteration *)

(* ---------- response recipes (constructor arguments, already rendered where the
   rendering is the stdlib's: json.dumps / str.encode / iri_to_uri / str(cookie)) ---------- *)

Record base := { b_status : nat; b_headers : list header; b_cookies : list bytes }.

Inductive recipe :=
| RPlain (b : base)                                             (* Response(status, headers) *)
| RSmall (b : base) (body media charset : bytes)                (* PlainText / HTML / JSON *)
| RRedirect (b : base) (location : bytes)                       (* location = iri_to_uri(url) *)
| RStream (b : base) (ctype : bytes) (prod : list answer)       (* StreamResponse *)
| RSSE (b : base) (charset : bytes) (prod : list answer)        (* SendEventResponse; items = encoded blocks *)
| RFile (r : file_req).                                         (* FileResponse *)

Definition base_of (r : recipe) : base :=
  match r with
  | RPlain b | RSmall b _ _ _ | RRedirect b _ | RStream b _ _ | RSSE b _ _ => b
  | RFile _ => {| b_status := 200; b_headers := []; b_cookies := [] |}
  end.

(* ---------- header computation of each class ---------- *)

Definition small_headers (b : base) (body media charset : bytes) : hstore :=
  let h0 := hinit (b_headers b) in
  let h1 := match body with
            | [] => h0
            | _ => if hmem (lit "content-length") h0 then h0
                   else hset' (lit "content-length") (decn (length body)) h0
            end in
  match media with
  | [] => h1
  | _ => if hmem (lit "content-type") h1 then h1
         else hset' (lit "content-type")
                    (if starts_with (lit "text/") media then media ++ lit "; charset=" ++ charset else media) h1
  end.

(* SendEventResponse.__init__ : {**required, **headers}; Content-Type += "; charset=…" *)
Definition dict_merge (a bq : list header) : list header :=
  fold_left (fun st kv => hput (fst kv) (snd kv) st) bq a.

Definition sse_headers (asgi : bool) (b : base) (charset : bytes) : hstore :=
  let required :=
    [(lit "Cache-Control", lit "no-cache")] ++
    (if asgi then [(lit "Connection", lit "keep-alive")] else []) ++
    [(lit "Content-Type", lit "text/event-stream")] in
  let merged := match b_headers b with [] => required | hs => dict_merge required hs end in
  let merged' := match hget (lit "Content-Type") merged with
                 | Some v => hput (lit "Content-Type") (v ++ lit "; charset=" ++ charset) merged
                 | None => merged   (* unreachable: the key is always present *)
                 end in
  hinit merged'.

Definition start_headers (asgi : bool) (r : recipe) : list header :=
  match r with
  | RPlain b => list_headers (hset' (lit "content-length") (lit "0") (hinit (b_headers b))) (b_cookies b)
  | RSmall b body media charset => list_headers (small_headers b body media charset) (b_cookies b)
  | RRedirect b loc =>
      list_headers (hset' (lit "content-length") (lit "0") (hset' (lit "location") loc (hinit (b_headers b))))
                   (b_cookies b)
  | RStream b ctype _ => list_headers (hset' (lit "Content-Type") ctype (hinit (b_headers b))) (b_cookies b)
  | RSSE b charset _ => list_headers (sse_headers asgi b charset) (b_cookies b)
  | RFile _ => []
  end.

(* ---------- ASGI ---------- *)

Inductive outcome :=
| Returned                 (* the call returned normally *)
| ProducerRaised           (* the user's generator's exception propagated *)
| SendRaised.              (* the server's send()/start_response raised and that propagated *)

(* StreamingResponse.__call__ after the start event: [closed_after] = Some m means
   the disconnect becomes visible to the loop test after m chunks were sent *)
Fixpoint asgi_stream_loop (prod : list answer) (sent : nat) (closed_after : option nat)
  : list event * outcome :=
  let closed := match closed_after with Some m => Nat.leb m sent | None => false end in
  if closed then ([Body [] false], Returned)
  else match prod with
       | [] => ([Body [] false], Returned)
       | Raise :: _ => ([], ProducerRaised)
       | Item c :: rest =>
           let '(evs, o) := asgi_stream_loop rest (S sent) closed_after in
           (Body c true :: evs, o)
       end.

Definition asgi_full (r : recipe) (closed_after : option nat) : list event * outcome :=
  match r with
  | RPlain b => ([Start (b_status b) (start_headers true r); Body [] false], Returned)
  | RSmall b body _ _ => ([Start (b_status b) (start_headers true r); Body body false], Returned)
  | RRedirect b _ => ([Start (b_status b) (start_headers true r); Body [] false], Returned)
  | RStream b _ prod | RSSE b _ prod =>
      let '(evs, o) := asgi_stream_loop prod 0 closed_after in
      (Start (b_status b) (start_headers true r) :: evs, o)
  | RFile fr => (asgi_file false fr, Returned)
  end.

(* a server whose send() raises on call number [n] (0-based): the events before it
   were delivered, the exception propagates, nothing else is sent *)
Definition asgi_run (r : recipe) (closed_after : option nat) (send_fails_at : option nat)
  : list event * outcome :=
  let '(evs, o) := asgi_full r closed_after in
  match send_fails_at with
  | Some n => if Nat.ltb n (length evs) then (firstn n evs, SendRaised) else (evs, o)
  | None => (evs, o)
  end.

(* ---------- WSGI ---------- *)

Inductive wevent :=
| WStart (code : nat) (headers : list header)
| WYield (chunk : bytes).

Fixpoint wsgi_stream_items (prod : list answer) : list wevent * outcome :=
  match prod with
  | [] => ([], Returned)
  | Raise :: _ => ([], ProducerRaised)
  | Item c :: rest => let '(evs, o) := wsgi_stream_items rest in (WYield c :: evs, o)
  end.

Definition wsgi_full (r : recipe) : list wevent * outcome :=
  match r with
  | RPlain b => ([WStart (b_status b) (start_headers false r); WYield []], Returned)
  | RSmall b body _ _ => ([WStart (b_status b) (start_headers false r); WYield body], Returned)
  | RRedirect b _ => ([WStart (b_status b) (start_headers false r); WYield []], Returned)
  | RStream b _ prod | RSSE b _ prod =>
      let '(evs, o) := wsgi_stream_items prod in
      (WStart (b_status b) (start_headers false r) :: evs, o)
  | RFile fr =>
      let o := wsgi_file fr in
      (WStart (w_status o) (w_headers o) :: map WYield (w_chunks o), Returned)
  end.

(* Response.__call__ and RedirectResponse call start_response at once and return a
   tuple; every other __call__ is a generator, so nothing happens before the
   server asks for the first item *)
Definition is_generator (r : recipe) : bool :=
  match r with RPlain _ | RRedirect _ _ => false | _ => true end.

(* the server asks for exactly [n] items and then closes the iterable: the
   generator sees GeneratorExit and emits nothing more (if fewer than n items
   exist the iteration ends as without the fault) *)
Definition wsgi_run (r : recipe) (close_after : option nat) : list wevent * outcome :=
  let '(evs, o) := wsgi_full r in
  match close_after with
  | Some n =>
      if is_generator r && Nat.eqb n 0 then ([], Returned)
      else if Nat.leb n (length evs - 1) then (firstn (S n) evs, Returned)
      else (evs, o)
  | None => (evs, o)
  end.

(* ---------- the status line ---------- *)

(* StatusStringMapping: "<code> <phrase>" for the codes of http.HTTPStatus (the
   phrase is passed in by the harness from the stdlib), else the fallback text *)
Definition status_line (code : nat) (phrase : option bytes) : bytes :=
  decn code ++ [32%N] ++ match phrase with Some p => p | None => lit "Unknown Status Code" end.
