(* C02 — wire interface. *)
From Coq Require Import List NArith ZArith Bool.
From Baize Require Import Lib.Wire Lib.Order C02.Model C02.Reuse.
Import ListNotations.

Definition rd_opt (x : sx) : option bytes :=
  match x with Lst [Str s] => Some s | _ => None end.

Definition rd_req (c : list sx) : option file_req :=
  match c with
  | [Num head; rng; ifr; Str file; Num cs; Str etag; Str lastmod; Str ctype; disp; Str boundary; Str _] =>
      Some {| fr_head := negb (Z.eqb head 0); fr_range := rd_opt rng; fr_if_range := rd_opt ifr;
              fr_file := file; fr_chunk := Z.to_nat cs; fr_etag := etag; fr_lastmod := lastmod;
              fr_ctype := ctype; fr_disp := rd_opt disp; fr_boundary := boundary |}
  | _ => None
  end.

Definition show_headers (h : list header) : sx :=
  Lst (map (fun p => Lst [Str (fst p); Str (snd p)]) (sort_headers h)).

Definition show_wsgi (o : wsgi_out) : sx :=
  Lst [of_nat (w_status o); show_headers (w_headers o); Str (wsgi_body o)].

Definition is_final (e : event) : bool :=
  match e with Body _ m => negb m | ZeroCopy _ _ m => negb m | _ => false end.
Definition is_spin (e : event) : bool := match e with Spin => true | _ => false end.
Definition is_start (e : event) : bool := match e with Start _ _ => true | _ => false end.

Definition show_optn (o : option nat) : sx := match o with Some n => of_nat n | None => Num (-1) end.

Definition show_asgi (f : bytes) (evs : list event) : sx :=
  match evs with
  | Start st h :: rest =>
      Lst [of_nat st; show_headers h; Str (body_of f rest);
           of_nat (length (filter is_final rest));
           of_bool (match rev rest with e :: _ => is_final e | [] => false end);
           of_bool (existsb is_spin rest || existsb is_start rest);
           Lst (flat_map (fun e => match e with
                                   | ZeroCopy o c m => [Lst [show_optn o; show_optn c; of_bool m]]
                                   | _ => [] end) rest)]
  | _ => Lst [tag (lit "nostart")]
  end.

(* ---------- the same object answered other requests before (C02/Reuse.v) ----------
   A case line may carry a 12th field: the list of requests ( head ( range )? ( if-range )? )
   the SAME response object answers first, oldest first (the harness monkey-patches the
   boundary, so every request draws the case's boundary).  Lines without it are as before. *)

Definition rd_pre_item (boundary : bytes) (zc : bool) (x : sx) : option req :=
  match x with
  | Lst [Num head; rng] =>
      Some {| q_head := negb (Z.eqb head 0); q_range := rd_opt rng; q_if_range := None;
              q_boundary := boundary; q_zc := zc |}
  | Lst [Num head; rng; ifr] =>
      Some {| q_head := negb (Z.eqb head 0); q_range := rd_opt rng; q_if_range := rd_opt ifr;
              q_boundary := boundary; q_zc := zc |}
  | _ => None
  end.

Fixpoint rd_prelude (boundary : bytes) (zc : bool) (l : list sx) : option (list req) :=
  match l with
  | [] => Some []
  | x :: r => match rd_pre_item boundary zc x, rd_prelude boundary zc r with
              | Some q, Some qs => Some (q :: qs)
              | _, _ => None
              end
  end.

(* the request fields and the prelude (None: no 12th field) *)
Definition rd_case (c : list sx) : option (file_req * option (list sx)) :=
  match rd_req (firstn 11 c), skipn 11 c with
  | Some r, [] => Some (r, None)
  | Some r, [Lst pre] => Some (r, Some pre)
  | _, _ => None
  end.

Definition req_of (r : file_req) (zc : bool) : req :=
  {| q_head := fr_head r; q_range := fr_range r; q_if_range := fr_if_range r;
     q_boundary := fr_boundary r; q_zc := zc |}.

Definition show_reply (f : bytes) (a : reply) : sx :=
  match a with
  | RW o => show_wsgi o
  | RA evs => show_asgi f evs
  end.

(* the object of the case (constructed without headers=) answers the prelude, then the request *)
Definition run_reused (r : file_req) (pre : list sx) : list sx :=
  match rd_prelude (fr_boundary r) false pre, rd_prelude (fr_boundary r) true pre with
  | Some h, Some hz =>
      [show_reply (fr_file r) (answer_after true IWsgi r [] h (req_of r false));
       show_reply (fr_file r) (answer_after true IAsgi r [] h (req_of r false));
       show_reply (fr_file r) (answer_after true IAsgi r [] hz (req_of r true));
       (* HEAD: same status and headers as GET from the same object after the same prelude
          (head_same_headers_empty_body + reuse_history_independent) *)
       if fr_head r then Lst [of_bool true; of_bool true; of_bool true] else Lst [];
       (* per interface: how the answer of a FRESH object to the same request differs — it does
          not (theorem reuse_history_independent) *)
       Lst [Lst []; Lst []; Lst []]]
  | _, _ => [tag (lit "badcase")]
  end.

Definition run_case (c : list sx) : list sx :=
  match c with
  | Str kind :: rest =>
      match rd_case rest with
      | Some (r, None) =>
                  [show_wsgi (wsgi_file r); show_asgi (fr_file r) (asgi_file false r);
                   show_asgi (fr_file r) (asgi_file true r);
                   (* HEAD: do the headers equal those of the same request with GET?  (theorem head_same_headers) *)
                   if fr_head r then Lst [of_bool true; of_bool true; of_bool true] else Lst []]
      | Some (r, Some pre) => run_reused r pre
      | None => [tag (lit "badcase")]
      end
  | _ => [tag (lit "badcase")]
  end.

Definition run_line (l : list N) : list N := print_line (run_case (parse_line l)).
