(* C02 — wire interface. *)
From Coq Require Import List NArith ZArith Bool.
From Baize Require Import Lib.Wire Lib.Order C02.Model.
Import ListNotations.

Definition rd_opt (x : sx) : option bytes :=
  match x with Lst [Str s] => Some s | _ => None end.

Definition rd_req (c : list sx) : option file_req :=
  match c with
  | [Num head; rng; ifr; Str file; Num cs; Str etag; Str lastmod; Str ctype; disp; Str boundary; Str _] =>
      Some {| fr_head := negb (Z.eqb head 0); fr_range := rd_opt rng; fr_if_range := rd_opt ifr;
              fr_file := file; fr_chunk := Z.to_nat cs; fr_etag := etag; fr_lastmod := lastmod;
              fr_ctype := ctype; fr_disp := rd_opt disp; fr_boundary := boundary |}
  | _ => None
  end.

Definition show_headers (h : list header) : sx :=
  Lst (map (fun p => Lst [Str (fst p); Str (snd p)]) (sort_headers h)).

Definition show_wsgi (o : wsgi_out) : sx :=
  Lst [of_nat (w_status o); show_headers (w_headers o); Str (wsgi_body o)].

Definition is_final (e : event) : bool :=
  match e with Body _ m => negb m | ZeroCopy _ _ m => negb m | _ => false end.
Definition is_spin (e : event) : bool := match e with Spin => true | _ => false end.
Definition is_start (e : event) : bool := match e with Start _ _ => true | _ => false end.

Definition show_optn (o : option nat) : sx := match o with Some n => of_nat n | None => Num (-1) end.

Definition show_asgi (f : bytes) (evs : list event) : sx :=
  match evs with
  | Start st h :: rest =>
      Lst [of_nat st; show_headers h; Str (body_of f rest);
           of_nat (length (filter is_final rest));
           of_bool (match rev rest with e :: _ => is_final e | [] => false end);
           of_bool (existsb is_spin rest || existsb is_start rest);
           Lst (flat_map (fun e => match e with
                                   | ZeroCopy o c m => [Lst [show_optn o; show_optn c; of_bool m]]
                                   | _ => [] end) rest)]
  | _ => Lst [tag (lit "nostart")]
  end.

Definition run_case (c : list sx) : list sx :=
  match c with
  | Str kind :: rest =>
      match rd_req rest with
      | Some r => [show_wsgi (wsgi_file r); show_asgi (fr_file r) (asgi_file false r);
                   show_asgi (fr_file r) (asgi_file true r);
                   (* HEAD: do the headers equal those of the same request with GET?  (theorem head_same_headers) *)
                   if fr_head r then Lst [of_bool true; of_bool true; of_bool true] else Lst []]
      | None => [tag (lit "badcase")]
      end
  | _ => [tag (lit "badcase")]
  end.

Definition run_line (l : list N) : list N := print_line (run_case (parse_line l)).
