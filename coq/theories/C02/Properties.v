(* C02 — File responses deliver exactly the requested bytes with truthful framing.
   Statements only.  [r] ranges over every request: any file content, any Range /
   If-Range text, method, chunk size, validator strings, content type, boundary. *)
From Coq Require Import List NArith Arith Permutation.
From Baize Require Import Lib.Wire Lib.Order C03.Model C02.Model C02.Proofs Resp.Model C02.Reuse C02.ReuseProofs.
Import ListNotations.

(* WSGI: the concatenation of the yielded chunks is exactly the expected body
   (whole file / the slice / the multipart parts / the 400 text / nothing). *)
Theorem wsgi_body_exact : forall r : file_req,
  1 <= fr_chunk r -> wsgi_body (wsgi_file r) = expected_body r.
Proof. exact wsgi_body_exact_proof. Qed.

(* ASGI, with and without zero-copy: same status and headers as WSGI, the bytes a
   server obtains from the messages are the expected body, the emulated sendfile
   loop terminates, and exactly the last message has more_body = false. *)
Theorem asgi_body_exact : forall (zc : bool) (r : file_req),
  1 <= fr_chunk r ->
  exists st hs,
    asgi_file zc r = Start st hs :: asgi_rest zc r /\
    st = w_status (wsgi_file r) /\ hs = w_headers (wsgi_file r) /\
    body_of (fr_file r) (asgi_rest zc r) = expected_body r /\
    shape_ok false (asgi_rest zc r).
Proof. exact asgi_body_exact_proof. Qed.

(* The declared Content-Length equals the number of body bytes sent, on all three. *)
Theorem content_length_truthful : forall (r : file_req) (v : bytes),
  1 <= fr_chunk r -> fr_head r = false ->
  In (lit "content-length", v) (w_headers (wsgi_file r)) ->
  v = decn (length (wsgi_body (wsgi_file r))) /\
  forall zc, v = decn (length (body_of (fr_file r) (asgi_rest zc r))).
Proof. exact content_length_truthful_proof. Qed.

(* generate_multipart's closed formula is the length of the multipart body. *)
Theorem multipart_length_exact : forall (r : file_req) (ranges : list (nat * nat)),
  Forall (fun x => fst x < snd x /\ snd x <= length (fr_file r)) ranges ->
  length (flat_map (part r) ranges ++ closing (fr_boundary r)) =
  multipart_length (fr_boundary r) (fr_ctype r) (length (fr_file r)) ranges.
Proof. exact multipart_length_exact_proof. Qed.

(* 200 iff no Range or If-Range differs from both validators; 206 for accepted
   ranges; 400 / 416 carry no file data, 416 carries Content-Range: */size. *)
Theorem status_decision : forall r : file_req,
  (decide r = Whole <->
     fr_range r = None \/
     exists v, fr_if_range r = Some v /\ bytes_eqb v (fr_etag r) = false /\ bytes_eqb v (fr_lastmod r) = false) /\
  (w_status (wsgi_file r) = 200 <-> decide r = Whole) /\
  (w_status (wsgi_file r) = 206 <-> (exists s e, decide r = Single s e) \/ (exists l, decide r = Several l)) /\
  (forall msg, decide r = Reject400 msg -> w_status (wsgi_file r) = 400 /\ w_headers (wsgi_file r) = [] /\
                                           expected_body r = if fr_head r then [] else msg) /\
  (decide r = Reject416 -> w_status (wsgi_file r) = 416 /\ expected_body r = [] /\
      w_headers (wsgi_file r) = [(lit "content-range", lit "*/" ++ decn (length (fr_file r)))]).
Proof. exact status_decision_proof. Qed.

(* A single range: non-empty, inside the file, Content-Range matches, body is the slice. *)
Theorem single_range_exact : forall (r : file_req) (s e : nat),
  decide r = Single s e ->
  s < e <= length (fr_file r) /\
  In (lit "content-range", content_range s e (length (fr_file r))) (w_headers (wsgi_file r)) /\
  (fr_head r = false -> expected_body r = slice (fr_file r) s e).
Proof. exact single_range_header_proof. Qed.

(* HEAD: same status and headers as GET, empty body. *)
Theorem head_same_headers_empty_body : forall r : file_req,
  w_status (wsgi_file (with_head true r)) = w_status (wsgi_file (with_head false r)) /\
  w_headers (wsgi_file (with_head true r)) = w_headers (wsgi_file (with_head false r)) /\
  expected_body (with_head true r) = [].
Proof. exact head_same_headers_proof. Qed.

(* ---------- one FileResponse object answers many requests (C02/Reuse.v) ----------
   [o] is the object (file, chunk size, validators, content type, disposition), [caller]
   the headers= argument of its constructor, [hist] the requests it answered before,
   oldest first, [q] the request (method, Range, If-Range, the boundary drawn for it, the
   zero-copy offer), [i] the interface.  [answer_after fixed …]: fixed = true is the code
   with 02f930e, fixed = false the code before it. *)

(* A fresh object created without headers= is the single-request model above, header
   order included — so the seven theorems above speak about the first answer of an
   object, before and after 02f930e. *)
Theorem reuse_fresh_is_single : forall (fixed : bool) (i : iface) (o : file_req) (q : req),
  answer_after fixed i o [] [] q =
  match i with
  | IWsgi => RW (wsgi_file (with_req o q))
  | IAsgi => RA (asgi_file (q_zc q) (with_req o q))
  end.
Proof. exact reuse_fresh_is_single_proof. Qed.

(* History independence.  Whatever the object answered before, its answer is the answer of
   a fresh object: the same status, the same chunks / messages after the start message in
   the same order (reply_strip blanks the header list only), and the same header list AS A
   MULTISET: a permutation — hence the same canonical (sorted) list, which is what the
   observation line of the correspondence check prints —, without a repeated name, the
   same value under every name.
   (As a list it is not: the mapping keeps insertion order, a Content-Range that was
   removed and written again moves to the end — Example ex_reuse_order in ReuseProofs.v.) *)
Theorem reuse_history_independent :
  forall (i : iface) (o : file_req) (caller : list header) (hist : list req) (q : req),
  let a := answer_after true i o caller hist q in
  let b := answer_after true i o caller [] q in
  reply_strip a = reply_strip b /\
  Permutation (reply_headers a) (reply_headers b) /\
  sort_headers (reply_headers a) = sort_headers (reply_headers b) /\
  NoDup (map fst (reply_headers a)) /\
  (forall k, hget k (reply_headers a) = hget k (reply_headers b)).
Proof. exact reuse_history_independent_proof. Qed.

(* Framing after any history: the status is the single-request model's; Content-Range is
   present exactly in a single-range 206 (with that range) and in 416 (as */size);
   Content-Type is multipart/byteranges with this request's boundary exactly for several
   ranges and the file's type for 200 / single range; Content-Length is the number of
   body bytes a server obtains. *)
Theorem reuse_framing_truthful :
  forall (i : iface) (o : file_req) (caller : list header) (hist : list req) (q : req),
  let r := with_req o q in
  let a := answer_after true i o caller hist q in
  reply_status a = Some (w_status (wsgi_file r)) /\
  (forall v, In (k_cr, v) (reply_headers a) ->
     (exists s e, decide r = Single s e /\ v = content_range s e (length (fr_file o))) \/
     (decide r = Reject416 /\ v = lit "*/" ++ decn (length (fr_file o)))) /\
  (forall s e, decide r = Single s e -> In (k_cr, content_range s e (length (fr_file o))) (reply_headers a)) /\
  (forall v, In (k_ct, v) (reply_headers a) ->
     (exists l, decide r = Several l /\ v = lit "multipart/byteranges; boundary=" ++ q_boundary q) \/
     ((decide r = Whole \/ exists s e, decide r = Single s e) /\ v = fr_ctype o)) /\
  (forall v, 1 <= fr_chunk o -> q_head q = false -> In (k_cl, v) (reply_headers a) ->
     v = decn (length (reply_body (fr_file o) a))).
Proof. exact reuse_framing_truthful_proof. Qed.

(* The code before 02f930e: after a single-range request (1-3 of a 6 byte file) the 200
   answer to a plain GET and the 206 multipart/byteranges answer carry
   "content-range: bytes 1-3/6", on both interfaces; the repaired code carries none. *)
Theorem reuse_orig_refuted :
  exists (o : file_req) (q1 q2 q3 : req),
    decide (with_req o q1) = Single 1 4 /\
    decide (with_req o q2) = Whole /\
    decide (with_req o q3) = Several [(0, 1); (2, 4)] /\
    forall i,
      (reply_status (answer_after false i o [] [q1] q2) = Some 200 /\
       In (k_cr, lit "bytes 1-3/6") (reply_headers (answer_after false i o [] [q1] q2))) /\
      (reply_status (answer_after false i o [] [q1] q3) = Some 206 /\
       In (k_ct, lit "multipart/byteranges; boundary=BB") (reply_headers (answer_after false i o [] [q1] q3)) /\
       In (k_cr, lit "bytes 1-3/6") (reply_headers (answer_after false i o [] [q1] q3))) /\
      (forall v, ~ In (k_cr, v) (reply_headers (answer_after true i o [] [q1] q2))) /\
      (forall v, ~ In (k_cr, v) (reply_headers (answer_after true i o [] [q1] q3))).
Proof. exact reuse_orig_refuted_proof. Qed.

(* … and not only there: before 02f930e, on every object and after every history, the
   answer following a single-range answer carried that request's Content-Range whenever it
   was a whole-file or several-ranges answer. *)
Theorem reuse_orig_stale :
  forall (i : iface) (o : file_req) (caller : list header) (hist : list req) (q1 q2 : req) (s e : nat),
  decide (with_req o q1) = Single s e ->
  (decide (with_req o q2) = Whole \/ exists l, decide (with_req o q2) = Several l) ->
  In (k_cr, content_range s e (length (fr_file o)))
     (reply_headers (answer_after false i o caller (hist ++ [q1]) q2)).
Proof. exact reuse_orig_stale_proof. Qed.

Print Assumptions wsgi_body_exact.
Print Assumptions asgi_body_exact.
Print Assumptions content_length_truthful.
Print Assumptions multipart_length_exact.
Print Assumptions status_decision.
Print Assumptions single_range_exact.
Print Assumptions head_same_headers_empty_body.
Print Assumptions reuse_fresh_is_single.
Print Assumptions reuse_history_independent.
Print Assumptions reuse_framing_truthful.
Print Assumptions reuse_orig_refuted.
Print Assumptions reuse_orig_stale.
