(* C02 — File responses deliver exactly the requested bytes with truthful framing.
   Statements only.  [r] ranges over every request: any file content, any Range /
   If-Range text, method, chunk size, validator strings, content type, boundary. *)
From Coq Require Import List NArith Arith.
From Baize Require Import Lib.Wire Lib.Order C03.Model C02.Model C02.Proofs.
Import ListNotations.

(* WSGI: the concatenation of the yielded chunks is exactly the expected body
   (whole file / the slice / the multipart parts / the 400 text / nothing). *)
Theorem wsgi_body_exact : forall r : file_req,
  1 <= fr_chunk r -> wsgi_body (wsgi_file r) = expected_body r.
Proof. exact wsgi_body_exact_proof. Qed.

(* ASGI, with and without zero-copy: same status and headers as WSGI, the bytes a
   server obtains from the messages are the expected body, the emulated sendfile
   loop terminates, and exactly the last message has more_body = false. *)
Theorem asgi_body_exact : forall (zc : bool) (r : file_req),
  1 <= fr_chunk r ->
  exists st hs,
    asgi_file zc r = Start st hs :: asgi_rest zc r /\
    st = w_status (wsgi_file r) /\ hs = w_headers (wsgi_file r) /\
    body_of (fr_file r) (asgi_rest zc r) = expected_body r /\
    shape_ok false (asgi_rest zc r).
Proof. exact asgi_body_exact_proof. Qed.

(* The declared Content-Length equals the number of body bytes sent, on all three. *)
Theorem content_length_truthful : forall (r : file_req) (v : bytes),
  1 <= fr_chunk r -> fr_head r = false ->
  In (lit "content-length", v) (w_headers (wsgi_file r)) ->
  v = decn (length (wsgi_body (wsgi_file r))) /\
  forall zc, v = decn (length (body_of (fr_file r) (asgi_rest zc r))).
Proof. exact content_length_truthful_proof. Qed.

(* generate_multipart's closed formula is the length of the multipart body. *)
Theorem multipart_length_exact : forall (r : file_req) (ranges : list (nat * nat)),
  Forall (fun x => fst x < snd x /\ snd x <= length (fr_file r)) ranges ->
  length (flat_map (part r) ranges ++ closing (fr_boundary r)) =
  multipart_length (fr_boundary r) (fr_ctype r) (length (fr_file r)) ranges.
Proof. exact multipart_length_exact_proof. Qed.

(* 200 iff no Range or If-Range differs from both validators; 206 for accepted
   ranges; 400 / 416 carry no file data, 416 carries Content-Range: */size. *)
Theorem status_decision : forall r : file_req,
  (decide r = Whole <->
     fr_range r = None \/
     exists v, fr_if_range r = Some v /\ bytes_eqb v (fr_etag r) = false /\ bytes_eqb v (fr_lastmod r) = false) /\
  (w_status (wsgi_file r) = 200 <-> decide r = Whole) /\
  (w_status (wsgi_file r) = 206 <-> (exists s e, decide r = Single s e) \/ (exists l, decide r = Several l)) /\
  (forall msg, decide r = Reject400 msg -> w_status (wsgi_file r) = 400 /\ w_headers (wsgi_file r) = [] /\
                                           expected_body r = if fr_head r then [] else msg) /\
  (decide r = Reject416 -> w_status (wsgi_file r) = 416 /\ expected_body r = [] /\
      w_headers (wsgi_file r) = [(lit "content-range", lit "*/" ++ decn (length (fr_file r)))]).
Proof. exact status_decision_proof. Qed.

(* A single range: non-empty, inside the file, Content-Range matches, body is the slice. *)
Theorem single_range_exact : forall (r : file_req) (s e : nat),
  decide r = Single s e ->
  s < e <= length (fr_file r) /\
  In (lit "content-range", content_range s e (length (fr_file r))) (w_headers (wsgi_file r)) /\
  (fr_head r = false -> expected_body r = slice (fr_file r) s e).
Proof. exact single_range_header_proof. Qed.

(* HEAD: same status and headers as GET, empty body. *)
Theorem head_same_headers_empty_body : forall r : file_req,
  w_status (wsgi_file (with_head true r)) = w_status (wsgi_file (with_head false r)) /\
  w_headers (wsgi_file (with_head true r)) = w_headers (wsgi_file (with_head false r)) /\
  expected_body (with_head true r) = [].
Proof. exact head_same_headers_proof. Qed.

Print Assumptions wsgi_body_exact.
Print Assumptions asgi_body_exact.
Print Assumptions content_length_truthful.
Print Assumptions multipart_length_exact.
Print Assumptions status_decision.
Print Assumptions single_range_exact.
Print Assumptions head_same_headers_empty_body.
