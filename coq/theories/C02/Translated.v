(* C02 — source-level tie for the pure helpers of FileResponseMixin (baize/responses.py).

   tools/py2coq_c02.py regenerates, function by function, Gallina definitions G.judge_if_range, G.generate_multipart and
   G.generate_common_headers
   from the CURRENT Python source on every check run (harness/c02.py: extra_obligations).  For each function the part of
   this file that is about it is re-checked by coqc against the fresh definition: the text before the first METHOD-BEGIN
   marker (the two lines between the GENERATED markers re-pointed at the fresh file) and its own segment.
   Generated_ref.v is the committed copy of what the translator emitted when this file was written.

   What is an argument of the generated code (nothing is claimed about it, the theorems hold for every instance):
     Stat                 the type of the os.stat_result parameter
     generate_etag        cls.generate_etag(stat_result): the hexadecimal sha1 text
     formatdate_usegmt    email.utils.formatdate(t, usegmt=True)
     int_st_mtime         int(stat_result.st_mtime)
   The model (C02/Model.v) has the two validator texts as inputs fr_etag (the quoted ETag) and fr_lastmod; the theorem
   about judge_if_range holds for every request record whose two fields are what the Python builds from the arguments.

   What is a library function (C02/PyLib.v, compared with the interpreter by evaluation on every run):
     PyLib.str_int (str(int), an int field of an f-string), PyLib.sum, PyLib.encode_latin1; PyStr.len, PyStr.str_eqb.

   The proofs do not depend on the names of the Python's local variables, on the order of independent assignments, on
   the order of the operands of + in the length, on the order of the operands of `or` / `==`. *)
From Coq Require Import List NArith ZArith Bool Arith Lia.
From Baize Require Import Lib.Wire Lib.Order Lib.PyStr Lib.PyStrFacts.
From Baize Require C02.PyLib.
From Baize Require C02.Model.
(* GENERATED-BEGIN *)
From Baize Require C02.Generated_ref.
Module G := Baize.C02.Generated_ref.
(* GENERATED-END *)
Module M := Baize.C02.Model.
Module PyLib := Baize.C02.PyLib.
Import ListNotations.

Lemma str_eqb_bytes_eqb : forall a b, PyStr.str_eqb a b = bytes_eqb a b.
Proof.
  intros a b. destruct (bytes_eqb a b) eqn:E.
  - apply bytes_eqb_eq in E. apply PyStrFacts.str_eqb_eq. exact E.
  - destruct (PyStr.str_eqb a b) eqn:F; [|reflexivity].
    apply PyStrFacts.str_eqb_eq in F. apply bytes_eqb_eq in F. rewrite F in E. discriminate E.
Qed.

Lemma bytes_eqb_sym : forall a b, bytes_eqb a b = bytes_eqb b a.
Proof.
  intros a b. destruct (bytes_eqb a b) eqn:E.
  - apply bytes_eqb_eq in E. symmetry. apply bytes_eqb_eq. symmetry. exact E.
  - destruct (bytes_eqb b a) eqn:F; [|reflexivity].
    apply bytes_eqb_eq in F. symmetry in F. apply bytes_eqb_eq in F. rewrite F in E. discriminate E.
Qed.

(* str(z) is the model's decimal spelling whenever z is (in whatever way it is written) the nat n *)
Lemma str_int_decn : forall (z : Z) (n : nat), z = Z.of_nat n -> PyLib.str_int z = M.decn n.
Proof. intros z n Hz. unfold M.decn. apply PyLib.str_int_of_nat. exact Hz. Qed.

(* every str(..) in the goal is one of the three numbers the model spells *)
Ltac spell s e size :=
  repeat match goal with
  | |- context [PyLib.str_int ?z] =>
      first [ rewrite (str_int_decn z s) by lia
            | rewrite (str_int_decn z (e - 1)%nat) by lia
            | rewrite (str_int_decn z size) by lia ]
  end.

(* METHOD-BEGIN judge_if_range *)
(* If-Range is honoured iff it is the quoted ETag or the Last-Modified text: for every stat type, every etag / formatdate /
   int(st_mtime) function, every header value and every request record that carries the two validators the Python builds *)
Theorem judge_if_range_translated :
  forall (Stat : Type) (generate_etag : Stat -> list N) (formatdate_usegmt : Z -> list N) (int_st_mtime : Stat -> Z)
         (v : list N) (st : Stat) (r : M.file_req),
    M.fr_etag r = [34%N] ++ generate_etag st ++ [34%N] ->
    M.fr_lastmod r = formatdate_usegmt (int_st_mtime st) ->
    G.judge_if_range generate_etag formatdate_usegmt int_st_mtime v st = M.judge_if_range r v.
Proof.
  intros Stat ge fd im v st r Hetag Hlast.
  unfold G.judge_if_range, M.judge_if_range.
  repeat rewrite <- app_assoc.
  rewrite <- Hlast.
  cbn [app] in Hetag |- *.
  rewrite <- Hetag.
  repeat match goal with |- context [PyStr.str_eqb ?x ?y] => rewrite (str_eqb_bytes_eqb x y) end.
  rewrite ?(bytes_eqb_sym (M.fr_etag r) v), ?(bytes_eqb_sym (M.fr_lastmod r) v).
  destruct (bytes_eqb v (M.fr_etag r)); destruct (bytes_eqb v (M.fr_lastmod r)); reflexivity.
Qed.
Print Assumptions judge_if_range_translated.
(* METHOD-END judge_if_range *)

(* METHOD-BEGIN generate_multipart *)
Definition zrange (x : nat * nat) : Z * Z := (Z.of_nat (fst x), Z.of_nat (snd x)).

(* what parse_range guarantees of every range it returns (start < end) is more than is needed: *)
Definition range_ok (x : nat * nat) : Prop := (fst x <= snd x)%nat /\ (1 <= snd x)%nat.

(* the content length of a multipart/byteranges body: the first component of what generate_multipart returns is the model's
   closed formula, for every boundary and content-type text, every size and every list of ranges with start <= end, 1 <= end.
   (Outside that the Python and the model part: for end = 0 the Python spells end - 1 as "-1", two characters; for
   end < start it adds the negative end - start.  parse_range never returns such a range.) *)
Theorem multipart_length_translated :
  forall (b ct : list N) (size : nat) (ranges : list (nat * nat)),
    Forall range_ok ranges ->
    fst (G.generate_multipart (map zrange ranges) b (Z.of_nat size) ct) = Z.of_nat (M.multipart_length b ct size ranges).
Proof.
  intros b ct size ranges Hok.
  unfold G.generate_multipart. cbv zeta. cbn [fst].
  unfold M.multipart_length, PyStr.len.
  induction Hok as [|x ranges Hx Hok IH].
  - cbn [map fold_right]. rewrite ?PyLib.sum_nil. spell 0%nat 1%nat size. lia.
  - destruct x as [s e]. unfold range_ok in Hx. cbn [fst snd] in Hx. destruct Hx as [Hse He].
    cbn [map fold_right zrange fst snd]. rewrite PyLib.sum_cons.
    spell s e size.
    revert IH. spell s e size. intros IH.
    lia.
Qed.
Print Assumptions multipart_length_translated.

(* the per-part header: the function that generate_multipart returns as second component gives, for a part start..end with
   1 <= end, the Latin-1 encoding of the model's part header (UnicodeEncodeError, here None, exactly when the boundary or
   the content type has a code point above 255) *)
Theorem multipart_part_header_translated :
  forall (b ct : list N) (size : nat) (zranges : list (Z * Z)) (s e : nat),
    (1 <= e)%nat ->
    snd (G.generate_multipart zranges b (Z.of_nat size) ct) (Z.of_nat s) (Z.of_nat e)
    = PyLib.encode_latin1 (M.part_header b ct s e size).
Proof.
  intros b ct size zranges s e He.
  unfold G.generate_multipart. cbv zeta. cbn [snd].
  spell s e size.
  unfold M.part_header, M.content_range.
  repeat rewrite <- app_assoc.
  reflexivity.
Qed.
Print Assumptions multipart_part_header_translated.

(* for Latin-1 boundary and content type the bytes sent are the model's part header *)
Lemma dec_latin1 : forall n, Forall (fun c => (c < 256)%N) (dec n).
Proof.
  intros n. unfold dec. generalize (N.to_uint n). intros u.
  induction u; cbn [uint_digits]; constructor; try assumption; reflexivity.
Qed.

Theorem multipart_part_header_latin1 :
  forall (b ct : list N) (size : nat) (zranges : list (Z * Z)) (s e : nat),
    (1 <= e)%nat -> Forall (fun c => (c < 256)%N) b -> Forall (fun c => (c < 256)%N) ct ->
    snd (G.generate_multipart zranges b (Z.of_nat size) ct) (Z.of_nat s) (Z.of_nat e) = Some (M.part_header b ct s e size).
Proof.
  intros b ct size zranges s e He Hb Hct.
  rewrite multipart_part_header_translated by exact He.
  apply PyLib.encode_latin1_some.
  unfold M.part_header, M.content_range, M.decn.
  repeat (apply Forall_app; split); try assumption; try apply dec_latin1;
    repeat (constructor; try reflexivity).
Qed.
Print Assumptions multipart_part_header_latin1.
(* METHOD-END generate_multipart *)

(* METHOD-BEGIN generate_common_headers *)
(* The model has the content-disposition value as an input (fr_disp: harness/c02.py computes it).  What the Python computes
   it to be, written out: a disposition is sent when a download name is given (a non-empty text) or the content type is
   application/octet-stream; the name is the download name, else the base name of the path; a Latin-1 name is given in both
   forms, any other name only in the RFC 5987 form.  quote (urllib.parse.quote) and basename (os.path.basename) are
   arguments. *)
Definition disposition (basename quote : list N -> list N) (filepath ct : list N) (dn : option (list N)) : option (list N) :=
  let given := match dn with Some s => negb (PyStr.is_empty s) | None => false end in
  if given || bytes_eqb ct (lit "application/octet-stream") then
    let name := if given then match dn with Some s => s | None => [] end else basename filepath in
    Some (if forallb (fun c => N.ltb c 256) name
          then lit "attachment; filename=""" ++ name ++ lit """; filename*=utf-8''" ++ quote name
          else lit "attachment; filename*=utf-8''" ++ quote name)
  else None.

(* the headers dict, in insertion order, is the model's common_headers for every request record that carries the two
   validators and the disposition the Python builds: accept-ranges, last-modified, etag, then content-disposition if any *)
Theorem generate_common_headers_translated :
  forall (Stat : Type) (generate_etag : Stat -> list N) (formatdate_usegmt : Z -> list N) (int_st_mtime : Stat -> Z)
         (basename quote : list N -> list N) (filepath ct : list N) (dn : option (list N)) (st : Stat) (r : M.file_req),
    M.fr_etag r = [34%N] ++ generate_etag st ++ [34%N] ->
    M.fr_lastmod r = formatdate_usegmt (int_st_mtime st) ->
    M.fr_disp r = disposition basename quote filepath ct dn ->
    G.generate_common_headers generate_etag formatdate_usegmt int_st_mtime basename quote filepath ct dn st
    = M.common_headers r.
Proof.
  intros Stat ge fd im basename quote filepath ct dn st r Hetag Hlast Hdisp.
  unfold G.generate_common_headers, M.common_headers. cbv zeta.
  rewrite Hdisp, Hetag, Hlast. unfold disposition, PyLib.encode_latin1. cbv zeta.
  repeat match goal with |- context [PyStr.str_eqb ?x ?y] => rewrite (str_eqb_bytes_eqb x y) end.
  change [97; 112; 112; 108; 105; 99; 97; 116; 105; 111; 110; 47; 111; 99; 116; 101; 116; 45; 115; 116; 114; 101; 97; 109]%N
    with (lit "application/octet-stream").
  rewrite ?(bytes_eqb_sym (lit "application/octet-stream") ct).
  destruct dn as [s|]; [destruct (PyStr.is_empty s)|]; cbn [negb orb andb];
    destruct (bytes_eqb ct (lit "application/octet-stream")); cbn [negb orb andb];
    try reflexivity;
    match goal with |- context [forallb ?p ?n] => destruct (forallb p n) end;
    cbn [negb orb andb]; repeat rewrite <- app_assoc; reflexivity.
Qed.
Print Assumptions generate_common_headers_translated.
(* METHOD-END generate_common_headers *)
