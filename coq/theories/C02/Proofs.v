(* C02 — proofs about the file-response model. *)
From Coq Require Import List NArith ZArith Bool Arith Lia.
From Baize Require Import Lib.Wire Lib.Order C03.Model C03.Proofs C02.Model.
Import ListNotations.

(* ---------- list slicing ---------- *)

Lemma firstn_plus {A} (a b : nat) (l : list A) :
  firstn (a + b) l = firstn a l ++ firstn b (skipn a l).
Proof.
  revert l. induction a as [|a IH]; intros l; cbn [Nat.add firstn skipn app]; [reflexivity|].
  destruct l as [|x l]; cbn [firstn skipn app].
  - rewrite firstn_nil. reflexivity.
  - f_equal. apply IH.
Qed.

Lemma skipn_skipn {A} (x y : nat) (l : list A) : skipn x (skipn y l) = skipn (x + y) l.
Proof.
  revert l. induction y as [|y IH]; intros l.
  - rewrite Nat.add_0_r. reflexivity.
  - rewrite Nat.add_succ_r. destruct l as [|a l]; [rewrite !skipn_nil; reflexivity|].
    cbn [skipn]. apply IH.
Qed.

Lemma read_length f pos n : pos + n <= length f -> length (read f pos n) = n.
Proof. intros H. unfold read. rewrite firstn_length, skipn_length. lia. Qed.

Lemma read_length_min f pos n : length (read f pos n) = Nat.min n (length f - pos).
Proof. unfold read. rewrite firstn_length, skipn_length. reflexivity. Qed.

Lemma read_plus f pos a b : read f pos (a + b) = read f pos a ++ read f (pos + a) b.
Proof. unfold read. rewrite firstn_plus, skipn_skipn. f_equal. f_equal. f_equal. lia. Qed.

Lemma slice_read f s e : slice f s e = read f s (e - s).
Proof. reflexivity. Qed.

(* ---------- the WSGI loops ---------- *)

Lemma range_chunks_concat f e cs :
  1 <= cs -> e <= length f ->
  forall fuel pos here,
    pos <= e -> (here < e -> pos = here) -> (e <= here -> pos = e) -> e - pos < fuel ->
    concat (range_chunks fuel f pos here e cs) = read f pos (e - pos).
Proof.
  intros Hcs He. induction fuel as [|k IH]; intros pos here Hp H1 H2 Hf; [lia|].
  cbn [range_chunks]. destruct (here <? e) eqn:E.
  - apply Nat.ltb_lt in E. specialize (H1 E). subst pos.
    set (n := Nat.min cs (e - here)).
    assert (Hn : 1 <= n <= e - here) by (unfold n; lia).
    assert (Hl : length (read f here n) = n) by (apply read_length; lia).
    cbn zeta. cbn [concat]. fold n. rewrite Hl.
    rewrite IH; try (unfold n in *; lia).
    replace (e - here) with (n + (e - (here + n))) by lia. rewrite read_plus. reflexivity.
  - apply Nat.ltb_ge in E. specialize (H2 E). subst pos. rewrite Nat.sub_diag. reflexivity.
Qed.

Lemma whole_chunks_concat f cs :
  1 <= cs ->
  forall fuel pos here,
    pos <= length f -> (here < length f -> pos = here) -> (length f <= here -> pos = length f) ->
    length f - pos < fuel ->
    concat (whole_chunks fuel f pos here (length f) cs) = skipn pos f.
Proof.
  intros Hcs. induction fuel as [|k IH]; intros pos here Hp H1 H2 Hf; [lia|].
  cbn [whole_chunks]. destruct (here <? length f) eqn:E.
  - apply Nat.ltb_lt in E. specialize (H1 E). subst pos.
    cbn [concat]. rewrite read_length_min.
    rewrite IH; try lia.
    + unfold read. destruct (Nat.le_gt_cases cs (length f - here)) as [Hle|Hgt].
      * rewrite Nat.min_l by exact Hle.
        replace (here + cs) with (cs + here) by lia. rewrite <- skipn_skipn. apply firstn_skipn.
      * rewrite Nat.min_r by lia.
        replace (here + (length f - here)) with (length f) by lia.
        rewrite skipn_all, app_nil_r. apply firstn_all2. rewrite skipn_length. lia.
  - apply Nat.ltb_ge in E. specialize (H2 E). subst pos. rewrite skipn_all. reflexivity.
Qed.

(* ---------- the ASGI loops ---------- *)

Definition more_flag (e : event) : option bool :=
  match e with Body _ m => Some m | ZeroCopy _ _ m => Some m | _ => None end.

(* every event carries more_body = true except the last, which carries [more] *)
Fixpoint shape_ok (more : bool) (evs : list event) : Prop :=
  match evs with
  | [] => False
  | [e] => more_flag e = Some more
  | e :: r => more_flag e = Some true /\ shape_ok more r
  end.

Lemma shape_ok_cons more e r : r <> [] -> (shape_ok more (e :: r) <-> more_flag e = Some true /\ shape_ok more r).
Proof. destruct r; [congruence|]. intros _. reflexivity. Qed.

Lemma shape_ok_nonempty more evs : shape_ok more evs -> evs <> [].
Proof. destruct evs; [intros []|discriminate]. Qed.

Lemma shape_ok_app evs1 : forall more evs2,
  shape_ok true evs1 -> shape_ok more evs2 -> shape_ok more (evs1 ++ evs2).
Proof.
  induction evs1 as [|e r IH]; intros more evs2 H1 H2; [destruct H1|].
  destruct r as [|e' r'].
  - cbn [app]. apply shape_ok_cons; [apply (shape_ok_nonempty _ _ H2)|]. split; [exact H1|exact H2].
  - destruct H1 as [Ha Hb]. change ((e :: e' :: r') ++ evs2) with (e :: ((e' :: r') ++ evs2)).
    apply shape_ok_cons; [discriminate|]. split; [exact Ha|]. apply IH; assumption.
Qed.

Lemma body_of_app f a b : body_of f (a ++ b) = body_of f a ++ body_of f b.
Proof. unfold body_of. apply flat_map_app. Qed.

Lemma fake_all_spec f cs more :
  1 <= cs ->
  forall fuel pos, length f - pos < fuel ->
    body_of f (fake_all fuel f pos cs more) = skipn pos f /\
    shape_ok more (fake_all fuel f pos cs more).
Proof.
  intros Hcs. induction fuel as [|k IH]; intros pos Hf; [lia|].
  cbn [fake_all]. destruct (length (read f pos cs) =? cs) eqn:E.
  - apply Nat.eqb_eq in E. rewrite read_length_min in E.
    assert (Hle : cs <= length f - pos) by lia.
    destruct (IH (pos + cs)) as [A B]; [lia|]. split.
    + unfold body_of in *. cbn [flat_map event_bytes]. rewrite A. unfold read.
      replace (pos + cs) with (cs + pos) by lia. rewrite <- skipn_skipn. apply firstn_skipn.
    + apply shape_ok_cons; [apply (shape_ok_nonempty _ _ B)|]. split; [reflexivity|exact B].
  - apply Nat.eqb_neq in E. rewrite read_length_min in E. split.
    + unfold body_of. cbn [flat_map event_bytes]. rewrite app_nil_r. unfold read.
      apply firstn_all2. rewrite skipn_length. lia.
    + reflexivity.
Qed.

Lemma fake_count_spec f cs count more :
  1 <= cs ->
  forall fuel pos here,
    here <= count -> pos + (count - here) <= length f -> count - here < fuel ->
    body_of f (fake_count fuel f pos here count cs more) = read f pos (count - here) /\
    shape_ok more (fake_count fuel f pos here count cs more).
Proof.
  intros Hcs. induction fuel as [|k IH]; intros pos here Hh Hp Hf; [lia|].
  cbn [fake_count]. cbn zeta.
  set (len := Nat.min cs (count - here)).
  assert (Hl : length (read f pos len) = len) by (apply read_length; unfold len; lia).
  destruct (len =? count - here) eqn:E.
  - apply Nat.eqb_eq in E. split.
    + unfold body_of. cbn [flat_map event_bytes]. rewrite app_nil_r, E. reflexivity.
    + reflexivity.
  - apply Nat.eqb_neq in E. assert (Hlen : len = cs /\ cs < count - here) by (unfold len in *; lia).
    destruct Hlen as [Hlen Hlt]. rewrite Hl.
    destruct (IH (pos + len) (here + len)) as [A B]; try lia.
    split.
    + unfold body_of in *. cbn [flat_map event_bytes]. rewrite A.
      replace (read f pos (count - here)) with (read f pos (len + (count - (here + len))))
        by (f_equal; lia).
      rewrite read_plus. reflexivity.
    + apply shape_ok_cons; [apply (shape_ok_nonempty _ _ B)|]. split; [reflexivity|exact B].
Qed.

Lemma sendfile_spec zc r off cnt more :
  1 <= fr_chunk r ->
  (match cnt with
   | Some c => match off with Some o => o | None => 0 end + c <= length (fr_file r)
   | None => True end) ->
  body_of (fr_file r) (sendfile zc r off cnt more) =
    (let o := match off with Some o => o | None => 0 end in
     match cnt with Some c => read (fr_file r) o c | None => skipn o (fr_file r) end) /\
  shape_ok more (sendfile zc r off cnt more).
Proof.
  intros Hcs Hb. unfold sendfile. destruct zc.
  - split; [|reflexivity]. unfold body_of. cbn [flat_map event_bytes]. apply app_nil_r.
  - destruct cnt as [c|].
    + destruct (fake_count_spec (fr_file r) (fr_chunk r) c more Hcs (S c)
                  (match off with Some o => o | None => 0 end) 0) as [A B]; try lia.
      rewrite Nat.sub_0_r in A. split; assumption.
    + apply fake_all_spec; [exact Hcs|lia].
Qed.

(* ---------- what the decision hands to the body generators ---------- *)

Definition valid_nat (size : nat) (x : nat * nat) : Prop := fst x < snd x /\ snd x <= size.

Lemma to_nat_range_valid size x :
  valid (Z.of_nat size) x -> valid_nat size (to_nat_range x).
Proof.
  intros (A & B & C). unfold valid_nat, to_nat_range. cbn [fst snd]. lia.
Qed.

Lemma decide_cases r :
  match decide r with
  | Single s e => s < e /\ e <= length (fr_file r)
  | Several ranges => Forall (valid_nat (length (fr_file r))) ranges
  | _ => True
  end.
Proof.
  unfold decide. destruct (fr_range r) as [h|]; [|exact I].
  destruct (negb _); [exact I|].
  destruct (parse_range h (Z.of_nat (length (fr_file r)))) as [l| |] eqn:E; try exact I.
  apply range_canonical_proof in E as (_ & Hv & _).
  destruct l as [|x [|y l']].
  - apply Forall_nil.
  - inversion Hv; subst. apply (to_nat_range_valid (length (fr_file r)) x). assumption.
  - apply Forall_forall. intros q Hq. apply in_map_iff in Hq as (z & <- & Hz).
    apply to_nat_range_valid. rewrite Forall_forall in Hv. apply Hv. exact Hz.
Qed.

(* ---------- the expected body ---------- *)

Definition part (r : file_req) (x : nat * nat) : bytes :=
  part_header (fr_boundary r) (fr_ctype r) (fst x) (snd x) (length (fr_file r))
  ++ slice (fr_file r) (fst x) (snd x) ++ [10%N].

Definition expected_body (r : file_req) : bytes :=
  if fr_head r then []
  else match decide r with
       | Whole => fr_file r
       | Single s e => slice (fr_file r) s e
       | Several ranges => flat_map (part r) ranges ++ closing (fr_boundary r)
       | Reject400 msg => msg
       | Reject416 => []
       end.

Lemma wsgi_several_concat r ranges :
  1 <= fr_chunk r -> Forall (valid_nat (length (fr_file r))) ranges ->
  concat (wsgi_several_chunks r (length (fr_file r)) ranges) =
  flat_map (part r) ranges ++ closing (fr_boundary r).
Proof.
  intros Hcs Hv. unfold wsgi_several_chunks. rewrite concat_app. cbn [concat]. rewrite app_nil_r. f_equal.
  induction ranges as [|x rs IH]; [reflexivity|].
  inversion Hv as [|? ? [Hx1 Hx2] Hr]; subst.
  cbn [flat_map]. rewrite concat_app, IH by exact Hr. f_equal.
  cbn [concat]. rewrite concat_app. cbn [concat]. rewrite app_nil_r.
  unfold part. f_equal. f_equal.
  rewrite (range_chunks_concat (fr_file r) (snd x) (fr_chunk r) Hcs Hx2); try lia.
  reflexivity.
Qed.

Theorem wsgi_body_exact_proof r :
  1 <= fr_chunk r -> wsgi_body (wsgi_file r) = expected_body r.
Proof.
  intros Hcs. unfold wsgi_body, wsgi_file, expected_body.
  pose proof (decide_cases r) as Hd.
  destruct (decide r) as [|s e|ranges|msg|]; cbn [w_chunks]; destruct (fr_head r); try reflexivity.
  - rewrite (whole_chunks_concat (fr_file r) (fr_chunk r) Hcs); try lia. reflexivity.
  - destruct Hd as [Hd1 Hd2].
    rewrite (range_chunks_concat (fr_file r) e (fr_chunk r) Hcs Hd2); try lia. reflexivity.
  - apply wsgi_several_concat; assumption.
  - cbn [concat]. apply app_nil_r.
Qed.

Definition asgi_rest (zc : bool) (r : file_req) : list event := tl (asgi_file zc r).

Lemma asgi_several_spec zc r ranges :
  1 <= fr_chunk r -> Forall (valid_nat (length (fr_file r))) ranges ->
  let evs := flat_map (fun x =>
                 Body (part_header (fr_boundary r) (fr_ctype r) (fst x) (snd x) (length (fr_file r))) true
                 :: sendfile zc r (Some (fst x)) (Some (snd x - fst x)) true
                 ++ [Body [10%N] true]) ranges in
  body_of (fr_file r) evs = flat_map (part r) ranges /\
  (ranges <> [] -> shape_ok true evs).
Proof.
  intros Hcs Hv. cbn zeta. induction ranges as [|x rs IH]; [split; [reflexivity|congruence]|].
  inversion Hv as [|? ? [Hx1 Hx2] Hr]; subst. destruct (IH Hr) as [A B].
  destruct (sendfile_spec zc r (Some (fst x)) (Some (snd x - fst x)) true Hcs) as [C D]; [cbn; lia|].
  cbn zeta in C.
  cbn [flat_map]. split.
  - rewrite body_of_app, A. f_equal.
    change (Body ?h true :: ?s ++ ?t) with ([Body h true] ++ s ++ t).
    rewrite !body_of_app, C. unfold part, body_of. cbn [flat_map event_bytes]. rewrite !app_nil_r. reflexivity.
  - intros _.
    assert (Hone : shape_ok true (Body (part_header (fr_boundary r) (fr_ctype r) (fst x) (snd x) (length (fr_file r))) true
                                  :: sendfile zc r (Some (fst x)) (Some (snd x - fst x)) true ++ [Body [10%N] true])).
    { apply shape_ok_cons.
      - intros Hx. apply app_eq_nil in Hx as [_ Hx]. discriminate.
      - split; [reflexivity|]. apply shape_ok_app; [exact D|reflexivity]. }
    destruct rs as [|y rs'].
    + cbn [flat_map]. rewrite app_nil_r. exact Hone.
    + apply shape_ok_app; [exact Hone|]. apply B. discriminate.
Qed.

Theorem asgi_body_exact_proof zc r :
  1 <= fr_chunk r ->
  exists st hs,
    asgi_file zc r = Start st hs :: asgi_rest zc r /\
    st = w_status (wsgi_file r) /\ hs = w_headers (wsgi_file r) /\
    body_of (fr_file r) (asgi_rest zc r) = expected_body r /\
    shape_ok false (asgi_rest zc r).
Proof.
  intros Hcs. unfold asgi_rest, asgi_file, wsgi_file, expected_body.
  pose proof (decide_cases r) as Hd.
  destruct (decide r) as [|s e|ranges|msg|]; cbn [tl w_status w_headers];
    eexists; eexists; (split; [reflexivity|]); (split; [reflexivity|]); (split; [reflexivity|]).
  - destruct (fr_head r); [split; reflexivity|].
    destruct (sendfile_spec zc r None None false Hcs I) as [A B]. split; assumption.
  - destruct (fr_head r); [split; reflexivity|]. destruct Hd as [Hd1 Hd2].
    destruct (sendfile_spec zc r (Some s) (Some (e - s)) false Hcs) as [A B]; [cbn; lia|].
    split; assumption.
  - destruct (fr_head r); [split; reflexivity|].
    destruct (asgi_several_spec zc r ranges Hcs Hd) as [A B]. cbn zeta in A, B. split.
    + rewrite body_of_app, A. unfold body_of. cbn [flat_map event_bytes]. rewrite app_nil_r. reflexivity.
    + destruct ranges as [|x rs]; [reflexivity|].
      apply shape_ok_app; [apply B; discriminate|reflexivity].
  - split; [|reflexivity]. unfold body_of. cbn [flat_map event_bytes]. apply app_nil_r.
  - destruct (fr_head r); split; reflexivity.
Qed.

(* ---------- the declared length ---------- *)

Lemma part_header_length b ct s e size :
  length (part_header b ct s e size) =
  43 + length b + length ct + length (decn s) + length (decn (e - 1)) + length (decn size).
Proof.
  unfold part_header, content_range. rewrite !app_length.
  change (length (lit "--")) with 2. change (length (lit "Content-Type: ")) with 14.
  change (length (lit "Content-Range: ")) with 15. change (length (lit "bytes ")) with 6.
  cbn [length]. lia.
Qed.

Lemma multipart_length_exact_proof r ranges :
  Forall (valid_nat (length (fr_file r))) ranges ->
  length (flat_map (part r) ranges ++ closing (fr_boundary r)) =
  multipart_length (fr_boundary r) (fr_ctype r) (length (fr_file r)) ranges.
Proof.
  intros Hv. rewrite app_length.
  assert (Hc : length (closing (fr_boundary r)) = 5 + length (fr_boundary r)).
  { unfold closing. rewrite !app_length. change (length (lit "--")) with 2. cbn [length]. lia. }
  rewrite Hc. clear Hc.
  induction ranges as [|x rs IH]; [reflexivity|].
  inversion Hv as [|? ? [Hx1 Hx2] Hr]; subst.
  cbn [flat_map multipart_length fold_right]. rewrite app_length.
  unfold multipart_length in IH. specialize (IH Hr).
  unfold part at 1. rewrite !app_length, part_header_length, slice_read, read_length by lia.
  cbn [length]. lia.
Qed.

Definition declared_length (r : file_req) : option nat :=
  match decide r with
  | Whole => Some (length (fr_file r))
  | Single s e => Some (e - s)
  | Several ranges => Some (multipart_length (fr_boundary r) (fr_ctype r) (length (fr_file r)) ranges)
  | _ => None
  end.

(* the only content-length header the response carries is the declared one *)
Lemma content_length_header r v :
  In (lit "content-length", v) (w_headers (wsgi_file r)) ->
  exists n, declared_length r = Some n /\ v = decn n.
Proof.
  unfold wsgi_file, declared_length.
  assert (Hcommon : ~ In (lit "content-length", v) (common_headers r)).
  { unfold common_headers. intros H. apply in_app_or in H as [H|H].
    - cbn [In] in H. destruct H as [H|[H|[H|[]]]]; apply (f_equal fst) in H; vm_compute in H; discriminate H.
    - destruct (fr_disp r); cbn [In] in H; [|contradiction].
      destruct H as [H|[]]. apply (f_equal fst) in H; vm_compute in H; discriminate H. }
  destruct (decide r) as [|s e|ranges|msg|]; cbn [w_headers]; intros H.
  - apply in_app_or in H as [H|H]; [contradiction|]. cbn [In] in H.
    destruct H as [H|[H|[]]].
    + apply (f_equal fst) in H; vm_compute in H; discriminate H.
    + injection H as <-. eexists; split; reflexivity.
  - apply in_app_or in H as [H|H]; [contradiction|]. cbn [In] in H.
    destruct H as [H|[H|[H|[]]]].
    + apply (f_equal fst) in H; vm_compute in H; discriminate H.
    + apply (f_equal fst) in H; vm_compute in H; discriminate H.
    + injection H as <-. eexists; split; reflexivity.
  - apply in_app_or in H as [H|H]; [contradiction|]. cbn [In] in H.
    destruct H as [H|[H|[]]].
    + apply (f_equal fst) in H; vm_compute in H; discriminate H.
    + injection H as <-. eexists; split; reflexivity.
  - destruct H.
  - cbn [In] in H. destruct H as [H|[]]. apply (f_equal fst) in H; vm_compute in H; discriminate H.
Qed.

Lemma declared_length_true r n :
  fr_head r = false -> declared_length r = Some n -> length (expected_body r) = n.
Proof.
  intros Hh. unfold declared_length, expected_body. rewrite Hh.
  pose proof (decide_cases r) as Hd.
  destruct (decide r) as [|s e|ranges|msg|]; intros H; try discriminate; injection H as <-.
  - reflexivity.
  - destruct Hd. rewrite slice_read, read_length by lia. reflexivity.
  - apply multipart_length_exact_proof. exact Hd.
Qed.

Theorem content_length_truthful_proof r v :
  1 <= fr_chunk r -> fr_head r = false ->
  In (lit "content-length", v) (w_headers (wsgi_file r)) ->
  v = decn (length (wsgi_body (wsgi_file r))) /\
  forall zc, v = decn (length (body_of (fr_file r) (asgi_rest zc r))).
Proof.
  intros Hcs Hh Hin. apply content_length_header in Hin as (n & Hn & ->).
  pose proof (declared_length_true r n Hh Hn) as Hl.
  split.
  - rewrite wsgi_body_exact_proof by exact Hcs. rewrite Hl. reflexivity.
  - intros zc. destruct (asgi_body_exact_proof zc r Hcs) as (st & hs & _ & _ & _ & Hb & _).
    rewrite Hb, Hl. reflexivity.
Qed.

(* ---------- HEAD ---------- *)

Definition with_head (b : bool) (r : file_req) : file_req :=
  {| fr_head := b; fr_range := fr_range r; fr_if_range := fr_if_range r; fr_file := fr_file r;
     fr_chunk := fr_chunk r; fr_etag := fr_etag r; fr_lastmod := fr_lastmod r; fr_ctype := fr_ctype r;
     fr_disp := fr_disp r; fr_boundary := fr_boundary r |}.

Lemma decide_with_head b r : decide (with_head b r) = decide r.
Proof. reflexivity. Qed.

Theorem head_same_headers_proof r :
  w_status (wsgi_file (with_head true r)) = w_status (wsgi_file (with_head false r)) /\
  w_headers (wsgi_file (with_head true r)) = w_headers (wsgi_file (with_head false r)) /\
  expected_body (with_head true r) = [].
Proof.
  unfold wsgi_file, expected_body. rewrite !decide_with_head. cbn [fr_head with_head].
  destruct (decide r); repeat split; reflexivity.
Qed.

(* ---------- the decision ---------- *)

Theorem status_decision_proof r :
  (decide r = Whole <->
     fr_range r = None \/
     exists v, fr_if_range r = Some v /\ bytes_eqb v (fr_etag r) = false /\ bytes_eqb v (fr_lastmod r) = false) /\
  (w_status (wsgi_file r) = 200 <-> decide r = Whole) /\
  (w_status (wsgi_file r) = 206 <-> (exists s e, decide r = Single s e) \/ (exists l, decide r = Several l)) /\
  (forall msg, decide r = Reject400 msg -> w_status (wsgi_file r) = 400 /\ w_headers (wsgi_file r) = [] /\
                                           expected_body r = if fr_head r then [] else msg) /\
  (decide r = Reject416 -> w_status (wsgi_file r) = 416 /\ expected_body r = [] /\
      w_headers (wsgi_file r) = [(lit "content-range", lit "*/" ++ decn (length (fr_file r)))]).
Proof.
  split; [|split; [|split; [|split]]].
  - unfold decide, judge_if_range. destruct (fr_range r) as [h|].
    + destruct (fr_if_range r) as [v|].
      * destruct (bytes_eqb v (fr_etag r)) eqn:E1; destruct (bytes_eqb v (fr_lastmod r)) eqn:E2; cbn [orb negb].
        1-3: (split; [|intros [H|(v' & Hv & H1 & H2)]; [discriminate|injection Hv as <-; congruence]];
              destruct (parse_range h _) as [[|x [|y l]]| |]; discriminate).
        split; [intros _; right; exists v; repeat split; assumption|reflexivity].
      * cbn [negb]. split; [|intros [H|(v' & Hv & _)]; discriminate].
        destruct (parse_range h _) as [[|x [|y l]]| |]; discriminate.
    + split; [intros _; left; reflexivity|reflexivity].
  - unfold wsgi_file. destruct (decide r); cbn [w_status]; split; intros H; try reflexivity; discriminate.
  - unfold wsgi_file. destruct (decide r) as [|s e|ranges|msg|]; cbn [w_status]; split; intros H; try discriminate;
      try reflexivity; try (destruct H as [(s' & e' & H)|(l' & H)]; discriminate).
    + left. exists s, e. reflexivity.
    + right. exists ranges. reflexivity.
  - intros msg H. unfold wsgi_file, expected_body. rewrite H. cbn [w_status w_headers].
    repeat split; try (destruct (fr_head r); reflexivity).
  - intros H. unfold wsgi_file, expected_body. rewrite H. cbn [w_status w_headers].
    repeat split; try (destruct (fr_head r); reflexivity).
Qed.

Theorem single_range_header_proof r s e :
  decide r = Single s e ->
  s < e <= length (fr_file r) /\
  In (lit "content-range", content_range s e (length (fr_file r))) (w_headers (wsgi_file r)) /\
  (fr_head r = false -> expected_body r = slice (fr_file r) s e).
Proof.
  intros H. pose proof (decide_cases r) as Hd. rewrite H in Hd.
  split; [lia|]. unfold wsgi_file, expected_body. rewrite H. cbn [w_headers]. split.
  - apply in_or_app. right. left. reflexivity.
  - intros ->. reflexivity.
Qed.

(* ---------- non-vacuity ---------- *)

Definition ex_req : file_req :=
  {| fr_head := false; fr_range := Some (lit "bytes=0-1,4-5"); fr_if_range := None;
     fr_file := lit "0123456789"; fr_chunk := 3; fr_etag := lit """e"""; fr_lastmod := lit "d";
     fr_ctype := lit "text/plain"; fr_disp := None; fr_boundary := lit "BB" |}.

Example ex_several : decide ex_req = Several [(0, 2); (4, 6)].
Proof. vm_compute. reflexivity. Qed.

Example ex_length :
  In (lit "content-length", decn (length (wsgi_body (wsgi_file ex_req)))) (w_headers (wsgi_file ex_req)).
Proof. vm_compute. right. right. right. right. left. reflexivity. Qed.
