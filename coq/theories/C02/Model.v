(* C02 — model of the file responses (baize/responses.py FileResponseMixin,
   baize/wsgi/responses.py FileResponse, baize/asgi/responses.py FileResponse).
   A file is a list of bytes; positions and sizes are nat (they index that list). *)
From Coq Require Import List NArith ZArith Bool Arith.
From Baize Require Import Lib.Wire Lib.Order C03.Model.
Import ListNotations.

Definition bytes := list N.
Definition header := (bytes * bytes)%type.

(* ---------- what the stdlib contributes (computed by the harness directly) ---------- *)

Record file_req := {
  fr_head : bool;                    (* method is HEAD *)
  fr_range : option bytes;           (* Range header, if present *)
  fr_if_range : option bytes;        (* If-Range header, if present *)
  fr_file : bytes;                   (* content; its length is st_size *)
  fr_chunk : nat;                    (* chunk_size *)
  fr_etag : bytes;                   (* the quoted ETag  "…"  *)
  fr_lastmod : bytes;                (* formatdate(st_mtime, usegmt=True) *)
  fr_ctype : bytes;                  (* content type of the file *)
  fr_disp : option bytes;            (* content-disposition value, if one is set *)
  fr_boundary : bytes                (* the 13 random characters *)
}.

(* ---------- reading ---------- *)

Definition read (f : bytes) (pos n : nat) : bytes := firstn n (skipn pos f).
Definition slice (f : bytes) (s e : nat) : bytes := firstn (e - s) (skipn s f).

Definition decn (n : nat) : bytes := dec (N.of_nat n).

(* ---------- headers ---------- *)

Definition common_headers (r : file_req) : list header :=
  [(lit "accept-ranges", lit "bytes"); (lit "last-modified", fr_lastmod r); (lit "etag", fr_etag r)]
  ++ match fr_disp r with Some d => [(lit "content-disposition", d)] | None => [] end.

Definition content_range (s e size : nat) : bytes :=
  lit "bytes " ++ decn s ++ [45%N] ++ decn (e - 1) ++ [47%N] ++ decn size.

(* the per-part header block of a multipart/byteranges body *)
Definition part_header (b ct : bytes) (s e size : nat) : bytes :=
  lit "--" ++ b ++ [10%N] ++
  lit "Content-Type: " ++ ct ++ [10%N] ++
  lit "Content-Range: " ++ content_range s e size ++ [10%N] ++
  [10%N].

Definition closing (b : bytes) : bytes := lit "--" ++ b ++ lit "--" ++ [10%N].

(* generate_multipart's closed formula *)
Definition multipart_length (b ct : bytes) (size : nat) (ranges : list (nat * nat)) : nat :=
  fold_right (fun r acc =>
     (length (decn (fst r)) + length (decn (snd r - 1)) +
      (44 + length b + length ct + length (decn size))) + (snd r - fst r) + acc)
   (5 + length b) ranges.

(* ---------- the Range / If-Range decision ---------- *)


Definition judge_if_range (r : file_req) (v : bytes) : bool :=
  bytes_eqb v (fr_etag r) || bytes_eqb v (fr_lastmod r).

Inductive decision :=
| Whole
| Single (s e : nat)
| Several (ranges : list (nat * nat))
| Reject400 (msg : bytes)
| Reject416.

Definition malformed_message (h : bytes) : bytes :=
  match split_eq h with
  | None => lit "Malformed Range header"
  | Some (unit, rest) =>
      if negb (list_N_eqb unit (lit "bytes")) then lit "Only support bytes range"
      else match header_pairs rest with
           | [] => lit "Range header: range must be requested"
           | _ => lit "Range header: start must be less than end"
           end
  end.

Definition to_nat_range (r : Z * Z) : nat * nat := (Z.to_nat (fst r), Z.to_nat (snd r)).

Definition decide (r : file_req) : decision :=
  match fr_range r with
  | None => Whole
  | Some h =>
      let honoured := match fr_if_range r with
                      | None => true
                      | Some v => judge_if_range r v
                      end in
      if negb honoured then Whole
      else match parse_range h (Z.of_nat (length (fr_file r))) with
           | Malformed => Reject400 (malformed_message h)
           | Unsatisfiable => Reject416
           | Ranges [x] => Single (fst (to_nat_range x)) (snd (to_nat_range x))
           | Ranges l => Several (map to_nat_range l)
           end
  end.

(* ---------- WSGI: status, header list, yielded chunks ---------- *)

Record wsgi_out := { w_status : nat; w_headers : list header; w_chunks : list bytes }.

(* for _ in range(0, size, cs): yield file.read(cs) *)
Fixpoint whole_chunks (fuel : nat) (f : bytes) (pos here size cs : nat) : list bytes :=
  match fuel with
  | O => []
  | S k => if here <? size
           then read f pos cs :: whole_chunks k f (pos + length (read f pos cs)) (here + cs) size cs
           else []
  end.

(* for here in range(start, end, cs): yield file.read(min(cs, end - here)) *)
Fixpoint range_chunks (fuel : nat) (f : bytes) (pos here e cs : nat) : list bytes :=
  match fuel with
  | O => []
  | S k => if here <? e
           then let d := read f pos (Nat.min cs (e - here)) in
                d :: range_chunks k f (pos + length d) (here + cs) e cs
           else []
  end.

Definition wsgi_several_chunks (r : file_req) (size : nat) (ranges : list (nat * nat)) : list bytes :=
  flat_map (fun x =>
      part_header (fr_boundary r) (fr_ctype r) (fst x) (snd x) size
      :: range_chunks (S (snd x - fst x)) (fr_file r) (fst x) (fst x) (snd x) (fr_chunk r)
      ++ [[10%N]]) ranges
  ++ [closing (fr_boundary r)].

Definition wsgi_file (r : file_req) : wsgi_out :=
  let size := length (fr_file r) in
  match decide r with
  | Whole =>
      {| w_status := 200;
         w_headers := common_headers r ++ [(lit "content-type", fr_ctype r); (lit "content-length", decn size)];
         w_chunks := if fr_head r then [[]] else whole_chunks (S size) (fr_file r) 0 0 size (fr_chunk r) |}
  | Single s e =>
      {| w_status := 206;
         w_headers := common_headers r ++
           [(lit "content-range", content_range s e size); (lit "content-type", fr_ctype r);
            (lit "content-length", decn (e - s))];
         w_chunks := if fr_head r then [[]]
                     else range_chunks (S (e - s)) (fr_file r) s s e (fr_chunk r) |}
  | Several ranges =>
      {| w_status := 206;
         w_headers := common_headers r ++
           [(lit "content-type", lit "multipart/byteranges; boundary=" ++ fr_boundary r);
            (lit "content-length", decn (multipart_length (fr_boundary r) (fr_ctype r) size ranges))];
         w_chunks := if fr_head r then [[]] else wsgi_several_chunks r size ranges |}
  | Reject400 msg =>
      {| w_status := 400; w_headers := []; w_chunks := [if fr_head r then [] else msg] |}
  | Reject416 =>
      {| w_status := 416; w_headers := [(lit "content-range", lit "*/" ++ decn size)]; w_chunks := [[]] |}
  end.

(* ---------- ASGI: the message sequence ---------- *)

Inductive event :=
| Start (status : nat) (headers : list header)
| Body (data : bytes) (more : bool)
| ZeroCopy (offset count : option nat) (more : bool)
| Spin.        (* the emulated sendfile loop did not terminate within its fuel (chunk_size = 0) *)

(* fake_sendfile without count: read chunk_size until a short read *)
Fixpoint fake_all (fuel : nat) (f : bytes) (pos cs : nat) (more : bool) : list event :=
  match fuel with
  | O => [Spin]
  | S k => let d := read f pos cs in
           if length d =? cs then Body d true :: fake_all k f (pos + cs) cs more
           else [Body d more]
  end.

(* fake_sendfile with count *)
Fixpoint fake_count (fuel : nat) (f : bytes) (pos here count cs : nat) (more : bool) : list event :=
  match fuel with
  | O => [Spin]
  | S k => let len := Nat.min cs (count - here) in
           let stop := len =? count - here in
           let d := read f pos len in
           Body d (if stop then more else true)
           :: (if stop then [] else fake_count k f (pos + length d) (here + len) count cs more)
  end.

Definition sendfile (zc : bool) (r : file_req) (off cnt : option nat) (more : bool) : list event :=
  if zc then [ZeroCopy off cnt more]
  else match cnt with
       | None => fake_all (S (S (length (fr_file r)))) (fr_file r) (match off with Some o => o | None => 0 end)
                          (fr_chunk r) more
       | Some c => fake_count (S c) (fr_file r) (match off with Some o => o | None => 0 end) 0 c (fr_chunk r) more
       end.

Definition asgi_file (zc : bool) (r : file_req) : list event :=
  let size := length (fr_file r) in
  match decide r with
  | Whole =>
      Start 200 (common_headers r ++ [(lit "content-type", fr_ctype r); (lit "content-length", decn size)])
      :: (if fr_head r then [Body [] false] else sendfile zc r None None false)
  | Single s e =>
      Start 206 (common_headers r ++
           [(lit "content-range", content_range s e size); (lit "content-type", fr_ctype r);
            (lit "content-length", decn (e - s))])
      :: (if fr_head r then [Body [] false] else sendfile zc r (Some s) (Some (e - s)) false)
  | Several ranges =>
      Start 206 (common_headers r ++
           [(lit "content-type", lit "multipart/byteranges; boundary=" ++ fr_boundary r);
            (lit "content-length", decn (multipart_length (fr_boundary r) (fr_ctype r) size ranges))])
      :: (if fr_head r then [Body [] false]
          else flat_map (fun x =>
                 Body (part_header (fr_boundary r) (fr_ctype r) (fst x) (snd x) size) true
                 :: sendfile zc r (Some (fst x)) (Some (snd x - fst x)) true
                 ++ [Body [10%N] true]) ranges
               ++ [Body (closing (fr_boundary r)) false])
  | Reject400 msg => [Start 400 []; Body (if fr_head r then [] else msg) false]
  | Reject416 => [Start 416 [(lit "content-range", lit "*/" ++ decn size)]; Body [] false]
  end.

(* ---------- what a server makes of the events ---------- *)

(* bytes denoted by one event when the descriptor refers to file f; a zero-copy
   message without offset reads from the start (the descriptor is fresh), without
   count to the end of the file *)
Definition event_bytes (f : bytes) (e : event) : bytes :=
  match e with
  | Body d _ => d
  | ZeroCopy off cnt _ =>
      let o := match off with Some o => o | None => 0 end in
      match cnt with Some c => read f o c | None => skipn o f end
  | _ => []
  end.

Definition body_of (f : bytes) (evs : list event) : bytes := flat_map (event_bytes f) evs.

Definition wsgi_body (o : wsgi_out) : bytes := concat (w_chunks o).
