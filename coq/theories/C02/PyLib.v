(* C02 — the few Python library operations that the functions translated by tools/py2coq_c02.py use and that
   Lib/PyStr.v does not have.  Text is a list of code points (N), a Python int is a Z.

     str_int z          str(z) for an int z, which is also what an f-string field {z} without conversion / format gives
     sum l              sum(<iterable of int>): 0 + x1 + x2 + ... from the left
     encode_latin1 s    s.encode("latin-1"): Some bytes, or None for UnicodeEncodeError (a code point above 255)

   Nothing here is assumed: tools/py2coq_c02.py (pylib_check) evaluates every function inside coqc on a list of
   arguments on every check run and compares with what the running interpreter gives. *)
From Coq Require Import List NArith ZArith Bool Lia.
From Baize Require Import Lib.Wire.
Import ListNotations.

Definition str_int (z : Z) : list N := dec_z z.

Definition sum (l : list Z) : Z := fold_left Z.add l 0%Z.

Definition encode_latin1 (s : list N) : option (list N) :=
  if forallb (fun c => N.ltb c 256) s then Some s else None.

(* ---------- facts ---------- *)

Lemma str_int_of_nat : forall (z : Z) (n : nat), z = Z.of_nat n -> str_int z = dec (N.of_nat n).
Proof.
  intros z n Hz. subst z. unfold str_int, dec_z.
  destruct (Z.of_nat n) as [|p|p] eqn:Hn.
  - f_equal. lia.
  - f_equal. lia.
  - exfalso. lia.
Qed.

Lemma fold_left_add : forall (l : list Z) (a : Z), fold_left Z.add l a = (a + fold_right Z.add 0 l)%Z.
Proof.
  induction l as [|x l IH]; intros a; cbn [fold_left fold_right].
  - lia.
  - rewrite IH. lia.
Qed.

Lemma sum_nil : sum [] = 0%Z.
Proof. reflexivity. Qed.

Lemma sum_cons : forall x l, sum (x :: l) = (x + sum l)%Z.
Proof.
  intros x l. unfold sum. cbn [fold_left]. rewrite (fold_left_add l (0 + x)), (fold_left_add l 0). lia.
Qed.

Lemma encode_latin1_some : forall s, Forall (fun c => (c < 256)%N) s -> encode_latin1 s = Some s.
Proof.
  intros s Hs. unfold encode_latin1.
  replace (forallb (fun c => N.ltb c 256) s) with true; [reflexivity|].
  symmetry. apply forallb_forall. intros c Hc. apply N.ltb_lt. rewrite Forall_forall in Hs. apply Hs. exact Hc.
Qed.
