(* C02/Reuse.v — one FileResponse object answers many requests.
   (baize/wsgi/responses.py and baize/asgi/responses.py, class FileResponse: __init__,
   handle_all, handle_single_range, handle_several_ranges, __call__.)

   `app = FileResponse(path)` is an application object; its header mapping
   `self.headers` (a MutableHeaders) lives as long as the object and every handler
   writes into it before it emits `self.list_headers(...)`.  The state of the object is
   that mapping (Resp/Model.v's hstore: insertion-ordered, keys lower-cased); everything
   else the object holds (path, stat result, content type, chunk size) is never written
   after __init__.

   Executable model only; the proofs are in C02/ReuseProofs.v.

   What the two copies of the class do to the mapping, in code order (they are the same
   on WSGI and ASGI; ASGI encodes keys and values to Latin-1 at emission, the keys are
   lower-case already because MutableHeaders stores them so):
     __init__                 MutableHeaders(headers); .update(generate_common_headers(..))
     handle_all               [pop content-range]  content-type  content-length
     handle_single_range      content-range  content-type  content-length
     handle_several_ranges    [pop content-range]  content-type  content-length
     400 / 416                the mapping is neither read nor written: the answer carries
                              the exception's own headers
   The bracketed pops are commit 02f930e; `fixed = false` is the code before it. *)
From Coq Require Import List NArith Bool Arith.
From Baize Require Import Lib.Wire Lib.Order C03.Model C02.Model Resp.Model.
Import ListNotations.

Definition k_cr : bytes := lit "content-range".
Definition k_ct : bytes := lit "content-type".
Definition k_cl : bytes := lit "content-length".

(* ---------- MutableHeaders.pop(key, None) ---------- *)

(* MutableMapping.pop: self[key] (lower-cased by __getitem__), then del self[key]
   (lower-cased by __delitem__); a missing key returns the default.  A dict holds a
   key once; removing every entry with that key is the same on such a store. *)
Fixpoint hdel (k : bytes) (h : hstore) : hstore :=
  match h with
  | [] => []
  | (k', v) :: r => if bytes_eqb k' k then hdel k r else (k', v) :: hdel k r
  end.

Definition hpop (k : bytes) (h : hstore) : hstore := hdel (lower k) h.

(* ---------- the object ---------- *)

(* The constructor arguments of the object are the file fields of a [file_req]
   (fr_file, fr_chunk, fr_etag, fr_lastmod, fr_ctype, fr_disp); what varies per
   request is below.  The boundary is drawn anew (random_choices) for every
   several-ranges answer, so it belongs to the request. *)
Record req := {
  q_head : bool;                (* method is HEAD *)
  q_range : option bytes;       (* Range header *)
  q_if_range : option bytes;    (* If-Range header *)
  q_boundary : bytes;           (* the 13 characters random_choices returns for this request *)
  q_zc : bool                   (* ASGI: the scope offers http.response.zerocopysend *)
}.

Definition with_req (o : file_req) (q : req) : file_req :=
  {| fr_head := q_head q; fr_range := q_range q; fr_if_range := q_if_range q; fr_file := fr_file o;
     fr_chunk := fr_chunk o; fr_etag := fr_etag o; fr_lastmod := fr_lastmod o; fr_ctype := fr_ctype o;
     fr_disp := fr_disp o; fr_boundary := q_boundary q |}.

(* FileResponse.__init__: self.headers = MutableHeaders(headers) (keys lower-cased,
   duplicates folded), then self.headers.update(generate_common_headers(...)):
   one __setitem__ per key, in the dict's order *)
Definition obj_init (caller : list header) (o : file_req) : hstore :=
  fold_left (fun st kv => hset' (fst kv) (snd kv) st) (common_headers o) (hinit caller).

(* ---------- what a request does to the mapping ---------- *)

Definition unstale (fixed : bool) (st : hstore) : hstore :=
  if fixed then hpop k_cr st else st.

Definition handle (fixed : bool) (r : file_req) (st : hstore) : hstore :=
  let size := length (fr_file r) in
  match decide r with
  | Whole =>
      hset' k_cl (decn size) (hset' k_ct (fr_ctype r) (unstale fixed st))
  | Single s e =>
      hset' k_cl (decn (e - s)) (hset' k_ct (fr_ctype r) (hset' k_cr (content_range s e size) st))
  | Several ranges =>
      hset' k_cl (decn (multipart_length (fr_boundary r) (fr_ctype r) size ranges))
        (hset' k_ct (lit "multipart/byteranges; boundary=" ++ fr_boundary r) (unstale fixed st))
  | Reject400 _ | Reject416 => st
  end.

(* the header list of the answer: self.list_headers(...) right after the writes (the
   object has no cookies unless the developer adds some; they are not written by any
   handler), or the exception's headers *)
Definition reuse_headers (fixed : bool) (r : file_req) (st : hstore) : list header :=
  match decide r with
  | Reject400 _ | Reject416 => w_headers (wsgi_file r)
  | _ => list_headers (handle fixed r st) []
  end.

(* ---------- one request; status, body and framing are the single-request model's ---------- *)

Inductive iface := IWsgi | IAsgi.

Inductive reply :=
| RW (o : wsgi_out)
| RA (evs : list event).

Definition set_start_headers (hs : list header) (evs : list event) : list event :=
  match evs with
  | Start st _ :: rest => Start st hs :: rest
  | _ => evs
  end.

Definition step (fixed : bool) (i : iface) (o : file_req) (st : hstore) (q : req) : reply * hstore :=
  let r := with_req o q in
  let hs := reuse_headers fixed r st in
  (match i with
   | IWsgi => RW {| w_status := w_status (wsgi_file r); w_headers := hs; w_chunks := w_chunks (wsgi_file r) |}
   | IAsgi => RA (set_start_headers hs (asgi_file (q_zc q) r))
   end,
   handle fixed r st).

(* the mapping after the object answered the requests of [hist], oldest first *)
Definition run (fixed : bool) (i : iface) (o : file_req) (st : hstore) (hist : list req) : hstore :=
  fold_left (fun st q => snd (step fixed i o st q)) hist st.

(* FileResponse(path, headers=caller, ...) answers [hist], then [q] *)
Definition answer_after (fixed : bool) (i : iface) (o : file_req) (caller : list header)
           (hist : list req) (q : req) : reply :=
  fst (step fixed i o (run fixed i o (obj_init caller o) hist) q).

(* ---------- reading a reply ---------- *)

Definition reply_status (a : reply) : option nat :=
  match a with
  | RW o => Some (w_status o)
  | RA (Start st _ :: _) => Some st
  | RA _ => None
  end.

Definition reply_headers (a : reply) : list header :=
  match a with
  | RW o => w_headers o
  | RA (Start _ hs :: _) => hs
  | RA _ => []
  end.

(* the reply with its header list blanked: status, and the yielded chunks resp. every
   message after http.response.start, in order *)
Definition reply_strip (a : reply) : reply :=
  match a with
  | RW o => RW {| w_status := w_status o; w_headers := []; w_chunks := w_chunks o |}
  | RA evs => RA (set_start_headers [] evs)
  end.

(* the body bytes a server obtains (file f behind a zero-copy descriptor) *)
Definition reply_body (f : bytes) (a : reply) : bytes :=
  match a with
  | RW o => wsgi_body o
  | RA evs => body_of f (tl evs)
  end.
