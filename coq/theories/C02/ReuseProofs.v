(* C02/ReuseProofs.v — a FileResponse object that answers many requests: its answers do
   not depend on what it answered before (with 02f930e), and did before it. *)
From Coq Require Import List NArith Bool Arith Lia Permutation Sorted.
From Baize Require Import Lib.Wire Lib.Order C03.Model C02.Model C02.Proofs Resp.Model C02.Reuse.
Import ListNotations.

(* ---------- the mapping as a finite map ---------- *)

Definition keys (h : hstore) : list bytes := map fst h.

Lemma bytes_eqb_refl a : bytes_eqb a a = true.
Proof. apply bytes_eqb_eq. reflexivity. Qed.

Lemma bytes_eqb_false a b : bytes_eqb a b = false <-> a <> b.
Proof.
  split.
  - intros H E. apply bytes_eqb_eq in E. rewrite E in H. discriminate H.
  - intros H. destruct (bytes_eqb a b) eqn:E; [|reflexivity]. apply bytes_eqb_eq in E. contradiction.
Qed.

Lemma hget_hput k k' v h :
  hget k (hput k' v h) = if bytes_eqb k' k then Some v else hget k h.
Proof.
  induction h as [|[k0 v0] r IH]; cbn [hput hget].
  - reflexivity.
  - destruct (bytes_eqb k0 k') eqn:E0; cbn [hget].
    + apply bytes_eqb_eq in E0. subst k0. destruct (bytes_eqb k' k); reflexivity.
    + rewrite IH. destruct (bytes_eqb k0 k) eqn:E1; [|reflexivity].
      destruct (bytes_eqb k' k) eqn:E2; [|reflexivity].
      apply bytes_eqb_eq in E1, E2. subst. rewrite bytes_eqb_refl in E0. discriminate E0.
Qed.

Lemma hget_hdel k k' h :
  hget k (hdel k' h) = if bytes_eqb k' k then None else hget k h.
Proof.
  induction h as [|[k0 v0] r IH]; cbn [hdel hget].
  - destruct (bytes_eqb k' k); reflexivity.
  - destruct (bytes_eqb k0 k') eqn:E0.
    + rewrite IH. apply bytes_eqb_eq in E0. subst k0. destruct (bytes_eqb k' k); reflexivity.
    + cbn [hget]. rewrite IH. destruct (bytes_eqb k0 k) eqn:E1; [|reflexivity].
      destruct (bytes_eqb k' k) eqn:E2; [|reflexivity].
      apply bytes_eqb_eq in E1, E2. subst. rewrite bytes_eqb_refl in E0. discriminate E0.
Qed.

Lemma keys_hput x k v h : In x (keys (hput k v h)) -> x = k \/ In x (keys h).
Proof.
  induction h as [|[k0 v0] r IH]; cbn [hput keys map fst In].
  - intros [H|[]]. left. symmetry. exact H.
  - destruct (bytes_eqb k0 k) eqn:E0; cbn [map fst In].
    + apply bytes_eqb_eq in E0. subst k0. intros [H|H]; [left; symmetry; exact H|right; right; exact H].
    + intros [H|H]; [right; left; exact H|]. destruct (IH H) as [H1|H1]; [left; exact H1|right; right; exact H1].
Qed.

Lemma NoDup_hput k v h : NoDup (keys h) -> NoDup (keys (hput k v h)).
Proof.
  induction h as [|[k0 v0] r IH]; cbn [hput keys map fst]; intros Hn.
  - constructor; [intros []|constructor].
  - destruct (bytes_eqb k0 k) eqn:E0; cbn [map fst].
    + apply bytes_eqb_eq in E0. subst k0. exact Hn.
    + inversion Hn as [|? ? Hnot Hr]; subst. constructor.
      * intros Hin. apply keys_hput in Hin as [Hin|Hin].
        -- subst k0. rewrite bytes_eqb_refl in E0. discriminate E0.
        -- apply Hnot. exact Hin.
      * apply IH. exact Hr.
Qed.

Lemma keys_hdel x k h : In x (keys (hdel k h)) -> In x (keys h).
Proof.
  induction h as [|[k0 v0] r IH]; cbn [hdel keys map fst In]; [intros []|].
  destruct (bytes_eqb k0 k); cbn [map fst In].
  - intros H. right. apply IH. exact H.
  - intros [H|H]; [left; exact H|right; apply IH; exact H].
Qed.

Lemma NoDup_hdel k h : NoDup (keys h) -> NoDup (keys (hdel k h)).
Proof.
  induction h as [|[k0 v0] r IH]; cbn [hdel keys map fst]; intros Hn; [constructor|].
  inversion Hn as [|? ? Hnot Hr]; subst.
  destruct (bytes_eqb k0 k); cbn [map fst]; [apply IH; exact Hr|].
  constructor; [|apply IH; exact Hr]. intros Hin. apply Hnot. apply keys_hdel in Hin. exact Hin.
Qed.

Lemma hget_in k v h : hget k h = Some v -> In (k, v) h.
Proof.
  induction h as [|[k0 v0] r IH]; cbn [hget In]; [discriminate|].
  destruct (bytes_eqb k0 k) eqn:E0.
  - intros H. injection H as <-. apply bytes_eqb_eq in E0. subst k0. left. reflexivity.
  - intros H. right. apply IH. exact H.
Qed.

Lemma in_hget k v h : NoDup (keys h) -> In (k, v) h -> hget k h = Some v.
Proof.
  induction h as [|[k0 v0] r IH]; cbn [hget In keys map fst]; intros Hn Hin; [destruct Hin|].
  inversion Hn as [|? ? Hnot Hr]; subst.
  destruct Hin as [Hin|Hin].
  - injection Hin as -> ->. rewrite bytes_eqb_refl. reflexivity.
  - destruct (bytes_eqb k0 k) eqn:E0.
    + apply bytes_eqb_eq in E0. subst k0. exfalso. apply Hnot.
      change k with (fst (k, v)). apply in_map. exact Hin.
    + apply IH; assumption.
Qed.

(* two stores without repeated keys that agree as maps hold the same pairs *)
Lemma same_map_permutation a b :
  NoDup (keys a) -> NoDup (keys b) -> (forall k, hget k a = hget k b) -> Permutation a b.
Proof.
  intros Ha Hb Hext. apply NoDup_Permutation.
  - apply (NoDup_map_inv fst). exact Ha.
  - apply (NoDup_map_inv fst). exact Hb.
  - intros [k v]. split; intros Hin.
    + apply hget_in. rewrite <- Hext. apply in_hget; assumption.
    + apply hget_in. rewrite Hext. apply in_hget; assumption.
Qed.

(* ---------- the canonical (sorted) form of a header list depends on the multiset only ---------- *)

Section SortPerm.
  Variable A : Type.
  Variable leb : A -> A -> bool.
  Hypothesis leb_total : forall a b, leb a b = false -> leb b a = true.
  Hypothesis leb_trans : forall a b c, leb a b = true -> leb b c = true -> leb a c = true.
  Hypothesis leb_antisym : forall a b, leb a b = true -> leb b a = true -> a = b.

  Let le (a b : A) : Prop := leb a b = true.

  Lemma insert_perm x l : Permutation (insert_by leb x l) (x :: l).
  Proof.
    induction l as [|y r IH]; cbn [insert_by]; [apply Permutation_refl|].
    destruct (leb x y); [apply Permutation_refl|].
    apply perm_trans with (y :: x :: r); [apply perm_skip; exact IH|apply perm_swap].
  Qed.

  Lemma sort_perm l : Permutation (sort_by leb l) l.
  Proof.
    induction l as [|x r IH]; cbn [sort_by fold_right]; [apply perm_nil|].
    apply perm_trans with (x :: sort_by leb r); [apply insert_perm|apply perm_skip; exact IH].
  Qed.

  Lemma insert_sorted x l : StronglySorted le l -> StronglySorted le (insert_by leb x l).
  Proof.
    induction l as [|y r IH]; cbn [insert_by]; intros Hs.
    - constructor; [constructor|constructor].
    - inversion Hs as [|? ? Hr Hall]; subst. destruct (leb x y) eqn:E.
      + constructor; [exact Hs|]. constructor; [exact E|].
        rewrite Forall_forall in *. intros z Hz. apply (leb_trans x y z E). apply Hall. exact Hz.
      + constructor; [apply IH; exact Hr|].
        rewrite Forall_forall in *. intros z Hz.
        apply (Permutation_in _ (insert_perm x r)) in Hz. destruct Hz as [<-|Hz].
        * apply leb_total. exact E.
        * apply Hall. exact Hz.
  Qed.

  Lemma sort_sorted l : StronglySorted le (sort_by leb l).
  Proof.
    induction l as [|x r IH]; cbn [sort_by fold_right]; [constructor|]. apply insert_sorted. exact IH.
  Qed.

  Lemma sorted_perm_eq l1 : forall l2,
    StronglySorted le l1 -> StronglySorted le l2 -> Permutation l1 l2 -> l1 = l2.
  Proof.
    induction l1 as [|x1 t1 IH]; intros l2 H1 H2 Hp.
    - apply Permutation_nil in Hp. symmetry. exact Hp.
    - destruct l2 as [|x2 t2]; [apply Permutation_sym, Permutation_nil in Hp; discriminate Hp|].
      inversion H1 as [|? ? Hs1 Ha1]; subst. inversion H2 as [|? ? Hs2 Ha2]; subst.
      rewrite Forall_forall in Ha1, Ha2.
      assert (Hx : x1 = x2).
      { assert (Hin1 : In x1 (x2 :: t2)) by (apply (Permutation_in _ Hp); left; reflexivity).
        assert (Hin2 : In x2 (x1 :: t1)) by (apply (Permutation_in _ (Permutation_sym Hp)); left; reflexivity).
        destruct Hin1 as [Hin1|Hin1]; [symmetry; exact Hin1|].
        destruct Hin2 as [Hin2|Hin2]; [exact Hin2|].
        apply leb_antisym; [apply Ha1; exact Hin2|apply Ha2; exact Hin1]. }
      subst x2. f_equal. apply IH; [exact Hs1|exact Hs2|]. apply Permutation_cons_inv in Hp. exact Hp.
  Qed.

  Lemma sort_by_perm l1 l2 : Permutation l1 l2 -> sort_by leb l1 = sort_by leb l2.
  Proof.
    intros Hp. apply sorted_perm_eq; [apply sort_sorted|apply sort_sorted|].
    apply perm_trans with l1; [apply sort_perm|].
    apply perm_trans with l2; [exact Hp|apply Permutation_sym, sort_perm].
  Qed.
End SortPerm.

Lemma bytes_leb_total a : forall b, bytes_leb a b = false -> bytes_leb b a = true.
Proof.
  induction a as [|x a IH]; intros [|y b]; cbn [bytes_leb]; try reflexivity; try discriminate.
  destruct (N.ltb x y) eqn:E1; [discriminate|]. destruct (N.ltb y x) eqn:E2; [reflexivity|]. apply IH.
Qed.

Lemma bytes_leb_antisym a : forall b, bytes_leb a b = true -> bytes_leb b a = true -> a = b.
Proof.
  induction a as [|x a IH]; intros [|y b]; cbn [bytes_leb]; try reflexivity; try discriminate.
  destruct (N.ltb x y) eqn:E1; destruct (N.ltb y x) eqn:E2; try discriminate.
  - apply N.ltb_lt in E1, E2. lia.
  - intros H1 H2. apply N.ltb_ge in E1, E2. assert (x = y) by lia. subst y. f_equal. apply IH; assumption.
Qed.

Lemma bytes_leb_trans a : forall b c, bytes_leb a b = true -> bytes_leb b c = true -> bytes_leb a c = true.
Proof.
  induction a as [|x a IH]; intros [|y b] [|z c]; cbn [bytes_leb]; try reflexivity; try discriminate.
  destruct (N.ltb x y) eqn:E1; destruct (N.ltb y x) eqn:E2; try discriminate;
  destruct (N.ltb y z) eqn:E3; destruct (N.ltb z y) eqn:E4; try discriminate;
  destruct (N.ltb x z) eqn:E5; try reflexivity; destruct (N.ltb z x) eqn:E6;
  rewrite ?N.ltb_lt, ?N.ltb_ge in *; try lia; intros H1 H2; try discriminate.
  apply (IH b c); assumption.
Qed.

Lemma bytes_eqb_sym a b : bytes_eqb a b = bytes_eqb b a.
Proof.
  destruct (bytes_eqb a b) eqn:E1; destruct (bytes_eqb b a) eqn:E2; try reflexivity.
  - apply bytes_eqb_eq in E1. subst. rewrite (proj2 (bytes_eqb_eq b b) eq_refl) in E2. discriminate E2.
  - apply bytes_eqb_eq in E2. subst. rewrite (proj2 (bytes_eqb_eq a a) eq_refl) in E1. discriminate E1.
Qed.

Lemma pair_leb_total p q : Order.pair_leb p q = false -> Order.pair_leb q p = true.
Proof.
  unfold Order.pair_leb. rewrite (bytes_eqb_sym (fst q) (fst p)).
  destruct (bytes_eqb (fst p) (fst q)); apply bytes_leb_total.
Qed.

Lemma pair_leb_antisym p q : Order.pair_leb p q = true -> Order.pair_leb q p = true -> p = q.
Proof.
  unfold Order.pair_leb. rewrite (bytes_eqb_sym (fst q) (fst p)).
  destruct (bytes_eqb (fst p) (fst q)) eqn:E; intros H1 H2.
  - apply bytes_eqb_eq in E. destruct p as [kp vp], q as [kq vq]. cbn [fst snd] in *. subst kq.
    f_equal. apply bytes_leb_antisym; assumption.
  - exfalso. assert (Hk : fst p = fst q) by (apply bytes_leb_antisym; assumption).
    apply bytes_eqb_eq in Hk. rewrite Hk in E. discriminate E.
Qed.

Lemma pair_leb_trans p q r : Order.pair_leb p q = true -> Order.pair_leb q r = true -> Order.pair_leb p r = true.
Proof.
  unfold Order.pair_leb.
  destruct (bytes_eqb (fst p) (fst q)) eqn:E1; destruct (bytes_eqb (fst q) (fst r)) eqn:E2; intros H1 H2.
  - apply bytes_eqb_eq in E1, E2. rewrite E1, E2, (proj2 (bytes_eqb_eq _ _) eq_refl).
    apply (bytes_leb_trans _ _ _ H1 H2).
  - apply bytes_eqb_eq in E1. rewrite E1, E2. exact H2.
  - apply bytes_eqb_eq in E2. rewrite <- E2, E1. exact H1.
  - destruct (bytes_eqb (fst p) (fst r)) eqn:E3.
    + exfalso. apply bytes_eqb_eq in E3. rewrite <- E3 in H2.
      assert (Hk : fst p = fst q) by (apply bytes_leb_antisym; assumption).
      apply bytes_eqb_eq in Hk. rewrite Hk in E1. discriminate E1.
    + apply (bytes_leb_trans _ _ _ H1 H2).
Qed.

Lemma sort_headers_perm l1 l2 : Permutation l1 l2 -> sort_headers l1 = sort_headers l2.
Proof.
  unfold sort_headers. apply sort_by_perm.
  - exact pair_leb_total.
  - exact pair_leb_trans.
  - exact pair_leb_antisym.
Qed.
(* ---------- the object's mapping never repeats a key ---------- *)

Lemma NoDup_hinit_from items : forall st,
  NoDup (keys st) ->
  NoDup (keys (fold_left (fun st kv =>
               let k := lower (fst kv) in
               match hget k st with
               | Some old => hput k (old ++ lit ", " ++ snd kv) st
               | None => hput k (snd kv) st
               end) items st)).
Proof.
  induction items as [|kv items IH]; intros st Hn; cbn [fold_left]; [exact Hn|].
  apply IH. cbv zeta. destruct (hget (lower (fst kv)) st); apply NoDup_hput; exact Hn.
Qed.

Lemma NoDup_hinit items : NoDup (keys (hinit items)).
Proof. unfold hinit. apply NoDup_hinit_from. constructor. Qed.

Lemma NoDup_update items : forall st,
  NoDup (keys st) -> NoDup (keys (fold_left (fun st kv => hset' (fst kv) (snd kv) st) items st)).
Proof.
  induction items as [|kv items IH]; intros st Hn; cbn [fold_left]; [exact Hn|].
  apply IH. unfold hset'. apply NoDup_hput. exact Hn.
Qed.

Lemma NoDup_obj_init caller o : NoDup (keys (obj_init caller o)).
Proof. unfold obj_init. apply NoDup_update. apply NoDup_hinit. Qed.

Lemma NoDup_handle fixed r st : NoDup (keys st) -> NoDup (keys (handle fixed r st)).
Proof.
  intros Hn. unfold handle, unstale, hset', hpop.
  destruct (decide r); destruct fixed; repeat apply NoDup_hput; try apply NoDup_hdel; exact Hn.
Qed.

(* ---------- the three keys the handlers write, and all the others ---------- *)

Definition volatile (k : bytes) : bool := bytes_eqb k_cr k || bytes_eqb k_ct k || bytes_eqb k_cl k.

(* the two mappings agree on every key no handler writes *)
Definition frame (a b : hstore) : Prop := forall k, volatile k = false -> hget k a = hget k b.

Lemma low_cr : lower k_cr = k_cr. Proof. reflexivity. Qed.
Lemma low_ct : lower k_ct = k_ct. Proof. reflexivity. Qed.
Lemma low_cl : lower k_cl = k_cl. Proof. reflexivity. Qed.
Lemma cr_ct : bytes_eqb k_cr k_ct = false. Proof. reflexivity. Qed.
Lemma cr_cl : bytes_eqb k_cr k_cl = false. Proof. reflexivity. Qed.
Lemma ct_cr : bytes_eqb k_ct k_cr = false. Proof. reflexivity. Qed.
Lemma ct_cl : bytes_eqb k_ct k_cl = false. Proof. reflexivity. Qed.
Lemma cl_cr : bytes_eqb k_cl k_cr = false. Proof. reflexivity. Qed.
Lemma cl_ct : bytes_eqb k_cl k_ct = false. Proof. reflexivity. Qed.

Lemma volatile_false k :
  volatile k = false -> bytes_eqb k_cr k = false /\ bytes_eqb k_ct k = false /\ bytes_eqb k_cl k = false.
Proof.
  unfold volatile. intros H. apply orb_false_iff in H as [H Hcl]. apply orb_false_iff in H as [Hcr Hct].
  repeat split; assumption.
Qed.

Lemma volatile_true k : volatile k = true -> k = k_cr \/ k = k_ct \/ k = k_cl.
Proof.
  unfold volatile. intros H. apply orb_true_iff in H as [H|H]; [apply orb_true_iff in H as [H|H]|];
    apply bytes_eqb_eq in H; auto.
Qed.

(* no request touches a key other than the three *)
Lemma handle_frame fixed r st : frame (handle fixed r st) st.
Proof.
  intros k Hv. apply volatile_false in Hv as (Hcr & Hct & Hcl).
  unfold handle, unstale, hset', hpop. rewrite low_cr, low_ct, low_cl.
  destruct (decide r); destruct fixed; rewrite ?hget_hput, ?hget_hdel, ?Hcr, ?Hct, ?Hcl; reflexivity.
Qed.

Definition is_reject (d : decision) : bool :=
  match d with Reject400 _ | Reject416 => true | _ => false end.

(* what the repaired handlers leave under each of the three keys: a function of the
   request alone — each handler overwrites or removes every one of them *)
Definition want_cr (r : file_req) : option bytes :=
  match decide r with
  | Single s e => Some (content_range s e (length (fr_file r)))
  | _ => None
  end.

Definition want_ct (r : file_req) : option bytes :=
  match decide r with
  | Whole | Single _ _ => Some (fr_ctype r)
  | Several _ => Some (lit "multipart/byteranges; boundary=" ++ fr_boundary r)
  | _ => None
  end.

Definition want_cl (r : file_req) : option bytes :=
  match declared_length r with Some n => Some (decn n) | None => None end.

Lemma handle_cr r st : is_reject (decide r) = false -> hget k_cr (handle true r st) = want_cr r.
Proof.
  unfold handle, want_cr, unstale, hset', hpop. rewrite low_cr, low_ct, low_cl.
  destruct (decide r); cbn [is_reject]; intros H; try discriminate H;
    rewrite ?hget_hput, ?hget_hdel, ?cl_cr, ?ct_cr, ?bytes_eqb_refl; reflexivity.
Qed.

Lemma handle_ct fixed r st : is_reject (decide r) = false -> hget k_ct (handle fixed r st) = want_ct r.
Proof.
  unfold handle, want_ct, unstale, hset', hpop. rewrite low_cr, low_ct, low_cl.
  destruct (decide r); cbn [is_reject]; intros H; try discriminate H;
    rewrite ?hget_hput, ?cl_ct, ?bytes_eqb_refl; reflexivity.
Qed.

Lemma handle_cl fixed r st : is_reject (decide r) = false -> hget k_cl (handle fixed r st) = want_cl r.
Proof.
  unfold handle, want_cl, declared_length, unstale, hset', hpop. rewrite low_cr, low_ct, low_cl.
  destruct (decide r); cbn [is_reject]; intros H; try discriminate H;
    rewrite ?hget_hput, ?bytes_eqb_refl; reflexivity.
Qed.

(* the answer's mapping is determined by the request and the frame *)
Lemma handle_same_map r st st' :
  is_reject (decide r) = false -> frame st st' ->
  forall k, hget k (handle true r st) = hget k (handle true r st').
Proof.
  intros Hr Hf k. destruct (volatile k) eqn:Hv.
  - apply volatile_true in Hv as [ -> | [ -> | -> ] ].
    + rewrite !handle_cr by exact Hr. reflexivity.
    + rewrite !handle_ct by exact Hr. reflexivity.
    + rewrite !handle_cl by exact Hr. reflexivity.
  - rewrite (handle_frame true r st k Hv), (handle_frame true r st' k Hv). apply Hf. exact Hv.
Qed.

(* ---------- histories ---------- *)

Lemma step_state fixed i o st q : snd (step fixed i o st q) = handle fixed (with_req o q) st.
Proof. reflexivity. Qed.

Lemma run_cons fixed i o st q hist :
  run fixed i o st (q :: hist) = run fixed i o (handle fixed (with_req o q) st) hist.
Proof. reflexivity. Qed.

Lemma run_snoc fixed i o st q hist :
  run fixed i o st (hist ++ [q]) = handle fixed (with_req o q) (run fixed i o st hist).
Proof. unfold run. rewrite fold_left_app. reflexivity. Qed.

Lemma run_frame fixed i o hist : forall st, frame (run fixed i o st hist) st.
Proof.
  induction hist as [|q hist IH]; intros st k Hv; [reflexivity|].
  rewrite run_cons, (IH _ k Hv). apply handle_frame. exact Hv.
Qed.

Lemma run_NoDup fixed i o hist : forall st, NoDup (keys st) -> NoDup (keys (run fixed i o st hist)).
Proof.
  induction hist as [|q hist IH]; intros st Hn; [exact Hn|].
  rewrite run_cons. apply IH. apply NoDup_handle. exact Hn.
Qed.

(* ---------- reading the reply of a step ---------- *)

Lemma asgi_file_start zc r : exists st hs rest, asgi_file zc r = Start st hs :: rest.
Proof. unfold asgi_file. destruct (decide r); eexists; eexists; eexists; reflexivity. Qed.

Lemma step_headers fixed i o st q :
  reply_headers (fst (step fixed i o st q)) = reuse_headers fixed (with_req o q) st.
Proof.
  destruct i; cbn [step fst reply_headers w_headers]; [reflexivity|].
  destruct (asgi_file_start (q_zc q) (with_req o q)) as (s & hs & rest & ->). reflexivity.
Qed.

Lemma step_status fixed i o st q :
  reply_status (fst (step fixed i o st q)) = Some (w_status (wsgi_file (with_req o q))).
Proof.
  destruct i; cbn [step fst reply_status w_status]; [reflexivity|].
  unfold asgi_file, wsgi_file. destruct (decide (with_req o q)); reflexivity.
Qed.

Lemma strip_set hs evs : set_start_headers [] (set_start_headers hs evs) = set_start_headers [] evs.
Proof. destruct evs as [|[] ?]; reflexivity. Qed.

Lemma step_strip fixed i o st st' q :
  reply_strip (fst (step fixed i o st q)) = reply_strip (fst (step fixed i o st' q)).
Proof.
  destruct i; cbn [step fst reply_strip w_status w_chunks]; [reflexivity|].
  rewrite !strip_set. reflexivity.
Qed.

Lemma tl_set hs evs : tl (set_start_headers hs evs) = tl evs.
Proof. destruct evs as [|[] ?]; reflexivity. Qed.

Lemma step_body fixed i o st q :
  1 <= fr_chunk o ->
  reply_body (fr_file o) (fst (step fixed i o st q)) = expected_body (with_req o q).
Proof.
  intros Hcs. destruct i; cbn [step fst reply_body].
  - unfold wsgi_body. cbn [w_chunks]. apply (wsgi_body_exact_proof (with_req o q)). exact Hcs.
  - rewrite tl_set.
    destruct (asgi_body_exact_proof (q_zc q) (with_req o q) Hcs) as (s & hs & _ & _ & _ & Hb & _).
    exact Hb.
Qed.

Lemma list_headers_nil h : list_headers h [] = h.
Proof. unfold list_headers. cbn [map]. apply app_nil_r. Qed.

Lemma reject_headers r : is_reject (decide r) = true ->
  w_headers (wsgi_file r) = [] \/
  (decide r = Reject416 /\ w_headers (wsgi_file r) = [(k_cr, lit "*/" ++ decn (length (fr_file r)))]).
Proof.
  unfold wsgi_file. destruct (decide r); cbn [is_reject]; intros H; try discriminate H.
  - left. reflexivity.
  - right. split; reflexivity.
Qed.

Lemma reuse_headers_NoDup fixed r st : NoDup (keys st) -> NoDup (keys (reuse_headers fixed r st)).
Proof.
  intros Hn. unfold reuse_headers.
  assert (Hh : NoDup (keys (list_headers (handle fixed r st) []))).
  { rewrite list_headers_nil. apply NoDup_handle. exact Hn. }
  destruct (decide r) eqn:E; try exact Hh.
  - unfold wsgi_file. rewrite E. constructor.
  - unfold wsgi_file. rewrite E. cbn [w_headers keys map fst]. constructor; [intros []|constructor].
Qed.

(* ---------- history independence ---------- *)

Lemma reuse_headers_same_map r st st' :
  frame st st' -> forall k, hget k (reuse_headers true r st) = hget k (reuse_headers true r st').
Proof.
  intros Hf k. unfold reuse_headers.
  destruct (is_reject (decide r)) eqn:Hr.
  - destruct (decide r); try discriminate Hr; reflexivity.
  - pose proof (handle_same_map r st st' Hr Hf k) as H.
    destruct (decide r); try discriminate Hr; rewrite !list_headers_nil; exact H.
Qed.

Theorem reuse_history_independent_proof i o caller hist q :
  let a := answer_after true i o caller hist q in
  let b := answer_after true i o caller [] q in
  reply_strip a = reply_strip b /\
  Permutation (reply_headers a) (reply_headers b) /\
  sort_headers (reply_headers a) = sort_headers (reply_headers b) /\
  NoDup (map fst (reply_headers a)) /\
  (forall k, hget k (reply_headers a) = hget k (reply_headers b)).
Proof.
  cbv zeta. unfold answer_after. cbn [run fold_left].
  set (st := run true i o (obj_init caller o) hist).
  assert (Hf : frame st (obj_init caller o)) by apply run_frame.
  assert (Hn : NoDup (keys st)) by (apply run_NoDup, NoDup_obj_init).
  rewrite !step_headers.
  split; [apply step_strip|].
  assert (Hext : forall k, hget k (reuse_headers true (with_req o q) st) =
                           hget k (reuse_headers true (with_req o q) (obj_init caller o)))
    by (apply reuse_headers_same_map; exact Hf).
  assert (Hp : Permutation (reuse_headers true (with_req o q) st)
                           (reuse_headers true (with_req o q) (obj_init caller o))).
  { apply same_map_permutation; [apply reuse_headers_NoDup; exact Hn|
                                 apply reuse_headers_NoDup, NoDup_obj_init|exact Hext]. }
  split; [exact Hp|]. split; [apply sort_headers_perm; exact Hp|]. split; [|exact Hext].
  apply (reuse_headers_NoDup true (with_req o q) st Hn).
Qed.

(* ---------- a fresh object is the single-request model ---------- *)

Lemma obj_init_nil o : obj_init [] o = common_headers o.
Proof. unfold obj_init, common_headers. destruct (fr_disp o); reflexivity. Qed.

Lemma fresh_headers fixed o q :
  reuse_headers fixed (with_req o q) (obj_init [] o) = w_headers (wsgi_file (with_req o q)).
Proof.
  rewrite obj_init_nil. unfold reuse_headers, handle, wsgi_file.
  change (common_headers (with_req o q)) with (common_headers o).
  destruct (decide (with_req o q)); cbn [w_headers]; try reflexivity;
    rewrite list_headers_nil; unfold common_headers, unstale; destruct (fr_disp o), fixed; reflexivity.
Qed.

Theorem reuse_fresh_is_single_proof fixed i o q :
  answer_after fixed i o [] [] q =
  match i with
  | IWsgi => RW (wsgi_file (with_req o q))
  | IAsgi => RA (asgi_file (q_zc q) (with_req o q))
  end.
Proof.
  unfold answer_after. cbn [run fold_left]. unfold step. cbn [fst]. rewrite fresh_headers.
  destruct i.
  - destruct (wsgi_file (with_req o q)); reflexivity.
  - unfold asgi_file, wsgi_file. destruct (decide (with_req o q)); reflexivity.
Qed.

(* ---------- framing after any history ---------- *)

Lemma want_cl_in r v : want_cl r = Some v -> In (k_cl, v) (w_headers (wsgi_file r)).
Proof.
  unfold want_cl, declared_length, wsgi_file.
  destruct (decide r); intros H; try discriminate H; injection H as <-; cbn [w_headers];
    apply in_or_app; right; cbn [In]; auto.
Qed.

Theorem reuse_framing_truthful_proof i o caller hist q :
  let r := with_req o q in
  let a := answer_after true i o caller hist q in
  reply_status a = Some (w_status (wsgi_file r)) /\
  (forall v, In (k_cr, v) (reply_headers a) ->
     (exists s e, decide r = Single s e /\ v = content_range s e (length (fr_file o))) \/
     (decide r = Reject416 /\ v = lit "*/" ++ decn (length (fr_file o)))) /\
  (forall s e, decide r = Single s e -> In (k_cr, content_range s e (length (fr_file o))) (reply_headers a)) /\
  (forall v, In (k_ct, v) (reply_headers a) ->
     (exists l, decide r = Several l /\ v = lit "multipart/byteranges; boundary=" ++ q_boundary q) \/
     ((decide r = Whole \/ exists s e, decide r = Single s e) /\ v = fr_ctype o)) /\
  (forall v, 1 <= fr_chunk o -> q_head q = false -> In (k_cl, v) (reply_headers a) ->
     v = decn (length (reply_body (fr_file o) a))).
Proof.
  cbv zeta. unfold answer_after.
  set (st := run true i o (obj_init caller o) hist).
  assert (Hn : NoDup (keys st)) by (apply run_NoDup, NoDup_obj_init).
  set (r := with_req o q).
  rewrite step_headers, step_status. fold r.
  pose proof (reuse_headers_NoDup true r st Hn) as Hnd.
  assert (Hhd : is_reject (decide r) = false -> reuse_headers true r st = handle true r st).
  { unfold reuse_headers. destruct (decide r); cbn [is_reject]; intros H; try discriminate H;
      apply list_headers_nil. }
  split; [reflexivity|]. split; [|split; [|split]].
  - intros v Hin. destruct (is_reject (decide r)) eqn:Hr.
    + unfold reuse_headers in Hin. destruct (reject_headers r Hr) as [He|[Hd He]].
      * destruct (decide r); try discriminate Hr; rewrite He in Hin; destruct Hin.
      * rewrite Hd, He in Hin. destruct Hin as [Hin|[]]. injection Hin as <-. right. split; [exact Hd|reflexivity].
    + apply (in_hget _ _ _ Hnd) in Hin. rewrite (Hhd eq_refl), (handle_cr r st Hr) in Hin.
      unfold want_cr in Hin. destruct (decide r) as [|s e| | |]; try discriminate Hin.
      injection Hin as <-. left. exists s, e. split; reflexivity.
  - intros s e Hd. assert (Hr : is_reject (decide r) = false) by (rewrite Hd; reflexivity).
    apply hget_in. rewrite (Hhd Hr), (handle_cr r st Hr). unfold want_cr. rewrite Hd. reflexivity.
  - intros v Hin. destruct (is_reject (decide r)) eqn:Hr.
    + unfold reuse_headers in Hin. destruct (reject_headers r Hr) as [He|[Hd He]].
      * destruct (decide r); try discriminate Hr; rewrite He in Hin; destruct Hin.
      * rewrite Hd, He in Hin. destruct Hin as [Hin|[]]. apply (f_equal fst) in Hin. vm_compute in Hin. discriminate Hin.
    + apply (in_hget _ _ _ Hnd) in Hin. rewrite (Hhd eq_refl), (handle_ct true r st Hr) in Hin.
      unfold want_ct in Hin. destruct (decide r) as [|s e|l| |]; try discriminate Hin; injection Hin as <-.
      * right. split; [left; reflexivity|reflexivity].
      * right. split; [right; exists s, e; reflexivity|reflexivity].
      * left. exists l. split; reflexivity.
  - intros v Hcs Hh Hin. rewrite (step_body true i o st q Hcs). fold r.
    assert (Hin' : In (k_cl, v) (w_headers (wsgi_file r))).
    { destruct (is_reject (decide r)) eqn:Hr.
      - unfold reuse_headers in Hin. destruct (decide r); try discriminate Hr; exact Hin.
      - apply (in_hget _ _ _ Hnd) in Hin. rewrite (Hhd eq_refl), (handle_cl true r st Hr) in Hin.
        apply want_cl_in. exact Hin. }
    destruct (content_length_truthful_proof r v Hcs Hh Hin') as [Hw _].
    rewrite Hw. rewrite (wsgi_body_exact_proof r Hcs). reflexivity.
Qed.

(* ---------- the code before 02f930e ---------- *)

Lemma orig_keeps_cr r st :
  (decide r = Whole \/ exists l, decide r = Several l) ->
  hget k_cr (reuse_headers false r st) = hget k_cr st.
Proof.
  intros H. unfold reuse_headers, handle, unstale, hset'. rewrite low_ct, low_cl.
  destruct H as [H|[l H]]; rewrite H, list_headers_nil, !hget_hput, cl_cr, ct_cr; reflexivity.
Qed.

(* whatever the object answered before: once it has answered a single-range request,
   the next whole-file or several-ranges answer carries that request's Content-Range *)
Theorem reuse_orig_stale_proof i o caller hist q1 q2 s e :
  decide (with_req o q1) = Single s e ->
  (decide (with_req o q2) = Whole \/ exists l, decide (with_req o q2) = Several l) ->
  In (k_cr, content_range s e (length (fr_file o)))
     (reply_headers (answer_after false i o caller (hist ++ [q1]) q2)).
Proof.
  intros H1 H2. unfold answer_after. rewrite step_headers, run_snoc.
  set (st := run false i o (obj_init caller o) hist).
  apply hget_in. rewrite (orig_keeps_cr _ _ H2).
  unfold handle, hset'. rewrite H1, low_cr, low_ct, low_cl.
  rewrite !hget_hput, cl_cr, ct_cr, bytes_eqb_refl. reflexivity.
Qed.

Definition ex_obj : file_req :=
  {| fr_head := false; fr_range := None; fr_if_range := None;
     fr_file := lit "012345"; fr_chunk := 3; fr_etag := lit """e"""; fr_lastmod := lit "d";
     fr_ctype := lit "text/plain"; fr_disp := None; fr_boundary := [] |}.

Definition ex_q (head : bool) (range : option bytes) : req :=
  {| q_head := head; q_range := range; q_if_range := None; q_boundary := lit "BB"; q_zc := false |}.

Theorem reuse_orig_refuted_proof :
  exists (o : file_req) (q1 q2 q3 : req),
    decide (with_req o q1) = Single 1 4 /\
    decide (with_req o q2) = Whole /\
    decide (with_req o q3) = Several [(0, 1); (2, 4)] /\
    forall i,
      (reply_status (answer_after false i o [] [q1] q2) = Some 200 /\
       In (k_cr, lit "bytes 1-3/6") (reply_headers (answer_after false i o [] [q1] q2))) /\
      (reply_status (answer_after false i o [] [q1] q3) = Some 206 /\
       In (k_ct, lit "multipart/byteranges; boundary=BB") (reply_headers (answer_after false i o [] [q1] q3)) /\
       In (k_cr, lit "bytes 1-3/6") (reply_headers (answer_after false i o [] [q1] q3))) /\
      (forall v, ~ In (k_cr, v) (reply_headers (answer_after true i o [] [q1] q2))) /\
      (forall v, ~ In (k_cr, v) (reply_headers (answer_after true i o [] [q1] q3))).
Proof.
  exists ex_obj, (ex_q false (Some (lit "bytes=1-3"))), (ex_q false None), (ex_q false (Some (lit "bytes=0-0,2-3"))).
  split; [vm_compute; reflexivity|]. split; [vm_compute; reflexivity|]. split; [vm_compute; reflexivity|].
  intros i. split; [|split; [|split]].
  - split; [destruct i; vm_compute; reflexivity|].
    destruct i; vm_compute; right; right; right; left; reflexivity.
  - split; [destruct i; vm_compute; reflexivity|]. split.
    + destruct i; vm_compute; right; right; right; right; left; reflexivity.
    + destruct i; vm_compute; right; right; right; left; reflexivity.
  - intros v Hin.
    destruct (reuse_framing_truthful_proof i ex_obj [] [ex_q false (Some (lit "bytes=1-3"))] (ex_q false None))
      as (_ & Hcr & _).
    destruct (Hcr v Hin) as [(s & e & Hd & _)|[Hd _]]; vm_compute in Hd; discriminate Hd.
  - intros v Hin.
    destruct (reuse_framing_truthful_proof i ex_obj [] [ex_q false (Some (lit "bytes=1-3"))]
                (ex_q false (Some (lit "bytes=0-0,2-3")))) as (_ & Hcr & _).
    destruct (Hcr v Hin) as [(s & e & Hd & _)|[Hd _]]; vm_compute in Hd; discriminate Hd.
Qed.

(* ---------- a non-trivial history ---------- *)

(* single range, HEAD several ranges, unsatisfiable, whole file, malformed, single range
   again — then a several-ranges request: same answer as a fresh object gives, and the
   header order differs (content-range was appended last by the first request and removed
   again), which is why the statement is about the set of headers *)
Definition ex_history : list req :=
  [ex_q false (Some (lit "bytes=1-3")); ex_q true (Some (lit "bytes=0-0,4-5")); ex_q false (Some (lit "bytes=9-"));
   ex_q false None; ex_q false (Some (lit "bytes=x")); ex_q false (Some (lit "bytes=-2"))].

Example ex_reuse_several :
  sort_headers (reply_headers (answer_after true IWsgi ex_obj [] ex_history (ex_q false (Some (lit "bytes=0-0,2-3"))))) =
  [(lit "accept-ranges", lit "bytes"); (k_cl, lit "128"); (k_ct, lit "multipart/byteranges; boundary=BB");
   (lit "etag", lit """e"""); (lit "last-modified", lit "d")] /\
  reply_strip (answer_after true IWsgi ex_obj [] ex_history (ex_q false (Some (lit "bytes=0-0,2-3")))) =
  reply_strip (answer_after true IWsgi ex_obj [] [] (ex_q false (Some (lit "bytes=0-0,2-3")))).
Proof. split; vm_compute; reflexivity. Qed.

(* the order of the emitted list does depend on the history *)
Example ex_reuse_order :
  reply_headers (answer_after true IWsgi ex_obj [] [ex_q false None] (ex_q false (Some (lit "bytes=1-3")))) <>
  reply_headers (answer_after true IWsgi ex_obj [] [] (ex_q false (Some (lit "bytes=1-3")))).
Proof. vm_compute. intros H. discriminate H. Qed.
