(* C16 — model of the cookie code of baize:
     baize/datastructures.py  _cookie_legal_chars, _cookie_is_legal_key, _cookie_translator,
                              Cookie._quote, Cookie.__str__
     baize/responses.py       BaseResponse.set_cookie / delete_cookie   (REPAIRED: tz=timezone.utc)
     baize/requests.py        HTTPConnection.cookies
     http/cookies.py (3.12)   _unquote, _OctalPatt, _QuotePatt
   Text is a list of code points (list N); the property and the theorems are about
   Latin-1 text (every code point < 256).  Instants are unix seconds (Z). *)
From Coq Require Import List NArith ZArith Bool.
From Baize Require Import Lib.Wire.
Import ListNotations.
Local Open Scope N_scope.

(* ---------------------------------------------------------------- characters *)

Definition in_list (c : N) (l : list N) : bool := existsb (N.eqb c) l.
Definition between (lo hi c : N) : bool := (lo <=? c) && (c <=? hi).

Definition is_alpha (c : N) : bool := between 65 90 c || between 97 122 c.
Definition is_dig (c : N) : bool := between 48 57 c.

(* "!#$%&'*+-.^_`|~" — the punctuation of an HTTP token *)
Definition token_punct : list N := [33; 35; 36; 37; 38; 39; 42; 43; 45; 46; 94; 95; 96; 124; 126].
Definition is_token_char (c : N) : bool := is_alpha c || is_dig c || in_list c token_punct.

(* _cookie_legal_chars = ascii_letters + digits + "!#$%&'*+-.^_`|~:" *)
Definition is_legal (c : N) : bool := is_token_char c || (c =? 58).

(* " ()/<=>?@[]{}" — not legal (so the value gets quoted) but not escaped either *)
Definition special : list N := [32; 40; 41; 47; 60; 61; 62; 63; 64; 91; 93; 123; 125].
Definition is_special (c : N) : bool := in_list c special.

Definition dquote : N := 34.
Definition bslash : N := 92.

(* "\\%03o" % n for n < 256 *)
Definition oct3 (n : N) : list N := [48 + n / 64; 48 + (n / 8) mod 8; 48 + n mod 8].

(* value.translate(_cookie_translator) for one character.  The table has keys
   only below 256; the two literal entries (double quote and backslash) come last
   in the dict display and therefore win. *)
Definition tr (c : N) : list N :=
  if c =? dquote then [bslash; dquote]
  else if c =? bslash then [bslash; bslash]
  else if is_legal c || is_special c then [c]
  else if c <? 256 then bslash :: oct3 c
  else [c].

(* _cookie_is_legal_key = re.compile("[legal]+").fullmatch : non-empty, all legal *)
Definition is_legal_key (v : list N) : bool :=
  match v with [] => false | _ => forallb is_legal v end.

Definition quote (v : list N) : list N :=
  if is_legal_key v then v else dquote :: flat_map tr v ++ [dquote].

(* ---------------------------------------------------------------- http.cookies._unquote *)

(* _OctalPatt = re.compile(r"\\[0-3][0-7][0-7]") matches at the head of s *)
Definition o_at (s : list N) : bool :=
  match s with
  | c :: a :: b :: d :: _ => (c =? bslash) && between 48 51 a && between 48 55 b && between 48 55 d
  | _ => false
  end.

(* _QuotePatt = re.compile(r"[\\].") matches at the head of s ('.' is anything but "\n") *)
Definition q_at (s : list N) : bool :=
  match s with
  | c :: x :: _ => (c =? bslash) && negb (x =? 10)
  | _ => false
  end.

(* patt.search(str, i).start(0) - i  on the suffix s = str[i:] *)
Fixpoint search (p : list N -> bool) (s : list N) : option nat :=
  match s with
  | [] => None
  | _ :: r => if p s then Some O else option_map S (search p r)
  end.

(* int(text, 8) on octal digits *)
Definition oct_val (l : list N) : N := fold_left (fun acc c => acc * 8 + (c - 48)) l 0.

(* the while loop; s = str[i:], res = the joined pieces so far *)
Fixpoint unq_loop (fuel : nat) (s res : list N) : list N :=
  match fuel with
  | O => res
  | S f =>
      match s with
      | [] => res                                             (* while 0 <= i < n *)
      | _ =>
          let take_q k :=      (* res.append(str[i:k]); res.append(str[k+1]); i = k + 2 *)
            unq_loop f (skipn (k + 2) s) (res ++ firstn k s ++ [nth (k + 1) s 0]) in
          let take_o j :=      (* res.append(str[i:j]); res.append(chr(int(str[j+1:j+4], 8))); i = j + 4 *)
            unq_loop f (skipn (j + 4) s) (res ++ firstn j s ++ [oct_val (firstn 3 (skipn (j + 1) s))]) in
          match search o_at s, search q_at s with
          | None, None => res ++ s                             (* neither matched *)
          | None, Some k => take_q k
          | Some j, None => take_o j
          | Some j, Some k => if Nat.ltb k j then take_q k else take_o j
          end
      end
  end.

Definition unquote (s : list N) : list N :=
  if Nat.ltb (length s) 2 then s
  else if negb (hd 0 s =? dquote) || negb (last s 0 =? dquote) then s
  else let body := removelast (tl s) in                       (* str[1:-1] *)
       unq_loop (S (length body)) body [].

(* ---------------------------------------------------------------- request side *)

(* str.isspace() on Latin-1: 9-13, 28-32, 0x85, 0xA0 *)
Definition is_ws (c : N) : bool := between 9 13 c || between 28 32 c || (c =? 133) || (c =? 160).

Fixpoint lstrip (s : list N) : list N :=
  match s with
  | c :: r => if is_ws c then lstrip r else s
  | [] => []
  end.
Definition strip (s : list N) : list N := rev (lstrip (rev (lstrip s))).

(* chunk.split("=", 1) when "=" in chunk *)
Fixpoint split_eq (s : list N) : option (list N * list N) :=
  match s with
  | [] => None
  | c :: r =>
      if c =? 61 then Some ([], r)
      else match split_eq r with
           | Some (u, v) => Some (c :: u, v)
           | None => None
           end
  end.

Fixpoint str_eqb (a b : list N) : bool :=
  match a, b with
  | [], [] => true
  | x :: a', y :: b' => (x =? y) && str_eqb a' b'
  | _, _ => false
  end.

(* cookies[key] = v on an insertion-ordered dict *)
Fixpoint dict_set (k v : list N) (d : list (list N * list N)) : list (list N * list N) :=
  match d with
  | [] => [(k, v)]
  | (k', v') :: r => if str_eqb k k' then (k', v) :: r else (k', v') :: dict_set k v r
  end.

Definition nonempty (s : list N) : bool := match s with [] => false | _ => true end.

Definition cookie_step (d : list (list N * list N)) (chunk : list N) : list (list N * list N) :=
  match chunk with
  | [] => d                                                    (* if not chunk: continue *)
  | _ =>
      let '(key, val) := match split_eq chunk with
                         | Some kv => kv
                         | None => ([], chunk)
                         end in
      let key := strip key in
      let val := strip val in
      if nonempty key || nonempty val then dict_set key (unquote val) d else d
  end.

Definition parse_cookies (header : list N) : list (list N * list N) :=
  fold_left cookie_step (split_on 59 header) [].

Fixpoint dict_get (k : list N) (d : list (list N * list N)) : option (list N) :=
  match d with
  | [] => None
  | (k', v) :: r => if str_eqb k k' then Some v else dict_get k r
  end.

(* ---------------------------------------------------------------- HTTP date *)

Local Open Scope Z_scope.

(* days since 1970-01-01 -> (year, month 1..12, day 1..31), proleptic Gregorian *)
Definition civil (days : Z) : Z * Z * Z :=
  let z := days + 719468 in
  let era := z / 146097 in
  let doe := z mod 146097 in
  let yoe := (doe - doe / 1460 + doe / 36524 - doe / 146096) / 365 in
  let doy := doe - (365 * yoe + yoe / 4 - yoe / 100) in
  let mp := (5 * doy + 2) / 153 in
  let d := doy - (153 * mp + 2) / 5 + 1 in
  let m := if mp <? 10 then mp + 3 else mp - 9 in
  let y := yoe + era * 400 + (if m <=? 2 then 1 else 0) in
  (y, m, d).

Definition wd_names : list (list N) :=
  [lit "Sun"; lit "Mon"; lit "Tue"; lit "Wed"; lit "Thu"; lit "Fri"; lit "Sat"].
Definition mon_names : list (list N) :=
  [lit "Jan"; lit "Feb"; lit "Mar"; lit "Apr"; lit "May"; lit "Jun";
   lit "Jul"; lit "Aug"; lit "Sep"; lit "Oct"; lit "Nov"; lit "Dec"].

(* %d %H %M %S : two digits *)
Definition two (n : Z) : list N := if n <? 10 then 48%N :: dec_z n else dec_z n.

(* the numbers a UTC datetime of instant t holds: weekday (0 = Sunday), (year, month, day),
   (hour, minute, second) *)
Definition date_fields (t : Z) : Z * (Z * Z * Z) * (Z * Z * Z) :=
  let days := t / 86400 in
  let sod := t mod 86400 in
  ((days + 4) mod 7, civil days, (sod / 3600, sod mod 3600 / 60, sod mod 60)).

(* strftime("%a, %d %b %Y %H:%M:%S GMT") in the C locale.
   %Y is not padded by glibc (years below 1000 print with fewer digits). *)
Definition render_date (f : Z * (Z * Z * Z) * (Z * Z * Z)) : list N :=
  let '(wd, (y, m, d), (hh, mm, ss)) := f in
  nth (Z.to_nat wd) wd_names [] ++ lit ", " ++ two d ++ lit " " ++
  nth (Z.to_nat (m - 1)) mon_names [] ++ lit " " ++ dec_z y ++ lit " " ++
  two hh ++ lit ":" ++ two mm ++ lit ":" ++ two ss ++ lit " GMT".

Definition http_date (t : Z) : list N := render_date (date_fields t).

(* datetime.fromtimestamp accepts the years 1..9999 *)
Definition min_ts : Z := -62135596800.
Definition max_ts : Z := 253402300799.
Definition ts_ok (t : Z) : bool := (min_ts <=? t) && (t <=? max_ts).

(* ---------------------------------------------------------------- Cookie *)

Record cookie := {
  c_name : list N;
  c_value : list N;
  c_expires : option Z;            (* the instant the datetime object denotes when printed as GMT *)
  c_domain : option (list N);
  c_path : option (list N);
  c_httponly : bool;
  c_secure : bool;
  c_max_age : Z;
  c_samesite : list N }.

Definition truthy (o : option (list N)) : option (list N) :=
  match o with Some ((_ :: _) as s) => Some s | _ => None end.

Definition opt_part (pre : list N) (o : option (list N)) : list (list N) :=
  match o with Some s => [pre ++ s] | None => [] end.

Fixpoint join_semi (l : list (list N)) : list N :=      (* "; ".join(parts) *)
  match l with
  | [] => []
  | [a] => a
  | a :: r => a ++ 59%N :: 32%N :: join_semi r
  end.

Definition expires_part (c : cookie) : list (list N) :=
  match c_expires c with Some t => [lit "expires=" ++ http_date t] | None => [] end.
Definition max_age_part (c : cookie) : list (list N) :=
  if c_max_age c >? -1 then [lit "max-age=" ++ dec_z (c_max_age c)] else [].

Definition cookie_parts (c : cookie) : list (list N) :=
  [quote (c_name c) ++ 61%N :: quote (c_value c)]
  ++ expires_part c
  ++ max_age_part c
  ++ opt_part (lit "domain=") (truthy (c_domain c))
  ++ opt_part (lit "path=") (truthy (c_path c))
  ++ (if c_httponly c then [lit "httponly"] else [])
  ++ (if c_secure c || str_eqb (c_samesite c) (lit "strict") || str_eqb (c_samesite c) (lit "none")
      then [lit "secure"] else [])
  ++ [lit "samesite=" ++ c_samesite c].

Definition cookie_str (c : cookie) : list N := join_semi (cookie_parts c).

(* ---------------------------------------------------------------- set_cookie / delete_cookie *)

Record opts := {
  o_path : option (list N);
  o_domain : option (list N);
  o_secure : bool;
  o_httponly : bool;
  o_samesite : list N }.

Definition default_opts : opts :=
  {| o_path := Some (lit "/"); o_domain := None; o_secure := false; o_httponly := false;
     o_samesite := lit "lax" |}.

Inductive outcome :=
| Made (c : cookie)
| RangeError.               (* fromtimestamp: year out of range *)

(* What the printed "expires=... GMT" denotes, given the datetime object set_cookie builds.
   [local_offset] is the process time zone: seconds east of UTC at a given instant.
   Unrepaired code: datetime.fromtimestamp(ts) is the naive LOCAL wall clock, printed
   with a literal "GMT": the printed instant is ts + offset(ts).
   Repaired code: fromtimestamp(ts, tz=timezone.utc): the printed instant is ts. *)
Definition expires_instant_orig (local_offset : Z -> Z) (ts : Z) : Z := ts + local_offset ts.
Definition expires_instant (local_offset : Z -> Z) (ts : Z) : Z := ts.

Definition set_cookie_with (inst : (Z -> Z) -> Z -> Z) (local_offset : Z -> Z) (now : Z)
  (key value : list N) (max_age : Z) (expires : option Z) (o : opts) : outcome :=
  let mk e := {| c_name := key; c_value := value; c_expires := e; c_domain := o_domain o;
                 c_path := o_path o; c_httponly := o_httponly o; c_secure := o_secure o;
                 c_max_age := max_age; c_samesite := o_samesite o |} in
  match expires with
  | None => Made (mk None)
  | Some e => if ts_ok (now + e) then Made (mk (Some (inst local_offset (now + e)))) else RangeError
  end.

Definition set_cookie := set_cookie_with expires_instant.
Definition set_cookie_orig := set_cookie_with expires_instant_orig.

(* delete_cookie passes key only: the value is "", expires=0, max_age=0 *)
Definition delete_cookie (local_offset : Z -> Z) (now : Z) (key : list N) (o : opts) : outcome :=
  set_cookie local_offset now key [] 0 (Some 0) o.

Definition outcome_str (r : outcome) : option (list N) :=
  match r with Made c => Some (cookie_str c) | RangeError => None end.

(* ---------------------------------------------------------------- the round trip *)

(* what a client sends back for a Set-Cookie text: everything before the first ';' *)
Definition pair_of_set_cookie (text : list N) : list N := hd [] (split_on 59 text).

(* the Cookie request header for several name=value pairs *)
Definition cookie_header (pairs : list (list N)) : list N := join_semi pairs.
