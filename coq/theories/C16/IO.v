(* C16 — wire interface of the model: one case line in, one observation line out. *)
From Coq Require Import List NArith ZArith Bool.
From Baize Require Import Lib.Wire C16.Model.
Import ListNotations.

Definition rd_opt_s (x : sx) : option (list N) :=
  match x with Lst [Str s] => Some s | _ => None end.
Definition rd_opt_z (x : sx) : option Z :=
  match x with Lst [Num z] => Some z | _ => None end.

Definition show_outcome (r : outcome) : sx :=
  match outcome_str r with
  | Some t => Str t
  | None => Lst [tag (lit "exc"); tag (lit "range")]
  end.

Definition show_pairs (d : list (list N * list N)) : sx :=
  Lst (map (fun p => Lst [Str (fst p); Str (snd p)]) d).

(* the process time zone is not an input of the (repaired) computation *)
Definition no_offset (t : Z) : Z := 0%Z.

Definition rd_opts (path domain secure httponly samesite : sx) : opts :=
  {| o_path := rd_opt_s path; o_domain := rd_opt_s domain; o_secure := sx_b secure;
     o_httponly := sx_b httponly; o_samesite := sx_s samesite |}.

Definition text_of (r : outcome) : list N :=
  match outcome_str r with Some t => t | None => [] end.

Definition run_tz_item (x : sx) : sx :=
  match x with
  | Lst [Num now; e; Num max_age] =>
      show_outcome (set_cookie no_offset now (lit "k") (lit "v") max_age (rd_opt_z e) default_opts)
  | Lst [Num now] => show_outcome (delete_cookie no_offset now (lit "k") default_opts)
  | _ => tag (lit "baditem")
  end.

Definition run (c : list sx) : list sx :=
  match c with
  | [Str op; Str v] =>
      if str_eqb op (lit "q") then [Str (quote v); Str (unquote v); Str (unquote (quote v))]
      else if str_eqb op (lit "parse") then
        let d := show_pairs (parse_cookies v) in [d; d]
      else [tag (lit "badcase")]
  | [Str op; Num t] =>
      if str_eqb op (lit "date") then
        [if ts_ok t then Str (http_date t) else Lst [tag (lit "exc"); tag (lit "range")]]
      else [tag (lit "badcase")]
  | [Str op; Lst items] =>
      if str_eqb op (lit "round") then
        let texts := map (fun it => match it with
                                    | Lst [Str n; Str v] =>
                                        text_of (set_cookie no_offset 0%Z n v (-1)%Z None default_opts)
                                    | _ => [] end) items in
        let header := cookie_header (map pair_of_set_cookie texts) in
        let d := show_pairs (parse_cookies header) in
        [Lst (map Str texts); Str header; d; d]
      else [tag (lit "badcase")]
  | [Str op; Str zone; Lst items] =>
      if str_eqb op (lit "tz") then [Lst (map run_tz_item items)]
      else [tag (lit "badcase")]
  | [Str op; Num now; Str key; Str value; Num max_age; e; path; domain; secure; httponly; samesite] =>
      if str_eqb op (lit "set") then
        [show_outcome (set_cookie no_offset now key value max_age (rd_opt_z e)
                         (rd_opts path domain secure httponly samesite))]
      else [tag (lit "badcase")]
  | [Str op; Num now; Str key; path; domain; secure; httponly; samesite] =>
      if str_eqb op (lit "del") then
        [show_outcome (delete_cookie no_offset now key (rd_opts path domain secure httponly samesite))]
      else [tag (lit "badcase")]
  | _ => [tag (lit "badcase")]
  end.

Definition run_line (l : list N) : list N := print_line (run (parse_line l)).
