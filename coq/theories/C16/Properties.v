(* C16 — Cookies round-trip exactly and expire when asked.
   Statements only; every proof is a reference to C16/Proofs.v.
   Vocabulary (C16/Model.v, C16/Proofs.v):
     latin1 c            c < 256
     quote / unquote     Cookie._quote / http.cookies._unquote
     is_token n          n is a non-empty string of HTTP token characters
     good_pair (n, v)    is_token n and v is Latin-1 text
     pair_text (n, v)    n ++ "=" ++ quote v
     cookie_header ps    "; ".join(ps)
     parse_cookies h     the dict built by Request.cookies, as an ordered association list
     cookie_str c        str(Cookie); attrs c = the parts behind name=value; has_attr a c = a is one of them
     date_fields t       (weekday, (year, month, day), (hour, minute, second)) of instant t; http_date prints them
     set_cookie off now key value max_age expires opts    BaseResponse.set_cookie at clock reading [now]
                         in a process whose zone is [off] (seconds east of UTC at an instant)  *)
From Coq Require Import List NArith ZArith.
From Baize Require Import Lib.Wire C16.Model C16.Proofs.
Import ListNotations.

(* The quoted form of every Latin-1 value is printable ASCII without ';' and ',',
   is not empty and neither starts nor ends with a character str.strip() removes. *)
Theorem quote_ascii : forall v : list N, Forall latin1 v ->
  Forall (fun x => (32 <= x <= 126)%N /\ x <> 59%N /\ x <> 44%N) (quote v) /\
  quote v <> [] /\ is_ws (hd 0%N (quote v)) = false /\ is_ws (last (quote v) 0%N) = false.
Proof. exact quote_ascii_proof. Qed.

(* The reader's unquoting inverts the writer's quoting on every Latin-1 value. *)
Theorem unquote_quote : forall v : list N, Forall latin1 v -> unquote (quote v) = v.
Proof. exact unquote_quote_proof. Qed.

(* The search loop of _unquote computes, on every text, the one-pass decoder [dec]. *)
Theorem unquote_scanner : forall (fuel : nat) (s res : list N),
  (length s < fuel)%nat -> unq_loop fuel s res = res ++ dec s.
Proof. exact unq_loop_dec. Qed.

(* Any number of cookies with distinct token names and Latin-1 values, sent back in one
   Cookie header: the request's mapping is exactly these pairs, each value identical. *)
Theorem cookie_among_others : forall cs : list (list N * list N),
  Forall good_pair cs -> NoDup (map fst cs) ->
  parse_cookies (cookie_header (map pair_text cs)) = cs /\
  forall n v, In (n, v) cs -> dict_get n (parse_cookies (cookie_header (map pair_text cs))) = Some v.
Proof. exact cookie_among_others_proof. Qed.

(* The same from the Set-Cookie texts: the client returns what stands before the first ';'. *)
Theorem set_cookie_round_trip : forall cks : list cookie,
  Forall good_cookie cks -> NoDup (map c_name cks) ->
  let header := cookie_header (map (fun c => pair_of_set_cookie (cookie_str c)) cks) in
  parse_cookies header = map pair_of_cookie cks /\
  forall c, In c cks -> dict_get (c_name c) (parse_cookies header) = Some (c_value c).
Proof. exact set_cookie_round_trip_proof. Qed.

(* Expires is the HTTP date of now + e, whatever the zone of the process. *)
Theorem expires_is_now_plus_e_gmt :
  forall (off : Z -> Z) (now e : Z) (key value : list N) (max_age : Z) (o : opts),
  ts_ok (now + e) = true ->
  exists c, set_cookie off now key value max_age (Some e) o = Made c /\
            expires_part c = [lit "expires=" ++ http_date (now + e)] /\
            has_attr (lit "expires=" ++ http_date (now + e)) c /\
            forall off', set_cookie off' now key value max_age (Some e) o = Made c.
Proof. exact expires_is_now_plus_e_gmt_proof. Qed.

(* What http_date prints: a valid calendar date and time of day whose meaning
   (days_from_civil, 86400 s per day) is exactly the instant, with the weekday of that day. *)
Theorem http_date_denotes : forall t : Z,
  http_date t = render_date (date_fields t) /\
  instant_of (date_fields t) = t /\
  let '(wd, (y, m, d), (hh, mm, ss)) := date_fields t in
  (wd = (days_from_civil y m d + 4) mod 7 /\
   1 <= m <= 12 /\ 1 <= d <= 31 /\ 0 <= hh < 24 /\ 0 <= mm < 60 /\ 0 <= ss < 60)%Z.
Proof. exact http_date_denotes_proof. Qed.

(* The computation before the repair printed the local wall clock as GMT ... *)
Theorem expires_orig_is_local :
  forall (off : Z -> Z) (now e : Z) (key value : list N) (max_age : Z) (o : opts),
  ts_ok (now + e) = true ->
  exists c, set_cookie_orig off now key value max_age (Some e) o = Made c /\
            expires_part c = [lit "expires=" ++ http_date (now + e + off (now + e)%Z)].
Proof. exact expires_orig_is_local_proof. Qed.

(* ... which differs from the repaired text in some zone. *)
Theorem expires_orig_refuted :
  exists (off : Z -> Z) (now e : Z),
    ts_ok (now + e) = true /\
    outcome_str (set_cookie_orig off now (lit "k") (lit "v") (-1) (Some e) default_opts) <>
    outcome_str (set_cookie off now (lit "k") (lit "v") (-1) (Some e) default_opts).
Proof. exact expires_orig_refuted_proof. Qed.

(* Max-Age is the requested number, and absent when none is requested. *)
Theorem max_age_verbatim :
  forall (off : Z -> Z) (now : Z) (key value : list N) (max_age : Z) (expires : option Z) (o : opts) (c : cookie),
  set_cookie off now key value max_age expires o = Made c ->
  c_max_age c = max_age /\
  ((max_age > -1)%Z -> max_age_part c = [lit "max-age=" ++ dec_z max_age] /\
                       has_attr (lit "max-age=" ++ dec_z max_age) c) /\
  ((max_age <= -1)%Z -> max_age_part c = []).
Proof. exact max_age_verbatim_proof. Qed.

(* Deleting emits an empty value, Expires = the date of now, Max-Age = 0. *)
Theorem delete_is_expired :
  forall (off : Z -> Z) (now : Z) (key : list N) (o : opts),
  ts_ok now = true ->
  exists c, delete_cookie off now key o = Made c /\
            c_name c = key /\ c_value c = [] /\
            has_attr (lit "expires=" ++ http_date now) c /\
            has_attr (lit "max-age=0") c.
Proof. exact delete_is_expired_proof. Qed.

Print Assumptions quote_ascii.
Print Assumptions unquote_quote.
Print Assumptions unquote_scanner.
Print Assumptions cookie_among_others.
Print Assumptions set_cookie_round_trip.
Print Assumptions expires_is_now_plus_e_gmt.
Print Assumptions http_date_denotes.
Print Assumptions expires_orig_is_local.
Print Assumptions expires_orig_refuted.
Print Assumptions max_age_verbatim.
Print Assumptions delete_is_expired.
