(* C16/PyLib — the Python library operations that tools/py2coq_c16.py emits calls to (besides those of Lib/PyStr.v),
   as total Gallina functions.  Text is a list of code points (list N), a Python int is Z (a code point / dict key: N).

   Every function states the Python expression it stands for; py2coq_c16.py refuses (fails closed) every other shape.
   The functions are compared with the interpreter's own behaviour by evaluation on every run of a check that uses a
   translated function (tools/py2coq_c16.py: pylib_check).  No proofs in this file (facts: C16/Translated.v). *)
From Coq Require Import List NArith ZArith Bool.
From Baize Require Import Lib.Wire Lib.PyStr.
Import ListNotations.
Local Open Scope N_scope.

(* string.ascii_letters   string.digits *)
Definition ascii_letters : list N :=
  [97; 98; 99; 100; 101; 102; 103; 104; 105; 106; 107; 108; 109; 110; 111; 112; 113; 114; 115; 116; 117; 118; 119; 120;
   121; 122; 65; 66; 67; 68; 69; 70; 71; 72; 73; 74; 75; 76; 77; 78; 79; 80; 81; 82; 83; 84; 85; 86; 87; 88; 89; 90].
Definition digits : list N := [48; 49; 50; 51; 52; 53; 54; 55; 56; 57].

(* bool(re.compile("[%s]+" % re.escape(chars)).fullmatch(v))   for a non-empty str chars: v is not empty and every
   character of v is one of chars (re.escape makes every character of chars stand for itself inside the class) *)
Definition fullmatch_class_plus (chars v : list N) : bool :=
  match v with [] => false | _ :: _ => forallb (fun c => PyStr.mem c chars) v end.

(* range(n) as the list of its members;  map(ord, s) is s itself (text is its code points) *)
Definition range (n : nat) : list N := map N.of_nat (seq 0 n).

(* set(l): a list without repetition (the order in which Python goes through a set is not specified; nothing below
   depends on it: the only consumer is a dict display, whose lookups do not depend on the order of distinct keys) *)
Fixpoint set_of (l : list N) : list N :=
  match l with
  | [] => []
  | x :: r => if PyStr.mem x r then set_of r else x :: set_of r
  end.

(* a - b   (sets) *)
Definition set_diff (a b : list N) : list N := filter (fun x => negb (PyStr.mem x b)) a.

(* a dict with int keys: an insertion-ordered association list; d[k] = v keeps the position of an existing key *)
Fixpoint dict_set (k : N) (v : list N) (d : list (N * list N)) : list (N * list N) :=
  match d with
  | [] => [(k, v)]
  | (k', v') :: r => if N.eqb k' k then (k', v) :: r else (k', v') :: dict_set k v r
  end.

Fixpoint dict_get (k : N) (d : list (N * list N)) : option (list N) :=
  match d with
  | [] => None
  | (k', v) :: r => if N.eqb k' k then Some v else dict_get k r
  end.

(* {f(n) ... for n in it}: the items are set one after the other *)
Definition dict_of_items (items : list (N * list N)) : list (N * list N) :=
  fold_left (fun d kv => dict_set (fst kv) (snd kv) d) items [].

(* "%03o" % n   for n >= 0: octal, zero-padded to three digits *)
Fixpoint oct_aux (fuel : nat) (n : N) (acc : list N) : list N :=
  match fuel with
  | O => acc
  | S f => if n <? 8 then (48 + n) :: acc else oct_aux f (n / 8) ((48 + n mod 8) :: acc)
  end.
Definition oct (n : N) : list N := oct_aux (S (N.size_nat n)) n [].
Definition fmt_03o (n : N) : list N := let d := oct n in repeat 48 (3 - length d) ++ d.

(* s.translate(table)   for a table whose values are all str: a character that is a key is replaced by its value,
   any other character stays *)
Definition tr_of (table : list (N * list N)) (c : N) : list N :=
  match dict_get c table with Some r => r | None => [c] end.
Definition translate (table : list (N * list N)) (s : list N) : list N := flat_map (tr_of table) s.

(* sep.join(parts) *)
Fixpoint join (sep : list N) (l : list (list N)) : list N :=
  match l with
  | [] => []
  | [a] => a
  | a :: r => a ++ sep ++ join sep r
  end.

(* str(n) / f"{n}" for an int n *)
Definition str_int (z : Z) : list N := dec_z z.

(* x in (a, b, ..)   for str x and a tuple of str *)
Definition in_strs (x : list N) (l : list (list N)) : bool := existsb (PyStr.str_eqb x) l.
