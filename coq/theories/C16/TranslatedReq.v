(* C16 — source-level tie, second part: the request side `cookies` (baize/requests.py) and the response side
   BaseResponse.set_cookie / delete_cookie (baize/responses.py).

   tools/py2coq_c16b.py regenerates, from the CURRENT Python source on every check run (harness/c16.py: extra_obligations),
   the Gallina definitions
     G.cookies         the cached property `cookies`: a function of http_cookies._unquote and of self.headers.get
     G.set_cookie      BaseResponse.set_cookie: a function of datetime.datetime.fromtimestamp(., tz=datetime.timezone.utc),
                       of the value of time.time(), of the list self.cookies before the call, and of its nine arguments in
                       the alphabetical order of their names; the result is the list self.cookies after the call
     G.delete_cookie   BaseResponse.delete_cookie, the same way (it calls G.set_cookie)
     G.set_cookie_defaults, G.delete_cookie_defaults   the defaults of the optional arguments
   and coqc re-checks this file against them (the two lines between the GENERATED markers re-pointed at the fresh file).
   GeneratedReq_ref.v is the committed copy of what the translator emitted when this file was written.

   The theorems
     cookies_translated_gen   G.cookies unq hg = Ret (parse_cookies_with unq (hg "cookie" ""))   for EVERY function unq in the
                              place of _unquote and every self.headers.get, when the header holds no white space character
                              on which str.isspace and the model's Latin-1 is_ws differ (ws_agree; every Latin-1 text is such)
     cookies_translated       ... = Ret (M.parse_cookies (hg "cookie" ""))   with unq := M.unquote, the model's _unquote (the
                              case stream of C16 compares M.unquote with the live http.cookies._unquote)
     cookies_translated_latin1   the same for a Latin-1 header
     set_cookie_translated    G.set_cookie = M.set_cookie: the Cookie object appended to self.cookies has exactly the fields of
                              the model's cookie record, or the exception of fromtimestamp propagates exactly when the model
                              says RangeError; DT := Z (the instant), time.time() := now, fromtimestamp(., tz=utc) := [fts exc]
                              (Ret t when M.ts_ok t, else Raise exc, for every exception name exc), fromtimestamp(.) without
                              tz := [fts_local exc off] (Ret (t + off t)): a source that calls it no longer proves
     delete_cookie_translated G.delete_cookie = M.delete_cookie the same way (value "", max_age 0, expires 0)
     defaults_translated      the defaults of set_cookie / delete_cookie are M.default_opts, value "", max_age -1, expires None
     set_cookie_text_translated  str() (the translated Cookie.__str__ of C16/Translated.v: str_translated) of the object the
                              translated set_cookie appends is M.outcome_str of the model's set_cookie
     one_cookie_round_trip    the translated set_cookie, the translated __str__, the client's cut before the first ';', and the
                              translated cookies parser give back exactly {key: value} for a token key and a Latin-1 value *)
From Coq Require Import List NArith ZArith Bool Arith Lia.
From Baize Require Import Lib.Wire Lib.PyStr Lib.PyStrFacts C16.PyLibReq.
From Baize Require C16.Model C16.Proofs C16.Translated.
(* GENERATED-BEGIN *)
From Baize Require C16.GeneratedReq_ref.
Module G := Baize.C16.GeneratedReq_ref.
(* GENERATED-END *)
Module M := Baize.C16.Model.
Module MP := Baize.C16.Proofs.
Module T := Baize.C16.Translated.
Import ListNotations.
Local Open Scope N_scope.

(* ---------------------------------------------------------------- the library functions are the model's *)

Definition ws_agree (c : N) : Prop := PyStr.is_space c = M.is_ws c.

Lemma latin1_ws_agree : forall c, c < 256 -> ws_agree c.
Proof.
  intros c Hc. unfold ws_agree. apply Bool.eqb_prop.
  apply (T.below_256 (fun c => Bool.eqb (PyStr.is_space c) (M.is_ws c))); [vm_compute; reflexivity|exact Hc].
Qed.

Lemma split_single : forall sep s, PyStr.split [sep] s = split_on sep s.
Proof.
  intros sep s. unfold PyStr.split. induction s as [|c r IH]; [reflexivity|].
  rewrite split_aux_single. cbn [split_on]. rewrite <- IH.
  destruct (PyStr.split_aux [sep] 0 r) as [w ws]. rewrite (N.eqb_sym sep c).
  destruct (N.eqb c sep); reflexivity.
Qed.

Lemma split_on_forall : forall (P : N -> Prop) sep s, Forall P s -> Forall (Forall P) (split_on sep s).
Proof.
  intros P sep s Hs. induction Hs as [|c r Hc Hr IH]; [repeat constructor|].
  cbn [split_on]. destruct (split_on sep r) as [|w ws]; [repeat constructor|].
  inversion IH as [|w0 ws0 Hw Hws]; subst.
  destruct (N.eqb c sep); repeat (constructor; try assumption).
Qed.

Lemma split_once_model : forall s, PyLibReq.split_once 61 s = M.split_eq s.
Proof.
  induction s as [|c r IH]; [reflexivity|].
  cbn [PyLibReq.split_once M.split_eq]. rewrite IH. reflexivity.
Qed.

Lemma split_eq_forall : forall (P : N -> Prop) s u v, Forall P s -> M.split_eq s = Some (u, v) -> Forall P u /\ Forall P v.
Proof.
  intros P s. induction s as [|c r IH]; intros u v Hs E; [discriminate|].
  inversion Hs as [|c0 r0 Hc Hr]; subst. cbn [M.split_eq] in E.
  destruct (N.eqb c 61).
  - inversion E; subst. split; [constructor|exact Hr].
  - destruct (M.split_eq r) as [[u0 v0]|]; [|discriminate]. inversion E; subst.
    destruct (IH u0 v Hr eq_refl) as [Hu Hv]. split; [constructor; assumption|exact Hv].
Qed.

Lemma contains_eq_model : forall s,
  PyStr.contains [61] s = match M.split_eq s with Some _ => true | None => false end.
Proof.
  intros s. rewrite contains_single. induction s as [|c r IH]; [reflexivity|].
  cbn [existsb M.split_eq]. rewrite IH, (N.eqb_sym 61 c).
  destruct (N.eqb c 61); [reflexivity|]. destruct (M.split_eq r) as [[u v]|]; reflexivity.
Qed.

Lemma lstrip_agree : forall s, Forall ws_agree s -> PyStr.lstrip_by PyStr.is_space s = M.lstrip s.
Proof.
  intros s Hs. induction Hs as [|c r Hc Hr IH]; [reflexivity|].
  cbn [PyStr.lstrip_by M.lstrip]. rewrite Hc, IH. reflexivity.
Qed.

Lemma lstrip_forall : forall (P : N -> Prop) s, Forall P s -> Forall P (M.lstrip s).
Proof.
  intros P s Hs. induction Hs as [|c r Hc Hr IH]; [constructor|].
  cbn [M.lstrip]. destruct (M.is_ws c); [exact IH|constructor; assumption].
Qed.

Lemma forall_rev : forall (P : N -> Prop) s, Forall P s -> Forall P (rev s).
Proof.
  intros P s Hs. apply Forall_forall. intros x Hx. apply in_rev in Hx.
  rewrite Forall_forall in Hs. apply Hs. exact Hx.
Qed.

Lemma rstrip_app_last : forall sp s c,
  PyStr.rstrip_by sp (s ++ [c]) = if sp c then PyStr.rstrip_by sp s else s ++ [c].
Proof.
  intros sp s c. induction s as [|x r IH].
  - cbn [app PyStr.rstrip_by]. destruct (sp c); reflexivity.
  - cbn [app PyStr.rstrip_by]. rewrite IH. destruct (sp c); [reflexivity|].
    destruct r; reflexivity.
Qed.

Lemma rstrip_rev : forall sp s, PyStr.rstrip_by sp s = rev (PyStr.lstrip_by sp (rev s)).
Proof.
  intros sp s. induction s as [|c l IH] using rev_ind; [reflexivity|].
  rewrite rstrip_app_last, rev_app_distr. cbn [rev app PyStr.lstrip_by].
  destruct (sp c); [exact IH|].
  cbn [rev]. rewrite rev_involutive. reflexivity.
Qed.

Lemma strip_model : forall s, Forall ws_agree s -> PyStr.strip_ws s = M.strip s.
Proof.
  intros s Hs. unfold PyStr.strip_ws, PyStr.strip_by, M.strip.
  rewrite rstrip_rev. rewrite (lstrip_agree s Hs).
  rewrite lstrip_agree; [reflexivity|]. apply forall_rev. apply lstrip_forall. exact Hs.
Qed.

Lemma str_eqb_sym_model : forall a b, PyStr.str_eqb b a = M.str_eqb a b.
Proof.
  induction a as [|x a IH]; intros [|y b]; cbn [PyStr.str_eqb M.str_eqb]; try reflexivity.
  rewrite IH, (N.eqb_sym y x). reflexivity.
Qed.

Lemma dict_set_model : forall k v d, PyStr.dict_set k v d = M.dict_set k v d.
Proof.
  intros k v d. induction d as [|[k' v'] r IH]; [reflexivity|].
  cbn [PyStr.dict_set M.dict_set]. rewrite str_eqb_sym_model, IH. reflexivity.
Qed.

Lemma for_each_fold : forall (St A : Type) (body : St -> A -> PyStr.outcome St) (step : St -> A -> St) (P : A -> Prop),
  (forall st x, P x -> body st x = PyStr.Ret (step st x)) ->
  forall l st, Forall P l -> PyLibReq.for_each body l st = PyStr.Ret (fold_left step l st).
Proof.
  intros St A body step P Hb l. induction l as [|x r IH]; intros st Hl; [reflexivity|].
  inversion Hl as [|x0 r0 Hx Hr]; subst.
  cbn [PyLibReq.for_each fold_left]. rewrite (Hb st x Hx). apply IH. exact Hr.
Qed.

(* ---------------------------------------------------------------- cookies *)

(* M.cookie_step / M.parse_cookies with the function in the place of _unquote made an argument *)
Definition cookie_step_with (unq : list N -> list N) (d : list (list N * list N)) (chunk : list N) : list (list N * list N) :=
  match chunk with
  | [] => d
  | _ =>
      let '(key, val) := match M.split_eq chunk with
                         | Some kv => kv
                         | None => ([], chunk)
                         end in
      let key := M.strip key in
      let val := M.strip val in
      if M.nonempty key || M.nonempty val then M.dict_set key (unq val) d else d
  end.

Definition parse_cookies_with (unq : list N -> list N) (header : list N) : list (list N * list N) :=
  fold_left (cookie_step_with unq) (split_on 59 header) [].

Lemma parse_cookies_with_model : forall header, parse_cookies_with M.unquote header = M.parse_cookies header.
Proof. reflexivity. Qed.

Definition cookie_key : list N := lit "cookie".
Lemma cookie_key_lit : cookie_key = [99; 111; 111; 107; 105; 101].
Proof. reflexivity. Qed.

Lemma nonempty_is_empty : forall s : list N, negb (PyStr.is_empty s) = M.nonempty s.
Proof. intros [|c r]; reflexivity. Qed.

Theorem cookies_translated_gen : forall (unq : list N -> list N) (hg : list N -> list N -> list N),
  Forall ws_agree (hg cookie_key []) ->
  G.cookies unq hg = PyStr.Ret (parse_cookies_with unq (hg cookie_key [])).
Proof.
  intros unq hg Hh. rewrite cookie_key_lit in *.
  unfold G.cookies, parse_cookies_with. cbv beta zeta.
  rewrite split_single.
  erewrite (for_each_fold _ _ _ (cookie_step_with unq) (Forall ws_agree)).
  - reflexivity.
  - intros d chunk Hc. unfold cookie_step_with.
    destruct chunk as [|c0 r]; [reflexivity|].
    cbn [PyStr.is_empty negb].
    rewrite contains_eq_model. unfold PyLibReq.split_max1. rewrite split_once_model.
    destruct (M.split_eq (c0 :: r)) as [[u v]|] eqn:E; cbn [negb PyLibReq.unpack2]; cbv beta iota.
    + destruct (split_eq_forall ws_agree _ u v Hc E) as [Hu Hv].
      rewrite ?(strip_model u Hu), ?(strip_model v Hv), ?nonempty_is_empty, ?dict_set_model.
      destruct (M.nonempty (M.strip u)), (M.nonempty (M.strip v)); reflexivity.
    + assert (Hn : Forall ws_agree []) by constructor.
      rewrite ?(strip_model [] Hn), ?(strip_model (c0 :: r) Hc), ?nonempty_is_empty, ?dict_set_model.
      destruct (M.nonempty (M.strip [])), (M.nonempty (M.strip (c0 :: r))); reflexivity.
  - apply split_on_forall. exact Hh.
Qed.
Print Assumptions cookies_translated_gen.

Theorem cookies_translated : forall hg : list N -> list N -> list N,
  Forall ws_agree (hg cookie_key []) ->
  G.cookies M.unquote hg = PyStr.Ret (M.parse_cookies (hg cookie_key [])).
Proof.
  intros hg Hh. rewrite (cookies_translated_gen M.unquote hg Hh). reflexivity.
Qed.
Print Assumptions cookies_translated.

Theorem cookies_translated_latin1 : forall hg : list N -> list N -> list N,
  Forall MP.latin1 (hg cookie_key []) ->
  G.cookies M.unquote hg = PyStr.Ret (M.parse_cookies (hg cookie_key [])).
Proof.
  intros hg Hh. apply cookies_translated.
  eapply Forall_impl; [|exact Hh]. intros c Hc. apply latin1_ws_agree. exact Hc.
Qed.
Print Assumptions cookies_translated_latin1.

(* ---------------------------------------------------------------- set_cookie / delete_cookie *)

(* datetime.datetime.fromtimestamp(t, tz=datetime.timezone.utc): the datetime object is the instant (DT := Z), as in the
   model; outside the years 1..9999 it raises (the name of the exception is arbitrary) *)
Definition fts (exc : list N) (t : Z) : PyStr.outcome Z :=
  if M.ts_ok t then PyStr.Ret t else PyStr.Raise exc.

(* datetime.datetime.fromtimestamp(t) without tz: the naive wall clock of the process zone [off] (seconds east of UTC at an
   instant); printed with a literal "GMT" it denotes t + off t (M.expires_instant_orig).  The current source does not call
   it; a source that does (the code before the repair) no longer proves. *)
Definition fts_local (exc : list N) (off : Z -> Z) (t : Z) : PyStr.outcome Z :=
  if M.ts_ok t then PyStr.Ret (t + off t)%Z else PyStr.Raise exc.

Definition obj_of (c : M.cookie) : PyLibReq.cookie_obj Z :=
  {| PyLibReq.a_name := M.c_name c; PyLibReq.a_value := M.c_value c; PyLibReq.a_expires := M.c_expires c;
     PyLibReq.a_domain := M.c_domain c; PyLibReq.a_path := M.c_path c; PyLibReq.a_httponly := M.c_httponly c;
     PyLibReq.a_secure := M.c_secure c; PyLibReq.a_max_age := M.c_max_age c; PyLibReq.a_samesite := M.c_samesite c |}.

(* self.cookies after the call, or the exception *)
Definition result_of (exc : list N) (cookies : list (PyLibReq.cookie_obj Z)) (r : M.outcome)
  : PyStr.outcome (list (PyLibReq.cookie_obj Z)) :=
  match r with
  | M.Made c => PyStr.Ret (cookies ++ [obj_of c])
  | M.RangeError => PyStr.Raise exc
  end.

Definition opts_of (path : list N) (domain : option (list N)) (secure httponly : bool) (samesite : list N) : M.opts :=
  {| M.o_path := Some path; M.o_domain := domain; M.o_secure := secure; M.o_httponly := httponly; M.o_samesite := samesite |}.

Theorem set_cookie_translated :
  forall (exc : list N) (off : Z -> Z) (now : Z) (cookies : list (PyLibReq.cookie_obj Z))
         (key value : list N) (max_age : Z) (expires : option Z) (path : list N) (domain : option (list N))
         (secure httponly : bool) (samesite : list N),
  G.set_cookie (fts exc) (fts_local exc off) now cookies domain expires httponly key max_age path samesite secure value =
  result_of exc cookies (M.set_cookie off now key value max_age expires (opts_of path domain secure httponly samesite)).
Proof.
  intros. unfold G.set_cookie, M.set_cookie, M.set_cookie_with, M.expires_instant, fts, fts_local, opts_of, result_of, obj_of.
  cbv beta zeta.
  destruct expires as [e|]; [|reflexivity].
  cbv beta iota. rewrite ?(Z.add_comm e now). destruct (M.ts_ok (now + e)); reflexivity.
Qed.
Print Assumptions set_cookie_translated.

Theorem delete_cookie_translated :
  forall (exc : list N) (off : Z -> Z) (now : Z) (cookies : list (PyLibReq.cookie_obj Z))
         (key value path : list N) (domain : option (list N)) (secure httponly : bool) (samesite : list N),
  G.delete_cookie (fts exc) (fts_local exc off) now cookies domain httponly key path samesite secure value =
  result_of exc cookies (M.delete_cookie off now key (opts_of path domain secure httponly samesite)).
Proof.
  intros. unfold G.delete_cookie, M.delete_cookie.
  apply (set_cookie_translated exc off now cookies key [] 0%Z (Some 0%Z)).
Qed.
Print Assumptions delete_cookie_translated.

Theorem defaults_translated :
  G.set_cookie_defaults =
    (M.o_domain M.default_opts, None, M.o_httponly M.default_opts, (-1)%Z, lit "/", M.o_samesite M.default_opts,
     M.o_secure M.default_opts, []) /\
  G.delete_cookie_defaults =
    (M.o_domain M.default_opts, M.o_httponly M.default_opts, lit "/", M.o_samesite M.default_opts,
     M.o_secure M.default_opts, []) /\
  M.o_path M.default_opts = Some (lit "/").
Proof. repeat split; reflexivity. Qed.
Print Assumptions defaults_translated.

(* ---------------------------------------------------------------- composed with Cookie.__str__ (C16/Translated.v) *)

(* str(<Cookie object>): the translated Cookie.__str__ *)
Definition obj_str (strftime : Z -> list N -> list N) (o : PyLibReq.cookie_obj Z) : list N :=
  T.G.to_str strftime (PyLibReq.a_domain o) (PyLibReq.a_expires o) (PyLibReq.a_httponly o) (PyLibReq.a_max_age o)
             (PyLibReq.a_name o) (PyLibReq.a_path o) (PyLibReq.a_samesite o) (PyLibReq.a_secure o) (PyLibReq.a_value o).

Lemma obj_str_model : forall strftime, (forall t, strftime t T.date_format = M.http_date t) ->
  forall c, obj_str strftime (obj_of c) = M.cookie_str c.
Proof. intros strftime Hf c. exact (T.str_translated strftime Hf c). Qed.

(* the Set-Cookie texts of a response that had no cookie before the call *)
Definition texts_of (strftime : Z -> list N -> list N) (r : PyStr.outcome (list (PyLibReq.cookie_obj Z))) : option (list (list N)) :=
  match r with PyStr.Ret l => Some (map (obj_str strftime) l) | PyStr.Raise _ => None end.

Theorem set_cookie_text_translated :
  forall (strftime : Z -> list N -> list N), (forall t, strftime t T.date_format = M.http_date t) ->
  forall (exc : list N) (off : Z -> Z) (now : Z) (key value : list N) (max_age : Z) (expires : option Z) (path : list N)
         (domain : option (list N)) (secure httponly : bool) (samesite : list N),
  texts_of strftime (G.set_cookie (fts exc) (fts_local exc off) now [] domain expires httponly key max_age path samesite secure value) =
  option_map (fun s => [s]) (M.outcome_str (M.set_cookie off now key value max_age expires (opts_of path domain secure httponly samesite))).
Proof.
  intros strftime Hf exc off now key value max_age expires path domain secure httponly samesite.
  rewrite (set_cookie_translated exc off).
  destruct (M.set_cookie off now key value max_age expires (opts_of path domain secure httponly samesite)) as [c|]; [|reflexivity].
  cbn [result_of texts_of app map M.outcome_str option_map]. rewrite (obj_str_model strftime Hf). reflexivity.
Qed.
Print Assumptions set_cookie_text_translated.

(* ---------------------------------------------------------------- the round trip of one cookie, from the translated definitions *)

Lemma pair_text_latin1 : forall key value, MP.is_token key = true -> Forall MP.latin1 value ->
  Forall MP.latin1 (MP.pair_text (key, value)).
Proof.
  intros key value Hk Hv. unfold MP.pair_text. cbn [fst snd].
  destruct (MP.token_facts _ Hk) as (_ & _ & Hl).
  apply Forall_app. split.
  - eapply Forall_impl; [|exact Hl]. intros c Hc. apply MP.legal_latin1. exact Hc.
  - constructor; [unfold MP.latin1; lia|].
    destruct (MP.quote_ascii_proof value Hv) as [Hq _].
    eapply Forall_impl; [|exact Hq]. intros c [Hc _]. unfold MP.latin1. lia.
Qed.

Theorem one_cookie_round_trip :
  forall (strftime : Z -> list N -> list N), (forall t, strftime t T.date_format = M.http_date t) ->
  forall (exc : list N) (off : Z -> Z) (now : Z) (key value : list N) (max_age : Z) (expires : option Z) (path : list N)
         (domain : option (list N)) (secure httponly : bool) (samesite : list N)
         (l : list (PyLibReq.cookie_obj Z)) (o : PyLibReq.cookie_obj Z),
  MP.is_token key = true -> Forall MP.latin1 value ->
  G.set_cookie (fts exc) (fts_local exc off) now [] domain expires httponly key max_age path samesite secure value = PyStr.Ret l ->
  In o l ->
  G.cookies M.unquote (fun _ _ => M.pair_of_set_cookie (obj_str strftime o)) = PyStr.Ret [(key, value)].
Proof.
  intros strftime Hf exc off now key value max_age expires path domain secure httponly samesite l o Hk Hv Hset Hin.
  rewrite (set_cookie_translated exc off) in Hset.
  destruct (M.set_cookie off now key value max_age expires (opts_of path domain secure httponly samesite)) as [c|] eqn:E;
    cbn [result_of app] in Hset; [|discriminate].
  inversion Hset; subst l. destruct Hin as [Ho|[]]. subst o.
  rewrite (obj_str_model strftime Hf).
  assert (Hc : M.c_name c = key /\ M.c_value c = value).
  { unfold M.set_cookie, M.set_cookie_with in E.
    destruct expires as [e|]; [destruct (M.ts_ok (now + e)); [|discriminate]|]; inversion E; split; reflexivity. }
  destruct Hc as [Hn Hval].
  assert (Hg : MP.good_cookie c).
  { unfold MP.good_cookie, MP.good_pair. cbn [fst snd]. rewrite Hn, Hval. split; assumption. }
  rewrite (MP.set_cookie_pair c Hg). unfold MP.pair_of_cookie. rewrite Hn, Hval.
  rewrite cookies_translated_latin1 by (apply pair_text_latin1; assumption).
  f_equal.
  assert (Hgp : Forall MP.good_pair [(key, value)]) by (constructor; [split; assumption|constructor]).
  assert (Hnd : NoDup (map fst [(key, value)])) by (cbn [map fst]; constructor; [intros []|constructor]).
  destruct (MP.cookie_among_others_proof [(key, value)] Hgp Hnd) as [Hp _].
  exact Hp.
Qed.
Print Assumptions one_cookie_round_trip.
