(* C16/PyLibReq — the Python operations that tools/py2coq_c16b.py emits calls to (besides those of Lib/PyStr.v), as total
   Gallina functions.  Text is a list of code points (list N), a Python int is Z.

   Every function states the Python it stands for; py2coq_c16b.py refuses (fails closed) every other shape.  split_once
   and unpack2 are compared with the interpreter by evaluation on every run (tools/py2coq_c16b.py: pylibreq_check).
   No proofs in this file (facts: C16/TranslatedReq.v). *)
From Coq Require Import List NArith ZArith Bool.
From Baize Require Import Lib.PyStr.
Import ListNotations.
Local Open Scope N_scope.

(* s.split(sep, 1)   (sep ONE character): one member when sep is not in s, else the text before the first sep and the
   text behind it *)
Fixpoint split_once (sep : N) (s : str) : option (str * str) :=
  match s with
  | [] => None
  | c :: r =>
      if N.eqb c sep then Some ([], r)
      else match split_once sep r with
           | Some (u, v) => Some (c :: u, v)
           | None => None
           end
  end.
Definition split_max1 (sep : N) (s : str) : list str :=
  match split_once sep s with Some (u, v) => [u; v] | None => [s] end.

(* a, b = l   (l a list): None stands for the ValueError of the unpacking (len(l) != 2) *)
Definition unpack2 {A : Type} (l : list A) : option (A * A) :=
  match l with [a; b] => Some (a, b) | _ => None end.

(* for x in l: <body>   where the body changes the variables [st], ends normally or with `continue` (Ret) or raises *)
Fixpoint for_each {S A : Type} (body : S -> A -> PyStr.outcome S) (l : list A) (st : S) : PyStr.outcome S :=
  match l with
  | [] => PyStr.Ret st
  | x :: r =>
      match body st x with
      | PyStr.Ret st' => for_each body r st'
      | PyStr.Raise e => PyStr.Raise e
      end
  end.

(* a Cookie object (baize/datastructures.py): the nine attributes Cookie.__init__ stores; DT = the type of datetime objects *)
Record cookie_obj (DT : Type) := {
  a_name : str;
  a_value : str;
  a_expires : option DT;
  a_domain : option str;
  a_path : option str;
  a_httponly : bool;
  a_secure : bool;
  a_max_age : Z;
  a_samesite : str }.
Arguments a_name {DT} c.
Arguments a_value {DT} c.
Arguments a_expires {DT} c.
Arguments a_domain {DT} c.
Arguments a_path {DT} c.
Arguments a_httponly {DT} c.
Arguments a_secure {DT} c.
Arguments a_max_age {DT} c.
Arguments a_samesite {DT} c.
