(* C16 — source-level tie for Cookie._quote and Cookie.__str__ (baize/datastructures.py) and the module-level
   definitions they use.

   tools/py2coq_c16.py regenerates, from the CURRENT Python source on every check run (harness/c16.py:
   extra_obligations), the Gallina definitions
     G.legal_chars    _cookie_legal_chars   (string.ascii_letters + string.digits + the literal)
     G.is_legal_key   _cookie_is_legal_key  (re.compile("[%s]+" % re.escape(_cookie_legal_chars)).fullmatch, as a condition)
     G.translator     _cookie_translator    (the dict display: its construction is translated, not its value)
     G.quote          Cookie._quote
     G.to_str         Cookie.__str__        (a function of the nine attributes, in alphabetical order, of the type DT of
                                             datetime objects and of DT's strftime method)
   and coqc re-checks this file against them (the two lines between the GENERATED markers re-pointed at the fresh file).
   Generated_ref.v is the committed copy of what the translator emitted when this file was written.  The library
   operations are the functions of Lib/PyStr.v and C16/PyLib.v (compared with the interpreter on every run).

   The theorems
     legal_key_translated   G.is_legal_key v = M.is_legal_key v                                   for every text v
     translate_translated   PyLib.translate G.translator v = flat_map M.tr v                      for every text v
                            (every code point, also above 255, where the table has no key)
     quote_translated       G.quote v = M.quote v                                                 for every text v
     str_translated         G.to_str strftime <the fields of c> = M.cookie_str c                  for every cookie record c
                            and every strftime that renders "%a, %d %b %Y %H:%M:%S GMT" as M.http_date does (the datetime
                            object is the instant it denotes when printed as GMT, as in the model: DT := Z); nothing else
                            is assumed about strftime: another format string in the source breaks the proof *)
From Coq Require Import List NArith ZArith Bool Arith Lia.
From Baize Require Import Lib.Wire Lib.PyStr Lib.PyStrFacts C16.PyLib.
From Baize Require C16.Model.
(* GENERATED-BEGIN *)
From Baize Require C16.Generated_ref.
Module G := Baize.C16.Generated_ref.
(* GENERATED-END *)
Module M := Baize.C16.Model.
Import ListNotations.
Local Open Scope N_scope.

(* ---------------------------------------------------------------- finite checks *)

Lemma in_range : forall n c, c < N.of_nat n -> In c (PyLib.range n).
Proof.
  intros n c Hc. unfold PyLib.range. rewrite <- (N2Nat.id c). apply in_map. apply in_seq. lia.
Qed.

Lemma below_256 : forall (P : N -> bool), forallb P (PyLib.range 256) = true -> forall c, c < 256 -> P c = true.
Proof.
  intros P HP c Hc. rewrite forallb_forall in HP. apply HP. apply in_range. exact Hc.
Qed.

Lemma mem_above : forall b l c, forallb (fun x => x <? b) l = true -> b <= c -> PyStr.mem c l = false.
Proof.
  intros b l c. unfold PyStr.mem. induction l as [|x r IH]; intros Hl Hc; [reflexivity|].
  cbn [forallb existsb] in *. apply andb_prop in Hl. destruct Hl as [Hx Hr].
  apply N.ltb_lt in Hx. rewrite IH by assumption.
  destruct (N.eqb_spec c x) as [E|E]; [lia|reflexivity].
Qed.

Lemma dict_get_above : forall b d c,
  forallb (fun kv : N * list N => fst kv <? b) d = true -> b <= c -> PyLib.dict_get c d = None.
Proof.
  intros b d c. induction d as [|[k v] r IH]; intros Hd Hc; [reflexivity|].
  cbn [forallb PyLib.dict_get fst] in *. apply andb_prop in Hd. destruct Hd as [Hk Hr].
  apply N.ltb_lt in Hk. destruct (N.eqb_spec k c) as [E|E]; [lia|]. apply IH; assumption.
Qed.

Lemma between_above : forall lo hi c, hi < c -> M.between lo hi c = false.
Proof.
  intros lo hi c Hc. unfold M.between. destruct (N.leb_spec c hi) as [E|E]; [lia|]. apply andb_false_r.
Qed.

Lemma is_legal_above : forall c, 256 <= c -> M.is_legal c = false.
Proof.
  intros c Hc. unfold M.is_legal, M.is_token_char, M.is_alpha, M.is_dig.
  rewrite !between_above by lia.
  change (M.in_list c M.token_punct) with (PyStr.mem c M.token_punct).
  rewrite (mem_above 256) by (reflexivity || lia).
  destruct (N.eqb_spec c 58) as [E|E]; [lia|reflexivity].
Qed.

Lemma is_special_above : forall c, 256 <= c -> M.is_special c = false.
Proof.
  intros c Hc. change (M.is_special c) with (PyStr.mem c M.special).
  apply (mem_above 256); [reflexivity|exact Hc].
Qed.

Lemma tr_above : forall c, 256 <= c -> M.tr c = [c].
Proof.
  intros c Hc. unfold M.tr, M.dquote, M.bslash.
  destruct (N.eqb_spec c 34) as [E|E]; [lia|]. destruct (N.eqb_spec c 92) as [E2|E2]; [lia|].
  rewrite is_legal_above, is_special_above by exact Hc. cbn [orb].
  destruct (N.ltb_spec c 256) as [E3|E3]; [lia|reflexivity].
Qed.

(* ---------------------------------------------------------------- the legal-key test *)

Lemma legal_chars_translated : forall c, PyStr.mem c G.legal_chars = M.is_legal c.
Proof.
  intros c. destruct (N.ltb_spec c 256) as [Hc|Hc].
  - apply Bool.eqb_prop.
    apply (below_256 (fun c => Bool.eqb (PyStr.mem c G.legal_chars) (M.is_legal c))); [vm_compute; reflexivity|exact Hc].
  - rewrite is_legal_above by exact Hc. apply (mem_above 256); [vm_compute; reflexivity|exact Hc].
Qed.

Theorem legal_key_translated : forall v : list N, G.is_legal_key v = M.is_legal_key v.
Proof.
  intros v. unfold G.is_legal_key, PyLib.fullmatch_class_plus, M.is_legal_key.
  destruct v as [|c r]; [reflexivity|].
  apply forallb_ext_in || idtac.
  induction (c :: r) as [|x l IH]; [reflexivity|].
  cbn [forallb]. rewrite legal_chars_translated, IH. reflexivity.
Qed.
Print Assumptions legal_key_translated.

(* ---------------------------------------------------------------- the translation table *)

Lemma tr_translated : forall c, tr_of G.translator c = M.tr c.
Proof.
  intros c. destruct (N.ltb_spec c 256) as [Hc|Hc].
  - apply PyStrFacts.str_eqb_eq.
    apply (below_256 (fun c => PyStr.str_eqb (tr_of G.translator c) (M.tr c))); [vm_compute; reflexivity|exact Hc].
  - rewrite tr_above by exact Hc. unfold tr_of.
    rewrite (dict_get_above 256); [reflexivity|vm_compute; reflexivity|exact Hc].
Qed.

Theorem translate_translated : forall v : list N, PyLib.translate G.translator v = flat_map M.tr v.
Proof.
  intros v. unfold PyLib.translate. induction v as [|c r IH]; [reflexivity|].
  cbn [flat_map]. rewrite IH, tr_translated. reflexivity.
Qed.
Print Assumptions translate_translated.

(* ---------------------------------------------------------------- Cookie._quote *)

Theorem quote_translated : forall v : list N, G.quote v = M.quote v.
Proof.
  intros v. unfold G.quote, M.quote. rewrite legal_key_translated, ?translate_translated.
  destruct (M.is_legal_key v); reflexivity.
Qed.
Print Assumptions quote_translated.

(* ---------------------------------------------------------------- Cookie.__str__ *)

Definition date_format : list N := lit "%a, %d %b %Y %H:%M:%S GMT".

Lemma date_format_lit : date_format = [37; 97; 44; 32; 37; 100; 32; 37; 98; 32; 37; 89; 32; 37; 72; 58; 37; 77; 58; 37; 83; 32; 71; 77; 84].
Proof. reflexivity. Qed.

Lemma str_eqb_model : forall a b, PyStr.str_eqb a b = M.str_eqb a b.
Proof.
  induction a as [|x a IH]; intros [|y b]; cbn [PyStr.str_eqb M.str_eqb]; try rewrite IH; reflexivity.
Qed.

Lemma in_strs_two : forall x a b, PyLib.in_strs x [a; b] = M.str_eqb x a || M.str_eqb x b.
Proof. intros x a b. unfold PyLib.in_strs. cbn [existsb]. rewrite !str_eqb_model, orb_false_r. reflexivity. Qed.

Lemma lit_strict : lit "strict" = [115; 116; 114; 105; 99; 116]. Proof. reflexivity. Qed.
Lemma lit_none : lit "none" = [110; 111; 110; 101]. Proof. reflexivity. Qed.

Theorem str_translated : forall (strftime : Z -> list N -> list N),
  (forall t, strftime t date_format = M.http_date t) ->
  forall c : M.cookie,
  G.to_str strftime (M.c_domain c) (M.c_expires c) (M.c_httponly c) (M.c_max_age c) (M.c_name c) (M.c_path c)
           (M.c_samesite c) (M.c_secure c) (M.c_value c) = M.cookie_str c.
Proof.
  intros strftime Hfmt c. destruct c as [n v e d p h s m ss].
  unfold M.cookie_str, M.cookie_parts, M.expires_part, M.max_age_part, M.opt_part, M.truthy.
  cbv beta iota delta [M.c_name M.c_value M.c_expires M.c_domain M.c_path M.c_httponly M.c_secure M.c_max_age M.c_samesite].
  unfold G.to_str, PyLib.str_int.
  rewrite ?in_strs_two, lit_strict, lit_none.
  try rewrite (quote_translated n). try rewrite (quote_translated v).
  rewrite <- ?orb_assoc.
  generalize (M.quote n) (M.quote v) (dec_z m). intros qn qv dm.
  destruct e as [t|]; cbv beta iota;
    [ pose proof (Hfmt t) as Ht; rewrite date_format_lit in Ht; try (rewrite Ht); generalize (M.http_date t); intros ht | ];
    first
      [ solve [ destruct (s || (M.str_eqb ss [115; 116; 114; 105; 99; 116] || M.str_eqb ss [110; 111; 110; 101]));
                destruct (Z.gtb m (-1)), h, d as [[|d0 dr]|], p as [[|p0 pr]|]; reflexivity ]
      | (* the condition of the secure part is written in another way in the source: case by case *)
        destruct s, (M.str_eqb ss [115; 116; 114; 105; 99; 116]), (M.str_eqb ss [110; 111; 110; 101]),
                 (Z.gtb m (-1)), h, d as [[|d0 dr]|], p as [[|p0 pr]|]; reflexivity ].
Qed.
Print Assumptions str_translated.
