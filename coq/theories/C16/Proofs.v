(* C16 — proofs about the cookie model. *)
From Coq Require Import List NArith ZArith Bool Lia Arith.
From Baize Require Import Lib.Wire C16.Model.
Import ListNotations.

Definition latin1 (c : N) : Prop := (c < 256)%N.

(* ================================================================ bounded checks *)

(* a decidable fact about every code point below n, decided by running it *)
Fixpoint all_below (n : nat) (p : N -> bool) : bool :=
  match n with
  | O => true
  | S k => p (N.of_nat k) && all_below k p
  end.

Lemma all_below_spec n p : all_below n p = true -> forall c, (c < N.of_nat n)%N -> p c = true.
Proof.
  induction n as [|k IH]; cbn [all_below]; intros H c Hc.
  - lia.
  - apply andb_true_iff in H as [H1 H2].
    destruct (N.eq_dec c (N.of_nat k)) as [->|Hne]; [exact H1|].
    apply IH; [exact H2|lia].
Qed.

Lemma latin1_check p : all_below 256 p = true -> forall c, latin1 c -> p c = true.
Proof. intros H c Hc. apply (all_below_spec 256 p H). exact Hc. Qed.

(* ================================================================ list helpers *)

Lemma skipn_add {A} (k n : nat) (s : list A) : skipn (k + n) s = skipn n (skipn k s).
Proof.
  revert s; induction k as [|k IH]; intros s; [reflexivity|].
  destruct s as [|c r]; cbn [plus skipn]; [now destruct n|apply IH].
Qed.

Lemma nth_add {A} (k n : nat) (s : list A) d : nth (k + n) s d = nth n (skipn k s) d.
Proof.
  revert s; induction k as [|k IH]; intros s; [reflexivity|].
  destruct s as [|c r]; cbn [plus skipn nth]; [now destruct n|apply IH].
Qed.

(* ================================================================ the scanner of _unquote *)

(* A one-pass decoder: what the search loop of _unquote computes. *)
Fixpoint dec (s : list N) : list N :=
  match s with
  | [] => []
  | c :: r =>
      if o_at s then
        match r with
        | a :: b :: d :: r3 => oct_val [a; b; d] :: dec r3
        | _ => []
        end
      else if q_at s then
        match r with
        | x :: r1 => x :: dec r1
        | [] => []
        end
      else c :: dec r
  end.

Lemma o_at_q_at s : o_at s = true -> q_at s = true.
Proof.
  destruct s as [|c [|a [|b [|d r]]]]; cbn [o_at q_at]; try discriminate.
  intros H. repeat (apply andb_true_iff in H as [H ?]).
  rewrite H. cbn [andb]. unfold between in *.
  apply andb_true_iff in H2 as [Ha _]. apply N.leb_le in Ha.
  apply negb_true_iff. apply N.eqb_neq. lia.
Qed.

Lemma search_some p s k : search p s = Some k ->
  p (skipn k s) = true /\ (forall i, i < k -> p (skipn i s) = false) /\ k < length s.
Proof.
  revert k; induction s as [|c r IH]; intros k; cbn [search]; [discriminate|].
  destruct (p (c :: r)) eqn:E.
  - intros [= <-]. cbn [skipn length]. repeat split; [exact E|lia|lia].
  - destruct (search p r) as [k'|]; cbn [option_map]; [|discriminate].
    intros [= <-]. destruct (IH k' eq_refl) as (H1 & H2 & H3).
    cbn [skipn length]. repeat split; [exact H1| |lia].
    intros [|i] Hi; [exact E|]. cbn [skipn]. apply H2. lia.
Qed.

Lemma search_none p s : search p s = None -> forall i, i < length s -> p (skipn i s) = false.
Proof.
  induction s as [|c r IH]; cbn [search length]; intros H i Hi; [lia|].
  destruct (p (c :: r)) eqn:E; [discriminate|].
  destruct (search p r); [discriminate|].
  destruct i as [|i]; [exact E|]. cbn [skipn]. apply IH; [reflexivity|lia].
Qed.

Lemma dec_plain c r : q_at (c :: r) = false -> dec (c :: r) = c :: dec r.
Proof.
  intros Hq. cbn [dec]. rewrite Hq.
  destruct (o_at (c :: r)) eqn:Ho; [|reflexivity].
  apply o_at_q_at in Ho. congruence.
Qed.

Lemma dec_skip k : forall s, (forall i, i < k -> q_at (skipn i s) = false) -> k <= length s ->
  dec s = firstn k s ++ dec (skipn k s).
Proof.
  induction k as [|k IH]; intros s H Hl; [reflexivity|].
  destruct s as [|c r]; [cbn [length] in Hl; lia|].
  cbn [firstn skipn app]. rewrite dec_plain by (apply (H 0); lia).
  f_equal. apply IH; [|cbn [length] in Hl; lia].
  intros i Hi. apply (H (S i)). lia.
Qed.

Lemma dec_none s : (forall i, i < length s -> q_at (skipn i s) = false) -> dec s = s.
Proof.
  intros H. rewrite (dec_skip (length s) s H (le_n _)).
  rewrite firstn_all, skipn_all. cbn [dec]. apply app_nil_r.
Qed.

(* one step of the loop at a quote escape *)
Lemma at_quote s k : k < length s -> q_at (skipn k s) = true -> o_at (skipn k s) = false ->
  (forall i, i < k -> q_at (skipn i s) = false) ->
  dec s = (firstn k s ++ [nth (k + 1) s 0%N]) ++ dec (skipn (k + 2) s).
Proof.
  intros Hk Hq Ho Hmin.
  rewrite (dec_skip k s Hmin) by lia.
  rewrite nth_add, skipn_add.
  destruct (skipn k s) as [|c [|x r1]] eqn:E; cbn [q_at] in Hq; try discriminate.
  cbn [dec]. rewrite Ho. cbn [q_at]. rewrite Hq. cbn [nth skipn].
  rewrite <- app_assoc. reflexivity.
Qed.

(* one step of the loop at an octal escape *)
Lemma at_octal s j : j < length s -> o_at (skipn j s) = true ->
  (forall i, i < j -> q_at (skipn i s) = false) ->
  dec s = (firstn j s ++ [oct_val (firstn 3 (skipn (j + 1) s))]) ++ dec (skipn (j + 4) s).
Proof.
  intros Hj Ho Hmin.
  rewrite (dec_skip j s Hmin) by lia.
  rewrite !skipn_add.
  destruct (skipn j s) as [|c [|a [|b [|d r3]]]] eqn:E; cbn [o_at] in Ho; try discriminate.
  cbn [dec]. cbn [o_at]. rewrite Ho. cbn [firstn skipn].
  rewrite <- app_assoc. reflexivity.
Qed.

Lemma skipn_shorter {A} n (s : list A) : s <> [] -> length (skipn (n + 2) s) < length s.
Proof. intros H. rewrite skipn_length. destruct s; [congruence|cbn [length]; lia]. Qed.

Theorem unq_loop_dec : forall fuel s res, length s < fuel -> unq_loop fuel s res = res ++ dec s.
Proof.
  induction fuel as [|f IH]; intros s res Hf; [lia|].
  destruct s as [|c r]; [cbn; now rewrite app_nil_r|].
  set (s := c :: r) in *.
  assert (Hs : s <> []) by (subst s; discriminate).
  assert (Hq_step : forall k, k < length s -> q_at (skipn k s) = true -> o_at (skipn k s) = false ->
            (forall i, i < k -> q_at (skipn i s) = false) ->
            unq_loop f (skipn (k + 2) s) (res ++ firstn k s ++ [nth (k + 1) s 0%N]) = res ++ dec s).
  { intros k Hk Hq Ho Hmin. rewrite IH.
    - rewrite (at_quote s k Hk Hq Ho Hmin). now rewrite !app_assoc.
    - pose proof (skipn_shorter k s Hs). lia. }
  assert (Ho_step : forall j, j < length s -> o_at (skipn j s) = true ->
            (forall i, i < j -> q_at (skipn i s) = false) ->
            unq_loop f (skipn (j + 4) s) (res ++ firstn j s ++ [oct_val (firstn 3 (skipn (j + 1) s))]) = res ++ dec s).
  { intros j Hj Ho Hmin. rewrite IH.
    - rewrite (at_octal s j Hj Ho Hmin). now rewrite !app_assoc.
    - replace (j + 4) with ((j + 2) + 2) by lia. pose proof (skipn_shorter (j + 2) s Hs). lia. }
  change (unq_loop (S f) s res) with
    (match search o_at s, search q_at s with
     | None, None => res ++ s
     | None, Some k => unq_loop f (skipn (k + 2) s) (res ++ firstn k s ++ [nth (k + 1) s 0%N])
     | Some j, None => unq_loop f (skipn (j + 4) s) (res ++ firstn j s ++ [oct_val (firstn 3 (skipn (j + 1) s))])
     | Some j, Some k =>
         if Nat.ltb k j then unq_loop f (skipn (k + 2) s) (res ++ firstn k s ++ [nth (k + 1) s 0%N])
         else unq_loop f (skipn (j + 4) s) (res ++ firstn j s ++ [oct_val (firstn 3 (skipn (j + 1) s))])
     end).
  destruct (search o_at s) as [j|] eqn:So; destruct (search q_at s) as [k|] eqn:Sq.
  - destruct (search_some _ _ _ So) as (Ho & Homin & Hj).
    destruct (search_some _ _ _ Sq) as (Hq & Hqmin & Hk).
    assert (Hkj : k <= j).
    { destruct (le_lt_dec k j) as [|Hlt]; [assumption|].
      apply o_at_q_at in Ho. rewrite (Hqmin j Hlt) in Ho. discriminate. }
    destruct (Nat.ltb k j) eqn:E.
    + apply Nat.ltb_lt in E. apply Hq_step; auto.
    + apply Nat.ltb_ge in E. assert (j = k) by lia. subst j. apply Ho_step; auto.
  - destruct (search_some _ _ _ So) as (Ho & _ & Hj).
    apply o_at_q_at in Ho. rewrite (search_none _ _ Sq j Hj) in Ho. discriminate.
  - destruct (search_some _ _ _ Sq) as (Hq & Hqmin & Hk).
    apply Hq_step; auto. apply (search_none _ _ So k Hk).
  - f_equal. symmetry. apply dec_none. apply (search_none _ _ Sq).
Qed.

(* ================================================================ the image of one character *)

(* what translate() writes for one Latin-1 character, classified by running tr *)
Definition tr_shape (c : N) : bool :=
  match tr c with
  | [x] => (x =? c)%N && negb (x =? bslash)%N
  | [x; y] => (x =? bslash)%N && (y =? c)%N && negb (y =? 10)%N && negb (between 48 51 y)
  | [x; a; b; d] =>
      (x =? bslash)%N && (between 48 51 a && between 48 55 b && between 48 55 d)
      && (oct_val [a; b; d] =? c)%N
  | _ => false
  end.

Lemma tr_shape_all : all_below 256 tr_shape = true.
Proof. vm_compute. reflexivity. Qed.

Lemma o_at_not_bs x rest : (x =? bslash)%N = false -> o_at (x :: rest) = false.
Proof. intros H. destruct rest as [|a [|b [|d r]]]; cbn [o_at]; try reflexivity. now rewrite H. Qed.

Lemma q_at_not_bs x rest : (x =? bslash)%N = false -> q_at (x :: rest) = false.
Proof. intros H. destruct rest as [|a r]; cbn [q_at]; try reflexivity. now rewrite H. Qed.

Lemma o_at_not_digit x y rest : between 48 51 y = false -> o_at (x :: y :: rest) = false.
Proof.
  intros H. destruct rest as [|b [|d r]]; cbn [o_at]; try reflexivity.
  rewrite H. now rewrite andb_false_r.
Qed.

Lemma dec_tr c rest : tr_shape c = true -> dec (tr c ++ rest) = c :: dec rest.
Proof.
  unfold tr_shape. destruct (tr c) as [|x [|y [|b [|d [|? ?]]]]]; try discriminate; intros H.
  - apply andb_true_iff in H as [H1 H2]. apply N.eqb_eq in H1. subst x.
    apply negb_true_iff in H2. cbn [app]. apply dec_plain. now apply q_at_not_bs.
  - apply andb_true_iff in H as [H Hd]. apply andb_true_iff in H as [H Hn].
    apply andb_true_iff in H as [Hx Hy].
    apply N.eqb_eq in Hy. subst y. apply negb_true_iff in Hd.
    cbn [app dec]. rewrite (o_at_not_digit x c rest Hd).
    cbn [q_at]. rewrite Hx, Hn. reflexivity.
  - apply andb_true_iff in H as [H H3]. apply N.eqb_eq in H3.
    apply andb_true_iff in H as [H1 H2]. apply andb_true_iff in H2 as [H2 Hd].
    apply andb_true_iff in H2 as [Ha Hb].
    cbn [app dec o_at]. rewrite H1, Ha, Hb, Hd. cbn [andb]. now rewrite H3.
Qed.

Lemma dec_translate v : Forall latin1 v -> dec (flat_map tr v) = v.
Proof.
  induction 1 as [|c v Hc _ IH]; [reflexivity|].
  cbn [flat_map]. rewrite dec_tr; [now rewrite IH|].
  exact (latin1_check _ tr_shape_all c Hc).
Qed.

(* ================================================================ unquote (quote v) = v *)

Lemma legal_not_dquote c : is_legal c = true -> (c =? dquote)%N = false.
Proof.
  intros H. destruct (c =? dquote)%N eqn:E; [|reflexivity].
  apply N.eqb_eq in E. subst c. vm_compute in H. discriminate.
Qed.

Lemma unquote_legal v : is_legal_key v = true -> unquote v = v.
Proof.
  destruct v as [|c r]; [discriminate|]. cbn [is_legal_key forallb]. intros H.
  apply andb_true_iff in H as [H _].
  unfold unquote. destruct (Nat.ltb (length (c :: r)) 2); [reflexivity|].
  cbn [hd]. rewrite (legal_not_dquote c H). reflexivity.
Qed.

Lemma unquote_wrapped body :
  unquote (dquote :: body ++ [dquote]) = dec body.
Proof.
  unfold unquote.
  assert (Hl : Nat.ltb (length (dquote :: body ++ [dquote])) 2 = false).
  { apply Nat.ltb_ge. cbn [length]. rewrite app_length. cbn [length]. lia. }
  rewrite Hl. cbn [hd tl].
  change (dquote :: body ++ [dquote]) with ((dquote :: body) ++ [dquote]) at 1.
  rewrite last_last, N.eqb_refl. cbn [negb orb].
  rewrite removelast_last. now rewrite unq_loop_dec by lia.
Qed.

Theorem unquote_quote_proof : forall v, Forall latin1 v -> unquote (quote v) = v.
Proof.
  intros v Hv. unfold quote. destruct (is_legal_key v) eqn:E.
  - now apply unquote_legal.
  - rewrite unquote_wrapped. now apply dec_translate.
Qed.

(* ================================================================ quote writes clean ASCII *)

(* printable ASCII, no ';', no ',' *)
Definition clean (x : N) : bool := between 32 126 x && negb (x =? 59)%N && negb (x =? 44)%N.

Lemma clean_prop x : clean x = true -> (32 <= x <= 126)%N /\ x <> 59%N /\ x <> 44%N.
Proof.
  unfold clean, between. intros H.
  apply andb_true_iff in H as [H H44]. apply andb_true_iff in H as [H H59].
  apply andb_true_iff in H as [Hlo Hhi].
  apply N.leb_le in Hlo, Hhi. apply negb_true_iff, N.eqb_neq in H44, H59. lia.
Qed.

Lemma tr_clean_all : all_below 256 (fun c => forallb clean (tr c)) = true.
Proof. vm_compute. reflexivity. Qed.

(* what is used of a legal character: clean, not blank, not '=', not a double quote *)
Definition legal_facts (c : N) : bool :=
  implb (is_legal c) (clean c && negb (is_ws c) && negb (c =? 61)%N && negb (c =? dquote)%N).

Lemma legal_facts_all : all_below 256 legal_facts = true.
Proof. vm_compute. reflexivity. Qed.

Lemma legal_latin1 c : is_legal c = true -> latin1 c.
Proof.
  unfold is_legal, is_token_char, is_alpha, is_dig, in_list, token_punct, between, latin1.
  cbn [existsb]. intros H.
  repeat match goal with
         | H : (_ || _) = true |- _ => apply orb_true_iff in H; destruct H as [H|H]
         | H : (_ && _) = true |- _ => apply andb_true_iff in H; destruct H as [? H]
         | H : (_ <=? _)%N = true |- _ => apply N.leb_le in H
         | H : (_ =? _)%N = true |- _ => apply N.eqb_eq in H
         end; try discriminate; lia.
Qed.

Lemma legal_props c : is_legal c = true ->
  clean c = true /\ is_ws c = false /\ (c =? 61)%N = false /\ (c =? dquote)%N = false.
Proof.
  intros H. pose proof (latin1_check _ legal_facts_all c (legal_latin1 c H)) as F.
  unfold legal_facts in F. rewrite H in F. cbn [implb] in F.
  apply andb_true_iff in F as [F F4]. apply andb_true_iff in F as [F F3].
  apply andb_true_iff in F as [F1 F2].
  apply negb_true_iff in F2, F3, F4. auto.
Qed.

Lemma quote_clean v : Forall latin1 v -> Forall (fun x => clean x = true) (quote v).
Proof.
  intros Hv. unfold quote. destruct (is_legal_key v) eqn:E.
  - destruct v as [|c r]; [discriminate|]. cbn [is_legal_key] in E.
    rewrite forallb_forall in E. apply Forall_forall. intros x Hx.
    apply legal_props. now apply E.
  - constructor; [reflexivity|]. apply Forall_app. split; [|repeat constructor].
    clear E. induction Hv as [|c v Hc _ IH]; cbn [flat_map]; [constructor|].
    apply Forall_app. split; [|exact IH].
    apply Forall_forall. apply forallb_forall.
    exact (latin1_check _ tr_clean_all c Hc).
Qed.

Lemma hd_rev {A} (s : list A) d : hd d (rev s) = last s d.
Proof.
  destruct s as [|x l] using rev_ind; [reflexivity|].
  rewrite rev_app_distr, last_last. reflexivity.
Qed.

Lemma quote_ends v : quote v <> [] /\ is_ws (hd 0%N (quote v)) = false /\ is_ws (last (quote v) 0%N) = false.
Proof.
  unfold quote. destruct (is_legal_key v) eqn:E.
  - destruct v as [|c r]; [discriminate|]. cbn [is_legal_key] in E.
    rewrite forallb_forall in E. split; [discriminate|]. split.
    + cbn [hd]. apply legal_props. apply E. now left.
    + apply legal_props. apply E.
      destruct (exists_last (l := c :: r)) as (l' & a & ->); [discriminate|].
      rewrite last_last. apply in_or_app. right. now left.
  - split; [discriminate|]. split; [reflexivity|].
    change (dquote :: flat_map tr v ++ [dquote]) with ((dquote :: flat_map tr v) ++ [dquote]).
    rewrite last_last. reflexivity.
Qed.

Theorem quote_ascii_proof : forall v, Forall latin1 v ->
  Forall (fun x => (32 <= x <= 126)%N /\ x <> 59%N /\ x <> 44%N) (quote v) /\
  quote v <> [] /\ is_ws (hd 0%N (quote v)) = false /\ is_ws (last (quote v) 0%N) = false.
Proof.
  intros v Hv. split; [|apply quote_ends].
  eapply Forall_impl; [|apply (quote_clean v Hv)]. intros x. apply clean_prop.
Qed.

(* ================================================================ the Cookie header *)

Lemma split_on_nonnil sep s : split_on sep s <> [].
Proof.
  induction s as [|c r IH]; cbn [split_on]; [discriminate|].
  destruct (split_on sep r); [discriminate|]. destruct (c =? sep)%N; discriminate.
Qed.

Lemma split_on_cons_ne sep c s : (c =? sep)%N = false ->
  split_on sep (c :: s) = (c :: hd [] (split_on sep s)) :: tl (split_on sep s).
Proof.
  intros H. cbn [split_on]. destruct (split_on sep s) eqn:E.
  - exfalso. now apply (split_on_nonnil sep s).
  - rewrite H. reflexivity.
Qed.

Lemma split_on_app sep a b : Forall (fun x => x <> sep) a ->
  split_on sep (a ++ sep :: b) = a :: split_on sep b.
Proof.
  induction 1 as [|c a Hc _ IH]; cbn [app].
  - cbn [split_on]. destruct (split_on sep b) eqn:E.
    + exfalso. now apply (split_on_nonnil sep b).
    + rewrite N.eqb_refl. reflexivity.
  - rewrite split_on_cons_ne by (now apply N.eqb_neq). rewrite IH. reflexivity.
Qed.

Lemma split_on_nosep sep a : Forall (fun x => x <> sep) a -> split_on sep a = [a].
Proof.
  induction 1 as [|c a Hc _ IH]; [reflexivity|].
  rewrite split_on_cons_ne by (now apply N.eqb_neq). rewrite IH. reflexivity.
Qed.

Definition no_semi (s : list N) : Prop := Forall (fun x => x <> 59%N) s.

Lemma split_join ps : forall p, Forall no_semi (p :: ps) ->
  split_on 59 (join_semi (p :: ps)) = p :: map (cons 32%N) ps.
Proof.
  induction ps as [|q r IH]; intros p H.
  - cbn [join_semi map]. apply split_on_nosep. now inversion H.
  - change (join_semi (p :: q :: r)) with (p ++ 59%N :: 32%N :: join_semi (q :: r)).
    rewrite split_on_app by (now inversion H).
    rewrite split_on_cons_ne by reflexivity.
    rewrite IH by (now inversion H). reflexivity.
Qed.

(* ---- strip *)

Lemma lstrip_id s : is_ws (hd 0%N s) = false -> lstrip s = s.
Proof. destruct s as [|c r]; cbn [hd lstrip]; [reflexivity|]. now intros ->. Qed.

Lemma strip_id s : is_ws (hd 0%N s) = false -> is_ws (last s 0%N) = false -> strip s = s.
Proof.
  intros H1 H2. unfold strip. rewrite (lstrip_id s H1).
  rewrite lstrip_id by (now rewrite hd_rev). apply rev_involutive.
Qed.

Lemma strip_blank s : strip (32%N :: s) = strip s.
Proof. reflexivity. Qed.

(* ---- split at the first '=' *)

Lemma split_eq_app a b : Forall (fun x => x <> 61%N) a -> split_eq (a ++ 61%N :: b) = Some (a, b).
Proof.
  induction 1 as [|c a Hc _ IH]; cbn [app split_eq].
  - reflexivity.
  - apply N.eqb_neq in Hc. rewrite Hc, IH. reflexivity.
Qed.

(* ---- names *)

Definition is_token (n : list N) : bool := nonempty n && forallb is_token_char n.

Lemma token_char_legal c : is_token_char c = true -> is_legal c = true.
Proof. unfold is_legal. now intros ->. Qed.

Lemma token_facts n : is_token n = true ->
  n <> [] /\ is_legal_key n = true /\ Forall (fun x => is_legal x = true) n.
Proof.
  unfold is_token. intros H. apply andb_true_iff in H as [H1 H2].
  destruct n as [|c r]; [discriminate|]. split; [discriminate|].
  rewrite forallb_forall in H2.
  assert (F : Forall (fun x => is_legal x = true) (c :: r)).
  { apply Forall_forall. intros x Hx. apply token_char_legal. now apply H2. }
  split; [|exact F]. cbn [is_legal_key]. apply forallb_forall. now apply Forall_forall.
Qed.

Lemma legal_key_strip n : n <> [] -> Forall (fun x => is_legal x = true) n -> strip n = n.
Proof.
  intros Hn F. rewrite Forall_forall in F. apply strip_id.
  - destruct n as [|c r]; [congruence|]. cbn [hd]. apply legal_props. apply F. now left.
  - destruct (exists_last Hn) as (l' & a & ->). rewrite last_last.
    apply legal_props. apply F. apply in_or_app. right. now left.
Qed.

(* ---- one chunk of the header *)

Definition pair_text (p : list N * list N) : list N := fst p ++ 61%N :: quote (snd p).
Definition good_pair (p : list N * list N) : Prop := is_token (fst p) = true /\ Forall latin1 (snd p).

Lemma cookie_step_eq d chunk key val : chunk <> [] -> split_eq chunk = Some (key, val) ->
  cookie_step d chunk =
  if nonempty (strip key) || nonempty (strip val) then dict_set (strip key) (unquote (strip val)) d else d.
Proof.
  destruct chunk as [|c r]; [congruence|]. intros _ H. unfold cookie_step. rewrite H. reflexivity.
Qed.

Lemma step_chunk blank p d : good_pair p ->
  cookie_step d ((if blank : bool then [32%N] else []) ++ pair_text p) = dict_set (fst p) (snd p) d.
Proof.
  intros [Ht Hv]. destruct (token_facts _ Ht) as (Hne & _ & Hl).
  destruct (quote_ends (snd p)) as (Hq0 & Hq1 & Hq2).
  unfold pair_text.
  set (sp := if blank then [32%N] else []).
  rewrite (cookie_step_eq d _ (sp ++ fst p) (quote (snd p))).
  - assert (Hk : strip (sp ++ fst p) = fst p).
    { subst sp. destruct blank; cbn [app]; [rewrite strip_blank|]; now apply legal_key_strip. }
    rewrite Hk, (strip_id _ Hq1 Hq2), (unquote_quote_proof _ Hv).
    destruct (fst p); [congruence|reflexivity].
  - subst sp. destruct blank; cbn [app]; [discriminate|].
    destruct (fst p); [congruence|discriminate].
  - rewrite app_assoc. apply split_eq_app. apply Forall_app. split.
    + subst sp. destruct blank; repeat constructor. discriminate.
    + eapply Forall_impl; [|exact Hl]. intros x Hx. apply legal_props in Hx.
      apply N.eqb_neq. tauto.
Qed.

Lemma step_chunk_first p d : good_pair p -> cookie_step d (pair_text p) = dict_set (fst p) (snd p) d.
Proof. intros H. exact (step_chunk false p d H). Qed.

Lemma step_chunk_next p d : good_pair p ->
  cookie_step d (32%N :: pair_text p) = dict_set (fst p) (snd p) d.
Proof. intros H. exact (step_chunk true p d H). Qed.

Lemma pair_text_no_semi p : good_pair p -> no_semi (pair_text p).
Proof.
  intros [Ht Hv]. destruct (token_facts _ Ht) as (_ & _ & Hl).
  unfold pair_text, no_semi. apply Forall_app. split.
  - eapply Forall_impl; [|exact Hl]. intros x Hx. apply legal_props in Hx.
    destruct Hx as (Hc & _). now apply clean_prop in Hc.
  - constructor; [discriminate|].
    eapply Forall_impl; [|apply (quote_clean _ Hv)]. intros x Hx. now apply clean_prop in Hx.
Qed.

(* ---- the dict *)

Lemma str_eqb_eq a : forall b, str_eqb a b = true <-> a = b.
Proof.
  induction a as [|x a IH]; intros [|y b]; cbn [str_eqb]; split; try discriminate; try reflexivity.
  - intros H. apply andb_true_iff in H as [H1 H2]. apply N.eqb_eq in H1. apply IH in H2. congruence.
  - intros [= -> ->]. rewrite N.eqb_refl. now apply IH.
Qed.

Lemma dict_set_fresh k v d : ~ In k (map fst d) -> dict_set k v d = d ++ [(k, v)].
Proof.
  induction d as [|[k' v'] r IH]; cbn [dict_set map fst In app]; intros H; [reflexivity|].
  destruct (str_eqb k k') eqn:E.
  - apply str_eqb_eq in E. subst. tauto.
  - rewrite IH by tauto. reflexivity.
Qed.

Lemma fold_dict cs : forall d, NoDup (map fst d ++ map fst cs) ->
  fold_left (fun d p => dict_set (fst p) (snd p) d) cs d = d ++ cs.
Proof.
  induction cs as [|[k v] cs IH]; intros d H; cbn [fold_left map fst snd] in *.
  - now rewrite app_nil_r.
  - rewrite dict_set_fresh.
    + rewrite IH; [now rewrite <- app_assoc|].
      rewrite map_app. cbn [map fst]. now rewrite <- app_assoc.
    + apply NoDup_remove_2 in H. intros Hin. apply H. apply in_or_app. now left.
Qed.

Lemma dict_get_in k v cs : NoDup (map fst cs) -> In (k, v) cs -> dict_get k cs = Some v.
Proof.
  induction cs as [|[k' v'] r IH]; cbn [map fst In dict_get]; intros Hnd Hin; [tauto|].
  inversion Hnd as [|? ? Hnotin Hnd']; subst.
  destruct Hin as [[= -> ->]|Hin].
  - assert (E : str_eqb k k = true) by now apply str_eqb_eq. now rewrite E.
  - destruct (str_eqb k k') eqn:E.
    + apply str_eqb_eq in E. subst k'. exfalso. apply Hnotin.
      change k with (fst (k, v)). now apply in_map.
    + now apply IH.
Qed.

Lemma fold_chunks cs : forall d, Forall good_pair cs ->
  fold_left cookie_step (map (cons 32%N) (map pair_text cs)) d =
  fold_left (fun d p => dict_set (fst p) (snd p) d) cs d.
Proof.
  induction cs as [|p cs IH]; intros d H; [reflexivity|].
  inversion H as [|? ? Hp Hcs]; subst. cbn [map fold_left].
  rewrite (step_chunk_next p d Hp). now apply IH.
Qed.

Theorem cookie_among_others_proof : forall cs : list (list N * list N),
  Forall good_pair cs -> NoDup (map fst cs) ->
  parse_cookies (cookie_header (map pair_text cs)) = cs /\
  forall n v, In (n, v) cs -> dict_get n (parse_cookies (cookie_header (map pair_text cs))) = Some v.
Proof.
  intros cs Hg Hnd.
  assert (E : parse_cookies (cookie_header (map pair_text cs)) = cs).
  { destruct cs as [|p cs]; [reflexivity|].
    unfold parse_cookies, cookie_header. cbn [map].
    rewrite split_join.
    - inversion Hg as [|? ? Hp Hcs]; subst. cbn [fold_left].
      rewrite (step_chunk_first p [] Hp). rewrite fold_chunks by exact Hcs.
      change (dict_set (fst p) (snd p) []) with [(fst p, snd p)].
      rewrite fold_dict; [now destruct p|].
      cbn [map fst app]. exact Hnd.
    - change (pair_text p :: map pair_text cs) with (map pair_text (p :: cs)).
      apply Forall_forall. intros x Hx. apply in_map_iff in Hx as (q & <- & Hq).
      apply pair_text_no_semi. rewrite Forall_forall in Hg. now apply Hg. }
  split; [exact E|]. intros n v Hin. rewrite E. now apply dict_get_in.
Qed.

(* ================================================================ the Set-Cookie text *)

(* the attributes behind name=value *)
Definition attrs (c : cookie) : list (list N) := tl (cookie_parts c).
Definition has_attr (a : list N) (c : cookie) : Prop := In a (attrs c).

Lemma app_nonnil_r {A} (a b : list A) : b <> [] -> a ++ b <> [].
Proof. intros H E. apply app_eq_nil in E. tauto. Qed.

Lemma attrs_nonnil c : attrs c <> [].
Proof.
  unfold attrs, cookie_parts. cbn [app tl].
  repeat apply app_nonnil_r. discriminate.
Qed.

Lemma cookie_str_split c :
  cookie_str c = (quote (c_name c) ++ 61%N :: quote (c_value c)) ++ 59%N :: 32%N :: join_semi (attrs c).
Proof.
  pose proof (attrs_nonnil c) as H. unfold cookie_str.
  change (cookie_parts c) with ((quote (c_name c) ++ 61%N :: quote (c_value c)) :: attrs c).
  destruct (attrs c) as [|a r]; [congruence|reflexivity].
Qed.

Definition good_cookie (c : cookie) : Prop := good_pair (c_name c, c_value c).
Definition pair_of_cookie (c : cookie) : list N * list N := (c_name c, c_value c).

(* what the client cuts out of the Set-Cookie text is name=quote(value) *)
Lemma set_cookie_pair c : good_cookie c -> pair_of_set_cookie (cookie_str c) = pair_text (pair_of_cookie c).
Proof.
  intros Hg. pose proof Hg as [Ht Hv]. cbn [fst snd] in Ht, Hv.
  destruct (token_facts _ Ht) as (_ & Hk & _).
  unfold pair_of_set_cookie. rewrite cookie_str_split.
  assert (Eq : quote (c_name c) = c_name c) by (unfold quote; now rewrite Hk).
  rewrite Eq. change (c_name c ++ 61%N :: quote (c_value c)) with (pair_text (pair_of_cookie c)).
  rewrite split_on_app by (apply pair_text_no_semi; exact Hg). reflexivity.
Qed.

Theorem set_cookie_round_trip_proof : forall cks : list cookie,
  Forall good_cookie cks -> NoDup (map c_name cks) ->
  let header := cookie_header (map (fun c => pair_of_set_cookie (cookie_str c)) cks) in
  parse_cookies header = map pair_of_cookie cks /\
  forall c, In c cks -> dict_get (c_name c) (parse_cookies header) = Some (c_value c).
Proof.
  intros cks Hg Hnd header.
  assert (Eh : header = cookie_header (map pair_text (map pair_of_cookie cks))).
  { subst header. f_equal. rewrite map_map. apply map_ext_in. intros c Hc.
    apply set_cookie_pair. rewrite Forall_forall in Hg. now apply Hg. }
  rewrite Eh.
  destruct (cookie_among_others_proof (map pair_of_cookie cks)) as [E1 E2].
  - apply Forall_forall. intros p Hp. apply in_map_iff in Hp as (c & <- & Hc).
    rewrite Forall_forall in Hg. now apply Hg.
  - rewrite map_map. exact Hnd.
  - split; [exact E1|]. intros c Hc. apply E2.
    change (c_name c, c_value c) with (pair_of_cookie c). now apply in_map.
Qed.

(* ================================================================ Expires, Max-Age, deletion *)

Lemma has_expires c t : c_expires c = Some t -> has_attr (lit "expires=" ++ http_date t) c.
Proof.
  intros H. unfold has_attr, attrs, cookie_parts. cbn [app tl].
  apply in_or_app. left. unfold expires_part. rewrite H. now left.
Qed.

Lemma has_max_age c : (c_max_age c > -1)%Z -> has_attr (lit "max-age=" ++ dec_z (c_max_age c)) c.
Proof.
  intros H. unfold has_attr, attrs, cookie_parts. cbn [app tl].
  apply in_or_app. right. apply in_or_app. left. unfold max_age_part.
  apply Z.gt_lt, Z.gtb_lt in H. rewrite H. now left.
Qed.

Theorem expires_is_now_plus_e_gmt_proof :
  forall (off : Z -> Z) (now e : Z) (key value : list N) (max_age : Z) (o : opts),
  ts_ok (now + e) = true ->
  exists c, set_cookie off now key value max_age (Some e) o = Made c /\
            expires_part c = [lit "expires=" ++ http_date (now + e)] /\
            has_attr (lit "expires=" ++ http_date (now + e)) c /\
            forall off', set_cookie off' now key value max_age (Some e) o = Made c.
Proof.
  intros off now e key value max_age o H.
  unfold set_cookie, set_cookie_with. rewrite H. eexists. split; [reflexivity|].
  split; [reflexivity|]. split; [now apply has_expires|reflexivity].
Qed.

(* the computation as it was: correct exactly when the zone offset is zero *)
Theorem expires_orig_is_local_proof :
  forall (off : Z -> Z) (now e : Z) (key value : list N) (max_age : Z) (o : opts),
  ts_ok (now + e) = true ->
  exists c, set_cookie_orig off now key value max_age (Some e) o = Made c /\
            expires_part c = [lit "expires=" ++ http_date (now + e + off (now + e)%Z)].
Proof.
  intros off now e key value max_age o H.
  unfold set_cookie_orig, set_cookie_with. rewrite H. eexists. split; reflexivity.
Qed.

Theorem expires_orig_refuted_proof :
  exists (off : Z -> Z) (now e : Z),
    ts_ok (now + e) = true /\
    outcome_str (set_cookie_orig off now (lit "k") (lit "v") (-1) (Some e) default_opts) <>
    outcome_str (set_cookie off now (lit "k") (lit "v") (-1) (Some e) default_opts).
Proof.
  exists (fun _ => 28800%Z), 1790000000%Z, 3600%Z. split; [reflexivity|].
  intros H. vm_compute in H. discriminate.
Qed.

Theorem max_age_verbatim_proof :
  forall (off : Z -> Z) (now : Z) (key value : list N) (max_age : Z) (expires : option Z) (o : opts) (c : cookie),
  set_cookie off now key value max_age expires o = Made c ->
  c_max_age c = max_age /\
  ((max_age > -1)%Z -> max_age_part c = [lit "max-age=" ++ dec_z max_age] /\
                       has_attr (lit "max-age=" ++ dec_z max_age) c) /\
  ((max_age <= -1)%Z -> max_age_part c = []).
Proof.
  intros off now key value max_age expires o c H.
  assert (E : c_max_age c = max_age).
  { unfold set_cookie, set_cookie_with in H. destruct expires as [e|].
    - destruct (ts_ok (now + e)); [|discriminate]. now injection H as <-.
    - now injection H as <-. }
  split; [exact E|]. split.
  - intros Hm. split.
    + unfold max_age_part. rewrite E. apply Z.gt_lt, Z.gtb_lt in Hm. now rewrite Hm.
    + rewrite <- E. apply has_max_age. now rewrite E.
  - intros Hm. unfold max_age_part. rewrite E.
    destruct (max_age >? -1)%Z eqn:G; [|reflexivity]. apply Z.gtb_lt in G. lia.
Qed.

Theorem delete_is_expired_proof :
  forall (off : Z -> Z) (now : Z) (key : list N) (o : opts),
  ts_ok now = true ->
  exists c, delete_cookie off now key o = Made c /\
            c_name c = key /\ c_value c = [] /\
            has_attr (lit "expires=" ++ http_date now) c /\
            has_attr (lit "max-age=0") c.
Proof.
  intros off now key o H.
  unfold delete_cookie, set_cookie, set_cookie_with. rewrite Z.add_0_r, H.
  eexists. split; [reflexivity|]. split; [reflexivity|]. split; [reflexivity|]. split.
  - now apply has_expires.
  - apply (has_max_age {| c_name := key; c_value := []; c_expires := Some now; c_domain := o_domain o;
                          c_path := o_path o; c_httponly := o_httponly o; c_secure := o_secure o;
                          c_max_age := 0; c_samesite := o_samesite o |}). reflexivity.
Qed.

(* ================================================================ the date printed denotes the instant *)

Section Calendar.
Local Open Scope Z_scope.

(* the part of [civil] that depends on the day within the 400-year era only *)
Definition doe_part (doe : Z) : Z * Z * Z :=
  let yoe := (doe - doe / 1460 + doe / 36524 - doe / 146096) / 365 in
  let doy := doe - (365 * yoe + yoe / 4 - yoe / 100) in
  let mp := (5 * doy + 2) / 153 in
  let d := doy - (153 * mp + 2) / 5 + 1 in
  let m := if mp <? 10 then mp + 3 else mp - 9 in
  (yoe, m, d).

(* day within the era of the day d of month m (March = first month) in year-of-era yoe *)
Definition doe_back (yoe m d : Z) : Z :=
  let mp := if m >? 2 then m - 3 else m + 9 in
  yoe * 365 + yoe / 4 - yoe / 100 + ((153 * mp + 2) / 5 + d - 1).

(* days since 1970-01-01 of a proleptic Gregorian date: the meaning of (y, m, d) *)
Definition days_from_civil (y m d : Z) : Z :=
  let y' := if m <=? 2 then y - 1 else y in
  y' / 400 * 146097 + doe_back (y' mod 400) m d - 719468.

Fixpoint all_from (n : nat) (z : Z) (p : Z -> bool) : bool :=
  match n with
  | O => true
  | S k => p z && all_from k (Z.succ z) p
  end.

Lemma all_from_spec n : forall z p, all_from n z p = true ->
  forall x, z <= x < z + Z.of_nat n -> p x = true.
Proof.
  induction n as [|k IH]; intros z p H x Hx; cbn [all_from] in H.
  - lia.
  - apply andb_true_iff in H as [H1 H2].
    destruct (Z.eq_dec x z) as [->|Hne]; [exact H1|].
    apply (IH (Z.succ z) p H2). lia.
Qed.

(* the year of the era and the day of that year, for every day of one era *)
Lemma yoe_ok doe : 0 <= doe < 146097 ->
  let yoe := (doe - doe / 1460 + doe / 36524 - doe / 146096) / 365 in
  0 <= yoe < 400 /\ 0 <= doe - (365 * yoe + yoe / 4 - yoe / 100) <= 365.
Proof. intros H. cbv zeta. Z.div_mod_to_equations. lia. Qed.

(* month and day from the day of the (March-based) year, and back: 366 values, by running *)
Definition md_check (doy : Z) : bool :=
  let mp := (5 * doy + 2) / 153 in
  let d := doy - (153 * mp + 2) / 5 + 1 in
  let m := if mp <? 10 then mp + 3 else mp - 9 in
  let mp' := if m >? 2 then m - 3 else m + 9 in
  (1 <=? m) && (m <=? 12) && (1 <=? d) && (d <=? 31) && ((153 * mp' + 2) / 5 + d - 1 =? doy).

Lemma md_check_all : all_from 366 0 md_check = true.
Proof. vm_compute. reflexivity. Qed.

Lemma doe_part_ok doe : 0 <= doe < 146097 ->
  let '(yoe, m, d) := doe_part doe in
  0 <= yoe < 400 /\ 1 <= m <= 12 /\ 1 <= d <= 31 /\ doe_back yoe m d = doe.
Proof.
  intros H. pose proof (yoe_ok doe H) as Hy. cbv zeta in Hy.
  unfold doe_part, doe_back. cbv zeta.
  set (yoe := (doe - doe / 1460 + doe / 36524 - doe / 146096) / 365) in *.
  set (doy := doe - (365 * yoe + yoe / 4 - yoe / 100)) in *.
  destruct Hy as [Hy Hdoy].
  assert (C : md_check doy = true).
  { apply (all_from_spec _ _ _ md_check_all). cbn. lia. }
  unfold md_check in C. cbv zeta in C.
  set (mp := (5 * doy + 2) / 153) in *.
  set (d := doy - (153 * mp + 2) / 5 + 1) in *.
  set (m := if mp <? 10 then mp + 3 else mp - 9) in *.
  apply andb_true_iff in C as [C Hb]. apply andb_true_iff in C as [C Hd1].
  apply andb_true_iff in C as [C Hd0]. apply andb_true_iff in C as [Hm0 Hm1].
  apply Z.leb_le in Hm0, Hm1, Hd0, Hd1. apply Z.eqb_eq in Hb.
  repeat split; lia.
Qed.

Lemma civil_eq days :
  civil days =
  let z := days + 719468 in
  let '(yoe, m, d) := doe_part (z mod 146097) in
  (yoe + z / 146097 * 400 + (if m <=? 2 then 1 else 0), m, d).
Proof. reflexivity. Qed.

Lemma civil_inverse days :
  let '(y, m, d) := civil days in
  days_from_civil y m d = days /\ 1 <= m <= 12 /\ 1 <= d <= 31.
Proof.
  rewrite civil_eq. cbv zeta. set (z := days + 719468).
  assert (Hr : 0 <= z mod 146097 < 146097) by (apply Z.mod_pos_bound; lia).
  pose proof (doe_part_ok (z mod 146097) Hr) as C.
  destruct (doe_part (z mod 146097)) as [[yoe m] d].
  destruct C as ((Hy0 & Hy1) & Hm & Hd & Hb).
  split; [|lia]. unfold days_from_civil. set (era := z / 146097).
  assert (Ey : (if m <=? 2 then yoe + era * 400 + (if m <=? 2 then 1 else 0) - 1
                else yoe + era * 400 + (if m <=? 2 then 1 else 0)) = yoe + era * 400)
    by (destruct (m <=? 2); lia).
  rewrite Ey. rewrite Z.div_add, Z.mod_add by lia.
  rewrite Z.div_small, Z.mod_small by lia. rewrite Hb.
  pose proof (Z.div_mod z 146097 ltac:(lia)) as Hz. subst era z. lia.
Qed.

Definition instant_of (f : Z * (Z * Z * Z) * (Z * Z * Z)) : Z :=
  let '(_, (y, m, d), (hh, mm, ss)) := f in
  days_from_civil y m d * 86400 + hh * 3600 + mm * 60 + ss.

(* The numbers http_date prints are a valid calendar date and time of day, they denote
   exactly the instant t, and the weekday is the one of that day (1970-01-01 = Thursday). *)
Theorem http_date_denotes_proof : forall t : Z,
  http_date t = render_date (date_fields t) /\
  instant_of (date_fields t) = t /\
  let '(wd, (y, m, d), (hh, mm, ss)) := date_fields t in
  wd = (days_from_civil y m d + 4) mod 7 /\
  1 <= m <= 12 /\ 1 <= d <= 31 /\ 0 <= hh < 24 /\ 0 <= mm < 60 /\ 0 <= ss < 60.
Proof.
  intros t. split; [reflexivity|].
  unfold instant_of, date_fields. cbv zeta.
  pose proof (civil_inverse (t / 86400)) as H.
  destruct (civil (t / 86400)) as [[y m] d]. destruct H as (Hd & Hm & Hdd).
  rewrite Hd.
  assert (Hs : 0 <= t mod 86400 < 86400) by (apply Z.mod_pos_bound; lia).
  pose proof (Z.div_mod t 86400 ltac:(lia)) as Ht.
  set (sod := t mod 86400) in *.
  assert (Hsod : sod / 3600 * 3600 + sod mod 3600 / 60 * 60 + sod mod 60 = sod /\
                 0 <= sod / 3600 < 24 /\ 0 <= sod mod 3600 / 60 < 60 /\ 0 <= sod mod 60 < 60).
  { clearbody sod. clear Ht. Z.div_mod_to_equations. lia. }
  repeat split; try lia.
Qed.

Example days_from_civil_examples :
  days_from_civil 1970 1 1 = 0 /\ days_from_civil 2000 2 29 = 11016 /\
  days_from_civil 2024 12 31 = 20088 /\ days_from_civil 1969 12 31 = -1.
Proof. vm_compute. repeat split; reflexivity. Qed.

End Calendar.

(* ================================================================ examples (non-vacuity) *)

Example quote_example : quote (lit "a b;") = lit """a b\073""".
Proof. vm_compute. reflexivity. Qed.

(* a value that looks like an escape survives: the scanner takes the doubled backslash first *)
Example octal_text_example :
  quote (lit "\012") = lit """\\012""" /\ unquote (quote (lit "\012")) = lit "\012".
Proof. vm_compute. split; reflexivity. Qed.

Example empty_value_example : quote [] = lit """""" /\ unquote (quote []) = [].
Proof. vm_compute. split; reflexivity. Qed.

Example set_cookie_example :
  outcome_str (set_cookie (fun _ => 28800%Z) 1790000000 (lit "sid") (lit "x y") 60 (Some 3600%Z) default_opts)
  = Some (lit "sid=""x y""; expires=Mon, 21 Sep 2026 15:13:20 GMT; max-age=60; path=/; samesite=lax").
Proof. vm_compute. reflexivity. Qed.

Example among_others_example :
  let cs := [(lit "a", lit "1;2"); (lit "b", [34; 92; 10; 255]%N); (lit "c", [])] in
  Forall good_pair cs /\ NoDup (map fst cs) /\
  cookie_header (map pair_text cs) = lit "a=""1\0732""; b=""\""\\\012\377""; c=""""".
Proof.
  cbn zeta. split; [|split].
  - repeat constructor; cbn [snd]; unfold latin1; lia.
  - repeat constructor; cbn [In map fst]; intros H;
      repeat (destruct H as [H|H]; [discriminate|]); exact H.
  - vm_compute. reflexivity.
Qed.

Example delete_example :
  outcome_str (delete_cookie (fun _ => 50400%Z) 1790000000 (lit "sid") default_opts)
  = Some (lit "sid=""""; expires=Mon, 21 Sep 2026 14:13:20 GMT; max-age=0; path=/; samesite=lax").
Proof. vm_compute. reflexivity. Qed.
