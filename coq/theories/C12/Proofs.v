(* C12 — proofs.  The stdlib primitives are Section variables; their declared failure
   classes are Section hypotheses, which become the premises of the theorems. *)
From Coq Require Import List NArith ZArith Bool Arith Lia.
From Baize Require Import Lib.Wire Lib.Order C12.Model.
From Baize Require C01.Model C03.Model.
Import ListNotations.

(* a failure inside the declared classes [D] is caught by the handler [H] (both concrete) *)
Ltac by_class Hd :=
  match type of Hd with
  | catches _ ?e = true => destruct e; vm_compute in Hd |- *; try discriminate Hd; try reflexivity
  end.

(* ------------------------------------------------------------------ multipart *)

Section MultipartTotal.
  Import C01.Model.
  Variable sd : bytes -> text + exc.
  Hypothesis sd_total : forall s, exists t, sd s = inl t.

  Lemma parse_headers_no_crash block e : C12.Model.parse_headers sd block <> PCrash e.
  Proof.
    unfold C12.Model.parse_headers.
    set (step := fun (acc : pres) (line : bytes) => _).
    assert (Hinv : forall lines acc, (forall x, acc <> PCrash x) ->
                                     forall x, fold_left step lines acc <> PCrash x).
    { induction lines as [|l ls IH]; intros acc Hacc x; cbn [fold_left]; [apply Hacc|].
      apply IH. intros y. subst step. cbv beta.
      destruct acc as [hs| |z]; [|discriminate|exfalso; exact (Hacc z eq_refl)].
      destruct (strip is_bspace l) as [|c r]; [discriminate|].
      destruct (sd_total (c :: r)) as [t Ht]. rewrite Ht.
      destruct (split_at_first 58 t) as [[n v]|]; discriminate. }
    specialize (Hinv (splitlines (unfold_continuations block)) (POk [])).
    destruct (fold_left step _ (POk [])) as [hs| |z] eqn:E; try discriminate.
    exfalso. eapply Hinv; [intros x; discriminate|reflexivity].
  Qed.

  Lemma next_event_no_crash b d x d' : C12.Model.next_event sd b d <> (inr x, d').
  Proof.
    unfold C12.Model.next_event. destruct (d_state d).
    1,3,4,5: destruct (C01.Model.next_event b false d); discriminate.
    destruct (search_blank (d_buf d)) as [[s e]|]; [|discriminate].
    destruct (C12.Model.parse_headers sd (firstn s (d_buf d))) as [hs| |z] eqn:E.
    - destruct (hget _ hs); discriminate.
    - discriminate.
    - exfalso. exact (parse_headers_no_crash _ _ E).
  Qed.

  Lemma c01_helper_no_crash mp h ev (r : hstate + mp_outcome) :
    r = match C01.Model.helper_event false mp None h ev with
        | inl h' => inl h'
        | inr H413 => inr M413
        | inr H400 => inr M400
        | inr (HItems l) => inr (MItems l)
        end -> forall x, r <> inr (MCrash x).
  Proof.
    intros -> x. destruct (C01.Model.helper_event false mp None h ev) as [h'|[l| |]]; discriminate.
  Qed.

  Lemma helper_event_no_crash mp h ev x : C12.Model.helper_event sd mp h ev <> inr (MCrash x).
  Proof.
    unfold C12.Model.helper_event.
    destruct ev as [data|name hs|name fn hs|data more|data| |];
      try (eapply c01_helper_no_crash; reflexivity).
    destruct more; [eapply c01_helper_no_crash; reflexivity|].
    destruct (h_file h); [eapply c01_helper_no_crash; reflexivity|].
    destruct (sd_total (h_data h ++ data)) as [t Ht]. rewrite Ht.
    destruct (Nat.ltb mp _); discriminate.
  Qed.

  Lemma drain_no_crash fuel : forall mp b d h x, C12.Model.drain sd fuel mp b d h <> inr (MCrash x).
  Proof.
    induction fuel as [|k IH]; intros mp b d h x; cbn [C12.Model.drain]; [discriminate|].
    destruct (C12.Model.next_event sd b d) as [[ev|z] d'] eqn:E.
    - assert (Hstep : match C12.Model.helper_event sd mp h ev with
                      | inl h' => C12.Model.drain sd k mp b d' h'
                      | inr o => inr o
                      end <> inr (MCrash x)).
      { destruct (C12.Model.helper_event sd mp h ev) as [h'|o] eqn:Eh; [apply IH|].
        intros [= ->]. exact (helper_event_no_crash _ _ _ _ Eh). }
      destruct ev; try discriminate; exact Hstep.
    - exfalso. exact (next_event_no_crash _ _ _ _ E).
  Qed.

  Lemma parse_chunks_no_crash chunks : forall mp b d h x, C12.Model.parse_chunks sd mp b d h chunks <> MCrash x.
  Proof.
    induction chunks as [|c r IH]; intros mp b d h x; cbn [C12.Model.parse_chunks]; [discriminate|].
    destruct (C12.Model.drain sd _ mp b (receive d (Some c)) h) as [[d2 h2]|o] eqn:E; [apply IH|].
    intros ->. exact (drain_no_crash _ _ _ _ _ _ E).
  Qed.

  Lemma parse_multipart_no_crash b chunks x : C12.Model.parse_multipart sd b chunks <> MCrash x.
  Proof. apply parse_chunks_no_crash. Qed.
End MultipartTotal.

(* ------------------------------------------------------------------ the entry points *)

Section Entries.

Variable decode : text -> bytes -> text + exc.
Variable decode_utf8 : bytes -> text + exc.
Variable int_of : text -> Z + exc.
Variable loads : text -> text + exc.
Variable urlsplit_ok : text -> unit + exc.
Variable port_ok : text -> unit + exc.
Variable dir_redirect : text -> text + exc.
Variable parsedate : text -> (text * bool) + exc.
Variable parsedate_ts : text -> Z + exc.
Variable stat : text -> node + exc.
Variable resolve : bool -> text -> option text.
Variable qsl : text -> list (text * text).
Variable to_decimal : text -> unit + exc.
Variable to_uuid : text -> unit + exc.
Variable to_date : text -> unit + exc.

Hypothesis Hdecode : forall cs b e, decode cs b = inr e -> catches decl_decode e = true.
Hypothesis Hutf8 : forall b e, decode_utf8 b = inr e -> catches decl_decode_utf8 e = true.
Hypothesis Hint : forall t e, int_of t = inr e -> catches decl_int e = true.
Hypothesis Hloads : forall t e, loads t = inr e -> catches decl_loads e = true.
Hypothesis Hsplit : forall t e, urlsplit_ok t = inr e -> catches decl_url e = true.
Hypothesis Hport : forall t e, port_ok t = inr e -> catches decl_url e = true.
Hypothesis Hredir : forall t e, dir_redirect t = inr e -> catches decl_url e = true.
Hypothesis Hdate : forall t e, parsedate t = inr e -> catches decl_date e = true.
Hypothesis Hts : forall t e, parsedate_ts t = inr e -> catches decl_date e = true.
Hypothesis Hstat : forall p e, stat p = inr e -> catches decl_stat e = true.
Hypothesis Hconv : forall t e, to_date t = inr e -> catches decl_conv e = true.
Hypothesis Hdec : forall t, re_match CDecimal t = true -> exists u, to_decimal t = inl u.
Hypothesis Huuid : forall t, re_match CUuid t = true -> exists u, to_uuid t = inl u.

Lemma content_length_good te cl : good (content_length int_of te cl) = true.
Proof.
  unfold content_length, content_length_with.
  destruct (teq _ _); [reflexivity|]. destruct cl as [v|]; [|reflexivity].
  destruct (int_of v) as [n|e] eqn:E; [reflexivity|].
  apply Hint in E. by_class E.
Qed.

Lemma date_good v : good (date parsedate v) = true.
Proof.
  unfold date, date_with. destruct v as [t|]; [|reflexivity].
  destruct (parsedate t) as [[iso naive]|e] eqn:E; [reflexivity|].
  apply Hdate in E. by_class E.
Qed.

Lemma referrer_good v : good (referrer urlsplit_ok port_ok v) = true.
Proof.
  unfold referrer, referrer_with. destruct v as [t|]; [|reflexivity].
  destruct (urlsplit_ok t) as [u|e] eqn:E.
  - destruct (port_ok t) as [u'|e] eqn:E'; [reflexivity|]. apply Hport in E'. by_class E'.
  - apply Hsplit in E. by_class E.
Qed.

Lemma build_url_declared i script path query host e :
  build_url decode_utf8 i script path query host = inr e -> catches decl_decode_utf8 e = true.
Proof.
  unfold build_url. destruct i.
  - destruct query as [|c q]; [discriminate|].
    destruct (decode_utf8 (c :: q)) as [t|x] eqn:E; [discriminate|]. intros [= <-]. eauto.
  - destruct (decode_utf8 (script ++ path)) as [p|x] eqn:E; [|intros [= <-]; eauto].
    destruct query as [|c q]; [discriminate|].
    destruct (decode_utf8 (c :: q)) as [t|y] eqn:E'; [discriminate|]. intros [= <-]. eauto.
Qed.

Lemma url_good i script path query host :
  good (url decode_utf8 urlsplit_ok port_ok i script path query host) = true.
Proof.
  unfold url, url_with.
  destruct (build_url decode_utf8 i script path query host) as [u|e] eqn:E.
  - destruct (urlsplit_ok u) as [x|e] eqn:E1.
    + destruct (port_ok u) as [y|e] eqn:E2; [reflexivity|]. apply Hport in E2. unfold handle. by_class E2.
    + apply Hsplit in E1. unfold handle. by_class E1.
  - apply build_url_declared in E. unfold handle. by_class E.
Qed.

Lemma json_good st ct body : good (json decode loads st ct body) = true.
Proof.
  unfold json, json_with. destruct (negb _); [reflexivity|].
  destruct (read_body st body) as [data|d]; [|reflexivity].
  destruct (decode _ data) as [t|e] eqn:E.
  - destruct (loads t) as [v|e] eqn:E'; [reflexivity|]. apply Hloads in E'. unfold handle. by_class E'.
  - apply Hdecode in E. unfold handle. by_class E.
Qed.

Lemma safe_decode_total cs s : exists t, safe_decode_with decode [ValueError; LookupError] cs s = inl t.
Proof.
  unfold safe_decode_with. destruct (decode cs s) as [t|e] eqn:E; [eauto|].
  apply Hdecode in E. assert (Hc : catches [ValueError; LookupError] e = true) by by_class E.
  rewrite Hc. eauto.
Qed.

Lemma form_good i st ct body : good (form decode qsl i st ct body) = true.
Proof.
  unfold form, form_with.
  destruct (teq (fst (content_type ct)) (lit "multipart/form-data")).
  - destruct (ct_option ct _) as [b|]; [|reflexivity].
    destruct st; [|reflexivity|];
      (match goal with |- context [parse_multipart ?sd ?b ?c] =>
         destruct (parse_multipart sd b c) as [items| | |x] eqn:E end;
       [reflexivity|reflexivity|reflexivity|];
       exfalso; refine (parse_multipart_no_crash _ _ _ _ _ E); apply safe_decode_total).
  - destruct (teq _ _); [|reflexivity].
    destruct (read_body st body) as [data|d]; [|reflexivity].
    destruct (decode _ data) as [t|e] eqn:E; [reflexivity|].
    apply Hdecode in E. unfold handle. by_class E.
Qed.

Lemma parse_range_good h size : good (parse_range h size) = true.
Proof. unfold parse_range. destruct (C03.Model.parse_range h size); reflexivity. Qed.

Lemma to_python_declared c s e :
  re_match c s = true -> to_python int_of to_decimal to_uuid to_date c s = inr e -> catches [ValueError] e = true.
Proof.
  intros Hm. destruct c; cbn [to_python]; try discriminate.
  - destruct (int_of s) as [n|x] eqn:E; [discriminate|]. intros [= <-]. exact (Hint _ _ E).
  - destruct (Hdec _ Hm) as [u ->]. discriminate.
  - destruct (Huuid _ Hm) as [u ->]. discriminate.
  - intros E. exact (Hconv _ _ E).
Qed.

Lemma search_good routes : forall idx path,
  good (search int_of to_decimal to_uuid to_date routes idx path) = true.
Proof.
  unfold search. induction routes as [|[p [c|]] r IH]; intros idx path; cbn [search_with]; [reflexivity| |].
  - destruct (C01.Model.starts_with p path && re_match c (skipn (length p) path)) eqn:Em; [|apply IH].
    apply andb_true_iff in Em. destruct Em as [_ Em].
    destruct (to_python _ _ _ _ c _) as [u|e] eqn:E; [reflexivity|].
    apply (to_python_declared _ _ _ Em) in E. rewrite E. apply IH.
  - destruct (teq path p); [reflexivity|apply IH].
Qed.

Lemma stat_with_ok p e : stat_with stat [OSError; ValueError] p <> inr e.
Proof.
  unfold stat_with. destruct (stat p) as [n|x] eqn:E; [discriminate|].
  apply Hstat in E. assert (Hc : catches [OSError; ValueError] x = true) by by_class E.
  rewrite Hc. discriminate.
Qed.

Lemma file_response_good inm ims :
  good (file_response_with parsedate_ts [TypeError; ValueError; OverflowError] inm ims) = true.
Proof.
  unfold file_response_with, ims_with. destruct inm; [|reflexivity].
  destruct ims as [|c r]; [reflexivity|].
  destruct (parsedate_ts (c :: r)) as [t|e] eqn:E; [reflexivity|].
  apply Hts in E. assert (Hc : catches [TypeError; ValueError; OverflowError] e = true) by by_class E.
  rewrite Hc. reflexivity.
Qed.

Lemma files_good path inm ims : good (files parsedate_ts stat resolve path inm ims) = true.
Proof.
  unfold files, files_with. destruct (resolve false path) as [p|]; [|reflexivity].
  destruct (stat_with stat _ p) as [[[| |]|]|e] eqn:E; try reflexivity.
  - apply file_response_good.
  - exfalso. exact (stat_with_ok _ _ E).
Qed.

Lemma redirect_good i script path query host :
  good (redirect_with decode_utf8 urlsplit_ok dir_redirect [ValueError] i script path query host) = true.
Proof.
  unfold redirect_with.
  destruct (build_url decode_utf8 i script path query host) as [u|e] eqn:Eb.
  - destruct (urlsplit_ok u) as [x|e] eqn:E3.
    + destruct (dir_redirect u) as [y|e] eqn:E4; [reflexivity|]. apply Hredir in E4. unfold handle. by_class E4.
    + apply Hsplit in E3. unfold handle. by_class E3.
  - apply build_url_declared in Eb. unfold handle. by_class Eb.
Qed.

Lemma pages_good i script path query host inm ims :
  good (pages decode_utf8 urlsplit_ok dir_redirect parsedate_ts stat resolve
              i script path query host inm ims) = true.
Proof.
  unfold pages, pages_with. destruct (resolve true path) as [p|]; [|reflexivity].
  destruct (stat_with stat _ p) as [s1|e] eqn:E; [|exfalso; exact (stat_with_ok _ _ E)].
  match goal with |- context [match ?second with Some p2 => _ | None => _ end] =>
    destruct second as [p2|] end.
  - destruct (stat_with stat _ p2) as [[[| |]|]|e] eqn:E2; try reflexivity.
    + apply file_response_good.
    + exfalso. exact (stat_with_ok _ _ E2).
  - destruct s1 as [[| |]|]; try reflexivity.
    + apply file_response_good.
    + apply redirect_good.
Qed.

Lemma no_crash_proof (e : entry) :
  verdict decode decode_utf8 int_of loads urlsplit_ok port_ok dir_redirect parsedate parsedate_ts
          stat resolve qsl to_decimal to_uuid to_date e = true.
Proof.
  destruct e; cbn [verdict].
  - apply content_length_good.
  - apply date_good.
  - reflexivity.
  - reflexivity.
  - reflexivity.
  - apply referrer_good.
  - apply url_good.
  - reflexivity.
  - apply json_good.
  - apply form_good.
  - apply parse_range_good.
  - apply search_good.
  - apply files_good.
  - apply pages_good.
Qed.

End Entries.

Lemma no_crash_bundled decode decode_utf8 int_of loads urlsplit_ok port_ok dir_redirect parsedate parsedate_ts
      stat resolve qsl to_decimal to_uuid to_date :
  declared decode decode_utf8 int_of loads urlsplit_ok port_ok dir_redirect parsedate parsedate_ts stat
           to_decimal to_uuid to_date ->
  forall e, verdict decode decode_utf8 int_of loads urlsplit_ok port_ok dir_redirect parsedate parsedate_ts
                    stat resolve qsl to_decimal to_uuid to_date e = true.
Proof.
  intros (H1 & H2 & H3 & H4 & H5 & H6 & H7 & H8 & H9 & H10 & H11 & H12 & H13).
  apply no_crash_proof; assumption.
Qed.

(* ------------------------------------------------------------------ the code before the repairs *)

Definition ok_unit : text -> unit + exc := fun _ => inl tt.

(* Date: ... +99999999999999 : parsedate_to_datetime raises OverflowError *)
Lemma date_orig_crashes :
  exists (parsedate : text -> (text * bool) + exc) v,
    (forall t e, parsedate t = inr e -> catches decl_date e = true) /\
    good (date_orig parsedate v) = false.
Proof.
  exists (fun _ => inr OverflowError), (Some []). split; [|reflexivity].
  intros t e [= <-]. reflexivity.
Qed.

(* Referer: http://[ : urlsplit raises ValueError *)
Lemma referrer_orig_crashes :
  exists (urlsplit_ok port_ok : text -> unit + exc) v,
    (forall t e, urlsplit_ok t = inr e -> catches decl_url e = true) /\
    (forall t e, port_ok t = inr e -> catches decl_url e = true) /\
    good (referrer_orig urlsplit_ok port_ok v) = false.
Proof.
  exists (fun _ => inr ValueError), ok_unit, (Some []). repeat split; try reflexivity.
  - intros t e [= <-]. reflexivity.
  - intros t e. discriminate.
Qed.

(* Host: [ : urlsplit raises ValueError; a path that is not UTF-8: UnicodeDecodeError *)
Lemma url_orig_crashes :
  exists (decode_utf8 : bytes -> text + exc) (urlsplit_ok port_ok : text -> unit + exc) i script path query host,
    (forall b e, decode_utf8 b = inr e -> catches decl_decode_utf8 e = true) /\
    (forall t e, urlsplit_ok t = inr e -> catches decl_url e = true) /\
    (forall t e, port_ok t = inr e -> catches decl_url e = true) /\
    good (url_orig decode_utf8 urlsplit_ok port_ok i script path query host) = false.
Proof.
  exists (fun b => inl b), (fun _ => inr ValueError), ok_unit, true, [], [47%N], [], (Some [91%N]).
  repeat split; try reflexivity.
  - intros b e. discriminate.
  - intros t e [= <-]. reflexivity.
  - intros t e. discriminate.
Qed.

(* a JSON body nested deeper than the interpreter follows: RecursionError (repo_fixed catches
   ValueError and LookupError only) *)
Lemma json_planned_crashes :
  exists (decode : text -> bytes -> text + exc) (loads : text -> text + exc) ct body,
    (forall cs b e, decode cs b = inr e -> catches decl_decode e = true) /\
    (forall t e, loads t = inr e -> catches decl_loads e = true) /\
    good (json_planned decode loads Fresh ct body) = false.
Proof.
  exists (fun _ b => inl b), (fun _ => inr RecursionError), (Some (lit "application/json")), [].
  repeat split; try reflexivity.
  - intros cs b e. discriminate.
  - intros t e [= <-]. reflexivity.
Qed.

(* /repo: invalid UTF-8 in a JSON body *)
Lemma json_orig_crashes :
  exists (decode : text -> bytes -> text + exc) (loads : text -> text + exc) ct body,
    (forall cs b e, decode cs b = inr e -> catches decl_decode e = true) /\
    (forall t e, loads t = inr e -> catches decl_loads e = true) /\
    good (json_orig decode loads Fresh ct body) = false.
Proof.
  exists (fun _ _ => inr UnicodeDecodeError), (fun t => inl t), (Some (lit "application/json")), [].
  repeat split; try reflexivity.
  - intros cs b e [= <-]. reflexivity.
  - intros t e. discriminate.
Qed.

(* charset=undefined: the codec raises UnicodeError, which is not a UnicodeDecodeError —
   urlencoded form and multipart part header (repo_fixed, 0020 / safe_decode) *)
Lemma form_planned_crashes :
  exists (decode : text -> bytes -> text + exc) i ct body,
    (forall cs b e, decode cs b = inr e -> catches decl_decode e = true) /\
    good (form_planned decode (fun _ => []) i Fresh ct body) = false.
Proof.
  exists (fun _ _ => inr UnicodeError), false,
         (Some (lit "application/x-www-form-urlencoded; charset=undefined")), (lit "a=1").
  split; [intros cs b e [= <-]; reflexivity|]. vm_compute. reflexivity.
Qed.

Lemma multipart_planned_crashes :
  exists (decode : text -> bytes -> text + exc) i ct body,
    (forall cs b e, decode cs b = inr e -> catches decl_decode e = true) /\
    fst (content_type ct) = lit "multipart/form-data" /\
    good (form_planned decode (fun _ => []) i Fresh ct body) = false.
Proof.
  exists (fun _ _ => inr UnicodeError), false,
         (Some (lit "multipart/form-data; charset=undefined; boundary=X")),
         (lit "--X" ++ [13; 10]%N ++ lit "A: b" ++ [13; 10; 13; 10]%N).
  split; [intros cs b e [= <-]; reflexivity|]. split; vm_compute; reflexivity.
Qed.

(* /repo: an int parameter of more than 4300 digits *)
Lemma search_orig_crashes :
  exists (int_of : text -> Z + exc) path,
    (forall t e, int_of t = inr e -> catches decl_int e = true) /\
    good (search_orig int_of ok_unit ok_unit ok_unit [(lit "/i/", Some CInt)] 0%Z path) = false.
Proof.
  exists (fun _ => inr ValueError), (lit "/i/9"). split; [intros t e [= <-]; reflexivity|].
  vm_compute. reflexivity.
Qed.

(* /repo: /file.txt/x : os.stat raises NotADirectoryError *)
Lemma files_orig_crashes :
  exists (stat : text -> node + exc) path,
    (forall p e, stat p = inr e -> catches decl_stat e = true) /\
    good (files_orig (fun _ => inl 0%Z) stat (fun _ p => Some p) path [] []) = false.
Proof.
  exists (fun _ => inr NotADirectoryError), []. split; [intros p e [= <-]; reflexivity|reflexivity].
Qed.

(* repo_fixed: If-Modified-Since with an overflowing zone on an existing file *)
Lemma files_planned_crashes :
  exists (parsedate_ts : text -> Z + exc) path ims,
    (forall t e, parsedate_ts t = inr e -> catches decl_date e = true) /\
    good (files_planned parsedate_ts (fun _ => inl NFile) (fun _ p => Some p) path [] ims) = false.
Proof.
  exists (fun _ => inr OverflowError), [], [48%N]. split; [intros t e [= <-]; reflexivity|reflexivity].
Qed.

(* repo_fixed: a directory URL without the slash and Host: [ — the redirect cannot be built *)
Lemma pages_planned_crashes :
  exists (urlsplit_ok : text -> unit + exc) path host,
    (forall t e, urlsplit_ok t = inr e -> catches decl_url e = true) /\
    good (pages_planned (fun b => inl b) urlsplit_ok (fun u => inl u) (fun _ => inl 0%Z)
                        (fun _ => inl NDir) (fun _ p => Some p) true [] path [] host [] []) = false.
Proof.
  exists (fun _ => inr ValueError), (lit "/sub"), (Some [91%N]).
  split; [intros t e [= <-]; reflexivity|]. vm_compute. reflexivity.
Qed.

(* non-vacuity: primitives that satisfy the declared classes exist, failing ones included *)
Lemma declared_satisfiable :
  declared (fun _ _ => inr LookupError) (fun _ => inr UnicodeDecodeError) (fun _ => inr ValueError)
           (fun _ => inr RecursionError) (fun _ => inr ValueError) (fun _ => inr ValueError)
           (fun _ => inr ValueError) (fun _ => inr OverflowError) (fun _ => inr OverflowError)
           (fun _ => inr NotADirectoryError) (fun _ => inl tt) (fun _ => inl tt) (fun _ => inr ValueError).
Proof.
  unfold declared. repeat split; try (intros; eexists; reflexivity);
    intros; match goal with Hx : inr _ = inr _ |- _ => injection Hx as <- end; reflexivity.
Qed.
