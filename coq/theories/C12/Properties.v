(* C12 — untrusted input never escapes as a non-HTTP error.
   Statements only; every proof is a reference to C12/Proofs.v.  The stdlib primitives
   are universally quantified; that they fail only inside their declared classes is
   the premise [declared] (C12/Model.v), resp. the premise naming the one primitive an
   entry point reaches. *)
From Coq Require Import List NArith ZArith.
From Baize Require Import Lib.Wire C12.Model C12.Proofs.
Import ListNotations.

(* Every entry point, every input, every answer of the primitives inside their declared
   classes: the outcome is a value, a 4xx HTTPException or a documented error. *)
Theorem no_crash :
  forall decode decode_utf8 int_of loads urlsplit_ok port_ok dir_redirect parsedate parsedate_ts
         stat resolve qsl to_decimal to_uuid to_date,
    declared decode decode_utf8 int_of loads urlsplit_ok port_ok dir_redirect parsedate parsedate_ts stat
             to_decimal to_uuid to_date ->
    forall e : entry,
      verdict decode decode_utf8 int_of loads urlsplit_ok port_ok dir_redirect parsedate parsedate_ts
              stat resolve qsl to_decimal to_uuid to_date e = true.
Proof. exact no_crash_bundled. Qed.

(* ---- one statement per entry point, with exactly the primitives it reaches ---- *)

Theorem content_length_no_crash : forall int_of,
  (forall t e, int_of t = inr e -> catches decl_int e = true) ->
  forall te cl, good (content_length int_of te cl) = true.
Proof. exact content_length_good. Qed.

Theorem date_no_crash : forall parsedate,
  (forall t e, parsedate t = inr e -> catches decl_date e = true) ->
  forall v, good (date parsedate v) = true.
Proof. exact date_good. Qed.

Theorem referrer_no_crash : forall urlsplit_ok port_ok,
  (forall t e, urlsplit_ok t = inr e -> catches decl_url e = true) ->
  (forall t e, port_ok t = inr e -> catches decl_url e = true) ->
  forall v, good (referrer urlsplit_ok port_ok v) = true.
Proof. exact referrer_good. Qed.

Theorem url_no_crash : forall decode_utf8 urlsplit_ok port_ok,
  (forall b e, decode_utf8 b = inr e -> catches decl_decode_utf8 e = true) ->
  (forall t e, urlsplit_ok t = inr e -> catches decl_url e = true) ->
  (forall t e, port_ok t = inr e -> catches decl_url e = true) ->
  forall i script path query host, good (url decode_utf8 urlsplit_ok port_ok i script path query host) = true.
Proof. exact url_good. Qed.

Theorem json_no_crash : forall decode loads,
  (forall cs b e, decode cs b = inr e -> catches decl_decode e = true) ->
  (forall t e, loads t = inr e -> catches decl_loads e = true) ->
  forall st ct body, good (json decode loads st ct body) = true.
Proof. exact json_good. Qed.

Theorem form_no_crash : forall decode qsl,
  (forall cs b e, decode cs b = inr e -> catches decl_decode e = true) ->
  forall i st ct body, good (form decode qsl i st ct body) = true.
Proof. exact form_good. Qed.

(* the multipart decoder and stream helper add no failure of their own: with a total
   safe_decode no exception other than 400 / 413 comes out, whatever the body *)
Theorem multipart_no_crash : forall sd : bytes -> text + exc,
  (forall s, exists t, sd s = inl t) ->
  forall b chunks x, parse_multipart sd b chunks <> MCrash x.
Proof. exact parse_multipart_no_crash. Qed.

Theorem parse_range_no_crash : forall h size, good (parse_range h size) = true.
Proof. exact parse_range_good. Qed.

Theorem route_no_crash : forall int_of to_decimal to_uuid to_date,
  (forall t e, int_of t = inr e -> catches decl_int e = true) ->
  (forall t e, to_date t = inr e -> catches decl_conv e = true) ->
  (forall t, re_match CDecimal t = true -> exists u, to_decimal t = inl u) ->
  (forall t, re_match CUuid t = true -> exists u, to_uuid t = inl u) ->
  forall routes idx path, good (search int_of to_decimal to_uuid to_date routes idx path) = true.
Proof. exact search_good. Qed.

Theorem files_no_crash : forall parsedate_ts stat resolve,
  (forall t e, parsedate_ts t = inr e -> catches decl_date e = true) ->
  (forall p e, stat p = inr e -> catches decl_stat e = true) ->
  forall path inm ims, good (files parsedate_ts stat resolve path inm ims) = true.
Proof. exact files_good. Qed.

Theorem pages_no_crash : forall decode_utf8 urlsplit_ok dir_redirect parsedate_ts stat resolve,
  (forall b e, decode_utf8 b = inr e -> catches decl_decode_utf8 e = true) ->
  (forall t e, urlsplit_ok t = inr e -> catches decl_url e = true) ->
  (forall t e, dir_redirect t = inr e -> catches decl_url e = true) ->
  (forall t e, parsedate_ts t = inr e -> catches decl_date e = true) ->
  (forall p e, stat p = inr e -> catches decl_stat e = true) ->
  forall i script path query host inm ims,
    good (pages decode_utf8 urlsplit_ok dir_redirect parsedate_ts stat resolve
                i script path query host inm ims) = true.
Proof. exact pages_good. Qed.

(* ---- the code before each repair does let an exception escape, with primitives that stay
        inside their declared classes ---- *)

Theorem date_orig_refuted :
  exists (parsedate : text -> (text * bool) + exc) v,
    (forall t e, parsedate t = inr e -> catches decl_date e = true) /\
    good (date_orig parsedate v) = false.
Proof. exact date_orig_crashes. Qed.

Theorem referrer_orig_refuted :
  exists (urlsplit_ok port_ok : text -> unit + exc) v,
    (forall t e, urlsplit_ok t = inr e -> catches decl_url e = true) /\
    (forall t e, port_ok t = inr e -> catches decl_url e = true) /\
    good (referrer_orig urlsplit_ok port_ok v) = false.
Proof. exact referrer_orig_crashes. Qed.

Theorem url_orig_refuted :
  exists (decode_utf8 : bytes -> text + exc) (urlsplit_ok port_ok : text -> unit + exc) i script path query host,
    (forall b e, decode_utf8 b = inr e -> catches decl_decode_utf8 e = true) /\
    (forall t e, urlsplit_ok t = inr e -> catches decl_url e = true) /\
    (forall t e, port_ok t = inr e -> catches decl_url e = true) /\
    good (url_orig decode_utf8 urlsplit_ok port_ok i script path query host) = false.
Proof. exact url_orig_crashes. Qed.

Theorem json_planned_refuted :
  exists (decode : text -> bytes -> text + exc) (loads : text -> text + exc) ct body,
    (forall cs b e, decode cs b = inr e -> catches decl_decode e = true) /\
    (forall t e, loads t = inr e -> catches decl_loads e = true) /\
    good (json_planned decode loads Fresh ct body) = false.
Proof. exact json_planned_crashes. Qed.

Theorem json_orig_refuted :
  exists (decode : text -> bytes -> text + exc) (loads : text -> text + exc) ct body,
    (forall cs b e, decode cs b = inr e -> catches decl_decode e = true) /\
    (forall t e, loads t = inr e -> catches decl_loads e = true) /\
    good (json_orig decode loads Fresh ct body) = false.
Proof. exact json_orig_crashes. Qed.

Theorem form_planned_refuted :
  exists (decode : text -> bytes -> text + exc) i ct body,
    (forall cs b e, decode cs b = inr e -> catches decl_decode e = true) /\
    good (form_planned decode (fun _ => []) i Fresh ct body) = false.
Proof. exact form_planned_crashes. Qed.

Theorem multipart_planned_refuted :
  exists (decode : text -> bytes -> text + exc) i ct body,
    (forall cs b e, decode cs b = inr e -> catches decl_decode e = true) /\
    fst (content_type ct) = lit "multipart/form-data" /\
    good (form_planned decode (fun _ => []) i Fresh ct body) = false.
Proof. exact multipart_planned_crashes. Qed.

Theorem search_orig_refuted :
  exists (int_of : text -> Z + exc) path,
    (forall t e, int_of t = inr e -> catches decl_int e = true) /\
    good (search_orig int_of ok_unit ok_unit ok_unit [(lit "/i/", Some CInt)] 0%Z path) = false.
Proof. exact search_orig_crashes. Qed.

Theorem files_orig_refuted :
  exists (stat : text -> node + exc) path,
    (forall p e, stat p = inr e -> catches decl_stat e = true) /\
    good (files_orig (fun _ => inl 0%Z) stat (fun _ p => Some p) path [] []) = false.
Proof. exact files_orig_crashes. Qed.

Theorem files_planned_refuted :
  exists (parsedate_ts : text -> Z + exc) path ims,
    (forall t e, parsedate_ts t = inr e -> catches decl_date e = true) /\
    good (files_planned parsedate_ts (fun _ => inl NFile) (fun _ p => Some p) path [] ims) = false.
Proof. exact files_planned_crashes. Qed.

Theorem pages_planned_refuted :
  exists (urlsplit_ok : text -> unit + exc) path host,
    (forall t e, urlsplit_ok t = inr e -> catches decl_url e = true) /\
    good (pages_planned (fun b => inl b) urlsplit_ok (fun u => inl u) (fun _ => inl 0%Z)
                        (fun _ => inl NDir) (fun _ p => Some p) true [] path [] host [] []) = false.
Proof. exact pages_planned_crashes. Qed.

(* non-vacuity: there are primitives inside the declared classes, and they may fail everywhere *)
Example declared_inhabited :
  declared (fun _ _ => inr LookupError) (fun _ => inr UnicodeDecodeError) (fun _ => inr ValueError)
           (fun _ => inr RecursionError) (fun _ => inr ValueError) (fun _ => inr ValueError)
           (fun _ => inr ValueError) (fun _ => inr OverflowError) (fun _ => inr OverflowError)
           (fun _ => inr NotADirectoryError) (fun _ => inl tt) (fun _ => inl tt) (fun _ => inr ValueError).
Proof. exact declared_satisfiable. Qed.

Print Assumptions no_crash.
Print Assumptions content_length_no_crash.
Print Assumptions date_no_crash.
Print Assumptions referrer_no_crash.
Print Assumptions url_no_crash.
Print Assumptions json_no_crash.
Print Assumptions form_no_crash.
Print Assumptions multipart_no_crash.
Print Assumptions parse_range_no_crash.
Print Assumptions route_no_crash.
Print Assumptions files_no_crash.
Print Assumptions pages_no_crash.
Print Assumptions date_orig_refuted.
Print Assumptions referrer_orig_refuted.
Print Assumptions url_orig_refuted.
Print Assumptions json_planned_refuted.
Print Assumptions json_orig_refuted.
Print Assumptions form_planned_refuted.
Print Assumptions multipart_planned_refuted.
Print Assumptions search_orig_refuted.
Print Assumptions files_orig_refuted.
Print Assumptions files_planned_refuted.
Print Assumptions pages_planned_refuted.
