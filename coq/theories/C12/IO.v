(* C12 — wire interface of the model: one case line in, one observation line out.
   The case line carries, next to the client bytes, the answers the real stdlib
   primitives gave for this case; they instantiate the Section variables of the
   model.  The observation is [outcome; what the model asked the primitives]. *)
From Coq Require Import List NArith ZArith Bool Arith.
From Baize Require Import Lib.Wire Lib.Order C12.Model.
From Baize Require C01.Model C03.Model.
Import ListNotations.

(* ---- exception names ---- *)

Definition all_exc : list exc :=
  [ValueError; UnicodeError; UnicodeDecodeError; UnicodeEncodeError; JSONDecodeError; LookupError;
   KeyError; IndexError; TypeError; ArithmeticError; OverflowError; ZeroDivisionError;
   InvalidOperation; OSError; FileNotFoundError; NotADirectoryError; PermissionError;
   IsADirectoryError; RuntimeError; RecursionError; AttributeError; AssertionError; MemoryError;
   OtherException].

Definition exc_name (e : exc) : list N :=
  match e with
  | ValueError => lit "ValueError" | UnicodeError => lit "UnicodeError"
  | UnicodeDecodeError => lit "UnicodeDecodeError" | UnicodeEncodeError => lit "UnicodeEncodeError"
  | JSONDecodeError => lit "JSONDecodeError" | LookupError => lit "LookupError"
  | KeyError => lit "KeyError" | IndexError => lit "IndexError" | TypeError => lit "TypeError"
  | ArithmeticError => lit "ArithmeticError" | OverflowError => lit "OverflowError"
  | ZeroDivisionError => lit "ZeroDivisionError" | InvalidOperation => lit "InvalidOperation"
  | OSError => lit "OSError" | FileNotFoundError => lit "FileNotFoundError"
  | NotADirectoryError => lit "NotADirectoryError" | PermissionError => lit "PermissionError"
  | IsADirectoryError => lit "IsADirectoryError" | RuntimeError => lit "RuntimeError"
  | RecursionError => lit "RecursionError" | AttributeError => lit "AttributeError"
  | AssertionError => lit "AssertionError" | MemoryError => lit "MemoryError"
  | OtherException => lit "Exception"
  end.

Definition exc_of_name (n : list N) : exc :=
  match find (fun e => bytes_eqb (exc_name e) n) all_exc with
  | Some e => e
  | None => OtherException
  end.

(* ---- reading ---- *)

Definition rd_opt (s : sx) : option text :=
  match s with Lst [Str t] => Some t | _ => None end.

(* an oracle answer: (0 payload...) = value, (1 class) = failure, () = not consulted by the
   harness — if the model consults it anyway the disagreement shows as AssertionError *)
Definition rd_ans {A} (val : list sx -> A) (s : sx) : A + exc :=
  match s with
  | Lst (Num 0%Z :: payload) => inl (val payload)
  | Lst [Num 1%Z; Str cls] => inr (exc_of_name cls)
  | _ => inr AssertionError
  end.

Definition rd_unit := rd_ans (fun _ => tt).
Definition rd_text := rd_ans (fun p => match p with Str t :: _ => t | _ => [] end).
Definition rd_z := rd_ans (fun p => match p with Num z :: _ => z | _ => 0%Z end).

Definition rd_pairs (s : sx) : list (text * text) :=
  map (fun p => match p with Lst [Str k; Str v] => (k, v) | _ => ([], []) end) (sx_l s).

Definition rd_pre (s : sx) : pre :=
  match s with Num 1%Z => Consumed | Num 2%Z => Disconnects | _ => Fresh end.

(* ---- printing ---- *)

Definition show_outcome {V} (f : V -> sx) (o : outcome V) : sx :=
  match o with
  | Ok v => Lst [tag (lit "ok"); f v]
  | Http c => Lst [tag (lit "http"); of_N c]
  | Documented StreamConsumed => Lst [tag (lit "doc"); tag (lit "StreamConsumed")]
  | Documented ClientDisconnect => Lst [tag (lit "doc"); tag (lit "ClientDisconnect")]
  | Crash e => Lst [tag (lit "crash"); tag (exc_name e)]
  end.

Definition show_pairs (l : list (text * text)) : sx :=
  Lst (map (fun p => Lst [Str (fst p); Str (snd p)]) l).

Definition show_item (it : C01.Model.item) : sx :=
  match it with
  | C01.Model.IText n t => Lst [of_opt Str n; Num 0; Str t]
  | C01.Model.IFile n fn _ content => Lst [of_opt Str n; Num 1; Str fn; Str content]
  end.

Definition show_form (v : formval) : sx :=
  match v with
  | FPairs l => show_pairs l
  | FItems l => Lst (map show_item l)
  end.

(* ---- oracle instances that are not constants ---- *)

(* bytes.decode for the charset kinds the multipart cases are restricted to *)
Definition decode_kind (kind : sx) (s : bytes) : text + exc :=
  match kind, s with
  | _, [] => inl []          (* CPython answers "" for empty input before it looks the codec up *)
  | Lst [Str k], _ =>
      if bytes_eqb k (lit "utf8") then
        match C01.Model.utf8_decode (length s) s with Some t => inl t | None => inr UnicodeDecodeError end
      else if bytes_eqb k (lit "latin1") then inl s
      else if bytes_eqb k (lit "ascii") then
        if forallb (fun c => N.ltb c 128) s then inl s else inr UnicodeDecodeError
      else inr AssertionError
  | Lst [Str _; Str cls], _ => inr (exc_of_name cls)
  | _, _ => inr AssertionError
  end.

Definition rd_node (p : list sx) : node :=
  match p with Num 0%Z :: _ => NFile | Num 1%Z :: _ => NDir | _ => NOther end.

Fixpoint stat_table (tbl : list sx) (p : text) : node + exc :=
  match tbl with
  | Lst [Str q; a] :: r => if bytes_eqb p q then rd_ans rd_node a else stat_table r p
  | _ :: r => stat_table r p
  | [] => inr AssertionError
  end.

(* ---- the fixed router of the route cases ---- *)

Definition routes : list route :=
  [(lit "/i/", Some CInt); (lit "/i/", Some CStr); (lit "/d/", Some CDecimal); (lit "/u/", Some CUuid);
   (lit "/t/", Some CDate); (lit "/t/", Some CStr); (lit "/s/", Some CStr); (lit "/a/", Some CAny);
   (lit "/", None)].

Definition conv_tag (c : conv) : option (list N) :=
  match c with
  | CInt => Some (lit "int") | CDecimal => Some (lit "decimal")
  | CUuid => Some (lit "uuid") | CDate => Some (lit "date") | _ => None
  end.

(* the convertors whose pattern matches the parameter text (those have an oracle answer) *)
Definition route_asked (path : text) : list sx :=
  flat_map (fun r =>
              match r with
              | (p, Some c) =>
                  match conv_tag c with
                  | Some t => if C01.Model.starts_with p path && re_match c (skipn (length p) path)
                              then [Str t] else []
                  | None => []
                  end
              | _ => []
              end) routes.

(* ---- unused oracles of an operation ---- *)

Definition no_decode : text -> bytes -> text + exc := fun _ _ => inr AssertionError.
Definition no_text : text -> text + exc := fun _ => inr AssertionError.
Definition no_unit : text -> unit + exc := fun _ => inr AssertionError.

Definition some_if {A} (b : bool) (a : A) : list A := if b then [a] else [].

Definition run (c : list sx) : list sx :=
  match c with
  | Str op :: args =>
      if bytes_eqb op (lit "clen") then
        match args with
        | [te; cl; ia] =>
            let te := rd_opt te in let cl := rd_opt cl in
            [show_outcome (of_opt Num) (content_length (fun _ => rd_z ia) te cl);
             Lst (match cl with
                  | Some v => some_if (negb (bytes_eqb (dflt [] te) (lit "chunked"))) (Str v)
                  | None => [] end)]
        | _ => [tag (lit "badcase")]
        end
      else if bytes_eqb op (lit "date") then
        match args with
        | [v; a] =>
            let v := rd_opt v in
            let pd := fun _ : text =>
                        rd_ans (fun p => match p with
                                         | [Str iso; n] => (iso, sx_b n)
                                         | _ => ([], false) end) a in
            [show_outcome (of_opt Str) (date pd v); Lst (match v with Some t => [Str t] | None => [] end)]
        | _ => [tag (lit "badcase")]
        end
      else if bytes_eqb op (lit "cookies") then
        match args with
        | [v] => [show_outcome show_pairs (Ok (cookies (rd_opt v))); Lst []]
        | _ => [tag (lit "badcase")]
        end
      else if bytes_eqb op (lit "accept") then
        match args with
        | [v; Str media] =>
            let v := rd_opt v in
            [show_outcome (fun x => x)
               (Ok (Lst [show_pairs (accepted_types v); of_bool (accepts v media)])); Lst []]
        | _ => [tag (lit "badcase")]
        end
      else if bytes_eqb op (lit "ctype") then
        match args with
        | [v] =>
            let v := rd_opt v in
            [show_outcome (fun x => x)
               (Ok (Lst [Str (fst (content_type v)); of_opt Str (ct_option v (lit "charset"));
                         of_opt Str (ct_option v (lit "boundary"))])); Lst []]
        | _ => [tag (lit "badcase")]
        end
      else if bytes_eqb op (lit "referrer") then
        match args with
        | [v; sa; pa] =>
            let v := rd_opt v in
            [show_outcome (of_opt Str) (referrer (fun _ => rd_unit sa) (fun _ => rd_unit pa) v);
             Lst (match v with Some t => [Str t] | None => [] end)]
        | _ => [tag (lit "badcase")]
        end
      else if bytes_eqb op (lit "url") then
        match args with
        | [i; Str script; Str path; Str query; host; dp; dq; sa; pa] =>
            let dec := fun b : bytes => if negb (sx_b i) && bytes_eqb b (script ++ path)
                                        then rd_text dp else rd_text dq in
            let host := rd_opt host in
            [show_outcome Str (url dec (fun _ => rd_unit sa) (fun _ => rd_unit pa)
                                   (sx_b i) script path query host);
             Lst (match build_url dec (sx_b i) script path query host with
                  | inl u => [Str u] | inr _ => [] end)]
        | _ => [tag (lit "badcase")]
        end
      else if bytes_eqb op (lit "query") then
        match args with
        | [Str q; items] => [show_outcome show_pairs (query_params (fun _ => rd_pairs items) q); Lst []]
        | _ => [tag (lit "badcase")]
        end
      else if bytes_eqb op (lit "json") then
        match args with
        | [st; ct; da; la] =>
            let ct := rd_opt ct in let st := rd_pre st in
            [show_outcome Str (json (fun _ _ => rd_text da) (fun _ => rd_text la) st ct []);
             Lst (some_if (bytes_eqb (fst (content_type ct)) (lit "application/json")
                           && match st with Fresh => true | _ => false end)
                          (Str (charset_or ct (lit "utf8"))))]
        | _ => [tag (lit "badcase")]
        end
      else if bytes_eqb op (lit "form") then
        match args with
        | [i; st; ct; kind; Str body; da] =>
            let ct := rd_opt ct in let st := rd_pre st in
            let ty := fst (content_type ct) in
            let mp := bytes_eqb ty (lit "multipart/form-data") in
            let dec := fun (_ : text) (s : bytes) =>
                         if mp then decode_kind kind s
                         else match rd_unit da with inl _ => inl [] | inr e => inr e end in
            let items := match da with Lst [Num 0%Z; l] => rd_pairs l | _ => [] end in
            [show_outcome show_form (form dec (fun _ => items) (sx_b i) st ct body);
             Lst (if mp then some_if (match ct_option ct (lit "boundary"), st with
                                      | Some _, Fresh => true | Some _, Disconnects => true
                                      | _, _ => false end)
                                     (Str (charset_or ct (lit "utf8")))
                  else some_if (bytes_eqb ty (lit "application/x-www-form-urlencoded")
                                && match st with Fresh => true | _ => false end)
                               (Str (charset_or ct (lit "latin-1"))))]
        | _ => [tag (lit "badcase")]
        end
      else if bytes_eqb op (lit "range") then
        match args with
        | [Str h; Num size] =>
            [show_outcome (fun l => Lst (map (fun r => Lst [Num (fst r); Num (snd r)]) l))
                          (parse_range h size); Lst []]
        | _ => [tag (lit "badcase")]
        end
      else if bytes_eqb op (lit "route") then
        match args with
        | [Str path; ia; da; ua; ta] =>
            [show_outcome Num
               (search (fun _ => match rd_unit ia with inl _ => inl 0%Z | inr e => inr e end)
                       (fun _ => rd_unit da) (fun _ => rd_unit ua) (fun _ => rd_unit ta)
                       routes 0%Z path);
             Lst (route_asked path)]
        | _ => [tag (lit "badcase")]
        end
      else if bytes_eqb op (lit "files") then
        match args with
        | [kind; i; Str path; Str inm; Str ims; resolved; Lst stats; imsa;
           Str script; Str query; host; dp; dq; sa; ra] =>
            let dec := fun b : bytes => if negb (sx_b i) && bytes_eqb b (script ++ path)
                                        then rd_text dp else rd_text dq in
            let res := fun (_ : bool) (_ : text) => rd_opt resolved in
            let show_resp := fun r => match r with RFile => tag (lit "file") | RRedirect => tag (lit "redirect") end in
            [show_outcome show_resp
               (if sx_b kind
                then pages dec (fun _ => rd_unit sa) (fun _ => rd_text ra) (fun _ => rd_z imsa)
                           (stat_table stats) res (sx_b i) script path query (rd_opt host) inm ims
                else files (fun _ => rd_z imsa) (stat_table stats) res path inm ims);
             Lst []]
        | _ => [tag (lit "badcase")]
        end
      else [tag (lit "badcase")]
  | _ => [tag (lit "badcase")]
  end.

Definition run_line (l : list N) : list N := print_line (run (parse_line l)).
