(* C12 — untrusted input never escapes as a non-HTTP error.

   Every public entry point through which client bytes reach baize is an
   outcome-typed function

       Ok value | Http code | Documented error | Crash exception-class

   baize's own string code is modelled concretely (parse_header, Headers, cookie
   splitting, the Accept list, the content_length / date / referrer guards, URL
   assembly, the multipart decoder with its part-header parsing, the Range scan
   (C03), the route patterns of the six convertors, the control flow of the
   Files / Pages applications).  Every stdlib primitive that can fail is a
   Section variable answering [inl value | inr exception-class]; its DECLARED
   failure classes are a Section hypothesis.  The model of each entry point shows
   which classes the code catches ([catches handler e], with Python's subclass
   relation) and what it maps them to.  The handler tuples are parameters of the
   [..._with] definitions so that the code as it was before a repair is the same
   definition with the old tuple (used by the [..._refuted] lemmas).

   Mirrors /tmp/wk/C12_repo = repo_fixed + the C12 repairs (notes/planned-fixes
   0050..0055). *)
From Coq Require Import List NArith ZArith Bool Arith.
From Baize Require Import Lib.Wire Lib.Order.
From Baize Require C01.Model C03.Model C16.Model.
Import ListNotations.

Definition text := list N.
Definition bytes := list N.

(* ------------------------------------------------------------------ exceptions *)

Inductive exc :=
| ValueError | UnicodeError | UnicodeDecodeError | UnicodeEncodeError | JSONDecodeError
| LookupError | KeyError | IndexError
| TypeError
| ArithmeticError | OverflowError | ZeroDivisionError | InvalidOperation
| OSError | FileNotFoundError | NotADirectoryError | PermissionError | IsADirectoryError
| RuntimeError | RecursionError
| AttributeError | AssertionError | MemoryError
| OtherException.

(* the direct base class below Exception *)
Definition parent (e : exc) : option exc :=
  match e with
  | UnicodeError => Some ValueError
  | UnicodeDecodeError => Some UnicodeError
  | UnicodeEncodeError => Some UnicodeError
  | JSONDecodeError => Some ValueError
  | KeyError => Some LookupError
  | IndexError => Some LookupError
  | OverflowError => Some ArithmeticError
  | ZeroDivisionError => Some ArithmeticError
  | InvalidOperation => Some ArithmeticError
  | FileNotFoundError => Some OSError
  | NotADirectoryError => Some OSError
  | PermissionError => Some OSError
  | IsADirectoryError => Some OSError
  | RecursionError => Some RuntimeError
  | _ => None
  end.

Definition exc_id (e : exc) : N :=
  match e with
  | ValueError => 1 | UnicodeError => 2 | UnicodeDecodeError => 3 | UnicodeEncodeError => 4
  | JSONDecodeError => 5 | LookupError => 6 | KeyError => 7 | IndexError => 8 | TypeError => 9
  | ArithmeticError => 10 | OverflowError => 11 | ZeroDivisionError => 12 | InvalidOperation => 13
  | OSError => 14 | FileNotFoundError => 15 | NotADirectoryError => 16 | PermissionError => 17
  | IsADirectoryError => 18 | RuntimeError => 19 | RecursionError => 20 | AttributeError => 21
  | AssertionError => 22 | MemoryError => 23 | OtherException => 24
  end%N.

Definition exc_eqb (a b : exc) : bool := N.eqb (exc_id a) (exc_id b).

(* isinstance(e, h): e is h or h is among its bases (the hierarchy above is 3 deep) *)
Fixpoint is_a_fuel (fuel : nat) (e h : exc) : bool :=
  exc_eqb e h ||
  match fuel with
  | O => false
  | S k => match parent e with Some p => is_a_fuel k p h | None => false end
  end.
Definition is_a (e h : exc) : bool := is_a_fuel 3 e h.

(* `except (h1, h2, ...)` catches e *)
Definition catches (handler : list exc) (e : exc) : bool := existsb (is_a e) handler.

(* ------------------------------------------------------------------ outcomes *)

Inductive doc := StreamConsumed | ClientDisconnect.

Inductive outcome (V : Type) : Type :=
| Ok (v : V)
| Http (code : N)
| Documented (d : doc)
| Crash (e : exc).
Arguments Ok {V} v.
Arguments Http {V} code.
Arguments Documented {V} d.
Arguments Crash {V} e.

(* what the property allows: a value, a 4xx HTTP exception, a documented error *)
Definition good {V} (o : outcome V) : bool :=
  match o with
  | Ok _ => true
  | Http c => N.leb 400 c && N.ltb c 500
  | Documented _ => true
  | Crash _ => false
  end.

Definition handle {V} (handler : list exc) (status : N) (e : exc) : outcome V :=
  if catches handler e then Http status else Crash e.

(* ------------------------------------------------------------------ small helpers *)

Definition dflt {A} (d : A) (o : option A) : A := match o with Some a => a | None => d end.
Definition nonempty {A} (l : list A) : bool := match l with [] => false | _ => true end.
Definition teq := bytes_eqb.

Definition parse_header := C01.Model.parse_header.
Definition hget := C01.Model.hget.
Definition ustrip := C01.Model.strip C01.Model.is_uspace.

Fixpoint ends_with_rev (rp rs : text) : bool :=
  match rp, rs with
  | [], _ => true
  | x :: p, y :: s => N.eqb x y && ends_with_rev p s
  | _ :: _, [] => false
  end.
Definition ends_with (p s : text) : bool := ends_with_rev (rev p) (rev s).

(* interface: false = WSGI, true = ASGI *)
Definition iface := bool.

(* state of the request body when the accessor runs *)
Inductive pre := Fresh | Consumed | Disconnects.

(* Request.body: the stream was already consumed / the client goes away before the end *)
Definition read_body (st : pre) (body : bytes) : bytes + doc :=
  match st with
  | Fresh => inl body
  | Consumed => inr StreamConsumed
  | Disconnects => inr ClientDisconnect
  end.

(* ------------------------------------------------------------------ header-only accessors *)

(* content_type : ContentType(headers.get("content-type", "")) *)
Definition content_type (ct : option text) : text * list C01.Model.header :=
  parse_header (dflt [] ct).

Definition ct_option (ct : option text) (k : text) : option text := hget k (snd (content_type ct)).

(* MediaType(token): (main_type, sub_type) *)
Definition media_type (raw : text) : text * text :=
  let full := fst (parse_header raw) in
  match C01.Model.split_at_first 47 full with
  | Some (a, b) => (a, b)
  | None => (full, [])
  end.

Definition accepted_types (accept : option text) : list (text * text) :=
  map media_type
      (filter (fun t => nonempty (ustrip t)) (split_on 44 (dflt (lit "*/*") accept))).

Definition star : text := [42%N].

Definition media_match (m : text * text) (other : text) : bool :=
  if teq (fst m) star && teq (snd m) star then true
  else let o := media_type other in
       teq (fst m) (fst o) && (teq (snd m) star || teq (snd m) (snd o)).

Definition accepts (accept : option text) (other : text) : bool :=
  existsb (fun m => media_match m other) (accepted_types accept).

(* cookies: Django's splitting + http.cookies._unquote, both total (C16) *)
Definition cookies (cookie : option text) : list (text * text) :=
  C16.Model.parse_cookies (dflt [] cookie).

Section Oracles.

(* ---- stdlib primitives: answer and declared failure classes ------------------- *)

(* bytes.decode(charset) *)
Variable decode : text -> bytes -> text + exc.
Definition decl_decode : list exc := [ValueError; LookupError].
(* bytes.decode("utf8") / bytes.decode(): the codec is fixed and exists *)
Variable decode_utf8 : bytes -> text + exc.
Definition decl_decode_utf8 : list exc := [UnicodeDecodeError].
(* int(text) *)
Variable int_of : text -> Z + exc.
Definition decl_int : list exc := [ValueError].
(* json.loads(text); the value is opaque (a digest of its canonical form) *)
Variable loads : text -> text + exc.
Definition decl_loads : list exc := [ValueError; RecursionError].
(* urllib.parse.urlsplit(url) does not raise / SplitResult.port does not raise *)
Variable urlsplit_ok : text -> unit + exc.
Variable port_ok : text -> unit + exc.
Definition decl_url : list exc := [ValueError].
(* str(URL(u).replace(scheme="", path=URL(u).path + "/")) : urlunsplit + urlsplit again *)
Variable dir_redirect : text -> text + exc.
(* email.utils.parsedate_to_datetime(text): isoformat() and whether it is naive *)
Variable parsedate : text -> (text * bool) + exc.
(* parsedate_to_datetime(text).timestamp(), truncated *)
Variable parsedate_ts : text -> Z + exc.
Definition decl_date : list exc := [TypeError; ValueError; OverflowError].
(* os.stat(path): kind of node *)
Inductive node := NFile | NDir | NOther.
Variable stat : text -> node + exc.
Definition decl_stat : list exc := [OSError; ValueError].
(* os.path.abspath/join/relpath inside ensure_absolute_path: total; None = outside *)
Variable resolve : bool -> text -> option text.
(* urllib.parse.parse_qsl(text, keep_blank_values=True): total *)
Variable qsl : text -> list (text * text).
(* convertor targets on regex-matched text *)
Variable to_decimal : text -> unit + exc.
Variable to_uuid : text -> unit + exc.
Variable to_date : text -> unit + exc.
Definition decl_conv : list exc := [ValueError].

(* ---- content_length ------------------------------------------------------------ *)

Definition content_length_with (h : list exc) (te cl : option text) : outcome (option Z) :=
  if teq (dflt [] te) (lit "chunked") then Ok None
  else match cl with
       | None => Ok None
       | Some v =>
           match int_of v with
           | inl n => Ok (Some (Z.max 0 n))
           | inr e => if catches h e then Ok None else Crash e
           end
       end.
Definition content_length := content_length_with [ValueError; TypeError].

(* ---- date ---------------------------------------------------------------------- *)

Definition utc_suffix : text := lit "+00:00".

Definition date_with (h : list exc) (v : option text) : outcome (option text) :=
  match v with
  | None => Ok None
  | Some t =>
      match parsedate t with
      | inl (iso, naive) => Ok (Some (if naive then iso ++ utc_suffix else iso))
      | inr e => if catches h e then Ok None else Crash e
      end
  end.
Definition date := date_with [TypeError; ValueError; OverflowError].
Definition date_orig := date_with [TypeError; ValueError].

(* ---- referrer ------------------------------------------------------------------ *)

Definition referrer_with (h : list exc) (check_port : bool) (v : option text) : outcome (option text) :=
  match v with
  | None => Ok None
  | Some t =>
      match urlsplit_ok t with
      | inr e => if catches h e then Ok None else Crash e
      | inl _ =>
          if check_port then
            match port_ok t with
            | inr e => if catches h e then Ok None else Crash e
            | inl _ => Ok (Some t)
            end
          else Ok (Some t)
      end
  end.
Definition referrer := referrer_with [ValueError] true.
Definition referrer_orig := referrer_with [] false.

(* ---- url ----------------------------------------------------------------------- *)

Definition http_prefix : text := lit "http://".
Definition server_netloc : text := lit "testserver".     (* SERVER_NAME / scope["server"], port 80 *)

(* URL._build_url, scheme http, default port *)
Definition url_text (host : option text) (path : text) (q : option text) : text :=
  http_prefix ++ dflt server_netloc host ++ path ++
  match q with Some qt => 63%N :: qt | None => [] end.

(* URL.__init__(environ=...) / (scope=...) up to the text handed to urlsplit *)
Definition build_url (i : iface) (script path query : text) (host : option text) : text + exc :=
  match (if i then inl (script ++ path) else decode_utf8 (script ++ path)) with
  | inr e => inr e
  | inl p =>
      match query with
      | [] => inl (url_text host p None)
      | _ => match decode_utf8 query with
             | inr e => inr e
             | inl q => inl (url_text host p (Some q))
             end
      end
  end.

Definition url_with (h : list exc) (check_port : bool) (i : iface) (script path query : text)
  (host : option text) : outcome text :=
  match build_url i script path query host with
  | inr e => handle h 400 e
  | inl u =>
      match urlsplit_ok u with
      | inr e => handle h 400 e
      | inl _ =>
          if check_port then
            match port_ok u with
            | inr e => handle h 400 e
            | inl _ => Ok u
            end
          else Ok u
      end
  end.
Definition url := url_with [ValueError] true.
Definition url_orig := url_with [] false.

(* ---- query_params -------------------------------------------------------------- *)

Definition query_params (query : text) : outcome (list (text * text)) := Ok (qsl query).

(* ---- json ---------------------------------------------------------------------- *)

Definition charset_or (ct : option text) (d : text) : text := dflt d (ct_option ct (lit "charset")).

Definition json_with (h : list exc) (st : pre) (ct : option text) (body : bytes) : outcome text :=
  if negb (teq (fst (content_type ct)) (lit "application/json")) then Http 415
  else match read_body st body with
       | inr d => Documented d
       | inl data =>
           match decode (charset_or ct (lit "utf8")) data with
           | inr e => handle h 400 e
           | inl t => match loads t with
                      | inr e => handle h 400 e
                      | inl v => Ok v
                      end
           end
       end.
Definition json := json_with [ValueError; LookupError; RecursionError].
Definition json_planned := json_with [ValueError; LookupError].      (* repo_fixed (0019) *)
Definition json_orig := json_with [JSONDecodeError].                  (* /repo *)

(* ---- multipart ----------------------------------------------------------------- *)

(* safe_decode(src, charset) *)
Definition safe_decode_with (h : list exc) (cs : text) (s : bytes) : text + exc :=
  match decode cs s with
  | inl t => inl t
  | inr e => if catches h e then inl s else inr e      (* src.decode("latin-1") *)
  end.

Section Multipart.
  Import C01.Model.
  Variable sd : bytes -> text + exc.

  Inductive pres := POk (hs : list header) | PMalformed | PCrash (e : exc).

  (* MultipartDecoder._parse_headers *)
  Definition parse_headers (block : bytes) : pres :=
    let lines := splitlines (unfold_continuations block) in
    let step (acc : pres) (line : bytes) :=
      match acc with
      | POk hs =>
          match strip is_bspace line with
          | [] => POk hs
          | l => match sd l with
                 | inr e => PCrash e
                 | inl t =>
                     match split_at_first 58 t with
                     | Some (n, v) => POk (hs ++ [(strip is_uspace n, strip is_uspace v)])
                     | None => PMalformed
                     end
                 end
          end
      | _ => acc
      end in
    match fold_left step lines (POk []) with
    | POk hs => POk (headers_of hs)
    | r => r
    end.

  (* next_event; the decoder is never told the input ended (d_complete = false) *)
  Definition next_event (b : bytes) (d : decoder) : (event + exc) * decoder :=
    match d_state d with
    | PART =>
        let buf := d_buf d in
        match search_blank buf with
        | Some (s, e) =>
            match parse_headers (firstn s buf) with
            | PCrash x => (inr x, d)
            | PMalformed => (inl EMalformed, d)
            | POk hs =>
                match hget (lit "content-disposition") hs with
                | None => (inl EMalformed, with_buf d (skipn e buf) PART)
                | Some cd =>
                    let extra := snd (parse_header cd) in
                    let name := hget (lit "name") extra in
                    (inl match hget (lit "filename") extra with
                         | Some fn => EFile name fn hs
                         | None => EField name hs
                         end, with_buf d (skipn e buf) DATA)
                end
            end
        | None => (inl ENeed, d)
        end
    | _ => let '(ev, d') := C01.Model.next_event b false d in (inl ev, d')
    end.

  Inductive mp_outcome :=
  | MItems (items : list item)
  | M413
  | M400
  | MCrash (e : exc).

  (* the helper's reaction to one event (C01.Model.helper_event with the decoding of a
     field value made explicit) *)
  Definition helper_event (max_parts : nat) (h : hstate) (ev : event) : hstate + mp_outcome :=
    match ev with
    | EData data false =>
        match h_file h with
        | None =>
            match sd (h_data h ++ data) with
            | inr e => inr (MCrash e)
            | inl t =>
                let h2 := {| h_name := h_name h; h_data := []; h_file := None; h_parts := S (h_parts h);
                             h_mem := h_mem h + length data;
                             h_items := h_items h ++ [IText (h_name h) t] |} in
                if Nat.ltb max_parts (h_parts h2) then inr M413 else inl h2
            end
        | Some _ =>
            match C01.Model.helper_event false max_parts None h ev with
            | inl h' => inl h'
            | inr H413 => inr M413
            | inr H400 => inr M400
            | inr (HItems l) => inr (MItems l)
            end
        end
    | _ =>
        match C01.Model.helper_event false max_parts None h ev with
        | inl h' => inl h'
        | inr H413 => inr M413
        | inr H400 => inr M400
        | inr (HItems l) => inr (MItems l)
        end
    end.

  (* one chunk: next_event until NEED_DATA, each event handed to the helper *)
  Fixpoint drain (fuel : nat) (max_parts : nat) (b : bytes) (d : decoder) (h : hstate)
    : (decoder * hstate) + mp_outcome :=
    match fuel with
    | O => inl (d, h)
    | S k =>
        match next_event b d with
        | (inr x, _) => inr (MCrash x)
        | (inl ENeed, d') => inl (d', h)
        | (inl (EEpilogue _), d') => inl (d', h)
        | (inl ev, d') =>
            match helper_event max_parts h ev with
            | inl h' => drain k max_parts b d' h'
            | inr o => inr o
            end
        end
    end.

  Fixpoint parse_chunks (max_parts : nat) (b : bytes) (d : decoder) (h : hstate)
    (chunks : list bytes) : mp_outcome :=
    match chunks with
    | [] => MItems (h_items h)
    | c :: r =>
        let d1 := receive d (Some c) in
        match drain (drain_fuel d1) max_parts b d1 h with
        | inl (d2, h2) => parse_chunks max_parts b d2 h2 r
        | inr o => o
        end
    end.

  Definition parse_multipart (b : bytes) (chunks : list bytes) : mp_outcome :=
    parse_chunks 324 b new_decoder h_init chunks.
End Multipart.

(* the chunks Request.stream() yields for a body that fits one read / one message *)
Definition chunks_of (i : iface) (body : bytes) : list bytes :=
  (match body with [] => [] | _ => [body] end) ++ (if i then [[]] else []).

Inductive formval :=
| FPairs (l : list (text * text))
| FItems (l : list C01.Model.item).

Definition form_with (hu hs : list exc) (i : iface) (st : pre) (ct : option text) (body : bytes)
  : outcome formval :=
  let ty := fst (content_type ct) in
  if teq ty (lit "multipart/form-data") then
    match ct_option ct (lit "boundary") with
    | None => Http 400
    | Some b =>
        match st with
        | Consumed => Documented StreamConsumed
        | _ =>
            (* with a disconnecting client the first message is parsed, then receive() fails *)
            let chunks := match st with
                          | Disconnects => match body with [] => [] | _ => [body] end
                          | _ => chunks_of i body
                          end in
            match parse_multipart (safe_decode_with hs (charset_or ct (lit "utf8"))) b chunks with
            | MItems items => match st with
                              | Disconnects => Documented ClientDisconnect
                              | _ => Ok (FItems items)
                              end
            | M413 => Http 413
            | M400 => Http 400
            | MCrash e => Crash e
            end
        end
    end
  else if teq ty (lit "application/x-www-form-urlencoded") then
    match read_body st body with
    | inr d => Documented d
    | inl data =>
        match decode (charset_or ct (lit "latin-1")) data with
        | inr e => handle hu 400 e
        | inl t => Ok (FPairs (qsl t))
        end
    end
  else Http 415.
Definition form := form_with [ValueError; LookupError] [ValueError; LookupError].
(* repo_fixed (0020, 0021): UnicodeDecodeError instead of ValueError *)
Definition form_planned := form_with [UnicodeDecodeError; LookupError] [UnicodeDecodeError; LookupError].

(* ---- Range --------------------------------------------------------------------- *)

Definition parse_range (header : text) (size : Z) : outcome (list (Z * Z)) :=
  match C03.Model.parse_range header size with
  | C03.Model.Ranges l => Ok l
  | C03.Model.Malformed => Http 400
  | C03.Model.Unsatisfiable => Http 416
  end.

(* ---- routing ------------------------------------------------------------------- *)

Inductive conv := CStr | CInt | CDecimal | CUuid | CDate | CAny.

Definition is_dig := is_ascii_digit.
Definition is_lhex (c : N) : bool := is_dig c || (N.leb 97 c && N.leb c 102).
Definition all_nonempty (p : N -> bool) (s : text) : bool := nonempty s && forallb p s.

(* groups of [p] characters of the given lengths separated by '-' *)
Fixpoint dashed (p : N -> bool) (lens : list nat) (s : text) : bool :=
  match lens with
  | [] => match s with [] => true | _ => false end
  | [n] => Nat.eqb (length s) n && forallb p s
  | n :: r =>
      Nat.eqb (length (firstn n s)) n && forallb p (firstn n s) &&
      match skipn n s with
      | 45%N :: s' => dashed p r s'
      | _ => false
      end
  end.

(* re.fullmatch(convertor.regex, s) *)
Definition re_match (c : conv) (s : text) : bool :=
  match c with
  | CStr => nonempty s && negb (existsb (N.eqb 47) s)
  | CInt => all_nonempty is_dig s
  | CDecimal =>
      match C01.Model.split_at_first 46 s with
      | None => all_nonempty is_dig s
      | Some (a, b) => all_nonempty is_dig a && all_nonempty is_dig b
      end
  | CUuid => dashed is_lhex [8; 4; 4; 4; 12]%nat s
  | CDate => dashed is_dig [4; 2; 2]%nat s
  | CAny => true
  end.

Definition to_python (c : conv) (s : text) : unit + exc :=
  match c with
  | CInt => match int_of s with inl _ => inl tt | inr e => inr e end
  | CDecimal => to_decimal s
  | CUuid => to_uuid s
  | CDate => to_date s
  | _ => inl tt
  end.

(* a route: literal prefix followed by one parameter, or (None) a literal path *)
Definition route := (text * option conv)%type.

(* BaseRouter.search: index of the first route that matches, -1 = none *)
Fixpoint search_with (h : list exc) (routes : list route) (idx : Z) (path : text) : outcome Z :=
  match routes with
  | [] => Ok (-1)%Z
  | (p, None) :: r => if teq path p then Ok idx else search_with h r (idx + 1)%Z path
  | (p, Some c) :: r =>
      let rest := skipn (length p) path in
      if C01.Model.starts_with p path && re_match c rest then
        match to_python c rest with
        | inl _ => Ok idx
        | inr e => if catches h e then search_with h r (idx + 1)%Z path else Crash e
        end
      else search_with h r (idx + 1)%Z path
  end.
Definition search := search_with [ValueError].
Definition search_orig := search_with [].

(* ---- Files / Pages ------------------------------------------------------------- *)

(* check_path_is_file: None = "no such file" *)
Definition stat_with (h : list exc) (p : text) : option node + exc :=
  match stat p with
  | inl n => inl (Some n)
  | inr e => if catches h e then inl None else inr e
  end.

(* BaseFiles.if_modified_since(ctime, value) *)
Definition ims_with (h : list exc) (ctime : Z) (v : text) : bool + exc :=
  match v with
  | [] => inl false
  | _ => match parsedate_ts v with
         | inl t => inl (Z.leb ctime t)
         | inr e => if catches h e then inl false else inr e
         end
  end.

Inductive resp := RFile | RRedirect.

(* Files.file_response: the If-None-Match branch is total string code *)
Definition file_response_with (hd : list exc) (inm ims : text) : outcome resp :=
  match inm with
  | [] => match ims_with hd 0 ims with
          | inl _ => Ok RFile
          | inr e => Crash e
          end
  | _ => Ok RFile
  end.

Definition files_with (hs hd : list exc) (path inm ims : text) : outcome resp :=
  match resolve false path with
  | None => Http 404
  | Some p =>
      match stat_with hs p with
      | inr e => Crash e
      | inl (Some NFile) => file_response_with hd inm ims
      | inl _ => Http 404
      end
  end.
Definition files := files_with [OSError; ValueError] [TypeError; ValueError; OverflowError].
Definition files_planned := files_with [OSError; ValueError] [ValueError].
Definition files_orig := files_with [FileNotFoundError] [ValueError].

Definition dot_html : text := lit ".html".
Definition slash_index : text := lit "/index.html".

(* [resolve] answers relative to the served directory: [] is the directory itself *)
Definition redirect_with (hu : list exc) (i : iface) (script path query : text) (host : option text)
  : outcome resp :=
  match build_url i script path query host with
  | inr e => handle hu 400 e
  | inl u =>
      match urlsplit_ok u with
      | inr e => handle hu 400 e
      | inl _ => match dir_redirect u with
                 | inr e => handle hu 400 e
                 | inl _ => Ok RRedirect
                 end
      end
  end.

Definition pages_with (hs hd hu : list exc) (i : iface) (script path query : text) (host : option text)
  (inm ims : text) : outcome resp :=
  match resolve true path with
  | None => Http 404
  | Some p =>
      match stat_with hs p with
      | inr e => Crash e
      | inl s1 =>
          (* the stand-in: <path>.html for a missing path, <dir>/index.html for "dir/" *)
          let second :=
            match s1 with
            | None => if negb (ends_with dot_html p) && nonempty p then Some (p ++ dot_html) else None
            | Some NDir => if ends_with [47%N] path then Some (p ++ slash_index) else None
            | _ => None
            end in
          match second with
          | Some p2 =>
              match stat_with hs p2 with
              | inr e => Crash e
              | inl (Some NFile) => file_response_with hd inm ims   (* only a regular file stands in *)
              | inl _ => Http 404
              end
          | None =>
              match s1 with
              | Some NFile => file_response_with hd inm ims
              | Some NDir => redirect_with hu i script path query host
              | _ => Http 404
              end
          end
      end
  end.
Definition pages := pages_with [OSError; ValueError] [TypeError; ValueError; OverflowError] [ValueError].
Definition pages_planned := pages_with [OSError; ValueError] [ValueError] [].

(* ---- every entry point, with its client-controlled inputs ----------------------- *)

Inductive entry :=
| EContentLength (te cl : option text)
| EDate (v : option text)
| ECookies (v : option text)
| EAccept (v : option text) (media : text)
| EContentType (v : option text)
| EReferrer (v : option text)
| EUrl (i : iface) (script path query : text) (host : option text)
| EQueryParams (query : text)
| EJson (st : pre) (ct : option text) (body : bytes)
| EForm (i : iface) (st : pre) (ct : option text) (body : bytes)
| ERange (header : text) (size : Z)
| ERoute (routes : list route) (path : text)
| EFiles (path inm ims : text)
| EPages (i : iface) (script path query : text) (host : option text) (inm ims : text).

(* is the outcome of the entry point one the property allows? *)
Definition verdict (e : entry) : bool :=
  match e with
  | EContentLength te cl => good (content_length te cl)
  | EDate v => good (date v)
  | ECookies v => good (Ok (cookies v))
  | EAccept v media => good (Ok (accepted_types v, accepts v media))
  | EContentType v => good (Ok (content_type v))
  | EReferrer v => good (referrer v)
  | EUrl i script path query host => good (url i script path query host)
  | EQueryParams q => good (query_params q)
  | EJson st ct body => good (json st ct body)
  | EForm i st ct body => good (form i st ct body)
  | ERange h size => good (parse_range h size)
  | ERoute routes path => good (search routes 0%Z path)
  | EFiles path inm ims => good (files path inm ims)
  | EPages i script path query host inm ims => good (pages i script path query host inm ims)
  end.

End Oracles.

(* the declared failure classes of the primitives, as one premise *)
Definition declared
  (decode : text -> bytes -> text + exc) (decode_utf8 : bytes -> text + exc) (int_of : text -> Z + exc)
  (loads : text -> text + exc) (urlsplit_ok port_ok : text -> unit + exc) (dir_redirect : text -> text + exc)
  (parsedate : text -> (text * bool) + exc) (parsedate_ts : text -> Z + exc) (stat : text -> node + exc)
  (to_decimal to_uuid to_date : text -> unit + exc) : Prop :=
  (forall cs b e, decode cs b = inr e -> catches decl_decode e = true) /\
  (forall b e, decode_utf8 b = inr e -> catches decl_decode_utf8 e = true) /\
  (forall t e, int_of t = inr e -> catches decl_int e = true) /\
  (forall t e, loads t = inr e -> catches decl_loads e = true) /\
  (forall t e, urlsplit_ok t = inr e -> catches decl_url e = true) /\
  (forall t e, port_ok t = inr e -> catches decl_url e = true) /\
  (forall t e, dir_redirect t = inr e -> catches decl_url e = true) /\
  (forall t e, parsedate t = inr e -> catches decl_date e = true) /\
  (forall t e, parsedate_ts t = inr e -> catches decl_date e = true) /\
  (forall p e, stat p = inr e -> catches decl_stat e = true) /\
  (forall t e, to_date t = inr e -> catches decl_conv e = true) /\
  (forall t, re_match CDecimal t = true -> exists u, to_decimal t = inl u) /\
  (forall t, re_match CUuid t = true -> exists u, to_uuid t = inl u).
