(* C12 — the source-level tie of the header accessors of MoreInfoFromHeaderMixin (baize/requests.py).

   G is the text tools/py2coq_c12.py generates from accepted_types, accepts, content_length, date and referrer as they
   are NOW (the harness replaces the marked block below by the freshly generated file; C12/Generated_ref.v is the
   committed copy the build uses).

   The stdlib parsers are ORACLE arguments of the generated functions (int_of for int(), parsedate for
   parsedate_to_datetime, urlsplit_ok for URL(url=...), port_ok for .port): the theorems quantify over them.  The class
   MediaType (baize/datastructures.py: its constructor and .match) is a pair of function arguments the theorems
   instantiate with the MODEL's media_type / media_match.  self.headers is the lookup [headers] of the lower-cased header
   name; the model's functions take the looked-up values.

   Proved:
     accepted_types_translated, accepts_translated, content_length_translated, date_translated, referrer_translated
         translated = the model's function, for every lookup and EVERY answer of the oracles (inside the declared
         failure classes or not: so the class list of each `except` clause, read from the source, has to catch exactly
         what the model's handler catches)
     translated_accessors_never_crash
         directly from the translated definitions: for every answer of the oracles inside their DECLARED failure classes
         (Model.decl_int, decl_date, decl_url) each translated accessor yields a good outcome (a value; never Crash). *)
From Coq Require Import List NArith ZArith Bool Lia.
From Baize Require Import Lib.Wire Lib.Order Lib.PyStr C12.Model C12.PyLib.
From Baize Require C01.Model.
(* GENERATED-BEGIN *)
From Baize Require C12.Generated_ref.
Module G := Baize.C12.Generated_ref.
(* GENERATED-END *)
Import ListNotations.

Module M := Baize.C12.Model.
Module M1 := Baize.C01.Model.

(* ---------- the library functions are the model's ---------- *)

Lemma lstrip_model : forall sp s, PyStr.lstrip_by sp s = M1.lstrip sp s.
Proof.
  intros sp. induction s as [|c r IH]; [reflexivity|].
  cbn [PyStr.lstrip_by M1.lstrip]. rewrite IH. reflexivity.
Qed.

Lemma rstrip_app_last : forall sp s c,
  PyStr.rstrip_by sp (s ++ [c]) = if sp c then PyStr.rstrip_by sp s else s ++ [c].
Proof.
  intros sp s c. induction s as [|x r IH].
  - cbn. destruct (sp c); reflexivity.
  - cbn [app PyStr.rstrip_by]. rewrite IH. destruct (sp c); [reflexivity|].
    destruct r; reflexivity.
Qed.

Lemma rstrip_model : forall sp s, PyStr.rstrip_by sp s = rev (M1.lstrip sp (rev s)).
Proof.
  intros sp s. induction s as [|c l IH] using rev_ind; [reflexivity|].
  rewrite rstrip_app_last, rev_app_distr. cbn [rev app M1.lstrip].
  destruct (sp c); [exact IH|].
  cbn [rev]. rewrite rev_involutive. reflexivity.
Qed.

Lemma strip_ws_model : forall s, PyStr.strip_ws s = M.ustrip s.
Proof.
  intros s. unfold PyStr.strip_ws, PyStr.strip_by, M.ustrip, M1.strip.
  rewrite rstrip_model. rewrite (lstrip_model PyStr.is_space s). reflexivity.
Qed.

Lemma split_char_model : forall c s, PyStr.split [c] s = split_on c s.
Proof.
  intros c s. unfold PyStr.split.
  induction s as [|x r IH]; [reflexivity|].
  cbn [PyStr.split_aux PyStr.starts_with length Nat.sub split_on].
  destruct (PyStr.split_aux [c] 0 r) as [w ws]. rewrite <- IH.
  rewrite andb_true_r. rewrite (N.eqb_sym c x).
  destruct (N.eqb x c); reflexivity.
Qed.

Lemma str_eqb_teq : forall a b, PyStr.str_eqb a b = M.teq a b.
Proof.
  unfold M.teq.
  induction a as [|x a IH]; intros [|y b]; try reflexivity;
    cbn [PyStr.str_eqb bytes_eqb]; rewrite IH; reflexivity.
Qed.

Lemma nonempty_model : forall t : text, negb (PyStr.is_empty t) = M.nonempty t.
Proof. intros [|x t]; reflexivity. Qed.

Lemma filter_ext_eq : forall (A : Type) (f g : A -> bool) l, (forall x, f x = g x) -> filter f l = filter g l.
Proof.
  intros A f g l H. induction l as [|x l IH]; [reflexivity|].
  cbn [filter]. rewrite H, IH. reflexivity.
Qed.

(* the constants of the model, as the lists of code points the translator writes *)
Ltac norm_lits :=
  repeat match goal with
         | |- context [lit ?s] =>
             let v := eval vm_compute in (lit s) in change (lit s) with v
         end.

(* case analysis on everything the two sides look at: lookups, oracle answers, exception classes *)
Ltac split_cases :=
  repeat match goal with
         | |- context [match ?h ?k with Some _ => _ | None => _ end] => is_var h; destruct (h k)
         | |- context [match ?o ?t with inl _ => _ | inr _ => _ end] => is_var o; destruct (o t) as [?v|?e]
         | |- context [if bytes_eqb ?a ?b then _ else _] => destruct (bytes_eqb a b)
         | |- context [match ?d with (_, _) => _ end] => is_var d; destruct d as [?iso ?naive]
         | |- context [if ?b then _ else _] => is_var b; destruct b
         end.

(* ---------- accepted_types / accepts ---------- *)

Theorem accepted_types_translated : forall headers : PyLib.headers,
  G.accepted_types M.media_type headers = Ok (M.accepted_types (headers (lit "accept"))).
Proof.
  intros headers.
  cbv beta zeta delta [G.accepted_types M.accepted_types PyLib.get_or PyLib.get_opt M.dflt].
  norm_lits.
  rewrite ?split_char_model.
  rewrite (filter_ext_eq _ _ (fun t => M.nonempty (M.ustrip t))
             _ (fun t => eq_trans (nonempty_model _) (f_equal M.nonempty (strip_ws_model t)))).
  destruct (headers _); reflexivity.
Qed.

Theorem accepts_translated : forall (headers : PyLib.headers) other,
  G.accepts M.media_type M.media_match headers other = Ok (M.accepts (headers (lit "accept")) other).
Proof.
  intros headers other.
  cbv beta zeta delta [G.accepts M.accepts].
  rewrite accepted_types_translated. reflexivity.
Qed.

(* ---------- content_length ---------- *)

Theorem content_length_translated : forall int_of (headers : PyLib.headers),
  G.content_length int_of headers
  = M.content_length int_of (headers (lit "transfer-encoding")) (headers (lit "content-length")).
Proof.
  intros int_of headers.
  cbv beta zeta delta [G.content_length M.content_length M.content_length_with PyLib.get_or PyLib.get_opt M.dflt].
  rewrite ?str_eqb_teq. unfold M.teq.
  norm_lits.
  split_cases; try reflexivity.
  all: match goal with e : exc |- _ => destruct e; reflexivity end.
Qed.

(* ---------- date ---------- *)

Theorem date_translated : forall parsedate (headers : PyLib.headers),
  omap (option_map fst) (G.date parsedate headers) = M.date parsedate (headers (lit "date")).
Proof.
  intros parsedate headers.
  cbv beta zeta delta [G.date M.date M.date_with PyLib.get_or PyLib.get_opt M.dflt
                       PyLib.tzinfo_is_none PyLib.replace_tzinfo_utc].
  norm_lits.
  split_cases; cbn [fst snd]; split_cases; try reflexivity.
  all: match goal with e : exc |- _ => destruct e; reflexivity end.
Qed.

(* ---------- referrer ---------- *)

Theorem referrer_translated : forall urlsplit_ok port_ok (headers : PyLib.headers),
  G.referrer urlsplit_ok port_ok headers = M.referrer urlsplit_ok port_ok (headers (lit "referer")).
Proof.
  intros urlsplit_ok port_ok headers.
  cbv beta zeta delta [G.referrer M.referrer M.referrer_with PyLib.get_or PyLib.get_opt M.dflt].
  norm_lits.
  split_cases; try reflexivity.
  all: match goal with e : exc |- _ => destruct e; reflexivity end.
Qed.

(* ---------- no crash, from the translated definitions ---------- *)

(* an oracle answered inr e: e is one of its declared classes (H1..H4 are the premises); then the class list of the
   except clause decides by evaluation *)
Ltac use_declared H1 H2 H3 H4 E e :=
  let D := fresh "D" in
  first [pose proof (H1 _ _ E) as D | pose proof (H2 _ _ E) as D | pose proof (H3 _ _ E) as D | pose proof (H4 _ _ E) as D];
  clear E; destruct e; try discriminate D; clear D;
  repeat match goal with
         | |- context [catches ?l ?x] => let v := eval vm_compute in (catches l x) in change (catches l x) with v
         end;
  cbv iota.

Ltac nc_step H1 H2 H3 H4 :=
  match goal with
  | |- good (Ok _) = true => reflexivity
  | |- context [match ?h ?k with Some _ => _ | None => _ end] => is_var h; destruct (h k)
  | |- context [match ?o ?t with inl _ => _ | inr _ => _ end] =>
      is_var o; let E := fresh "E" in let e := fresh "e" in
      destruct (o t) as [?v|e] eqn:E; [try clear E | use_declared H1 H2 H3 H4 E e]
  | |- context [if ?b then _ else _] => destruct b
  end.

Theorem translated_accessors_never_crash :
  forall int_of parsedate urlsplit_ok port_ok,
    (forall t e, int_of t = inr e -> catches M.decl_int e = true) ->
    (forall t e, parsedate t = inr e -> catches M.decl_date e = true) ->
    (forall t e, urlsplit_ok t = inr e -> catches M.decl_url e = true) ->
    (forall t e, port_ok t = inr e -> catches M.decl_url e = true) ->
    forall (headers : PyLib.headers) other,
      good (G.accepted_types M.media_type headers) = true /\
      good (G.accepts M.media_type M.media_match headers other) = true /\
      good (G.content_length int_of headers) = true /\
      good (G.date parsedate headers) = true /\
      good (G.referrer urlsplit_ok port_ok headers) = true.
Proof.
  intros int_of parsedate urlsplit_ok port_ok Hint Hdate Hurl Hport headers other.
  split; [|split; [|split; [|split]]];
    cbv beta iota zeta delta [G.accepted_types G.accepts G.content_length G.date G.referrer PyLib.get_or PyLib.get_opt];
    repeat nc_step Hint Hdate Hurl Hport.
Qed.

Print Assumptions accepted_types_translated.
Print Assumptions accepts_translated.
Print Assumptions content_length_translated.
Print Assumptions date_translated.
Print Assumptions referrer_translated.
Print Assumptions translated_accessors_never_crash.
