(* C12/PyLib — what tools/py2coq_c12.py emits calls to besides Lib/PyStr.v (str_eqb, is_empty, strip_ws, split: compared
   with the interpreter by pystr_check on every run) and C12/Model.v (the outcome type, exc, catches).

   Every definition states the Python expression it stands for; the translator refuses every other shape.

   headers         self.headers: baize.datastructures.Headers, seen as the lookup of its _dict (lower-cased name ->
                   value, None = absent).  Headers.__getitem__ is `self._dict[key.lower()]` (the translator checks that
                   this is still its body) and .get is Mapping.get, so  self.headers.get(K, D)  with a str constant K is
                   the lookup of K.lower(); the translator emits the lower-cased constant.
   datetime        what the model keeps of the datetime parsedate_to_datetime returns: (isoformat(), tzinfo is None).
   No proofs in this file (facts: C12/Translated.v). *)
From Coq Require Import List NArith ZArith Bool.
From Baize Require Import Lib.Wire Lib.PyStr C12.Model.
Import ListNotations.

Definition headers := text -> option text.

(* self.headers.get(K, D)    D a str *)
Definition get_or (h : headers) (key default : text) : text :=
  match h key with Some v => v | None => default end.

(* self.headers.get(K, None) *)
Definition get_opt (h : headers) (key : text) : option text := h key.

Definition datetime := (text * bool)%type.

(* d.tzinfo is None *)
Definition tzinfo_is_none (d : datetime) : bool := snd d.

(* d.replace(tzinfo=timezone.utc)   for a naive d: isoformat() gains the suffix +00:00 and tzinfo is not None *)
Definition replace_tzinfo_utc (d : datetime) : datetime := (fst d ++ utc_suffix, false).

(* the value an accessor returns, as the model reports it (isoformat of the datetime) *)
Definition omap {A B} (f : A -> B) (o : outcome A) : outcome B :=
  match o with
  | Ok v => Ok (f v)
  | Http c => Http c
  | Documented d => Documented d
  | Crash e => Crash e
  end.
