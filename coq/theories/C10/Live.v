(* C10 — liveness of the ASGI task model and termination of the WSGI model.

   Part A.  [Live st] says that every bookkeeping structure of the loop agrees with
   the task states: a task that can run is in the ready queue (once), a task blocked
   in receive() is the registered reader, a task awaiting a slot whose future is not
   done is registered as a callback of that future.  It is preserved by every event;
   together with [Inv] it gives
     - progress: with an empty ready queue every unfinished task [waits] (Model.v);
     - a measure (2 per task not yet begun, 1 per task that has one segment left)
       that every segment run by the loop decreases, so [run_all] with
       [fuel_bound] fuel empties the queue;
     - completion: when the channel holds a terminator, delivering everything and
       running the queue finishes every started task.
   Part B.  the WSGI loop: its fuel is never the reason it stops. *)
From Coq Require Import List NArith Bool Arith Lia.
From Baize Require Import C10.Model C10.Proofs.
Import ListNotations.

Lemma nodup_app : forall (A : Type) (l1 l2 : list A),
  NoDup l1 -> NoDup l2 -> (forall x, In x l1 -> ~ In x l2) -> NoDup (l1 ++ l2).
Proof.
  induction l1 as [|a l1 IH]; intros l2 N1 N2 D; cbn; auto.
  inversion N1 as [|? ? Ha Hl]; subst. constructor.
  - intro H. apply in_app_or in H as [H|H]; [now apply Ha|]. apply (D a); cbn; auto.
  - apply IH; auto. intros x Hx. apply D. now right.
Qed.

Lemma nth_split_remove : forall (A : Type) (l : list A) c t,
  nth_error l c = Some t -> exists r1 r2, l = r1 ++ t :: r2 /\ remove_nth c l = r1 ++ r2.
Proof.
  induction l as [|a l IH]; intros [|c] t H; cbn in *; try discriminate.
  - injection H as ->. now exists [], l.
  - destruct (IH c t H) as (r1 & r2 & -> & E). exists (a :: r1), r2. cbn. now rewrite E.
Qed.

Section Live.
Variable ct : ctype.
Variables jparse fparse : bytes -> pres.
Variable ch : list msg.

Notation Inv := (Inv ct jparse fparse ch).
Notation run := (run ct jparse fparse).
Notation start := (start ct jparse fparse).
Notation await_slot := (await_slot jparse fparse).
Notation after_await := (after_await jparse fparse).
Notation step_choice := (step_choice ct jparse fparse).
Notation run_all := (run_all ct jparse fparse).
Notation do_event := (do_event ct jparse fparse).
Notation exec := (exec ct jparse fparse).

(* [h]: the task whose segment is being run (taken from the queue, state not yet updated) *)
Record LiveH (h : option tid) (st : state) : Prop := mkLive {
  l_nodup : NoDup (ready st);
  l_hole : forall t, h = Some t -> runnable st t /\ ~ In t (ready st);
  l_ready : forall t, In t (ready st) -> runnable st t;
  l_run : forall t, runnable st t -> h <> Some t -> In t (ready st);
  l_recv : forall t, tst st t = TRecv -> reader st = Some t;
  l_await : forall t s, tst st t = TAwait s -> (forall o, tst st (TS s) <> TDone o) ->
     tst st (TS s) <> TAbsent /\ In t (swait st s);
  l_swait : forall s t, In t (swait st s) -> tst st t = TAwait s /\ forall o, tst st (TS s) <> TDone o;
  l_swnd : forall s, NoDup (swait st s);
  l_accs : forall i k, tst st (TA i k) <> TAbsent -> In (TA i k) (accs st);
  l_accs2 : forall t, In t (accs st) -> tst st t <> TAbsent
}.

Definition Live := LiveH None.

Lemma live_init : Live (init ch).
Proof.
  constructor; cbn; try easy; try constructor.
  - intros t [H|[(w & acc & m & H)|(s & o & H & _)]]; discriminate.
Qed.

(* fields the liveness invariant does not look at *)
Definition same (st st' : state) : Prop :=
  tst st' = tst st /\ swait st' = swait st /\ ready st' = ready st /\ accs st' = accs st /\
  reader st' = reader st.

Lemma live_same : forall h st st', same st st' -> LiveH h st -> LiveH h st'.
Proof.
  intros h st st' (E1 & E2 & E3 & E4 & E5) [A1 A2 A3 A4 A5 A6 A7 A8 A9 A10].
  constructor; unfold runnable in *; rewrite ?E1, ?E2, ?E3, ?E4, ?E5; auto.
Qed.

Lemma runnable_state : forall st t, runnable st t ->
  (forall o, tst st t <> TDone o) /\ tst st t <> TAbsent /\ tst st t <> TRecv.
Proof.
  intros st t [H|[(w & acc & m & H)|(s & o & H & _)]]; rewrite H; repeat split; try intro; discriminate.
Qed.

Lemma runnable_await : forall st t s, runnable st t -> tst st t = TAwait s -> exists o, tst st (TS s) = TDone o.
Proof.
  intros st t s [H|[(w & acc & m & H)|(s' & o & H & D)]] E; try congruence.
  rewrite H in E. injection E as <-. eauto.
Qed.

(* the state of t is replaced by x; for the others, runnable is kept when t does not become / stop being done *)
Lemma runnable_upd : forall st st' t t',
  (forall u, u <> t -> tst st' u = tst st u) ->
  (forall o, tst st t <> TDone o) -> (forall o, tst st' t <> TDone o) ->
  t' <> t -> (runnable st' t' <-> runnable st t').
Proof.
  intros st st' t t' Ho N N' Hne. unfold runnable. rewrite (Ho t' Hne).
  split; (intros [H|[H|(s & o & H & D)]]; [now left|now (right; left)|right; right; exists s, o; split; [exact H|]]).
  - destruct (tid_dec (TS s) t) as [E|E]; [rewrite E in D; now elim (N' o)|now rewrite <- (Ho _ E)].
  - destruct (tid_dec (TS s) t) as [E|E]; [rewrite E in D; now elim (N o)|now rewrite (Ho _ E)].
Qed.

(* ---------- a task blocks in receive() ---------- *)

Lemma recv_live : forall st t,
  LiveH (Some t) st -> reader st = Some t -> Live (set_tst st t TRecv).
Proof.
  intros st t [A1 A2 A3 A4 A5 A6 A7 A8 A9 A10] R.
  destruct (A2 t eq_refl) as [Rt Nin]. destruct (runnable_state st t Rt) as (Nd & Na & Nr).
  assert (Ho : forall u, u <> t -> tst (set_tst st t TRecv) u = tst st u)
    by (intros u Hu; cbn; now rewrite tid_eqb_neq).
  assert (Hs : tst (set_tst st t TRecv) t = TRecv) by (cbn; now rewrite tid_eqb_refl).
  assert (Nd' : forall o, tst (set_tst st t TRecv) t <> TDone o) by (intro o; rewrite Hs; discriminate).
  constructor; cbn [ready swait accs reader set_tst set_tstf]; auto.
  - discriminate.
  - intros t' Hin. assert (t' <> t) by (intros ->; contradiction).
    apply (runnable_upd st _ t t'); auto.
  - intros t' Hr _. destruct (tid_dec t' t) as [->|Hne].
    + destruct (runnable_state _ _ Hr) as (_ & _ & X). now elim X.
    + apply A4; [|congruence]. apply (runnable_upd st _ t t') in Hr; auto.
  - intros t' H. destruct (tid_dec t' t) as [->|Hne]; [exact R|]. apply A5. now rewrite <- (Ho _ Hne).
  - intros t' s H Hn. destruct (tid_dec t' t) as [->|Hne]; [rewrite Hs in H; discriminate|].
    rewrite (Ho _ Hne) in H.
    assert (Hn0 : forall o, tst st (TS s) <> TDone o).
    { intros o E. destruct (tid_dec (TS s) t) as [X|X]; [rewrite X in E; now elim (Nd o)|].
      apply (Hn o). now rewrite (Ho _ X). }
    destruct (A6 t' s H Hn0) as [B1 B2]. split; [|exact B2].
    destruct (tid_dec (TS s) t) as [X|X]; [rewrite X, Hs; discriminate|now rewrite (Ho _ X)].
  - intros s t' Hin. destruct (A7 s t' Hin) as [B1 B2].
    assert (t' <> t).
    { intros ->. destruct (runnable_await st t s Rt B1) as [o D]. now elim (B2 o). }
    split; [now rewrite (Ho _ H)|].
    intros o E. destruct (tid_dec (TS s) t) as [X|X]; [rewrite X, Hs in E; discriminate|].
    rewrite (Ho _ X) in E. now elim (B2 o).
  - intros i k H. apply A9. destruct (tid_dec (TA i k) t) as [->|Hne]; [exact Na|now rewrite <- (Ho _ Hne)].
  - intros t' Hin. destruct (tid_dec t' t) as [->|Hne]; [rewrite Hs; discriminate|].
    rewrite (Ho _ Hne). now apply A10.
Qed.

(* ---------- a task finishes: the callbacks of its future are scheduled ---------- *)

Definition woken (st : state) (t : tid) : list tid :=
  match t with TS s => swait st s | TA _ _ => [] end.

Lemma finish_ready : forall st t o, ready (finish st t o) = ready st ++ woken st t.
Proof. intros st [s|i k] o; cbn; [reflexivity|now rewrite app_nil_r]. Qed.

Lemma finish_swait : forall st t o s',
  swait (finish st t o) s' =
  match t with TS s => if slot_eqb s' s then [] else swait st s' | TA _ _ => swait st s' end.
Proof. intros st [s|i k] o s'; reflexivity. Qed.

Lemma finish_live : forall st t o, LiveH (Some t) st -> Live (finish st t o).
Proof.
  intros st t o [A1 A2 A3 A4 A5 A6 A7 A8 A9 A10].
  destruct (A2 t eq_refl) as [Rt Nin]. destruct (runnable_state st t Rt) as (Nd & Na & Nr).
  destruct (finish_chan st t o) as (_ & _ & _ & _ & _ & Er & _ & Ea).
  assert (Ho : forall u, u <> t -> tst (finish st t o) u = tst st u)
    by (intros u Hu; now rewrite finish_tst, tid_eqb_neq).
  assert (Hs : tst (finish st t o) t = TDone o) by (now rewrite finish_tst, tid_eqb_refl).
  assert (Hw : forall t', In t' (woken st t) -> exists s, t = TS s /\ In t' (swait st s)).
  { intros t' H. destruct t as [s|i k]; [now exists s|destruct H]. }
  assert (Hwn : forall t', In t' (woken st t) -> t' <> t).
  { intros t' H ->. destruct (Hw _ H) as (s & -> & Hin). destruct (A7 s _ Hin) as [B1 B2].
    destruct (runnable_await _ _ _ Rt B1) as [o' D]. now elim (B2 o'). }
  (* runnable after, for a task other than t *)
  assert (R1 : forall t', t' <> t -> runnable st t' -> runnable (finish st t o) t').
  { intros t' Hne [H|[(w & acc & m & H)|(s & o' & H & D)]]; unfold runnable; rewrite (Ho _ Hne).
    - now left.
    - right; left. eauto.
    - right; right. exists s, o'. split; [exact H|].
      destruct (tid_dec (TS s) t) as [X|X]; [rewrite X in D; now elim (Nd o')|now rewrite (Ho _ X)]. }
  assert (R2 : forall t', runnable (finish st t o) t' ->
            t' <> t /\ (runnable st t' \/ exists s, t = TS s /\ tst st t' = TAwait s)).
  { intros t' Hr. assert (Hne : t' <> t).
    { intros ->. destruct (runnable_state _ _ Hr) as (X & _). now elim (X o). }
    split; [exact Hne|]. unfold runnable in Hr. rewrite (Ho _ Hne) in Hr.
    destruct Hr as [H|[H|(s & o' & H & D)]]; [left; now left|left; right; now left|].
    destruct (tid_dec (TS s) t) as [X|X].
    - right. exists s. auto.
    - left. right; right. exists s, o'. split; [exact H|now rewrite <- (Ho _ X)]. }
  constructor; rewrite ?finish_ready, ?Er, ?Ea; auto.
  - apply nodup_app; auto.
    + destruct t as [s|i k]; cbn; [apply A8|constructor].
    + intros x Hx Hy. destruct (Hw _ Hy) as (s & -> & Hin). destruct (A7 s x Hin) as [B1 B2].
      destruct (runnable_await _ _ _ (A3 x Hx) B1) as [o' D]. now elim (B2 o').
  - discriminate.
  - intros t' Hin. apply in_app_or in Hin as [Hin|Hin].
    + apply R1; [intros ->; contradiction|now apply A3].
    + pose proof (Hwn _ Hin) as Hne. destruct (Hw _ Hin) as (s & E & Hs').
      destruct (A7 s t' Hs') as [B1 B2]. right; right. exists s, o.
      split; [now rewrite (Ho _ Hne)|]. now rewrite <- E.
  - intros t' Hr _. destruct (R2 t' Hr) as [Hne [H|(s & E & H)]]; apply in_or_app.
    + left. apply A4; [exact H|congruence].
    + right. rewrite E. cbn. apply (A6 t' s H). intros o' D. rewrite <- E in D. now elim (Nd o').
  - intros t' H. apply A5. destruct (tid_dec t' t) as [->|Hne]; [rewrite Hs in H; discriminate|now rewrite <- (Ho _ Hne)].
  - intros t' s H Hn. destruct (tid_dec t' t) as [->|Hne]; [rewrite Hs in H; discriminate|].
    rewrite (Ho _ Hne) in H.
    assert (X : TS s <> t) by (intros X; rewrite X, Hs in Hn; now elim (Hn o)).
    assert (Hn0 : forall o', tst st (TS s) <> TDone o') by (intros o' E; apply (Hn o'); now rewrite (Ho _ X)).
    destruct (A6 t' s H Hn0) as [B1 B2]. rewrite (Ho _ X). split; [exact B1|].
    rewrite finish_swait. destruct t as [s0|i k]; [|exact B2].
    destruct (slot_eqb s s0) eqn:Es; [|exact B2]. apply slot_eqb_eq in Es. subst. now elim X.
  - intros s t' Hin. rewrite finish_swait in Hin.
    assert (Hin0 : In t' (swait st s) /\ TS s <> t).
    { destruct t as [s0|i k]; [|split; [exact Hin|discriminate]].
      destruct (slot_eqb s s0) eqn:Es; [destruct Hin|]. split; [exact Hin|].
      intro X. injection X as ->. assert (slot_eqb s0 s0 = true) by (now apply slot_eqb_eq). congruence. }
    destruct Hin0 as [Hin0 X]. destruct (A7 s t' Hin0) as [B1 B2].
    assert (t' <> t).
    { intros ->. destruct (runnable_await st t s Rt B1) as [o' D]. now elim (B2 o'). }
    split; [now rewrite (Ho _ H)|]. intros o' E. rewrite (Ho _ X) in E. now elim (B2 o').
  - intro s. rewrite finish_swait. destruct t as [s0|i k]; [|apply A8].
    destruct (slot_eqb s s0); [constructor|apply A8].
  - intros i k H. apply A9. destruct (tid_dec (TA i k) t) as [->|Hne]; [exact Na|now rewrite <- (Ho _ Hne)].
  - intros t' Hin. destruct (tid_dec t' t) as [->|Hne]; [rewrite Hs; discriminate|].
    rewrite (Ho _ Hne). now apply A10.
Qed.

Lemma pump_live : forall t av st h,
  LiveH (Some t) st -> reader st = Some t -> Live (pump av st t h).
Proof.
  intros t av. induction av as [|m av IH]; intros st h L R; destruct h as [o| |w acc]; cbn [pump].
  - now apply finish_live.
  - apply finish_live. apply (live_same _ st); [repeat split|exact L].
  - apply (live_same _ (set_tst (set_rcount st (S (rcount st))) t TRecv)); [repeat split|].
    apply recv_live; [|exact R]. apply (live_same _ st); [repeat split|exact L].
  - now apply finish_live.
  - apply finish_live. apply (live_same _ st); [repeat split|exact L].
  - apply IH; [|exact R]. apply (live_same _ st); [repeat split|exact L].
Qed.

(* ---------- a task awaits the shared future of a slot ---------- *)

(* cached_property creates the slot's task *)
Lemma create_live : forall st h s,
  LiveH h st -> tst st (TS s) = TAbsent ->
  LiveH h (set_ready (set_tst st (TS s) TNew) (ready st ++ [TS s])).
Proof.
  intros st h s [A1 A2 A3 A4 A5 A6 A7 A8 A9 A10] Ab.
  set (st' := set_ready (set_tst st (TS s) TNew) (ready st ++ [TS s])).
  assert (Ho : forall u, u <> TS s -> tst st' u = tst st u)
    by (intros u Hu; cbn; now rewrite tid_eqb_neq).
  assert (Hs : tst st' (TS s) = TNew) by (cbn; now rewrite tid_eqb_refl).
  assert (Nd : forall o, tst st (TS s) <> TDone o) by (intro o; rewrite Ab; discriminate).
  assert (Nd' : forall o, tst st' (TS s) <> TDone o) by (intro o; rewrite Hs; discriminate).
  assert (Nr : ~ runnable st (TS s)).
  { intro X. destruct (runnable_state _ _ X) as (_ & X' & _). now elim X'. }
  assert (Er : ready st' = ready st ++ [TS s]) by reflexivity.
  assert (Ea : accs st' = accs st) by reflexivity.
  assert (Erd : reader st' = reader st) by reflexivity.
  assert (Esw : swait st' = swait st) by reflexivity.
  constructor; rewrite ?Er, ?Ea, ?Erd, ?Esw.
  - apply nodup_app; auto; [constructor; [intros []|constructor]|].
    intros x Hx [<-|[]]. apply Nr. now apply A3.
  - intros t E. destruct (A2 t E) as [B1 B2].
    assert (t <> TS s) by (intros ->; contradiction).
    split; [now apply (runnable_upd st st' (TS s) t)|].
    intro Hin. apply in_app_or in Hin as [Hin|[X|[]]]; [contradiction|congruence].
  - intros t Hin. apply in_app_or in Hin as [Hin|[<-|[]]]; [|now left].
    assert (t <> TS s) by (intros ->; apply Nr; now apply A3).
    apply (runnable_upd st st' (TS s) t); auto.
  - intros t Hr Hh. apply in_or_app. destruct (tid_dec t (TS s)) as [->|Hne]; [right; now left|].
    left. apply A4; [|exact Hh]. now apply (runnable_upd st st' (TS s) t).
  - intros t H. apply A5. destruct (tid_dec t (TS s)) as [->|Hne]; [rewrite Hs in H; discriminate|now rewrite <- (Ho _ Hne)].
  - intros t s' H Hn. destruct (tid_dec t (TS s)) as [->|Hne]; [rewrite Hs in H; discriminate|].
    rewrite (Ho _ Hne) in H.
    assert (Hn0 : forall o, tst st (TS s') <> TDone o).
    { intros o E. destruct (tid_dec (TS s') (TS s)) as [X|X]; [rewrite X in E; now elim (Nd o)|].
      apply (Hn o). now rewrite (Ho _ X). }
    destruct (A6 t s' H Hn0) as [B1 B2]. split; [|exact B2].
    destruct (tid_dec (TS s') (TS s)) as [X|X]; [rewrite X, Hs; discriminate|now rewrite (Ho _ X)].
  - intros s' t Hin. destruct (A7 s' t Hin) as [B1 B2].
    assert (t <> TS s) by (intros ->; congruence).
    split; [now rewrite (Ho _ H)|].
    intros o E. destruct (tid_dec (TS s') (TS s)) as [X|X]; [rewrite X, Hs in E; discriminate|].
    rewrite (Ho _ X) in E. now elim (B2 o).
  - exact A8.
  - intros i k H. apply A9. rewrite <- (Ho (TA i k)); [exact H|discriminate].
  - intros t Hin. destruct (tid_dec t (TS s)) as [->|Hne]; [rewrite Hs; discriminate|].
    rewrite (Ho _ Hne). now apply A10.
Qed.

(* the task registers as a callback of the future of s *)
Lemma block_live : forall st t s,
  LiveH (Some t) st -> tst st t = TNew -> t <> TS s ->
  (forall o, tst st (TS s) <> TDone o) -> tst st (TS s) <> TAbsent ->
  Live (set_swait (set_tst st t (TAwait s)) s (swait (set_tst st t (TAwait s)) s ++ [t])).
Proof.
  intros st t s [A1 A2 A3 A4 A5 A6 A7 A8 A9 A10] T Hts Sn Sa.
  destruct (A2 t eq_refl) as [Rt Nin]. destruct (runnable_state st t Rt) as (Nd & Na & Nr).
  set (st' := set_swait (set_tst st t (TAwait s)) s (swait (set_tst st t (TAwait s)) s ++ [t])).
  assert (Ho : forall u, u <> t -> tst st' u = tst st u)
    by (intros u Hu; cbn; now rewrite tid_eqb_neq).
  assert (Hs : tst st' t = TAwait s) by (cbn; now rewrite tid_eqb_refl).
  assert (Nd' : forall o, tst st' t <> TDone o) by (intro o; rewrite Hs; discriminate).
  assert (Hsw : forall s', swait st' s' = if slot_eqb s' s then swait st s ++ [t] else swait st s') by reflexivity.
  assert (Sn' : forall o, tst st' (TS s) <> TDone o) by (intro o; now rewrite (Ho _ (not_eq_sym Hts))).
  assert (Er : ready st' = ready st) by reflexivity.
  assert (Ea : accs st' = accs st) by reflexivity.
  assert (Erd : reader st' = reader st) by reflexivity.
  constructor; rewrite ?Er, ?Ea, ?Erd.
  - exact A1.
  - discriminate.
  - intros t' Hin. assert (t' <> t) by (intros ->; contradiction).
    apply (runnable_upd st st' t t'); auto.
  - intros t' Hr _. destruct (tid_dec t' t) as [->|Hne].
    + destruct (runnable_await _ _ _ Hr Hs) as [o D]. now elim (Sn' o).
    + apply A4; [|congruence]. now apply (runnable_upd st st' t t').
  - intros t' H. apply A5. destruct (tid_dec t' t) as [->|Hne]; [rewrite Hs in H; discriminate|now rewrite <- (Ho _ Hne)].
  - intros t' s' H Hn. rewrite Hsw. destruct (tid_dec t' t) as [->|Hne].
    + rewrite Hs in H. injection H as <-. rewrite (Ho _ (not_eq_sym Hts)).
      split; [exact Sa|]. assert (slot_eqb s s = true) as -> by (now apply slot_eqb_eq).
      apply in_or_app. right. now left.
    + rewrite (Ho _ Hne) in H.
      assert (Hn0 : forall o, tst st (TS s') <> TDone o).
      { intros o E. destruct (tid_dec (TS s') t) as [X|X]; [rewrite X in E; now elim (Nd o)|].
        apply (Hn o). now rewrite (Ho _ X). }
      destruct (A6 t' s' H Hn0) as [B1 B2]. split.
      * destruct (tid_dec (TS s') t) as [X|X]; [rewrite X, Hs; discriminate|now rewrite (Ho _ X)].
      * destruct (slot_eqb s' s) eqn:Es; [|exact B2]. apply slot_eqb_eq in Es. subst.
        apply in_or_app. now left.
  - intros s' t' Hin. rewrite Hsw in Hin.
    assert (Hc : (In t' (swait st s')) \/ (s' = s /\ t' = t)).
    { destruct (slot_eqb s' s) eqn:Es; [|now left]. apply slot_eqb_eq in Es. subst.
      apply in_app_or in Hin as [Hin|[<-|[]]]; auto. }
    destruct Hc as [Hin0|[-> ->]]; [|split; [exact Hs|exact Sn']].
    destruct (A7 s' t' Hin0) as [B1 B2].
    assert (t' <> t) by (intros ->; congruence).
    split; [now rewrite (Ho _ H)|].
    intros o E. destruct (tid_dec (TS s') t) as [X|X]; [rewrite X, Hs in E; discriminate|].
    rewrite (Ho _ X) in E. now elim (B2 o).
  - intro s'. rewrite Hsw. destruct (slot_eqb s' s) eqn:Es; [|apply A8].
    apply nodup_app; auto; [constructor; [intros []|constructor]|].
    intros x Hx [<-|[]]. destruct (A7 s t Hx) as [B1 _]. congruence.
  - intros i k H. apply A9. destruct (tid_dec (TA i k) t) as [->|Hne]; [exact Na|now rewrite <- (Ho _ Hne)].
  - intros t' Hin. destruct (tid_dec t' t) as [->|Hne]; [rewrite Hs; discriminate|].
    rewrite (Ho _ Hne). now apply A10.
Qed.

Lemma after_await_live : forall st t o, LiveH (Some t) st -> Live (after_await st t o).
Proof.
  intros st t o L. unfold Model.after_await. destruct t as [[| |]|i k]; now apply finish_live.
Qed.

Lemma await_slot_live : forall st t s,
  LiveH (Some t) st -> tst st t = TNew -> t <> TS s -> Live (await_slot st t s).
Proof.
  intros st t s L T Hts. unfold Model.await_slot.
  set (st1 := match tst st (TS s) with
              | TAbsent => set_ready (set_tst st (TS s) TNew) (ready st ++ [TS s])
              | _ => st end).
  assert (L1 : LiveH (Some t) st1 /\ tst st1 t = TNew /\ tst st1 (TS s) <> TAbsent).
  { unfold st1. destruct (tst st (TS s)) eqn:S; try (split; [exact L|split; [exact T|rewrite S; discriminate]]).
    split; [now apply create_live|]. cbn. rewrite tid_eqb_refl, tid_eqb_neq; auto. split; [exact T|discriminate]. }
  destruct L1 as (L1 & T1 & S1).
  destruct (tst st1 (TS s)) eqn:E; try (apply block_live; auto; rewrite E; intros; discriminate).
  now apply after_await_live.
Qed.

Lemma start_stream_live : forall st t w,
  Inv st -> LiveH (Some t) st -> Live (start_stream st t w).
Proof.
  intros st t w I L. unfold start_stream.
  assert (K : consumed st = false ->
              Live (pump (avail st) (set_reader (set_consumed st true) (Some t)) t (HMore w []))).
  { intro C. apply pump_live; [|reflexivity].
    assert (R : reader st = None).
    { pose proof (i_flag _ _ _ _ st I) as F. rewrite C in F. destruct (reader st); [discriminate|reflexivity]. }
    destruct L as [A1 A2 A3 A4 A5 A6 A7 A8 A9 A10]. constructor; auto.
    intros t' H. apply A5 in H. cbn in H. congruence. }
  destruct (tst st (TS SBody)); try (destruct (consumed st); [now apply finish_live|now apply K]).
  now apply finish_live.
Qed.

Lemma start_live : forall st t,
  Inv st -> LiveH (Some t) st -> tst st t = TNew -> Live (start st t).
Proof.
  intros st t I L T. unfold Model.start.
  destruct t as [[| |]|i [|[[|n]|]| | |]]; try (case ct);
    try (now apply start_stream_live); try (now apply finish_live);
    apply await_slot_live; auto; discriminate.
Qed.

Lemma run_live : forall st t, Inv st -> LiveH (Some t) st -> Live (run st t).
Proof.
  intros st t I L. destruct (l_hole _ _ L t eq_refl) as [Rt _].
  unfold Model.run. destruct Rt as [H|[(w & acc & m & H)|(s & o & H & D)]]; rewrite H.
  - now apply start_live.
  - apply pump_live; [exact L|].
    pose proof (i_tok _ _ _ _ st I t) as K. unfold TOk in K. now rewrite H in K.
  - rewrite D. now apply after_await_live.
Qed.

Lemma take_live : forall st r1 t r2,
  Live st -> ready st = r1 ++ t :: r2 -> LiveH (Some t) (set_ready st (r1 ++ r2)).
Proof.
  intros st r1 t r2 [A1 A2 A3 A4 A5 A6 A7 A8 A9 A10] E. rewrite E in *.
  destruct (NoDup_remove _ _ _ A1) as [N1 N2].
  constructor; cbn [ready swait accs reader tst set_ready]; auto.
  - intros t' X. injection X as <-. split; [|exact N2]. apply A3. apply in_or_app. right. now left.
  - intros t' Hin. apply A3. apply in_app_or in Hin as [Hin|Hin]; apply in_or_app; [now left|right; now right].
  - intros t' Hr Hne. assert (Hin : In t' (r1 ++ t :: r2)) by (apply A4; [exact Hr|discriminate]).
    apply in_app_or in Hin as [Hin|[<-|Hin]]; apply in_or_app; [now left|now elim Hne|now right].
Qed.

Lemma step_choice_live : forall st c, Inv st -> Live st -> Live (step_choice st c).
Proof.
  intros st c I L. unfold Model.step_choice. destruct (nth_error (ready st) c) as [t|] eqn:E; [|exact L].
  destruct (nth_split_remove _ _ _ _ E) as (r1 & r2 & E1 & E2). rewrite E2.
  apply run_live; [now apply set_ready_inv|now apply take_live].
Qed.

Lemma run_all_live : forall fuel st, Inv st -> Live st -> Live (run_all fuel st).
Proof.
  induction fuel as [|f IH]; intros st I L; cbn; auto.
  destruct (ready st) eqn:R; auto. apply IH; [now apply step_choice_inv|now apply step_choice_live].
Qed.

(* ---------- the server delivers; the application starts an access ---------- *)

Lemma deliver_live : forall st, Inv st -> Live st -> Live (deliver st).
Proof.
  intros st I L. unfold deliver. destruct (pend st) as [|m p] eqn:P; auto.
  cbn [rwait set_pend]. destruct (rwait st) as [|[[t w] acc] rw] eqn:W.
  - apply (live_same _ st); [repeat split|exact L].
  - destruct (rwait_head _ _ _ _ st t w acc rw I W) as (T & Rd & _).
    set (st' := set_log _ _).
    destruct L as [A1 A2 A3 A4 A5 A6 A7 A8 A9 A10].
    assert (Ho : forall u, u <> t -> tst st' u = tst st u)
      by (intros u Hu; cbn; now rewrite tid_eqb_neq).
    assert (Hs : tst st' t = TGot w acc m) by (cbn; now rewrite tid_eqb_refl).
    assert (Nd : forall o, tst st t <> TDone o) by (intro o; rewrite T; discriminate).
    assert (Nd' : forall o, tst st' t <> TDone o) by (intro o; rewrite Hs; discriminate).
    assert (Nr : ~ runnable st t).
    { intro X. destruct (runnable_state _ _ X) as (_ & _ & X'). now elim X'. }
    assert (Er : ready st' = ready st ++ [t]) by reflexivity.
    assert (Ea : accs st' = accs st) by reflexivity.
    assert (Erd : reader st' = reader st) by reflexivity.
    assert (Esw : swait st' = swait st) by reflexivity.
    constructor; rewrite ?Er, ?Ea, ?Erd, ?Esw.
    + apply nodup_app; auto; [constructor; [intros []|constructor]|].
      intros x Hx [<-|[]]. apply Nr. now apply A3.
    + discriminate.
    + intros t0 Hin. apply in_app_or in Hin as [Hin|[<-|[]]]; [|right; left; eauto].
      assert (t0 <> t) by (intros ->; apply Nr; now apply A3).
      apply (runnable_upd st st' t t0); auto.
    + intros t0 Hr Hh. apply in_or_app. destruct (tid_dec t0 t) as [->|Hne]; [right; now left|].
      left. apply A4; [|exact Hh]. now apply (runnable_upd st st' t t0).
    + intros t0 H. apply A5. destruct (tid_dec t0 t) as [->|Hne]; [rewrite Hs in H; discriminate|now rewrite <- (Ho _ Hne)].
    + intros t0 s H Hn. destruct (tid_dec t0 t) as [->|Hne]; [rewrite Hs in H; discriminate|].
      rewrite (Ho _ Hne) in H.
      assert (Hn0 : forall o, tst st (TS s) <> TDone o).
      { intros o E. destruct (tid_dec (TS s) t) as [X|X]; [rewrite X in E; now elim (Nd o)|].
        apply (Hn o). now rewrite (Ho _ X). }
      destruct (A6 t0 s H Hn0) as [B1 B2]. split; [|exact B2].
      destruct (tid_dec (TS s) t) as [X|X]; [rewrite X, Hs; discriminate|now rewrite (Ho _ X)].
    + intros s t0 Hin. destruct (A7 s t0 Hin) as [B1 B2].
      assert (t0 <> t) by (intros ->; congruence).
      split; [now rewrite (Ho _ H)|].
      intros o E. destruct (tid_dec (TS s) t) as [X|X]; [rewrite X, Hs in E; discriminate|].
      rewrite (Ho _ X) in E. now elim (B2 o).
    + exact A8.
    + intros i k H. apply A9. destruct (tid_dec (TA i k) t) as [->|Hne]; [rewrite T; discriminate|now rewrite <- (Ho _ Hne)].
    + intros t0 Hin. destruct (tid_dec t0 t) as [->|Hne]; [rewrite Hs; discriminate|].
      rewrite (Ho _ Hne). now apply A10.
Qed.

Lemma start_access_live : forall st k, Inv st -> Live st -> Live (start_access st k).
Proof.
  intros st k I L. unfold start_access. set (t := TA (length (accs st)) k).
  assert (Ab : tst st t = TAbsent) by (apply (i_fresh _ _ _ _ st I); lia).
  set (st' := set_accs _ _).
  destruct L as [A1 A2 A3 A4 A5 A6 A7 A8 A9 A10].
  assert (Ho : forall u, u <> t -> tst st' u = tst st u)
    by (intros u Hu; cbn; now rewrite tid_eqb_neq).
  assert (Hs : tst st' t = TNew) by (cbn; now rewrite tid_eqb_refl).
  assert (Nd : forall o, tst st t <> TDone o) by (intro o; rewrite Ab; discriminate).
  assert (Nd' : forall o, tst st' t <> TDone o) by (intro o; rewrite Hs; discriminate).
  assert (Nr : ~ runnable st t).
  { intro X. destruct (runnable_state _ _ X) as (_ & X' & _). now elim X'. }
  assert (Er : ready st' = ready st ++ [t]) by reflexivity.
  assert (Ea : accs st' = accs st ++ [t]) by reflexivity.
  assert (Erd : reader st' = reader st) by reflexivity.
  assert (Esw : swait st' = swait st) by reflexivity.
  constructor; rewrite ?Er, ?Ea, ?Erd, ?Esw.
  - apply nodup_app; auto; [constructor; [intros []|constructor]|].
    intros x Hx [<-|[]]. apply Nr. now apply A3.
  - discriminate.
  - intros t0 Hin. apply in_app_or in Hin as [Hin|[<-|[]]]; [|now left].
    assert (t0 <> t) by (intros ->; apply Nr; now apply A3).
    apply (runnable_upd st st' t t0); auto.
  - intros t0 Hr Hh. apply in_or_app. destruct (tid_dec t0 t) as [->|Hne]; [right; now left|].
    left. apply A4; [|exact Hh]. now apply (runnable_upd st st' t t0).
  - intros t0 H. apply A5. destruct (tid_dec t0 t) as [->|Hne]; [rewrite Hs in H; discriminate|now rewrite <- (Ho _ Hne)].
  - intros t0 s H Hn. destruct (tid_dec t0 t) as [->|Hne]; [rewrite Hs in H; discriminate|].
    rewrite (Ho _ Hne) in H.
    assert (X : TS s <> t) by discriminate.
    rewrite (Ho _ X). apply A6; [exact H|]. intros o E. apply (Hn o). now rewrite (Ho _ X).
  - intros s t0 Hin. destruct (A7 s t0 Hin) as [B1 B2].
    assert (t0 <> t) by (intros ->; congruence).
    assert (X : TS s <> t) by discriminate.
    split; [now rewrite (Ho _ H)|]. intro o. rewrite (Ho _ X). apply B2.
  - exact A8.
  - intros i k0 H. apply in_or_app. destruct (tid_dec (TA i k0) t) as [->|Hne]; [right; now left|].
    left. apply A9. now rewrite <- (Ho _ Hne).
  - intros t0 Hin. destruct (tid_dec t0 t) as [->|Hne]; [rewrite Hs; discriminate|].
    rewrite (Ho _ Hne). apply in_app_or in Hin as [Hin|[X|[]]]; [now apply A10|now elim Hne].
Qed.

Lemma do_event_live : forall st e, Inv st -> Live st -> Live (do_event st e).
Proof.
  intros st [k| |c|f] I L; cbn.
  - now apply start_access_live.
  - now apply deliver_live.
  - now apply step_choice_live.
  - now apply run_all_live.
Qed.

Lemma exec_live : forall evs st, Inv st -> Live st -> Live (exec evs st).
Proof.
  induction evs as [|e evs IH]; intros st I L; cbn; auto.
  apply IH; [now apply do_event_inv|now apply do_event_live].
Qed.

(* ---------- progress: no lost wake-up ---------- *)

Lemma recv_waits : forall st t, Inv st -> Live st -> tst st t = TRecv -> waits st t.
Proof.
  intros st t I L T. pose proof (l_recv _ _ L t T) as R.
  destruct (i_some _ _ _ _ st I t R) as [_ S].
  destruct S as [(w & acc & _ & W & Av & Ho & _)|[(w & acc & m & cm' & T' & _)|(o & T' & _)]]; try congruence.
  apply (W_recv st t w acc); auto.
  pose proof (has_term_open _ _ [] Ho) as H. now rewrite app_nil_r in H.
Qed.

Lemma await_registered : forall st t s,
  Live st -> ready st = [] -> tst st t = TAwait s ->
  (forall o, tst st (TS s) <> TDone o) /\ tst st (TS s) <> TAbsent /\ In t (swait st s).
Proof.
  intros st t s L R T.
  assert (N : forall o, tst st (TS s) <> TDone o).
  { intros o D. assert (X : In t (ready st)).
    { apply (l_run _ _ L); [|discriminate]. right; right. now exists s, o. }
    rewrite R in X. destruct X. }
  split; [exact N|]. now apply (l_await _ _ L).
Qed.

Lemma progress : forall st, Inv st -> Live st -> ready st = [] ->
  forall t, tst st t <> TAbsent -> (exists o, tst st t = TDone o) \/ waits st t.
Proof.
  intros st I L R.
  assert (Base : forall t, (forall s, tst st t = TAwait s -> waits st (TS s)) ->
            tst st t <> TAbsent -> (exists o, tst st t = TDone o) \/ waits st t).
  { intros t Hs Na. destruct (tst st t) eqn:T.
    - now elim Na.
    - assert (X : In t (ready st)) by (apply (l_run _ _ L); [now left|discriminate]).
      rewrite R in X. destruct X.
    - right. now apply recv_waits.
    - assert (X : In t (ready st)) by (apply (l_run _ _ L); [right; left; eauto|discriminate]).
      rewrite R in X. destruct X.
    - right. destruct (await_registered st t s L R T) as (_ & _ & Hin).
      apply (W_slot st t s); auto.
    - left. eauto. }
  assert (Aw : forall t s, tst st t = TAwait s -> aw_ok ct t s).
  { intros t s T. pose proof (i_tok _ _ _ _ st I t) as K. unfold TOk in K. now rewrite T in K. }
  assert (Pb : tst st (TS SBody) <> TAbsent -> (exists o, tst st (TS SBody) = TDone o) \/ waits st (TS SBody)).
  { apply Base. intros s T. elim (Aw _ _ T). }
  assert (Ps : forall s, tst st (TS s) <> TAbsent -> (exists o, tst st (TS s) = TDone o) \/ waits st (TS s)).
  { intros s. apply Base. intros s' T.
    destruct (await_registered st _ s' L R T) as (N & Na & _).
    assert (s' = SBody) as -> by (pose proof (Aw _ _ T) as K; destruct s, s'; cbn in K; tauto).
    destruct (Pb Na) as [[o D]|W]; [now elim (N o)|exact W]. }
  intros t. apply Base. intros s T.
  destruct (await_registered st _ s L R T) as (N & Na & _).
  destruct (Ps s Na) as [[o D]|W]; [now elim (N o)|exact W].
Qed.

Lemma waits_no_term : forall st t, Inv st -> waits st t -> pend st = [] -> has_term ch = false.
Proof.
  intros st t I W P. induction W as [t w acc T Rw Av H|t s T Hin W IH]; auto.
  pose proof (i_cons _ _ _ _ st I) as C. rewrite Av, P in C. cbn in C. rewrite app_nil_r in C.
  unfold cmsgs in C. now rewrite <- C.
Qed.

Lemma quiescent_done : forall st, Inv st -> Live st -> has_term ch = true ->
  ready st = [] -> pend st = [] ->
  forall t, tst st t <> TAbsent -> exists o, tst st t = TDone o.
Proof.
  intros st I L Ht R P t Na. destruct (progress st I L R t Na) as [D|W]; [exact D|].
  rewrite (waits_no_term st t I W P) in Ht. discriminate.
Qed.

(* ---------- what a segment does to the task that runs it ---------- *)

Lemma finish_self : forall st t o, tst (finish st t o) t = TDone o.
Proof. intros. now rewrite finish_tst, tid_eqb_refl. Qed.

Lemma pump_self : forall t av st h,
  tst (pump av st t h) t = TRecv \/ exists o, tst (pump av st t h) t = TDone o.
Proof.
  intros t av. induction av as [|m av IH]; intros st h; destruct h as [o| |w acc]; cbn [pump];
    rewrite ?finish_self; eauto.
  left. cbn. now rewrite tid_eqb_refl.
Qed.

Lemma after_await_self : forall st t o, exists o', tst (after_await st t o) t = TDone o'.
Proof.
  intros st t o. unfold Model.after_await. destruct t as [[| |]|i k]; rewrite finish_self; eauto.
Qed.

Lemma start_stream_self : forall st t w,
  tst (start_stream st t w) t = TRecv \/ exists o, tst (start_stream st t w) t = TDone o.
Proof.
  intros st t w. unfold start_stream.
  destruct (tst st (TS SBody)); try destruct (consumed st); rewrite ?finish_self; eauto; apply pump_self.
Qed.

Lemma await_slot_self : forall st t s, t <> TS s ->
  tst (await_slot st t s) t = TAwait s \/ exists o, tst (await_slot st t s) t = TDone o.
Proof.
  intros st t s Hne. unfold Model.await_slot.
  match goal with |- context [tst ?x (TS s)] => set (st1 := x) end.
  destruct (tst st1 (TS s)); try (left; cbn; now rewrite tid_eqb_refl).
  right. apply after_await_self.
Qed.

Definition wt (x : tstate) : nat :=
  match x with TAbsent | TNew => 2 | TGot _ _ _ | TAwait _ => 1 | TRecv | TDone _ => 0 end.

Lemma start_self : forall st t, wt (tst (start st t) t) <= 1.
Proof.
  intros st t. unfold Model.start.
  destruct t as [[| |]|i [|[[|n]|]| | |]]; try (case ct); rewrite ?finish_self; auto;
    try match goal with |- context [start_stream ?a ?b ?c] =>
      destruct (start_stream_self a b c) as [E|[o E]]; rewrite E; cbn; lia end;
    match goal with |- context [Model.await_slot _ _ ?a ?b ?c] =>
      destruct (await_slot_self a b c) as [E|[o E]]; [discriminate|rewrite E; cbn; lia..] end.
Qed.

Lemma run_self : forall st t, runnable st t -> wt (tst (run st t) t) < wt (tst st t).
Proof.
  intros st t [H|[(w & acc & m & H)|(s & o & H & D)]]; unfold Model.run; rewrite H.
  - pose proof (start_self st t). cbn. lia.
  - destruct (pump_self t (avail st) st (handle t w acc m)) as [E|[o E]]; rewrite E; cbn; lia.
  - rewrite D. destruct (after_await_self st t o) as [o' E]. rewrite E. cbn. lia.
Qed.

Lemma run_idle : forall st t, ~ runnable st t -> run st t = st.
Proof.
  intros st t N. unfold Model.run. destruct (tst st t) eqn:T; auto.
  - elim N. now left.
  - elim N. right; left. eauto.
  - destruct (tst st (TS s)) eqn:D; auto. elim N. right; right. eauto.
Qed.

Lemma runnable_dec : forall st t, runnable st t \/ ~ runnable st t.
Proof.
  intros st t. unfold runnable. destruct (tst st t) eqn:T.
  - right. intros [H|[(w0 & acc0 & m0 & H)|(s0 & o0 & H & _)]]; discriminate.
  - left. now left.
  - right. intros [H|[(w0 & acc0 & m0 & H)|(s0 & o0 & H & _)]]; discriminate.
  - left. right; left. eauto.
  - destruct (tst st (TS s)) eqn:D;
      try (right; intros [H|[(w9 & acc9 & m9 & H)|(s9 & o9 & H & D')]]; try discriminate;
           injection H as <-; congruence).
    left. right; right. eauto.
  - right. intros [H|[(w0 & acc0 & m0 & H)|(s0 & o0 & H & _)]]; discriminate.
Qed.

Lemma run_wt : forall st t t', wt (tst (run st t) t') <= wt (tst st t').
Proof.
  intros st t t'. destruct (tid_dec t' t) as [->|Hne].
  - destruct (runnable_dec st t) as [R|R]; [pose proof (run_self st t R); lia|now rewrite run_idle].
  - destruct (run_tst ct jparse fparse st t t' Hne) as [E|(s & _ & A & B)]; [now rewrite E|].
    rewrite A, B. cbn. lia.
Qed.

Lemma run_nabs : forall st t t', tst st t' <> TAbsent -> tst (run st t) t' <> TAbsent.
Proof.
  intros st t t' H E. pose proof (run_wt st t t') as K. rewrite E in K. cbn in K.
  destruct (tst st t') eqn:T; cbn in K; try lia; [now elim H|].
  (* TNew stays TNew or moves on: never back to absent *)
  destruct (tid_dec t' t) as [->|Hne].
  - assert (R : runnable st t) by (now left). pose proof (run_self st t R) as K2. rewrite E, T in K2. cbn in K2. lia.
  - destruct (run_tst ct jparse fparse st t t' Hne) as [E'|(s & _ & A & B)]; congruence.
Qed.

(* ---------- the measure ---------- *)

Definition slots : list tid := [TS SBody; TS SJson; TS SForm].

Definition mu (st : state) : nat := list_sum (map (fun t => wt (tst st t)) (accs st ++ slots)).

Lemma sum_cons : forall (f : tid -> nat) a l, list_sum (map f (a :: l)) = f a + list_sum (map f l).
Proof. reflexivity. Qed.

Lemma sum_le : forall (f g : tid -> nat) l, (forall t, g t <= f t) ->
  list_sum (map g l) <= list_sum (map f l).
Proof.
  intros f g l H. induction l as [|a l IH]; [cbn; lia|]. rewrite !sum_cons. specialize (H a). lia.
Qed.

Lemma sum_lt : forall (f g : tid -> nat) l t, (forall t, g t <= f t) -> In t l -> g t < f t ->
  list_sum (map g l) < list_sum (map f l).
Proof.
  intros f g l t H. induction l as [|a l IH]; intros Hin Hlt; [destruct Hin|]. rewrite !sum_cons.
  destruct Hin as [->|Hin].
  - pose proof (sum_le f g l H). lia.
  - specialize (IH Hin Hlt). specialize (H a). lia.
Qed.

Lemma sum_bound : forall (f : tid -> nat) l, (forall t, f t <= 2) -> list_sum (map f l) <= 2 * length l.
Proof.
  intros f l H. induction l as [|a l IH]; [cbn; lia|]. rewrite sum_cons. cbn [length]. specialize (H a). lia.
Qed.

Lemma mu_bound : forall st, mu st <= fuel_bound (length (accs st)).
Proof.
  intro st. unfold mu, fuel_bound.
  pose proof (sum_bound (fun t => wt (tst st t)) (accs st ++ slots)) as H.
  rewrite app_length in H. cbn [length slots] in H. apply H. intro t. destruct (tst st t); cbn; lia.
Qed.

Lemma step0 : forall st t r, ready st = t :: r -> step_choice st 0 = run (set_ready st r) t.
Proof. intros st t r E. unfold Model.step_choice. rewrite E. reflexivity. Qed.

Lemma mu_step : forall st t r, Live st -> ready st = t :: r -> mu (step_choice st 0) < mu st.
Proof.
  intros st t r L E. rewrite (step0 st t r E). unfold mu. rewrite run_accs.
  cbn [accs set_ready].
  assert (Rt : runnable st t) by (apply (l_ready _ _ L); rewrite E; now left).
  apply (sum_lt (fun t0 => wt (tst st t0)) _ _ t).
  - intro t0. apply (run_wt (set_ready st r) t t0).
  - apply in_or_app. destruct t as [s|i k]; [right; destruct s; cbn; auto|left].
    apply (l_accs _ _ L). now destruct (runnable_state _ _ Rt) as (_ & X & _).
  - apply (run_self (set_ready st r) t Rt).
Qed.

(* the loop comes to rest: no livelock, whatever the channel holds *)
Lemma run_all_rests : forall fuel st, Inv st -> Live st -> mu st <= fuel -> ready (run_all fuel st) = [].
Proof.
  induction fuel as [|f IH]; intros st I L M; cbn [Model.run_all].
  - destruct (ready st) as [|t r] eqn:E; [reflexivity|]. pose proof (mu_step st t r L E). lia.
  - destruct (ready st) as [|t r] eqn:E; [exact E|].
    pose proof (mu_step st t r L E). apply IH; [now apply step_choice_inv|now apply step_choice_live|lia].
Qed.

(* ---------- what the events leave alone ---------- *)

Lemma pump_pend : forall t av st h, pend (pump av st t h) = pend st.
Proof.
  intros t av. induction av as [|m av IH]; intros st h; destruct h as [o| |w acc]; cbn [pump];
    try (now destruct (finish_chan st t o) as (E & _));
    try (now destruct (finish_chan (set_disc st true) t (Exn EDisconnect)) as (E & _));
    try reflexivity.
  now rewrite IH.
Qed.

Lemma after_await_pend : forall st t o, pend (after_await st t o) = pend st.
Proof.
  intros st t o. unfold Model.after_await.
  destruct t as [[| |]|i k]; match goal with |- context [finish ?a ?b ?c] => now destruct (finish_chan a b c) as (E & _) end.
Qed.

Lemma await_slot_pend : forall st t s, pend (await_slot st t s) = pend st.
Proof.
  intros st t s. unfold Model.await_slot.
  match goal with |- context [tst ?x (TS s)] => set (st1 := x) end.
  assert (E : pend st1 = pend st) by (unfold st1; destruct (tst st (TS s)); reflexivity).
  destruct (tst st1 (TS s)); rewrite ?after_await_pend; exact E.
Qed.

Lemma start_stream_pend : forall st t w, pend (start_stream st t w) = pend st.
Proof.
  intros st t w. unfold start_stream.
  destruct (tst st (TS SBody)); try destruct (consumed st); rewrite ?pump_pend; try reflexivity;
    match goal with |- context [finish ?a ?b ?c] => now destruct (finish_chan a b c) as (E & _) end.
Qed.

Lemma run_pend : forall st t, pend (run st t) = pend st.
Proof.
  intros st t. unfold Model.run. destruct (tst st t) eqn:T; auto.
  - unfold Model.start.
    destruct t as [[| |]|i [|[[|n]|]| | |]]; try (case ct);
      rewrite ?start_stream_pend, ?await_slot_pend; try reflexivity;
      match goal with |- context [finish ?a ?b ?c] => now destruct (finish_chan a b c) as (E & _) end.
  - apply pump_pend.
  - destruct (tst st (TS s)); auto. apply after_await_pend.
Qed.

Lemma step_choice_frame : forall st c,
  pend (step_choice st c) = pend st /\ accs (step_choice st c) = accs st /\
  (forall t, tst st t <> TAbsent -> tst (step_choice st c) t <> TAbsent).
Proof.
  intros st c. unfold Model.step_choice. destruct (nth_error (ready st) c) as [t|]; [|auto].
  rewrite run_pend, run_accs. repeat split; auto.
  intros t0 H. apply run_nabs. exact H.
Qed.

Lemma run_all_frame : forall fuel st,
  pend (run_all fuel st) = pend st /\ accs (run_all fuel st) = accs st /\
  (forall t, tst st t <> TAbsent -> tst (run_all fuel st) t <> TAbsent).
Proof.
  induction fuel as [|f IH]; intros st; cbn [Model.run_all]; auto.
  destruct (ready st); auto.
  destruct (step_choice_frame st 0) as (A & B & C). destruct (IH (step_choice st 0)) as (A' & B' & C').
  rewrite A', B', A, B. repeat split; auto.
Qed.

Lemma deliver_frame : forall st, Inv st ->
  length (pend (deliver st)) = pred (length (pend st)) /\ accs (deliver st) = accs st /\
  (forall t, tst st t <> TAbsent -> tst (deliver st) t <> TAbsent).
Proof.
  intros st I. unfold deliver. destruct (pend st) as [|m p] eqn:P; [rewrite P; auto|].
  cbn [rwait set_pend]. destruct (rwait st) as [|[[t w] acc] rw] eqn:W; cbn; repeat split; auto.
  intros t0 H. destruct (tid_eqb t0 t); [discriminate|exact H].
Qed.

Lemma deliver_all : forall n st, Inv st -> length (pend st) <= n ->
  let st1 := exec (repeat EDeliver n) st in
  pend st1 = [] /\ accs st1 = accs st /\ (forall t, tst st t <> TAbsent -> tst st1 t <> TAbsent).
Proof.
  induction n as [|n IH]; intros st I Hn; cbn zeta.
  - cbn. destruct (pend st); cbn in Hn; [auto|lia].
  - cbn [repeat]. change (exec (EDeliver :: repeat EDeliver n) st) with (exec (repeat EDeliver n) (deliver st)).
    destruct (deliver_frame st I) as (A & B & C).
    destruct (IH (deliver st) (deliver_inv _ _ _ _ st I)) as (A' & B' & C'); [lia|].
    rewrite B', B. repeat split; auto.
Qed.

Lemma exec_naccs : forall evs st, length (accs (exec evs st)) = length (accs st) + nstarts evs.
Proof.
  induction evs as [|e evs IH]; intros st; [cbn; lia|].
  change (exec (e :: evs) st) with (exec evs (do_event st e)). rewrite IH.
  unfold nstarts. cbn [filter]. destruct e as [k| |c|f]; cbn [is_start Model.do_event length].
  - unfold start_access. cbn. rewrite app_length. cbn. lia.
  - assert (accs (deliver st) = accs st) as ->; [|lia].
    unfold deliver. destruct (pend st); auto. cbn [rwait set_pend]. now destruct (rwait st) as [|[[t w] acc] rw].
  - destruct (step_choice_frame st c) as (_ & -> & _). lia.
  - destruct (run_all_frame f st) as (_ & -> & _). lia.
Qed.

(* ---------- completion ---------- *)

Lemma completion_from : forall st n fuel, Inv st -> Live st -> has_term ch = true ->
  length (pend st) <= n -> fuel_bound (length (accs st)) <= fuel ->
  let st' := run_all fuel (exec (repeat EDeliver n) st) in
  ready st' = [] /\ pend st' = [] /\ accs st' = accs st /\
  (forall t, started st t -> exists o, tst st' t = TDone o).
Proof.
  intros st n fuel I L Ht Hn Hf. cbn zeta.
  set (st1 := exec (repeat EDeliver n) st).
  destruct (deliver_all n st I Hn) as (P1 & A1 & N1). fold st1 in P1, A1, N1.
  assert (I1 : Inv st1) by (now apply exec_inv).
  assert (L1 : Live st1) by (now apply exec_live).
  destruct (run_all_frame fuel st1) as (P2 & A2 & N2).
  assert (I2 : Inv (run_all fuel st1)) by (now apply run_all_inv).
  assert (L2 : Live (run_all fuel st1)) by (now apply run_all_live).
  assert (R2 : ready (run_all fuel st1) = []).
  { apply run_all_rests; auto. pose proof (mu_bound st1). rewrite A1 in H. lia. }
  split; [exact R2|]. split; [now rewrite P2|]. split; [now rewrite A2|].
  intros t S. apply (quiescent_done _ I2 L2 Ht R2); [now rewrite P2|].
  apply N2, N1. destruct S as [Hin|Na]; [now apply (l_accs2 _ _ L)|exact Na].
Qed.

End Live.

(* ====================================================================== *)
(* Part A — closed statements                                             *)

Section FinalLive.
Variable ct : ctype.
Variables jparse fparse : bytes -> pres.
Variable ch : list msg.

Let reach (evs : list event) : state := exec ct jparse fparse evs (init ch).

Lemma reach_inv' : forall evs, Inv ct jparse fparse ch (reach evs).
Proof. intro evs. apply exec_inv. apply inv_init. Qed.

Lemma reach_live : forall evs, Live (reach evs).
Proof. intro evs. apply (exec_live ct jparse fparse ch); [apply inv_init|apply live_init]. Qed.

Lemma asgi_no_lost_wakeup_proof : forall evs,
  let st := reach evs in
  NoDup (ready st) /\
  (forall t, In t (ready st) <-> runnable st t) /\
  (forall t, tst st t = TRecv -> waits st t) /\
  (forall t s, tst st t = TAwait s -> (forall o, tst st (TS s) <> TDone o) ->
     tst st (TS s) <> TAbsent /\ In t (swait st s)) /\
  (forall s t, In t (swait st s) -> tst st t = TAwait s /\ forall o, tst st (TS s) <> TDone o).
Proof.
  intro evs. cbn zeta. pose proof (reach_inv' evs) as I. pose proof (reach_live evs) as L.
  split; [apply (l_nodup _ _ L)|]. split; [|split; [|split]].
  - intro t. split; [apply (l_ready _ _ L)|]. intro R. apply (l_run _ _ L); [exact R|discriminate].
  - intros t T. now apply (recv_waits ct jparse fparse ch).
  - apply (l_await _ _ L).
  - apply (l_swait _ _ L).
Qed.

Lemma asgi_progress_proof : forall evs,
  let st := reach evs in
  ready st = [] ->
  forall t, tst st t <> TAbsent -> (exists o, tst st t = TDone o) \/ waits st t.
Proof. intros evs st R. apply (progress ct jparse fparse ch); auto; [apply reach_inv'|apply reach_live]. Qed.

Lemma asgi_quiescent_proof : forall evs,
  let st := reach evs in
  has_term ch = true -> ready st = [] -> pend st = [] ->
  forall t, started st t -> exists o, tst st t = TDone o.
Proof.
  intros evs st Ht R P t S.
  apply (quiescent_done ct jparse fparse ch st (reach_inv' evs) (reach_live evs) Ht R P).
  destruct S as [Hin|Na]; [now apply (l_accs2 _ _ (reach_live evs))|exact Na].
Qed.

Lemma reach_app : forall evs evs', reach (evs ++ evs') = exec ct jparse fparse evs' (reach evs).
Proof. intros. unfold reach, exec. apply fold_left_app. Qed.

Lemma reach_naccs : forall evs, length (accs (reach evs)) = nstarts evs.
Proof. intro evs. unfold reach. now rewrite exec_naccs. Qed.

Lemma asgi_rests_proof : forall evs fuel,
  fuel_bound (nstarts evs) <= fuel -> ready (reach (evs ++ [ERunAll fuel])) = [].
Proof.
  intros evs fuel Hf. rewrite reach_app. cbn.
  apply (run_all_rests ct jparse fparse ch); [apply reach_inv'|apply reach_live|].
  pose proof (mu_bound (reach evs)). rewrite reach_naccs in H. lia.
Qed.

Lemma asgi_completion_proof : forall evs n fuel,
  has_term ch = true -> length ch <= n -> fuel_bound (nstarts evs) <= fuel ->
  let st := reach evs in
  let st' := reach (evs ++ repeat EDeliver n ++ [ERunAll fuel]) in
  ready st' = [] /\ pend st' = [] /\ accs st' = accs st /\ length (accs st) = nstarts evs /\
  (forall t, started st t -> exists o, tst st' t = TDone o).
Proof.
  intros evs n fuel Ht Hn Hf. cbn zeta. rewrite app_assoc, !reach_app.
  change (exec ct jparse fparse [ERunAll fuel] ?x) with (run_all ct jparse fparse fuel x).
  pose proof (reach_inv' evs) as I.
  assert (Hp : length (pend (reach evs)) <= n).
  { pose proof (i_cons _ _ _ _ _ I) as C. rewrite <- C in Hn. rewrite !app_length in Hn. lia. }
  destruct (completion_from ct jparse fparse ch (reach evs) n fuel I (reach_live evs) Ht Hp) as (A & B & C & D).
  - now rewrite reach_naccs.
  - repeat split; auto. apply reach_naccs.
Qed.

End FinalLive.

(* ====================================================================== *)
(* Part B — WSGI: the loop of stream() stops by itself, and soon          *)

Lemma wloop_fuel : forall f cs w inp acc reads, Forall ne inp -> total inp < f ->
  forall f', f <= f' -> wloop f' cs w inp acc reads = wloop f cs w inp acc reads.
Proof.
  induction f as [|f IH]; intros cs w inp acc reads F L f' Hf; [lia|].
  destruct f' as [|f']; [lia|]. cbn [wloop].
  destruct (wread cs inp) as [c inp1] eqn:R.
  destruct (wread_spec _ _ _ _ F R) as (E & F1 & Hlt & Hz).
  destruct (nonempty c) eqn:Nc; [|reflexivity]. specialize (Hlt eq_refl).
  destruct w as [[|k]|]; [reflexivity|apply IH; auto; lia..].
Qed.

Lemma wloop_reads : forall fuel cs w inp acc reads items inp' n,
  Forall ne inp -> wloop fuel cs w inp acc reads = (items, inp', n) ->
  n + total inp' <= S (reads + total inp).
Proof.
  induction fuel as [|f IH]; intros cs w inp acc reads items inp' n F H; cbn in H.
  - injection H as <- <- <-. lia.
  - destruct (wread cs inp) as [c inp1] eqn:R.
    destruct (wread_spec _ _ _ _ F R) as (E & F1 & Hlt & Hz).
    destruct (nonempty c) eqn:Nc.
    + specialize (Hlt eq_refl). destruct w as [[|k]|].
      * injection H as <- <- <-. lia.
      * apply IH in H; auto. lia.
      * apply IH in H; auto. lia.
    + injection H as <- <- <-. destruct (Hz eq_refl) as [-> _]. lia.
Qed.

Definition fits (cs : N) (p : bytes) : Prop := (N.of_nat (length p) <= cs)%N.

Lemma wloop_reads_fit : forall fuel cs w inp acc reads items inp' n,
  Forall ne inp -> Forall (fits cs) inp -> wloop fuel cs w inp acc reads = (items, inp', n) ->
  n + length inp' <= S (reads + length inp).
Proof.
  induction fuel as [|f IH]; intros cs w inp acc reads items inp' n F G H; cbn in H.
  - injection H as <- <- <-. lia.
  - destruct inp as [|p r].
    + cbn in H. injection H as <- <- <-. cbn. lia.
    + inversion F as [|? ? Hp Fr]; subst. inversion G as [|? ? Gp Gr]; subst.
      unfold wread in H. unfold fits in Gp. apply N.leb_le in Gp. rewrite Gp in H.
      unfold ne in Hp. rewrite Hp in H. destruct w as [[|k]|].
      * injection H as <- <- <-. cbn. lia.
      * apply IH in H; auto. cbn [length]. lia.
      * apply IH in H; auto. cbn [length]. lia.
Qed.

Section WLive.
Variable ct : ctype.
Variables jparse fparse : bytes -> pres.
Variable pieces : list bytes.
Hypothesis pieces_ne : Forall ne pieces.

Notation WInv := (WInv ct jparse fparse pieces).

(* at most one drain, and it makes at most total+1 (pieces+1 when they fit) reads *)
Definition RB (st : wstate) : Prop :=
  (w_consumed st = false /\ w_reads st = []) \/
  (w_consumed st = true /\ exists cs n, w_reads st = repeatN cs n /\ n <= S (total pieces) /\
     (Forall (fits cs) pieces -> n <= S (length pieces))).

Lemma rb_same : forall st st', w_consumed st' = w_consumed st -> w_reads st' = w_reads st -> RB st -> RB st'.
Proof. intros st st' E1 E2 H. unfold RB in *. now rewrite E1, E2. Qed.

Lemma wstream_rb : forall st w cs, WInv st -> RB st -> RB (fst (wstream st w cs)).
Proof.
  intros st w cs I H. unfold wstream. destruct (w_body st); [exact H|].
  destruct (w_consumed st) eqn:C; [exact H|].
  destruct (wloop (S (total (w_input st))) cs w (w_input st) [] 0) as [[items inp'] n] eqn:L.
  destruct (wi_fresh _ _ _ _ _ I C) as (E1 & E2 & _). rewrite E1 in L.
  right. cbn. split; [reflexivity|]. exists cs, n. rewrite E2. split; [reflexivity|]. split.
  - pose proof (wloop_reads _ _ _ _ _ _ _ _ _ pieces_ne L). lia.
  - intro G. pose proof (wloop_reads_fit _ _ _ _ _ _ _ _ _ pieces_ne G L). lia.
Qed.

Lemma wbody_rb : forall st, WInv st -> RB st -> RB (fst (wbody st)).
Proof.
  intros st I H. unfold wbody. destruct (w_body st); [exact H|].
  pose proof (wstream_rb st None 65536%N I H) as K.
  destruct (wstream st None 65536) as [st2 [[b|l|r c|]|e]]; cbn in *; auto.
Qed.

Lemma wstep_rb : forall st a, WInv st -> RB st -> RB (fst (wstep ct jparse fparse st a)).
Proof.
  intros st a I H. unfold wstep.
  assert (Bump : forall p, RB (fst p) -> RB (fst (wbump p))) by (intros p K; exact K).
  apply Bump. destruct a as [|[[|n]|] cs| | |]; cbn [fst]; auto.
  - now apply wbody_rb.
  - now apply wstream_rb.
  - now apply wstream_rb.
  - unfold wjson. destruct (w_json st) as [[r c]|]; [exact H|]. case ct; try exact H.
    pose proof (wbody_rb st I H) as K.
    destruct (wbody st) as [st2 [[b|l|r c|]|e]]; cbn in *; auto.
    destruct (jparse b); cbn; auto.
  - unfold wform. destruct (w_form st) as [[r c]|]; [exact H|]. case ct; try exact H.
    pose proof (wbody_rb st I H) as K.
    destruct (wbody st) as [st2 [[b|l|r c|]|e]]; cbn in *; auto.
    destruct (fparse b); cbn; auto.
Qed.

Lemma wexec_rb : forall acs st, WInv st -> RB st ->
  RB (fst (wexec ct jparse fparse acs st)) /\ length (snd (wexec ct jparse fparse acs st)) = length acs.
Proof.
  induction acs as [|a acs IH]; intros st I H; cbn [wexec]; [cbn; auto|].
  destruct (wstep ct jparse fparse st a) as [st1 o] eqn:W.
  pose proof (wstep_rb st a I H) as H1. destruct (wstep_spec ct jparse fparse pieces st a I) as (I1 & _).
  rewrite W in H1, I1. cbn in H1, I1.
  destruct (IH st1 I1 H1) as (H2 & Len).
  destruct (wexec ct jparse fparse acs st1) as [st2 os]. cbn in *. auto.
Qed.

Lemma w_completion_proof : forall acs,
  let r := wexec ct jparse fparse acs (winit pieces) in
  let st := fst r in
  length (snd r) = length acs /\
  length (w_reads st) <= S (total pieces) /\
  (forall cs, In cs (w_reads st) -> Forall (fun p => (N.of_nat (length p) <= cs)%N) pieces ->
     length (w_reads st) <= S (length pieces)) /\
  (forall cs w f, wfuel (w_input st) <= f ->
     wloop f cs w (w_input st) [] 0 = wloop (wfuel (w_input st)) cs w (w_input st) [] 0).
Proof.
  intro acs. cbn zeta.
  assert (H0 : RB (winit pieces)) by (left; cbn; auto).
  destruct (wexec_rb acs (winit pieces) (winv_init ct jparse fparse pieces pieces_ne) H0) as (H & Len).
  pose proof (w_reach ct jparse fparse pieces pieces_ne acs) as I.
  split; [exact Len|].
  assert (K : length (w_reads (fst (wexec ct jparse fparse acs (winit pieces)))) <= S (total pieces) /\
          (forall cs, In cs (w_reads (fst (wexec ct jparse fparse acs (winit pieces)))) ->
             Forall (fits cs) pieces ->
             length (w_reads (fst (wexec ct jparse fparse acs (winit pieces)))) <= S (length pieces))).
  { destruct H as [(_ & ->)|(_ & cs & n & -> & B1 & B2)]; cbn; [split; [lia|intros cs []]|].
    unfold repeatN. rewrite repeat_length. split; [exact B1|].
    intros cs' Hin. apply repeat_spec in Hin. subst. exact B2. }
  destruct K as [K1 K2]. split; [exact K1|]. split; [exact K2|].
  intros cs w f Hf. apply wloop_fuel; auto; try (unfold wfuel; lia). apply (wi_ne _ _ _ _ _ I).
Qed.

End WLive.

(* ====================================================================== *)
(* ---------- non-vacuity ---------- *)

(* json started, nothing delivered: the loop is at rest and the access waits along
   the chain access -> json -> body -> receive() *)
Example ex_waits_chain :
  let st := exec CJson jp jp [EStart KJson; ERunAll 8] (init two_chunks) in
  ready st = [] /\ waits st (TA 0 KJson) /\ waits st (TS SBody).
Proof.
  cbn zeta. split; [vm_compute; reflexivity|].
  assert (W : waits (exec CJson jp jp [EStart KJson; ERunAll 8] (init two_chunks)) (TS SBody)).
  { apply (W_recv _ (TS SBody) None []); vm_compute; reflexivity. }
  split; [|exact W].
  apply (W_slot _ _ SJson); [vm_compute; reflexivity|vm_compute; auto|].
  apply (W_slot _ _ SBody); [vm_compute; reflexivity|vm_compute; auto|exact W].
Qed.

(* the same, then everything is delivered and the queue is run with the stated fuel: all done *)
Example ex_completion :
  let evs := [EStart KJson; ERunAll 8; EStart (KStream None); EStart KBody] in
  let st := exec CJson jp jp (evs ++ repeat EDeliver 2 ++ [ERunAll (fuel_bound (nstarts evs))]) (init two_chunks) in
  nstarts evs = 3 /\ ready st = [] /\
  tst st (TA 0 KJson) = TDone (Val (VParsed [91; 49; 93]%N true)) /\
  tst st (TA 1 (KStream None)) = TDone (Exn EConsumed) /\
  tst st (TA 2 KBody) = TDone (Val (VBytes [91; 49; 93]%N)).
Proof. vm_compute. auto. Qed.

(* without a terminator in the channel the access waits for ever: the premise is needed *)
Example ex_no_terminator :
  let ch := [MChunk [91; 49]%N true] in
  let st := exec CJson jp jp [EStart KBody; EDeliver; ERunAll 8] (init ch) in
  has_term ch = false /\ ready st = [] /\ pend st = [] /\ tst st (TA 0 KBody) = TAwait SBody /\
  tst st (TS SBody) = TRecv.
Proof. vm_compute. auto. Qed.

(* five segments are needed for one json access (start, start, start+read, resume, resume):
   with four the queue is not yet empty *)
Example ex_fuel_used :
  ready (exec CJson jp jp [EDeliver; EDeliver; EStart KJson; ERunAll 4] (init two_chunks)) <> [] /\
  ready (exec CJson jp jp [EDeliver; EDeliver; EStart KJson; ERunAll 5] (init two_chunks)) = [].
Proof. vm_compute. split; [discriminate|reflexivity]. Qed.

(* WSGI: a 3-byte piece read 2 bytes at a time: 3 reads (2 + the empty one) <= total + 1;
   with chunk size 65536: pieces + 1 reads *)
Example ex_wsgi_reads :
  w_reads (fst (wexec CJson jp jp [WStream None 2] (winit [[91; 49; 93]%N]))) = [2; 2; 2]%N /\
  w_reads (fst (wexec CJson jp jp [WBody; WJson] (winit [[91; 49]; [93]]%N))) = [65536; 65536; 65536]%N.
Proof. vm_compute. auto. Qed.
