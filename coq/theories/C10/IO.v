(* C10 — wire interface of the model: one case line in, one observation line out.

   ASGI:  "a" ct ( msg.. ) ( step.. ) jtable ftable
     ct      0 application/json, 1 application/x-www-form-urlencoded, 2 anything else
     msg     ( kind body more .. )   kind 0 http.request, 1 http.disconnect, 2 other type
     step    ( 0 akind k ) start an access; ( 1 ) deliver the next message;
             ( 2 ) run the ready queue until it is empty; ( 3 c ) run the c-th ready task
     akind   0 body, 1 stream to the end, 2 json, 3 form, 4 close, 5 stream: k items then abandoned
     table   ( ( bytes ok repr container ) .. )  the parse oracle on the bodies that can occur
             (ok = 0: repr is the name of the exception class raised)
     -> ( ( result done-at ).. ) receive-count [ "fuel" ]   done-at: index of the step during which
        the access finished, -1 when it is still pending after the last step
   WSGI:  "w" ct ( piece.. ) ( ( akind k chunk_size ) .. ) jtable ftable
     -> ( result.. ) ( requested read sizes.. )
   WSGI with failing reads (ReadFault.v):
          "f" ct ( item.. ) ( ( akind k chunk_size ) .. ) jtable ftable
     item    ( 0 bytes ) this read() call returns (at most chunk_size bytes of) the piece;
             ( 1 ) this read() call raises (TimeoutError, an OSError)
     -> ( result.. ) ( requested read sizes, failing calls included .. ) *)
From Coq Require Import List NArith ZArith Bool.
From Baize Require Import Lib.Wire C10.Model C10.ReadFault.
Import ListNotations.

Fixpoint list_eqb (a b : list N) : bool :=
  match a, b with
  | [], [] => true
  | x :: r, y :: s => N.eqb x y && list_eqb r s
  | _, _ => false
  end.

Definition rd_ct (x : sx) : ctype :=
  match x with Num 0%Z => CJson | Num 1%Z => CForm | _ => COther end.

Definition rd_msg (x : sx) : msg :=
  match x with
  | Lst (Num 0%Z :: Str b :: more :: _) => MChunk b (sx_b more)
  | Lst (Num 1%Z :: _) => MDisc
  | _ => MOther
  end.

Definition rd_akind (kind k : sx) : akind :=
  match kind with
  | Num 0%Z => KBody
  | Num 1%Z => KStream None
  | Num 2%Z => KJson
  | Num 3%Z => KForm
  | Num 5%Z => KStream (Some (Z.to_nat (sx_z k)))
  | _ => KClose
  end.

Definition fuel0 : nat := 400.

Definition rd_step (x : sx) : event :=
  match x with
  | Lst [Num 0%Z; kind; k] => EStart (rd_akind kind k)
  | Lst [Num 1%Z] => EDeliver
  | Lst [Num 3%Z; c] => EStep (Z.to_nat (sx_z c))
  | _ => ERunAll fuel0
  end.

Fixpoint lookup (tbl : list sx) (b : bytes) : pres :=
  match tbl with
  | [] => POk (lit "?") false
  | Lst [Str k; ok; Str r; c] :: rest =>
      if list_eqb k b then (if sx_b ok then POk r (sx_b c) else PErr r) else lookup rest b
  | _ :: rest => lookup rest b
  end.

Definition exn_name (e : exn) : list N :=
  match e with
  | EConsumed => lit "RuntimeError"
  | EDisconnect => lit "ClientDisconnect"
  | EUnsupported => lit "UnsupportedMediaType"
  | EParse e => e
  | EInternal => lit "internal"
  end.

Definition show_outcome (o : outcome) : sx :=
  match o with
  | Val (VBytes b) => Lst [tag (lit "ok"); Str b]
  | Val (VChunks l) => Lst [tag (lit "ok"); Lst (map Str l)]
  | Val (VParsed r c) => Lst [tag (lit "ok"); Str r; of_bool c]
  | Val VNone => Lst [tag (lit "ok")]
  | Exn e => Lst [tag (lit "exc"); Str (exn_name e)]
  end.

Definition is_done (st : state) (t : tid) : bool :=
  match tst st t with TDone _ => true | _ => false end.

(* run the steps one by one, remembering during which step each access finished *)
Fixpoint trace (ct : ctype) (jp fp : bytes -> pres) (evs : list event) (i : nat) (st : state)
  (dn : list (tid * nat)) : state * list (tid * nat) :=
  match evs with
  | [] => (st, dn)
  | e :: r =>
      let st1 := do_event ct jp fp st e in
      let fresh := filter (fun t => is_done st1 t && negb (existsb (fun p => tid_eqb (fst p) t) dn)) (accs st1) in
      trace ct jp fp r (S i) st1 (dn ++ map (fun t => (t, i)) fresh)
  end.

Definition done_at (dn : list (tid * nat)) (t : tid) : sx :=
  match find (fun p => tid_eqb (fst p) t) dn with
  | Some p => of_nat (snd p)
  | None => Num (-1)%Z
  end.

Definition show_task (st : state) (dn : list (tid * nat)) (t : tid) : sx :=
  match tst st t with
  | TDone o => Lst [show_outcome o; done_at dn t]
  | _ => Lst [Lst [tag (lit "pending")]; Num (-1)%Z]
  end.

Definition rd_wkind (x : sx) : wkind :=
  match x with
  | Lst [Num 0%Z; _; _] => WBody
  | Lst [Num 1%Z; _; cs] => WStream None (sx_n cs)
  | Lst [Num 2%Z; _; _] => WJson
  | Lst [Num 3%Z; _; _] => WForm
  | Lst [Num 5%Z; k; cs] => WStream (Some (Z.to_nat (sx_z k))) (sx_n cs)
  | _ => WClose
  end.

Definition rd_fitem (x : sx) : option bytes :=
  match x with
  | Lst (Num 0%Z :: Str b :: _) => Some b
  | _ => None
  end.

Definition show_fout (o : fout) : sx :=
  match o with
  | FVal v => show_outcome (Val v)
  | FExn e => show_outcome (Exn e)
  | FReadErr => Lst [tag (lit "exc"); Str (lit "TimeoutError")]
  end.

Definition run_case (c : list sx) : list sx :=
  match c with
  | Str mode :: ctx :: Lst xs :: Lst steps :: Lst jt :: Lst ft :: _ =>
      let ct := rd_ct ctx in
      let jp := lookup jt in
      let fp := lookup ft in
      if list_eqb mode (lit "a") then
        let ch := map rd_msg xs in
        let '(st, dn) := trace ct jp fp (map rd_step steps) 0 (init ch) [] in
        [Lst (map (show_task st dn) (accs st)); of_nat (rcount st)]
          ++ match ready st with [] => [] | _ => [tag (lit "fuel")] end
      else if list_eqb mode (lit "w") then
        let '(st, os) := wexec ct jp fp (map rd_wkind steps) (winit (map sx_s xs)) in
        [Lst (map show_outcome os); Lst (map of_N (w_reads st))]
      else if list_eqb mode (lit "f") then
        let '(st, os) := fexec ct jp fp (map rd_wkind steps) (finit (map rd_fitem xs)) in
        [Lst (map show_fout os); Lst (map of_N (f_reads st))]
      else [tag (lit "badcase")]
  | _ => [tag (lit "badcase")]
  end.

Definition run_line (l : list N) : list N := print_line (run_case (parse_line l)).
