(* C10 — The request body is read once, completely, and consistently cached.
   Statements only.

   ASGI (Part A).  [exec ct jparse fparse evs (init ch)] is the state after the
   events [evs] — start an access as a task, deliver the next server message, run
   the c-th task of the ready queue (ANY c), run the queue FIFO — on a request of
   content-type class [ct] whose server will send the messages [ch]; jparse /
   fparse are json.loads / parse_qsl as arbitrary functions of the body bytes.
   Every theorem holds for all ct, jparse, fparse, ch and all event lists, i.e.
   for every chunking, every access sequence, every disconnect position and every
   order in which runnable tasks are resumed.

   WSGI (Part B).  [wexec ct jparse fparse acs (winit pieces)] runs the accesses
   [acs] in order on a wsgi.input that returns the non-empty [pieces]. *)
From Coq Require Import List NArith Bool Arith.
From Baize Require Import C10.Model C10.Proofs C10.Live.
Import ListNotations.

(* The messages handed out by receive() are, in order, a prefix of the channel —
   each message is consumed at most once — and all went to ONE task; at most one
   receive() call is outstanding; the receive counter is the number of messages
   handed out plus the outstanding call, and never exceeds the number of messages
   up to the one that ends the body (when there is one). *)
Theorem single_reader : forall ct jparse fparse ch evs,
  let st := exec ct jparse fparse evs (init ch) in
  map snd (log st) ++ avail st ++ pend st = ch /\
  (forall x y, In x (log st) -> In y (log st) -> fst x = fst y) /\
  length (rwait st) <= 1 /\
  rcount st = length (log st) + length (rwait st) /\
  rcount st <= S (length ch) /\
  (has_term ch = true -> rcount st <= need ch).
Proof. exact single_reader_proof. Qed.
Print Assumptions single_reader.

(* Whatever value a finished task holds is derived from the complete body: the
   body property and every access of it hold the concatenation of all chunks up
   to the final one (and then no disconnect precedes the final chunk); json / form
   hold the parser's result on exactly that; stream() iterated to the end yields
   items whose concatenation is that. *)
Theorem body_is_concat : forall ct jparse fparse ch evs t v,
  let st := exec ct jparse fparse evs (init ch) in
  tst st t = TDone (Val v) ->
  match t with
  | TS SBody | TA _ KBody => exists b, v = VBytes b /\ body_of ch = Some b /\ disc_first ch = false
  | TS SJson | TA _ KJson =>
      exists b r c, body_of ch = Some b /\ disc_first ch = false /\ ct = CJson /\ jparse b = POk r c /\ v = VParsed r c
  | TS SForm | TA _ KForm =>
      exists b r c, body_of ch = Some b /\ disc_first ch = false /\ ct = CForm /\ fparse b = POk r c /\ v = VParsed r c
  | TA _ (KStream None) => exists l, v = VChunks l /\ body_of ch = Some (concat l) /\ disc_first ch = false
  | TA _ (KStream (Some _)) => exists l, v = VChunks l
  | TA _ KClose => v = VNone
  end.
Proof. exact body_is_concat_proof. Qed.
Print Assumptions body_is_concat.

(* A finished task keeps its outcome — value or exception — under every
   continuation, and any two accesses of the same cached property (body, json,
   form) have the identical outcome. *)
Theorem cache_stable : forall ct jparse fparse ch evs evs',
  let st := exec ct jparse fparse evs (init ch) in
  let st' := exec ct jparse fparse evs' st in
  (forall t o, tst st t = TDone o -> tst st' t = TDone o) /\
  (forall i j k o o', slot_kind k = true ->
     tst st' (TA i k) = TDone o -> tst st' (TA j k) = TDone o' -> o = o').
Proof. exact cache_stable_proof. Qed.
Print Assumptions cache_stable.

(* Once the body property is done with outcome ob, a stream() call that has not
   begun running can only end as the replay of ob ([body, b""], cut to the items
   taken; the same exception when the body failed), and its segment leaves the
   channel and the receive counter untouched. *)
Theorem stream_after_body_replays : forall ct jparse fparse ch evs evs' i kw ob,
  let st := exec ct jparse fparse evs (init ch) in
  let st' := exec ct jparse fparse evs' st in
  let t := TA i (KStream kw) in
  tst st (TS SBody) = TDone ob ->
  (tst st t = TAbsent \/ tst st t = TNew) ->
  (forall o, tst st' t = TDone o -> o = stream_replay kw ob) /\
  (tst st t = TNew ->
     let st1 := run ct jparse fparse st t in
     tst st1 t = TDone (stream_replay kw ob) /\
     rcount st1 = rcount st /\ log st1 = log st /\ avail st1 = avail st /\ pend st1 = pend st).
Proof. exact stream_after_body_replays_proof. Qed.
Print Assumptions stream_after_body_replays.

(* [reader st] is the task that set _stream_consumed (it has run, it is a body or
   stream task, it stays the reader for ever, and the flag is set exactly when
   there is one).  When it is a stream() call, every body-derived task — the body
   property, json / form under their content type, and every access of them —
   that finishes raises the documented RuntimeError("Stream consumed").  Without
   the ghost: a stream() call that returned items and the body property cannot
   both have read the channel. *)
Theorem body_after_stream_documented : forall ct jparse fparse ch evs,
  let st := exec ct jparse fparse evs (init ch) in
  (forall r t o, reader st = Some r -> r <> TS SBody ->
     body_derived ct t -> tst st t = TDone o -> o = Exn EConsumed) /\
  (forall i kw v ob, kw <> Some 0 ->
     tst st (TA i (KStream kw)) = TDone (Val v) -> tst st (TS SBody) = TDone ob ->
     ob = Exn EConsumed \/ Val v = replay (demand kw) ob) /\
  (consumed st = true <-> reader st <> None) /\
  (forall r, reader st = Some r -> rk r = true /\ tst st r <> TAbsent /\ tst st r <> TNew) /\
  (forall r evs', reader st = Some r -> reader (exec ct jparse fparse evs' st) = Some r).
Proof. exact body_after_stream_documented_proof. Qed.
Print Assumptions body_after_stream_documented.

(* When the first message that ends the body is a disconnect, no task other than
   close() and a stream() abandoned after k items ever finishes with a value: the
   outcome is ClientDisconnect, or the documented RuntimeError for a task that did
   not get the channel, or UnsupportedMediaType for json / form under another
   content type; the reader itself, when it reads to the end, gets
   ClientDisconnect; an abandoned stream() holds only non-empty chunks (never the
   end marker). *)
Theorem disconnect_never_truncates : forall ct jparse fparse ch evs t o,
  let st := exec ct jparse fparse evs (init ch) in
  disc_first ch = true -> tst st t = TDone o ->
  match t with
  | TA _ KClose => o = Val VNone
  | TA _ (KStream (Some _)) =>
      forall v, o = Val v -> exists l, v = VChunks l /\ Forall (fun b => nonempty b = true) l
  | _ => o = Exn EDisconnect \/ o = Exn EConsumed \/ (o = Exn EUnsupported /\ ~ body_derived ct t)
  end /\
  (reader st = Some t -> full t = true -> o = Exn EDisconnect).
Proof. exact disconnect_never_truncates_proof. Qed.
Print Assumptions disconnect_never_truncates.

(* The branches of the model that stand for "the code cannot get here" are never taken. *)
Theorem no_internal_error : forall ct jparse fparse ch evs t,
  tst (exec ct jparse fparse evs (init ch)) t <> TDone (Exn EInternal).
Proof. exact no_internal_error_proof. Qed.
Print Assumptions no_internal_error.

(* ---------- ASGI: liveness ---------- *)

(* No lost wake-up, in EVERY reachable state (vocabulary: runnable / waits in
   Model.v): the ready queue holds exactly the tasks that have a segment to run,
   each once; a task blocked in receive() is the registered receiver, nothing
   delivered is left unreceived and no message handed out so far ended the body; a
   task awaiting a slot whose future is not done is registered as a callback of
   that future, whose task exists; and only such tasks are registered. *)
Theorem asgi_no_lost_wakeup : forall ct jparse fparse ch evs,
  let st := exec ct jparse fparse evs (init ch) in
  NoDup (ready st) /\
  (forall t, In t (ready st) <-> runnable st t) /\
  (forall t, tst st t = TRecv -> waits st t) /\
  (forall t s, tst st t = TAwait s -> (forall o, tst st (TS s) <> TDone o) ->
     tst st (TS s) <> TAbsent /\ In t (swait st s)) /\
  (forall s t, In t (swait st s) -> tst st t = TAwait s /\ forall o, tst st (TS s) <> TDone o).
Proof. exact asgi_no_lost_wakeup_proof. Qed.
Print Assumptions asgi_no_lost_wakeup.

(* Progress: when the loop is at rest (empty ready queue), every task that exists
   is finished or [waits]: blocked in receive() for a message the server has not
   delivered yet, or — through a chain access -> json/form -> body — on a slot
   whose task is itself unfinished and waits so.  Nobody waits for something that
   has already happened. *)
Theorem asgi_progress : forall ct jparse fparse ch evs,
  let st := exec ct jparse fparse evs (init ch) in
  ready st = [] ->
  forall t, tst st t <> TAbsent -> (exists o, tst st t = TDone o) \/ waits st t.
Proof. exact asgi_progress_proof. Qed.
Print Assumptions asgi_progress.

(* At rest with nothing left to deliver, on a channel that holds a terminator
   (a final chunk or a disconnect): every started access and every slot task is done. *)
Theorem asgi_quiescent_done : forall ct jparse fparse ch evs,
  let st := exec ct jparse fparse evs (init ch) in
  has_term ch = true -> ready st = [] -> pend st = [] ->
  forall t, started st t -> exists o, tst st t = TDone o.
Proof. exact asgi_quiescent_proof. Qed.
Print Assumptions asgi_quiescent_done.

(* No livelock: in every reachable state, whatever the channel holds, running the
   ready queue FIFO with fuel_bound(#accesses started) = 2 * (#accesses + 3) fuel
   empties it (every segment lowers the measure: 2 per task not yet begun or not
   yet created, 1 per task with one segment left). *)
Theorem asgi_loop_rests : forall ct jparse fparse ch evs fuel,
  fuel_bound (nstarts evs) <= fuel ->
  ready (exec ct jparse fparse (evs ++ [ERunAll fuel]) (init ch)) = [].
Proof. exact asgi_rests_proof. Qed.
Print Assumptions asgi_loop_rests.

(* Completion: on a channel with a terminator, after ANY event list, delivering
   the remaining messages (n >= length ch deliveries; surplus ones do nothing) and
   running the ready queue with fuel >= 2 * (#accesses started + 3) leaves the
   loop at rest with every started access and every slot task done; the outcomes
   are those the safety theorems above allow (the final state is reachable). *)
Theorem asgi_completion : forall ct jparse fparse ch evs n fuel,
  has_term ch = true -> length ch <= n -> fuel_bound (nstarts evs) <= fuel ->
  let st := exec ct jparse fparse evs (init ch) in
  let st' := exec ct jparse fparse (evs ++ repeat EDeliver n ++ [ERunAll fuel]) (init ch) in
  ready st' = [] /\ pend st' = [] /\ accs st' = accs st /\ length (accs st) = nstarts evs /\
  (forall t, started st t -> exists o, tst st' t = TDone o).
Proof. exact asgi_completion_proof. Qed.
Print Assumptions asgi_completion.

(* ---------- WSGI ---------- *)

(* Every byte of the input is read at most once; before the stream is taken
   nothing was read; after it was taken no access reads again. *)
Theorem w_single_reader : forall ct jparse fparse pieces,
  Forall (fun p => nonempty p = true) pieces -> forall acs,
  let st := fst (wexec ct jparse fparse acs (winit pieces)) in
  concat (w_got st) ++ concat (w_input st) = concat pieces /\
  (w_consumed st = false -> w_reads st = [] /\ w_input st = pieces) /\
  (w_consumed st = true -> forall a,
     let st1 := fst (wstep ct jparse fparse st a) in
     w_reads st1 = w_reads st /\ w_input st1 = w_input st /\ w_consumed st1 = true).
Proof. exact w_single_reader_proof. Qed.
Print Assumptions w_single_reader.

Theorem w_body_is_concat : forall ct jparse fparse pieces,
  Forall (fun p => nonempty p = true) pieces -> forall acs,
  let st := fst (wexec ct jparse fparse acs (winit pieces)) in
  (forall b, w_body st = Some b -> b = concat pieces) /\
  (forall v, snd (wstep ct jparse fparse st WBody) = Val v -> v = VBytes (concat pieces)) /\
  (forall cs v, (0 < cs)%N -> snd (wstep ct jparse fparse st (WStream None cs)) = Val v ->
     exists items, v = VChunks items /\ concat items = concat pieces) /\
  (forall v, snd (wstep ct jparse fparse st WJson) = Val v ->
     exists r c, jparse (concat pieces) = POk r c /\ v = VParsed r c) /\
  (forall v, snd (wstep ct jparse fparse st WForm) = Val v ->
     exists r c, fparse (concat pieces) = POk r c /\ v = VParsed r c).
Proof. exact w_body_is_concat_proof. Qed.
Print Assumptions w_body_is_concat.

(* A repeated access of body / json / form returns the identical outcome — value
   or exception — whatever happens in between. *)
Theorem w_cache_stable : forall ct jparse fparse pieces,
  Forall (fun p => nonempty p = true) pieces -> forall acs1 a acs2,
  wslot a = true ->
  let st1 := fst (wexec ct jparse fparse acs1 (winit pieces)) in
  let st2 := fst (wstep ct jparse fparse st1 a) in
  let st3 := fst (wexec ct jparse fparse acs2 st2) in
  snd (wstep ct jparse fparse st3 a) = snd (wstep ct jparse fparse st1 a).
Proof. exact w_cache_stable_proof. Qed.
Print Assumptions w_cache_stable.

Theorem w_stream_after_body_replays : forall ct jparse fparse pieces,
  Forall (fun p => nonempty p = true) pieces -> forall acs1 acs2 b w cs,
  let st1 := fst (wexec ct jparse fparse acs1 (winit pieces)) in
  snd (wstep ct jparse fparse st1 WBody) = Val (VBytes b) ->
  let st3 := fst (wexec ct jparse fparse acs2 (fst (wstep ct jparse fparse st1 WBody))) in
  snd (wstep ct jparse fparse st3 (WStream w cs)) = Val (VChunks (match w with Some 0 => [] | _ => [b] end)) /\
  w_reads (fst (wstep ct jparse fparse st3 (WStream w cs))) = w_reads st3 /\
  b = concat pieces.
Proof. exact w_stream_after_body_proof. Qed.
Print Assumptions w_stream_after_body_replays.

(* After stream() took the untouched input, body (and json / form under their
   content type) raise the documented RuntimeError, now and after any accesses. *)
Theorem w_body_after_stream_documented : forall ct jparse fparse pieces,
  Forall (fun p => nonempty p = true) pieces -> forall acs1 acs2 w cs a,
  w <> Some 0 ->
  let st1 := fst (wexec ct jparse fparse acs1 (winit pieces)) in
  w_consumed st1 = false ->
  let st3 := fst (wexec ct jparse fparse acs2 (fst (wstep ct jparse fparse st1 (WStream w cs)))) in
  wderived ct a -> snd (wstep ct jparse fparse st3 a) = Exn EConsumed.
Proof. exact w_body_after_stream_proof. Qed.
Print Assumptions w_body_after_stream_documented.

(* Termination.  The model is a total function, so "every access returns" is
   true by construction (one outcome per access); the content is that the fuel of
   the modelled while-loop of stream() is never what stops it — any larger fuel
   gives the same result from every reachable input — and that read() is called
   at most total-bytes + 1 times over the whole life of the request (there is one
   drain), at most pieces + 1 times when every piece fits the chunk size asked for. *)
Theorem w_completion : forall ct jparse fparse pieces,
  Forall (fun p => nonempty p = true) pieces -> forall acs,
  let r := wexec ct jparse fparse acs (winit pieces) in
  let st := fst r in
  length (snd r) = length acs /\
  length (w_reads st) <= S (total pieces) /\
  (forall cs, In cs (w_reads st) -> Forall (fun p => (N.of_nat (length p) <= cs)%N) pieces ->
     length (w_reads st) <= S (length pieces)) /\
  (forall cs w f, wfuel (w_input st) <= f ->
     wloop f cs w (w_input st) [] 0 = wloop (wfuel (w_input st)) cs w (w_input st) [] 0).
Proof. exact w_completion_proof. Qed.
Print Assumptions w_completion.

(* ---------- WSGI with failing reads (ReadFault.v) ---------- *)
From Baize Require Import C10.ReadFault C10.ReadFaultProofs.

(* wsgi.input.read() may raise (an OSError such as a socket timeout: the WSGI
   counterpart of a disconnect) at any call, once or for good: the input is a
   script [list (option bytes)], [None] = this call raises, the script goes on
   after it.  An access that RETURNS a body-derived value returns the value derived
   from the concatenation of ALL pieces of the script, never a proper part of it —
   and then the script had no failing read at all.  k items of stream() are a
   prefix of the whole body. *)
Theorem readfault_never_truncated : forall ct jparse fparse inp,
  no_empty inp = true -> forall acs,
  let st := fst (fexec ct jparse fparse acs (finit inp)) in
  let full := concat (pieces inp) in
  (forall v, snd (fstep ct jparse fparse st WBody) = FVal v ->
     v = VBytes full /\ has_fault inp = false) /\
  (forall cs v, (0 < cs)%N -> snd (fstep ct jparse fparse st (WStream None cs)) = FVal v ->
     exists items, v = VChunks items /\ concat items = full /\ has_fault inp = false) /\
  (forall v, snd (fstep ct jparse fparse st WJson) = FVal v ->
     exists r c, jparse full = POk r c /\ v = VParsed r c /\ has_fault inp = false) /\
  (forall v, snd (fstep ct jparse fparse st WForm) = FVal v ->
     exists r c, fparse full = POk r c /\ v = VParsed r c /\ has_fault inp = false) /\
  (forall k cs v, snd (fstep ct jparse fparse st (WStream (Some k) cs)) = FVal v ->
     exists items rest, v = VChunks items /\ concat items ++ rest = full).
Proof. exact readfault_never_truncated_proof. Qed.
Print Assumptions readfault_never_truncated.

(* An access fails in a read only when the script has a failing read.  After an
   access failed in a read: _stream_consumed is set (it is set before the
   first read and never reset), nothing is cached (cached_property stores on return
   only), no later access changes the state — the input is never read again, so the
   read error cannot occur a second time — and every later access that needs the
   body (body, json / form under their content type, stream() actually started)
   raises the documented RuntimeError("Stream consumed"). *)
Theorem readfault_error_then_consumed : forall ct jparse fparse inp,
  no_empty inp = true -> forall acs1 a acs2,
  let st1 := fst (fexec ct jparse fparse acs1 (finit inp)) in
  snd (fstep ct jparse fparse st1 a) = FReadErr ->
  let st2 := fst (fstep ct jparse fparse st1 a) in
  let st3 := fst (fexec ct jparse fparse acs2 st2) in
  has_fault inp = true /\
  f_consumed st2 = true /\ f_body st2 = None /\ f_json st2 = None /\ f_form st2 = None /\
  st3 = st2 /\
  forall a',
    fst (fstep ct jparse fparse st3 a') = st3 /\
    (freads ct a' -> snd (fstep ct jparse fparse st3 a') = FExn EConsumed) /\
    snd (fstep ct jparse fparse st3 a') <> FReadErr.
Proof. exact readfault_error_then_consumed_proof. Qed.
Print Assumptions readfault_error_then_consumed.

(* No piece is handed out twice: what the successful reads returned plus what is
   left of the script is the script (failing reads apart); nothing is read before
   the input is taken, and once it is taken — by ONE access, the one that set
   _stream_consumed — no access reads again: all bytes read reached that access. *)
Theorem readfault_reads_once : forall ct jparse fparse inp,
  no_empty inp = true -> forall acs,
  let st := fst (fexec ct jparse fparse acs (finit inp)) in
  concat (f_got st) ++ concat (pieces (f_input st)) = concat (pieces inp) /\
  (f_consumed st = false -> f_got st = [] /\ f_reads st = [] /\ f_input st = inp) /\
  (f_consumed st = true -> forall a,
     let st1 := fst (fstep ct jparse fparse st a) in
     f_got st1 = f_got st /\ f_reads st1 = f_reads st /\ f_input st1 = f_input st /\ f_consumed st1 = true).
Proof. exact readfault_reads_once_proof. Qed.
Print Assumptions readfault_reads_once.

(* The hypotheses are satisfiable: a read that fails once in the middle (the next
   read would deliver the rest), then more accesses. *)
Example readfault_example :
  let inp := [Some [1; 2]%N; None; Some [3]%N] in
  let p := fun _ : bytes => POk [] false in
  no_empty inp = true /\
  snd (fexec CJson p p [WBody; WBody; WStream None 2; WJson; WForm; WClose] (finit inp)) =
    [FReadErr; FExn EConsumed; FExn EConsumed; FExn EConsumed; FExn EUnsupported; FVal VNone] /\
  f_input (fst (fexec CJson p p [WBody; WBody; WStream None 2; WJson] (finit inp))) = [Some [3]%N] /\
  snd (fexec CJson p p [WStream (Some 2) 1; WBody] (finit inp)) =
    [FVal (VChunks [[1]%N; [2]%N]); FExn EConsumed] /\
  snd (fexec CJson p p [WStream (Some 3) 1; WStream None 1] (finit inp)) = [FReadErr; FExn EConsumed].
Proof. vm_compute. repeat split. Qed.
Print Assumptions readfault_example.
