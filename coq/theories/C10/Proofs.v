(* C10 — proofs.  Part A: the ASGI task model; Part B: the WSGI sequential model. *)
From Coq Require Import List NArith Bool Arith Lia.
From Baize Require Import C10.Model.
Import ListNotations.

(* ---------- identifiers ---------- *)

Lemma slot_eqb_eq : forall a b, slot_eqb a b = true <-> a = b.
Proof. destruct a, b; cbn; split; intro H; try reflexivity; try discriminate. Qed.

Lemma optnat_eqb_eq : forall a b, optnat_eqb a b = true <-> a = b.
Proof.
  destruct a as [x|], b as [y|]; cbn; split; intro H; try reflexivity; try discriminate.
  - apply Nat.eqb_eq in H. now subst.
  - injection H as ->. apply Nat.eqb_refl.
Qed.

Lemma akind_eqb_eq : forall a b, akind_eqb a b = true <-> a = b.
Proof.
  destruct a, b; cbn; split; intro H; try reflexivity; try discriminate.
  - apply optnat_eqb_eq in H. now subst.
  - injection H as ->. now apply optnat_eqb_eq.
Qed.

Lemma tid_eqb_eq : forall a b, tid_eqb a b = true <-> a = b.
Proof.
  destruct a, b; cbn; split; intro H; try discriminate.
  - apply slot_eqb_eq in H. now subst.
  - injection H as ->. now apply slot_eqb_eq.
  - apply andb_true_iff in H as [H1 H2]. apply Nat.eqb_eq in H1. apply akind_eqb_eq in H2. now subst.
  - injection H as -> ->. apply andb_true_iff. split; [apply Nat.eqb_refl|now apply akind_eqb_eq].
Qed.

Lemma tid_eqb_refl : forall a, tid_eqb a a = true.
Proof. intro a. now apply tid_eqb_eq. Qed.

Lemma tid_eqb_neq : forall a b, a <> b -> tid_eqb a b = false.
Proof. intros a b H. destruct (tid_eqb a b) eqn:E; [apply tid_eqb_eq in E; contradiction|reflexivity]. Qed.

Lemma tid_dec : forall a b : tid, a = b \/ a <> b.
Proof. intros a b. destruct (tid_eqb a b) eqn:E; [left; now apply tid_eqb_eq|right; intro H; apply tid_eqb_eq in H; congruence]. Qed.

Arguments tid_eqb : simpl never.

Lemma tst_set_same : forall st t v, tst (set_tst st t v) t = v.
Proof. intros. cbn. now rewrite tid_eqb_refl. Qed.

Lemma tst_set_other : forall st t v t', t' <> t -> tst (set_tst st t v) t' = tst st t'.
Proof. intros. cbn. now rewrite tid_eqb_neq. Qed.

(* ---------- the channel: what a reader has seen so far ---------- *)

Definition snoc_ne (a : list bytes) (b : bytes) : list bytes := if nonempty b then a ++ [b] else a.
Definition cons_ne (b : bytes) (a : list bytes) : list bytes := if nonempty b then b :: a else a.

(* every message of cm leaves the body open; the non-empty chunks seen *)
Fixpoint open_acc (cm : list msg) : option (list bytes) :=
  match cm with
  | [] => Some []
  | MChunk b true :: r => option_map (cons_ne b) (open_acc r)
  | MOther :: r => open_acc r
  | _ => None
  end.

Lemma open_acc_snoc_chunk : forall cm acc b,
  open_acc cm = Some acc -> open_acc (cm ++ [MChunk b true]) = Some (snoc_ne acc b).
Proof.
  induction cm as [|m cm IH]; intros acc b H; cbn in *.
  - injection H as <-. unfold cons_ne, snoc_ne. now destruct (nonempty b).
  - destruct m as [c [|]| |]; try discriminate.
    + destruct (open_acc cm) as [a|] eqn:E; [|discriminate]. cbn in H. injection H as <-.
      rewrite (IH a b eq_refl). cbn. f_equal. unfold cons_ne, snoc_ne.
      destruct (nonempty c), (nonempty b); reflexivity.
    + now apply IH.
Qed.

Lemma open_acc_snoc_other : forall cm acc,
  open_acc cm = Some acc -> open_acc (cm ++ [MOther]) = Some acc.
Proof.
  induction cm as [|m cm IH]; intros acc H; cbn in *; [exact H|].
  destruct m as [c [|]| |]; try discriminate.
  - destruct (open_acc cm) as [a|] eqn:E; [|discriminate]. cbn in H. injection H as <-.
    now rewrite (IH a eq_refl).
  - now apply IH.
Qed.

Lemma concat_cons_ne : forall b a, concat (cons_ne b a) = b ++ concat a.
Proof. intros b a. unfold cons_ne. destruct b; reflexivity. Qed.

Lemma concat_snoc_ne : forall a b, concat (snoc_ne a b) = concat a ++ b.
Proof.
  intros a b. unfold snoc_ne. destruct b; cbn.
  - now rewrite app_nil_r.
  - rewrite concat_app. cbn. now rewrite app_nil_r.
Qed.

Lemma body_of_open : forall cm acc rest,
  open_acc cm = Some acc ->
  body_of (cm ++ rest) = option_map (app (concat acc)) (body_of rest).
Proof.
  induction cm as [|m cm IH]; intros acc rest H; cbn in *.
  - injection H as <-. cbn. now destruct (body_of rest).
  - destruct m as [c [|]| |]; try discriminate.
    + destruct (open_acc cm) as [a|] eqn:E; [|discriminate]. cbn in H. injection H as <-.
      rewrite (IH a rest eq_refl). destruct (body_of rest); cbn; [|reflexivity].
      now rewrite concat_cons_ne, app_assoc.
    + now apply IH.
Qed.

Lemma disc_first_open : forall cm acc rest,
  open_acc cm = Some acc -> disc_first (cm ++ rest) = disc_first rest.
Proof.
  induction cm as [|m cm IH]; intros acc rest H; cbn in *; [reflexivity|].
  destruct m as [c [|]| |]; try discriminate.
  - destruct (open_acc cm) as [a|] eqn:E; [|discriminate]. now apply (IH a).
  - now apply (IH acc).
Qed.

Lemma need_open : forall cm acc rest,
  open_acc cm = Some acc -> need (cm ++ rest) = length cm + need rest.
Proof.
  induction cm as [|m cm IH]; intros acc rest H; cbn in *; [reflexivity|].
  destruct m as [c [|]| |]; try discriminate.
  - destruct (open_acc cm) as [a|] eqn:E; [|discriminate]. now rewrite (IH a).
  - now rewrite (IH acc).
Qed.

Lemma has_term_open : forall cm acc rest,
  open_acc cm = Some acc -> has_term (cm ++ rest) = has_term rest.
Proof.
  induction cm as [|m cm IH]; intros acc rest H; cbn in *; [reflexivity|].
  destruct m as [c [|]| |]; try discriminate.
  - destruct (open_acc cm) as [a|] eqn:E; [|discriminate]. now apply (IH a).
  - now apply (IH acc).
Qed.

Lemma has_term_need : forall ch, has_term ch = true -> 1 <= need ch <= length ch.
Proof.
  induction ch as [|m ch IH]; cbn; intro H; [discriminate|].
  destruct m as [c [|]| |]; cbn; try lia; specialize (IH H); lia.
Qed.

(* ---------- kinds of tasks ---------- *)




(* how a reader that has been handed exactly cm can have ended *)
Definition rdone (t : tid) (cm : list msg) (o : outcome) : Prop :=
  (exists cm' b acc, cm = cm' ++ [MChunk b false] /\ open_acc cm' = Some acc /\
                     o = Val (result_of t (snoc_ne acc b ++ [[]])))
  \/ (exists cm' acc, cm = cm' ++ [MDisc] /\ open_acc cm' = Some acc /\ o = Exn EDisconnect)
  \/ (exists cm' b more acc, cm = cm' ++ [MChunk b more] /\ open_acc cm' = Some acc /\
                     nonempty b = true /\ full t = false /\ o = Val (result_of t (acc ++ [b]))).

Definition hok (t : tid) (cm : list msg) (h : hres) : Prop :=
  match h with
  | HMore w acc => open_acc cm = Some acc /\ (full t = true -> w = None)
  | HStop o => rdone t cm o
  | HDisc => exists cm' acc, cm = cm' ++ [MDisc] /\ open_acc cm' = Some acc
  end.

Lemma handle_ok : forall t w acc m cm,
  open_acc cm = Some acc -> (full t = true -> w = None) ->
  hok t (cm ++ [m]) (handle t w acc m).
Proof.
  intros t w acc m cm Ho Hf. destruct m as [b more| |]; cbn [handle].
  - destruct (nonempty b) eqn:Eb.
    + destruct w as [[|n]|].
      * cbn. right. right. exists cm, b, more, acc. repeat split; auto.
        destruct (full t); [specialize (Hf eq_refl); discriminate|reflexivity].
      * destruct more; cbn.
        -- split; [|intro F; specialize (Hf F); discriminate].
           rewrite (open_acc_snoc_chunk _ _ b Ho). unfold snoc_ne. now rewrite Eb.
        -- left. exists cm, b, acc. repeat split; auto. unfold snoc_ne. now rewrite Eb.
      * destruct more; cbn.
        -- split; [|auto]. rewrite (open_acc_snoc_chunk _ _ b Ho). unfold snoc_ne. now rewrite Eb.
        -- left. exists cm, b, acc. repeat split; auto. unfold snoc_ne. now rewrite Eb.
    + destruct more; cbn.
      * split; [|exact Hf]. rewrite (open_acc_snoc_chunk _ _ b Ho). unfold snoc_ne. now rewrite Eb.
      * left. exists cm, b, acc. repeat split; auto. unfold snoc_ne. now rewrite Eb.
  - cbn. exists cm, acc. auto.
  - cbn. split; [now apply open_acc_snoc_other|exact Hf].
Qed.

(* ====================================================================== *)
(* Part A — the invariant of the ASGI model                               *)

Section Inv.
Variable ct : ctype.
Variables jparse fparse : bytes -> pres.
Variable ch : list msg.

Definition cmsgs (st : state) : list msg := map snd (log st).

(* what a finished task's outcome must be, given the other tasks and the reader *)
Definition done_ok (f : tid -> tstate) (rd : option tid) (t : tid) (o : outcome) : Prop :=
  match t with
  | TS SBody => rd = Some t \/ o = Exn EConsumed
  | TS SJson => (ct <> CJson /\ o = Exn EUnsupported)
                \/ (ct = CJson /\ exists ob, f (TS SBody) = TDone ob /\ o = parse_out jparse ob)
  | TS SForm => (ct <> CForm /\ o = Exn EUnsupported)
                \/ (ct = CForm /\ exists ob, f (TS SBody) = TDone ob /\ o = parse_out fparse ob)
  | TA _ KBody => f (TS SBody) = TDone o
  | TA _ KJson => f (TS SJson) = TDone o
  | TA _ KForm => f (TS SForm) = TDone o
  | TA _ KClose => o = Val VNone
  | TA _ (KStream (Some 0)) => o = Val (VChunks [])
  | TA _ (KStream w) =>
      rd = Some t \/ o = Exn EConsumed \/ exists ob, f (TS SBody) = TDone ob /\ o = replay (demand w) ob
  end.

(* who awaits which shared future *)
Definition aw_ok (t : tid) (s : slot) : Prop :=
  match t, s with
  | TA _ KBody, SBody | TA _ KJson, SJson | TA _ KForm, SForm => True
  | TS SJson, SBody => ct = CJson
  | TS SForm, SBody => ct = CForm
  | _, _ => False
  end.

Definition TOk (f : tid -> tstate) (rd : option tid) (t : tid) : Prop :=
  match f t with
  | TDone o => done_ok f rd t o
  | TGot _ _ _ => rd = Some t
  | TAwait s => aw_ok t s
  | _ => True
  end.

Definition rstate (st : state) (r : tid) : Prop :=
  (exists w acc, tst st r = TRecv /\ rwait st = [(r, w, acc)] /\ avail st = [] /\
       open_acc (cmsgs st) = Some acc /\ (full r = true -> w = None) /\ rcount st = S (length (log st)))
  \/ (exists w acc m cm', tst st r = TGot w acc m /\ rwait st = [] /\ cmsgs st = cm' ++ [m] /\
       open_acc cm' = Some acc /\ (full r = true -> w = None) /\ rcount st = length (log st))
  \/ (exists o, tst st r = TDone o /\ rwait st = [] /\ rdone r (cmsgs st) o /\ rcount st = length (log st)).

Record Inv (st : state) : Prop := mkInv {
  i_cons : cmsgs st ++ avail st ++ pend st = ch;
  i_log : forall x, In x (log st) -> reader st = Some (fst x);
  i_flag : consumed st = match reader st with None => false | Some _ => true end;
  i_none : reader st = None -> log st = [] /\ rwait st = [] /\ rcount st = 0;
  i_some : forall r, reader st = Some r -> rk r = true /\ rstate st r;
  i_tok : forall t, TOk (tst st) (reader st) t;
  i_fresh : forall i k, length (accs st) <= i -> tst st (TA i k) = TAbsent
}.

Lemma inv_init : Inv (init ch).
Proof.
  constructor; cbn; easy.
Qed.

(* monotone changes *)
Definition ext (f f' : tid -> tstate) : Prop := forall t o, f t = TDone o -> f' t = TDone o.

Lemma done_ok_ext : forall f f' rd t o, ext f f' -> done_ok f rd t o -> done_ok f' rd t o.
Proof.
  intros f f' rd t o E H. destruct t as [[| |]|i [|[[|n]|]| | |]]; cbn in *; auto.
  - destruct H as [H|[Hc [ob [H1 H2]]]]; [now left|right]. split; [exact Hc|]. exists ob. split; auto.
  - destruct H as [H|[Hc [ob [H1 H2]]]]; [now left|right]. split; [exact Hc|]. exists ob. split; auto.
  - destruct H as [H|[H|[ob [H1 H2]]]]; auto. right; right. exists ob. split; auto.
  - destruct H as [H|[H|[ob [H1 H2]]]]; auto. right; right. exists ob. split; auto.
Qed.

Lemma rk_done_ok : forall f t o, rk t = true -> done_ok f (Some t) t o.
Proof.
  intros f t o H. destruct t as [[| |]|i [|[[|n]|]| | |]]; cbn in *; try discriminate; auto.
Qed.

(* a task that is neither the reader nor finished *)
Definition quiet (st : state) (t : tid) : Prop :=
  tst st t = TNew \/ (exists s, tst st t = TAwait s) \/ tst st t = TAbsent.

Definition chan_eq (st st' : state) : Prop :=
  pend st' = pend st /\ avail st' = avail st /\ rwait st' = rwait st /\ rcount st' = rcount st /\
  consumed st' = consumed st /\ reader st' = reader st /\ log st' = log st.

Lemma quiet_not_reader : forall st t, Inv st -> quiet st t -> reader st <> Some t.
Proof.
  intros st t I Q E. destruct (i_some st I t E) as [_ R].
  destruct R as [(w & acc & T & _)|[(w & acc & m & cm' & T & _)|(o & T & _)]];
    destruct Q as [Q|[[s Q]|Q]]; congruence.
Qed.

Lemma fresh_lt : forall st i k, Inv st -> tst st (TA i k) <> TAbsent -> i < length (accs st).
Proof.
  intros st i k I H. destruct (le_lt_dec (length (accs st)) i) as [L|L]; [|exact L].
  elim H. now apply (i_fresh st I).
Qed.

Lemma inv_upd : forall st st' t,
  Inv st -> chan_eq st st' -> quiet st t ->
  length (accs st) <= length (accs st') ->
  (forall i k, t = TA i k -> i < length (accs st')) ->
  (forall t', t' <> t -> tst st' t' = tst st t') ->
  match tst st' t with
  | TDone o => done_ok (tst st) (reader st) t o
  | TNew => True
  | TAwait s => aw_ok t s
  | _ => False
  end ->
  Inv st'.
Proof.
  intros st st' t I (E1 & E2 & E3 & E4 & E5 & E6 & E7) Q Hlen Hlt Hoth Hv.
  assert (Hnr : reader st <> Some t) by (now apply quiet_not_reader).
  assert (Hext : ext (tst st) (tst st')).
  { intros t0 o H0. destruct (tid_dec t0 t) as [->|Hne]; [|now rewrite Hoth].
    destruct Q as [Q|[[s Q]|Q]]; congruence. }
  destruct I as [Hc Hl Hf Hn Hs Ht Hfr].
  constructor; unfold cmsgs in *; rewrite ?E1, ?E2, ?E3, ?E4, ?E5, ?E6, ?E7; auto.
  - intros r Hr. destruct (Hs r Hr) as [K R]. split; [exact K|].
    assert (r <> t) by congruence.
    unfold rstate, cmsgs in *. rewrite E2, E3, E4, E7, (Hoth r H). exact R.
  - intro t0. unfold TOk. destruct (tid_dec t0 t) as [->|Hne].
    + destruct (tst st' t) eqn:T; auto; try contradiction.
      now apply (done_ok_ext (tst st)).
    + rewrite (Hoth t0 Hne). specialize (Ht t0). unfold TOk in Ht.
      destruct (tst st t0) eqn:T; auto. now apply (done_ok_ext (tst st)).
  - intros i k Hi. destruct (tid_dec (TA i k) t) as [<-|Hne].
    + specialize (Hlt i k eq_refl). lia.
    + rewrite (Hoth _ Hne). apply Hfr. lia.
Qed.

Lemma quiet_lt : forall st t, Inv st -> tst st t <> TAbsent ->
  forall i k, t = TA i k -> i < length (accs st).
Proof. intros st t I H i k ->. now apply (fresh_lt st i k). Qed.

Lemma finish_inv : forall st t o,
  Inv st -> quiet st t -> tst st t <> TAbsent -> done_ok (tst st) (reader st) t o ->
  Inv (finish st t o).
Proof.
  intros st t o I Q NA D.
  assert (A : accs (finish st t o) = accs st) by (unfold finish; destruct t; reflexivity).
  apply (inv_upd st _ t I); auto.
  - unfold finish, chan_eq. destruct t; cbn; repeat split; reflexivity.
  - rewrite A. lia.
  - rewrite A. now apply quiet_lt.
  - intros t' Hne. unfold finish. destruct t; cbn; now rewrite tid_eqb_neq.
  - assert (tst (finish st t o) t = TDone o) as ->; [|exact D].
    unfold finish. destruct t; cbn; now rewrite tid_eqb_refl.
Qed.

(* the state in the middle of a reader's segment *)
Record Mid (st : state) (t : tid) (h : hres) : Prop := mkMid {
  m_cons : cmsgs st ++ avail st ++ pend st = ch;
  m_log : forall x, In x (log st) -> reader st = Some (fst x);
  m_reader : reader st = Some t;
  m_flag : consumed st = true;
  m_rk : rk t = true;
  m_rwait : rwait st = [];
  m_rcount : rcount st = length (log st);
  m_self : tst st t = TNew \/ exists w acc m, tst st t = TGot w acc m;
  m_tok : forall t', t' <> t -> TOk (tst st) (reader st) t';
  m_fresh : forall i k, length (accs st) <= i -> tst st (TA i k) = TAbsent;
  m_hok : hok t (cmsgs st) h
}.

Lemma tok_after_set : forall st t v t',
  t' <> t -> (forall o, tst st t <> TDone o) ->
  TOk (tst st) (reader st) t' ->
  TOk (fun x => if tid_eqb x t then v else tst st x) (reader st) t'.
Proof.
  intros st t v t' Hne Hnd H. unfold TOk in *. rewrite (tid_eqb_neq _ _ Hne).
  destruct (tst st t') eqn:T; auto.
  apply (done_ok_ext (tst st)); auto.
  intros t0 o0 H0. destruct (tid_dec t0 t) as [->|Hn]; [now elim (Hnd o0)|now rewrite tid_eqb_neq].
Qed.

Lemma mid_finish : forall st t o,
  Mid st t (HStop o) -> Inv (finish st t o).
Proof.
  intros st t o [Hc Hl Hr Hf Hk Hw Hn Hs Ht Hfr Hh].
  assert (Hnd : forall o0, tst st t <> TDone o0).
  { intros o0 E. destruct Hs as [S|(w & acc & m & S)]; congruence. }
  assert (Hshape : forall F,
    Inv (mk (pend st) (avail st) (rwait st) (rcount st) (consumed st) (disc st)
            (fun x => if tid_eqb x t then TDone o else tst st x) F (ready (finish st t o)) (accs st) (reader st) (log st))).
  { intro F. constructor; cbn; auto.
    - now rewrite Hf, Hr.
    - rewrite Hr. discriminate.
    - intros r E. rewrite Hr in E. injection E as <-. split; [exact Hk|].
      right. right. exists o. cbn. rewrite tid_eqb_refl. repeat split; auto.
    - intro t0. destruct (tid_dec t0 t) as [->|Hne].
      + unfold TOk. rewrite tid_eqb_refl. rewrite Hr. now apply rk_done_ok.
      + now apply tok_after_set; auto.
    - intros i k Hi. destruct (tid_dec (TA i k) t) as [<-|Hne].
      + specialize (Hfr i k Hi). destruct Hs as [S|(w & acc & m & S)]; congruence.
      + rewrite tid_eqb_neq; auto. }
  unfold finish. destruct t; cbn; apply Hshape.
Qed.

Lemma mid_disc : forall st t,
  Mid st t HDisc -> Inv (finish (set_disc st true) t (Exn EDisconnect)).
Proof.
  intros st t M. apply mid_finish. destruct M as [Hc Hl Hr Hf Hk Hw Hn Hs Ht Hfr Hh].
  constructor; cbn; auto.
  destruct Hh as (cm' & acc & E1 & E2). right. left. exists cm', acc. auto.
Qed.

Lemma pump_inv : forall t av st h,
  avail st = av -> Mid st t h -> Inv (pump av st t h).
Proof.
  intros t av. induction av as [|m av' IH]; intros st h Hav M.
  - destruct h as [o| |w acc]; cbn [pump].
    + now apply mid_finish.
    + now apply mid_disc.
    + destruct M as [Hc Hl Hr Hf Hk Hw Hn Hs Ht Hfr [Ho Hfl]].
      assert (Hnd : forall o0, tst st t <> TDone o0).
      { intros o0 E. destruct Hs as [S|(w0 & acc0 & m0 & S)]; congruence. }
      constructor; cbn; auto.
      * now rewrite Hf, Hr.
      * rewrite Hr. discriminate.
      * intros r E. rewrite Hr in E. injection E as <-. split; [exact Hk|].
        left. exists w, acc. cbn. rewrite tid_eqb_refl, Hw. repeat split; auto.
      * intro t0. destruct (tid_dec t0 t) as [->|Hne].
        -- unfold TOk. now rewrite tid_eqb_refl.
        -- now apply tok_after_set; auto.
      * intros i k Hi. destruct (tid_dec (TA i k) t) as [<-|Hne].
        -- specialize (Hfr i k Hi). destruct Hs as [S|(w0 & acc0 & m0 & S)]; congruence.
        -- rewrite tid_eqb_neq; auto.
  - destruct h as [o| |w acc]; cbn [pump].
    + now apply mid_finish.
    + now apply mid_disc.
    + apply IH; [reflexivity|].
      destruct M as [Hc Hl Hr Hf Hk Hw Hn Hs Ht Hfr [Ho Hfl]].
      constructor; cbn; auto.
      * unfold cmsgs in *. cbn. rewrite map_app. cbn. rewrite Hav in Hc.
        rewrite <- Hc, <- app_assoc. reflexivity.
      * intros x Hx. apply in_app_or in Hx as [Hx|[<-|[]]]; [now apply Hl|exact Hr].
      * rewrite app_length. cbn. lia.
      * unfold cmsgs. cbn. rewrite map_app. cbn. now apply handle_ok.
Qed.

Lemma done_ok_rd : forall f rd t o, done_ok f None t o -> done_ok f rd t o.
Proof.
  intros f rd t o H. destruct t as [[| |]|i [|[[|n]|]| | |]]; cbn in *; auto.
  - destruct H as [H|H]; [discriminate|now right].
  - destruct H as [H|H]; [discriminate|now right].
  - destruct H as [H|H]; [discriminate|now right].
Qed.

Lemma tok_rd : forall f rd t, TOk f None t -> TOk f rd t.
Proof.
  intros f rd t H. unfold TOk in *. destruct (f t); auto; [discriminate|now apply done_ok_rd].
Qed.

Lemma become_reader : forall st t w,
  Inv st -> tst st t = TNew -> rk t = true -> (full t = true -> w = None) -> consumed st = false ->
  Mid (set_reader (set_consumed st true) (Some t)) t (HMore w []).
Proof.
  intros st t w [Hc Hl Hf Hn Hs Ht Hfr] T K F C.
  assert (R : reader st = None) by (destruct (reader st); [congruence|reflexivity]).
  destruct (Hn R) as (L1 & L2 & L3).
  constructor; cbn.
  - exact Hc.
  - rewrite L1. intros x [].
  - reflexivity.
  - reflexivity.
  - exact K.
  - exact L2.
  - rewrite L1. exact L3.
  - now left.
  - intros t' _. apply tok_rd. rewrite <- R. apply Ht.
  - exact Hfr.
  - unfold cmsgs. cbn. rewrite L1. cbn. auto.
Qed.

Lemma start_stream_inv : forall st t w,
  Inv st -> tst st t = TNew -> rk t = true -> (full t = true -> w = None) ->
  (forall ob, tst st (TS SBody) = TDone ob -> done_ok (tst st) (reader st) t (replay w ob)) ->
  done_ok (tst st) (reader st) t (Exn EConsumed) ->
  Inv (start_stream st t w).
Proof.
  intros st t w I T K F Hrep Hcon. unfold start_stream.
  assert (Q : quiet st t) by (now left).
  assert (NA : tst st t <> TAbsent) by congruence.
  destruct (tst st (TS SBody)) eqn:B;
    try (destruct (consumed st) eqn:C;
         [now apply finish_inv|apply pump_inv; [reflexivity|now apply become_reader]]).
  apply finish_inv; auto.
Qed.

Lemma after_await_inv : forall st t s o,
  Inv st -> quiet st t -> tst st t <> TAbsent -> aw_ok t s -> tst st (TS s) = TDone o ->
  Inv (after_await jparse fparse st t o).
Proof.
  intros st t s o I Q NA A D. unfold after_await.
  destruct t as [[| |]|i k]; cbn in A.
  - destruct s; contradiction.
  - destruct s; try contradiction. apply finish_inv; auto. cbn. right. split; [exact A|]. now exists o.
  - destruct s; try contradiction. apply finish_inv; auto. cbn. right. split; [exact A|]. now exists o.
  - apply finish_inv; auto. destruct k as [|[[|n]|]| | |], s; cbn in *; try contradiction; exact D.
Qed.

Lemma await_slot_inv : forall st t s,
  Inv st -> tst st t = TNew -> aw_ok t s ->
  Inv (await_slot jparse fparse st t s).
Proof.
  intros st t s I T A. unfold await_slot.
  set (st1 := match tst st (TS s) with
              | TAbsent => set_ready (set_tst st (TS s) TNew) (ready st ++ [TS s])
              | _ => st end).
  assert (I1 : Inv st1 /\ tst st1 t = TNew).
  { unfold st1. destruct (tst st (TS s)) eqn:S; auto. split.
    - apply (inv_upd st _ (TS s) I); cbn; auto.
      + repeat split; reflexivity.
      + right. now right.
      + discriminate.
      + intros t' Hne. now rewrite tid_eqb_neq.
      + now rewrite tid_eqb_refl.
    - cbn. rewrite tid_eqb_neq; [exact T|]. congruence. }
  destruct I1 as [I1 T1].
  assert (Q1 : quiet st1 t) by (now left).
  assert (NA : tst st1 t <> TAbsent) by congruence.
  destruct (tst st1 (TS s)) eqn:S1.
  6: { now apply (after_await_inv st1 t s). }
  all: apply (inv_upd st1 _ t I1); cbn; auto;
    [ repeat split; reflexivity
    | now apply quiet_lt
    | intros t' Hne; now rewrite tid_eqb_neq
    | now rewrite tid_eqb_refl ].
Qed.

Lemma start_inv : forall st t,
  Inv st -> tst st t = TNew -> Inv (start ct jparse fparse st t).
Proof.
  intros st t I T.
  assert (Q : quiet st t) by (now left).
  assert (NA : tst st t <> TAbsent) by congruence.
  unfold start. destruct t as [[| |]|i [|[[|n]|]| | |]].
  - apply start_stream_inv; auto.
    + intros ob B. congruence.
    + cbn. now right.
  - destruct ct eqn:C; try (apply finish_inv; auto; cbn; left; split; [congruence|reflexivity]).
    apply await_slot_inv; auto.
  - destruct ct eqn:C; try (apply finish_inv; auto; cbn; left; split; [congruence|reflexivity]).
    apply await_slot_inv; auto.
  - apply await_slot_inv; cbn; auto.
  - apply finish_inv; cbn; auto.
  - apply start_stream_inv; auto.
    + discriminate.
    + intros ob B. cbn. right. right. now exists ob.
    + cbn. auto.
  - apply start_stream_inv; auto.
    + intros ob B. cbn. right. right. now exists ob.
    + cbn. auto.
  - apply await_slot_inv; cbn; auto.
  - apply await_slot_inv; cbn; auto.
  - apply finish_inv; cbn; auto.
Qed.

Lemma run_inv : forall st t, Inv st -> Inv (run ct jparse fparse st t).
Proof.
  intros st t I. unfold run. destruct (tst st t) eqn:T; auto.
  - now apply start_inv.
  - (* TGot *)
    pose proof (i_tok st I t) as K. unfold TOk in K. rewrite T in K.
    destruct (i_some st I t K) as [Hk R].
    destruct R as [(w0 & acc0 & T' & _)|[(w0 & acc0 & m0 & cm' & T' & Hw & Hcm & Ho & Hf & Hn)|(o & T' & _)]];
      try congruence.
    rewrite T in T'. injection T' as <- <- <-.
    apply pump_inv; [reflexivity|].
    destruct I as [Hc Hl Hfl Hnn Hs Ht Hfr].
    constructor; auto.
    + rewrite Hfl, K. reflexivity.
    + right. now exists w, acc, m.
    + rewrite Hcm. now apply handle_ok.
  - (* TAwait *)
    pose proof (i_tok st I t) as K. unfold TOk in K. rewrite T in K.
    destruct (tst st (TS s)) eqn:S; auto.
    apply (after_await_inv st t s); auto; [|congruence].
    right. left. now exists s.
Qed.

Lemma set_ready_inv : forall st x, Inv st -> Inv (set_ready st x).
Proof. intros st x [Hc Hl Hf Hn Hs Ht Hfr]. constructor; auto. Qed.

Lemma deliver_inv : forall st, Inv st -> Inv (deliver st).
Proof.
  intros st I. unfold deliver. destruct (pend st) as [|m p] eqn:P; auto.
  cbn [rwait set_pend]. destruct (rwait st) as [|[[t w] acc] rw] eqn:W.
  - destruct I as [Hc Hl Hf Hn Hs Ht Hfr]. constructor; cbn; auto.
    + rewrite <- Hc, P. now rewrite <- !app_assoc.
    + intros r Hr. destruct (Hs r Hr) as [K R]. split; [exact K|].
      destruct R as [(w0 & acc0 & T' & W' & _)|[R|R]]; [congruence|right; left; exact R|right; right; exact R].
  - assert (Hr : exists r, reader st = Some r).
    { destruct (reader st) eqn:R; [eauto|]. destruct (i_none st I R) as (_ & W' & _). congruence. }
    destruct Hr as [r Hr]. destruct (i_some st I r Hr) as [Hk R].
    destruct R as [(w0 & acc0 & T' & W' & Hav & Ho & Hf & Hn)|[(w0 & acc0 & m0 & cm' & T' & W' & _)|(o & T' & W' & _)]];
      try congruence.
    rewrite W in W'. injection W' as -> -> -> ->.
    assert (Hnd : forall o0, tst st r <> TDone o0) by (intros o0 E; congruence).
    destruct I as [Hc Hl Hfl Hnn Hs Ht Hfr]. constructor; cbn; auto.
    + unfold cmsgs in *. cbn. rewrite map_app. cbn. rewrite <- Hc, P, Hav. now rewrite <- !app_assoc.
    + intros x Hx. apply in_app_or in Hx as [Hx|[<-|[]]]; [now apply Hl|exact Hr].
    + rewrite Hr. discriminate.
    + intros r' E. rewrite Hr in E. injection E as <-. split; [exact Hk|].
      right. left. exists w0, acc0, m, (cmsgs st). cbn. rewrite tid_eqb_refl.
      repeat split; auto.
      * unfold cmsgs. cbn. now rewrite map_app.
      * rewrite app_length. cbn. lia.
    + intro t0. destruct (tid_dec t0 r) as [->|Hne].
      * unfold TOk. now rewrite tid_eqb_refl.
      * now apply tok_after_set.
    + intros i k Hi. destruct (tid_dec (TA i k) r) as [<-|Hne].
      * specialize (Hfr i k Hi). congruence.
      * rewrite tid_eqb_neq; auto.
Qed.

Lemma start_access_inv : forall st k, Inv st -> Inv (start_access st k).
Proof.
  intros st k I. unfold start_access.
  assert (A : tst st (TA (length (accs st)) k) = TAbsent) by (apply (i_fresh st I); lia).
  apply (inv_upd st _ (TA (length (accs st)) k) I); cbn; auto.
  - repeat split; reflexivity.
  - right. now right.
  - rewrite app_length. lia.
  - intros i k0 E. injection E as <- <-. rewrite app_length. cbn. lia.
  - intros t' Hne. now rewrite tid_eqb_neq.
  - now rewrite tid_eqb_refl.
Qed.

Lemma step_choice_inv : forall st c, Inv st -> Inv (step_choice ct jparse fparse st c).
Proof.
  intros st c I. unfold step_choice. destruct (nth_error (ready st) c); auto.
  apply run_inv. now apply set_ready_inv.
Qed.

Lemma run_all_inv : forall fuel st, Inv st -> Inv (run_all ct jparse fparse fuel st).
Proof.
  induction fuel as [|f IH]; intros st I; cbn; auto.
  destruct (ready st) eqn:R; auto. apply IH. now apply step_choice_inv.
Qed.

Lemma do_event_inv : forall st e, Inv st -> Inv (do_event ct jparse fparse st e).
Proof.
  intros st [k| |c|f] I; cbn.
  - now apply start_access_inv.
  - now apply deliver_inv.
  - now apply step_choice_inv.
  - now apply run_all_inv.
Qed.

Lemma exec_inv : forall evs st, Inv st -> Inv (exec ct jparse fparse evs st).
Proof.
  induction evs as [|e evs IH]; intros st I; cbn; auto.
  apply IH. now apply do_event_inv.
Qed.

(* ---------- consequences of the invariant ---------- *)

Lemma reader_done : forall st r o,
  Inv st -> reader st = Some r -> tst st r = TDone o ->
  rdone r (cmsgs st) o /\ rwait st = [] /\ rcount st = length (log st).
Proof.
  intros st r o I R T. destruct (i_some st I r R) as [_ S].
  destruct S as [(w & acc & T' & _)|[(w & acc & m & cm' & T' & _)|(o' & T' & W & D & N)]]; try congruence.
  rewrite T in T'. injection T' as <-. auto.
Qed.

Lemma ch_split : forall st, Inv st -> ch = cmsgs st ++ (avail st ++ pend st).
Proof. intros st I. symmetry. apply (i_cons st I). Qed.

(* a reader that went to the end and returned a value returned the whole body *)
Lemma rdone_full_val : forall r cm rest v,
  rdone r cm (Val v) -> full r = true -> ch = cm ++ rest ->
  exists chunks, v = result_of r chunks /\ body_of ch = Some (concat chunks) /\ disc_first ch = false.
Proof.
  intros r cm rest v D F E.
  destruct D as [(cm' & b & acc & -> & Ho & Hv)|[(cm' & acc & _ & _ & Hv)|(cm' & b & more & acc & _ & _ & _ & Hf & _)]];
    [|discriminate|congruence].
  injection Hv as ->. exists (snoc_ne acc b ++ [[]]). split; [reflexivity|].
  rewrite E, <- app_assoc. cbn.
  rewrite (body_of_open _ _ _ Ho), (disc_first_open _ _ _ Ho). cbn. split; [|reflexivity].
  rewrite concat_app, concat_snoc_ne. cbn. now rewrite app_nil_r.
Qed.

Lemma rdone_full_disc : forall r cm rest o,
  rdone r cm o -> full r = true -> ch = cm ++ rest -> disc_first ch = true -> o = Exn EDisconnect.
Proof.
  intros r cm rest o D F E Hd.
  destruct D as [(cm' & b & acc & -> & Ho & Hv)|[(cm' & acc & _ & _ & Hv)|(cm' & b & more & acc & _ & _ & _ & Hf & _)]];
    [|exact Hv|congruence].
  rewrite E, <- app_assoc in Hd. cbn in Hd. rewrite (disc_first_open _ _ _ Ho) in Hd. discriminate.
Qed.

Lemma body_slot_value : forall st v,
  Inv st -> tst st (TS SBody) = TDone (Val v) ->
  exists b, v = VBytes b /\ body_of ch = Some b /\ disc_first ch = false.
Proof.
  intros st v I T. pose proof (i_tok st I (TS SBody)) as K. unfold TOk in K. rewrite T in K.
  cbn in K. destruct K as [R|K]; [|discriminate].
  destruct (reader_done st _ _ I R T) as (D & _).
  destruct (rdone_full_val _ _ _ _ D eq_refl (ch_split st I)) as (chunks & -> & Hb & Hd).
  exists (concat chunks). auto.
Qed.

Lemma body_slot_shape : forall st ob,
  Inv st -> tst st (TS SBody) = TDone ob ->
  ob = Exn EConsumed \/ ob = Exn EDisconnect \/ exists b, ob = Val (VBytes b).
Proof.
  intros st ob I T. pose proof (i_tok st I (TS SBody)) as K. unfold TOk in K. rewrite T in K.
  cbn in K. destruct K as [R|K]; [|now left].
  destruct (reader_done st _ _ I R T) as (D & _).
  destruct D as [(cm' & b & acc & _ & _ & ->)|[(cm' & acc & _ & _ & ->)|(cm' & b & more & acc & _ & _ & _ & Hf & _)]].
  - right. right. cbn. eauto.
  - right. now left.
  - discriminate.
Qed.

Lemma parse_out_val : forall p ob v,
  parse_out p ob = Val v -> exists b r c, ob = Val (VBytes b) /\ p b = POk r c /\ v = VParsed r c.
Proof.
  intros p ob v H. destruct ob as [[b|l|r c|]|x]; cbn in H; try discriminate.
  destruct (p b) as [e|r c] eqn:P; [discriminate|]. injection H as <-. now exists b, r, c.
Qed.

Lemma replay_val : forall w ob v,
  replay w ob = Val v -> exists b, ob = Val (VBytes b) /\ v = VChunks (match w with Some 0 => [b] | _ => [b; []] end).
Proof.
  intros w ob v H. destruct ob as [[b|l|r c|]|x]; cbn in H; try discriminate.
  injection H as <-. now exists b.
Qed.

(* every finished task that holds a value, and where the value comes from *)
Lemma value_source : forall st t v,
  Inv st -> tst st t = TDone (Val v) ->
  match t with
  | TS SBody | TA _ KBody => exists b, v = VBytes b /\ body_of ch = Some b /\ disc_first ch = false
  | TS SJson | TA _ KJson =>
      exists b r c, body_of ch = Some b /\ disc_first ch = false /\ ct = CJson /\ jparse b = POk r c /\ v = VParsed r c
  | TS SForm | TA _ KForm =>
      exists b r c, body_of ch = Some b /\ disc_first ch = false /\ ct = CForm /\ fparse b = POk r c /\ v = VParsed r c
  | TA _ (KStream None) => exists l, v = VChunks l /\ body_of ch = Some (concat l) /\ disc_first ch = false
  | TA _ (KStream (Some _)) => exists l, v = VChunks l
  | TA _ KClose => v = VNone
  end.
Proof.
  intros st t v I T.
  assert (HB : forall v0, tst st (TS SBody) = TDone (Val v0) ->
               exists b, v0 = VBytes b /\ body_of ch = Some b /\ disc_first ch = false)
    by (intros v0 H0; now apply (body_slot_value st)).
  assert (HJ : forall v0, tst st (TS SJson) = TDone (Val v0) ->
               exists b r c, body_of ch = Some b /\ disc_first ch = false /\ ct = CJson /\ jparse b = POk r c /\ v0 = VParsed r c).
  { intros v0 H0. pose proof (i_tok st I (TS SJson)) as K. unfold TOk in K. rewrite H0 in K. cbn in K.
    destruct K as [[_ K]|[C (ob & B & K)]]; [discriminate|].
    symmetry in K. apply parse_out_val in K as (b & r & c & -> & P & ->).
    destruct (HB _ B) as (b' & E & Hb & Hd). injection E as <-. now exists b, r, c. }
  assert (HF : forall v0, tst st (TS SForm) = TDone (Val v0) ->
               exists b r c, body_of ch = Some b /\ disc_first ch = false /\ ct = CForm /\ fparse b = POk r c /\ v0 = VParsed r c).
  { intros v0 H0. pose proof (i_tok st I (TS SForm)) as K. unfold TOk in K. rewrite H0 in K. cbn in K.
    destruct K as [[_ K]|[C (ob & B & K)]]; [discriminate|].
    symmetry in K. apply parse_out_val in K as (b & r & c & -> & P & ->).
    destruct (HB _ B) as (b' & E & Hb & Hd). injection E as <-. now exists b, r, c. }
  pose proof (i_tok st I t) as K. unfold TOk in K. rewrite T in K.
  destruct t as [[| |]|i [|[[|n]|]| | |]]; cbn in K.
  - now apply HB.
  - now apply HJ.
  - now apply HF.
  - now apply HB.
  - injection K as ->. eauto.
  - destruct K as [R|[K|(ob & B & K)]]; [|discriminate|].
    + destruct (reader_done st _ _ I R T) as (D & _).
      destruct D as [(x1 & x2 & x3 & _ & _ & E)|[(x1 & x2 & _ & _ & E)|(x1 & x2 & x3 & x4 & _ & _ & _ & _ & E)]];
        try discriminate; injection E as E; subst v; cbn; eauto.
    + symmetry in K. apply replay_val in K as (b & _ & ->). eauto.
  - destruct K as [R|[K|(ob & B & K)]]; [|discriminate|].
    + destruct (reader_done st _ _ I R T) as (D & _).
      destruct (rdone_full_val _ _ _ _ D eq_refl (ch_split st I)) as (chunks & -> & Hb & Hd). cbn. eauto.
    + symmetry in K. apply replay_val in K as (b & -> & ->). cbn in *.
      destruct (HB _ B) as (b' & E & Hb & Hd). injection E as <-.
      exists [b; []]. cbn. rewrite app_nil_r. auto.
  - now apply HJ.
  - now apply HF.
  - now injection K as ->.
Qed.

(* ---------- what one segment can change ---------- *)

Lemma finish_tst : forall st t o t',
  tst (finish st t o) t' = if tid_eqb t' t then TDone o else tst st t'.
Proof. intros. unfold finish. destruct t; reflexivity. Qed.

Lemma finish_chan : forall st t o,
  pend (finish st t o) = pend st /\ avail (finish st t o) = avail st /\ rwait (finish st t o) = rwait st /\
  rcount (finish st t o) = rcount st /\ consumed (finish st t o) = consumed st /\
  reader (finish st t o) = reader st /\ log (finish st t o) = log st /\ accs (finish st t o) = accs st.
Proof. intros. unfold finish. destruct t; cbn; repeat split; reflexivity. Qed.

Lemma pump_other : forall t av st h t',
  t' <> t -> tst (pump av st t h) t' = tst st t'.
Proof.
  intros t av. induction av as [|m av IH]; intros st h t' Hne; destruct h as [o| |w acc]; cbn [pump];
    rewrite ?finish_tst, ?tid_eqb_neq; auto.
  - cbn. now rewrite tid_eqb_neq.
  - rewrite IH; auto.
Qed.

Lemma pump_reader : forall t av st h,
  reader (pump av st t h) = reader st /\ consumed (pump av st t h) = consumed st /\
  accs (pump av st t h) = accs st.
Proof.
  intros t av. induction av as [|m av IH]; intros st h; destruct h as [o| |w acc]; cbn [pump];
    try (destruct (finish_chan st t o) as (_ & _ & _ & _ & E5 & E6 & _ & E8); now rewrite E5, E6, E8);
    try (destruct (finish_chan (set_disc st true) t (Exn EDisconnect)) as (_ & _ & _ & _ & E5 & E6 & _ & E8);
         now rewrite E5, E6, E8).
  - cbn. auto.
  - destruct (IH (set_log (set_avail (set_rcount st (S (rcount st))) av)
                   (log (set_rcount st (S (rcount st))) ++ [(t, m)])) (handle t w acc m)) as (A & B & C).
    rewrite A, B, C. cbn. auto.
Qed.

Lemma start_stream_other : forall st t w t',
  t' <> t -> tst (start_stream st t w) t' = tst st t'.
Proof.
  intros st t w t' Hne. unfold start_stream.
  destruct (tst st (TS SBody)); try (destruct (consumed st));
    rewrite ?finish_tst, ?pump_other, ?tid_eqb_neq; auto.
Qed.

Lemma start_stream_reader : forall st t w,
  consumed st = true ->
  reader (start_stream st t w) = reader st /\ consumed (start_stream st t w) = true /\
  accs (start_stream st t w) = accs st.
Proof.
  intros st t w C. unfold start_stream. rewrite C.
  destruct (tst st (TS SBody));
    match goal with |- context [finish ?a ?b ?c] =>
      destruct (finish_chan a b c) as (_ & _ & _ & _ & E5 & E6 & _ & E8); now rewrite E5, E6, E8 end.
Qed.

Lemma after_await_tst : forall st t o t',
  t' <> t -> tst (after_await jparse fparse st t o) t' = tst st t'.
Proof.
  intros st t o t' Hne. unfold after_await.
  destruct t as [[| |]|i k]; rewrite finish_tst, tid_eqb_neq; auto.
Qed.

Lemma after_await_chan : forall st t o,
  reader (after_await jparse fparse st t o) = reader st /\
  consumed (after_await jparse fparse st t o) = consumed st /\
  accs (after_await jparse fparse st t o) = accs st.
Proof.
  intros st t o. unfold after_await.
  destruct t as [[| |]|i k];
    match goal with |- context [finish ?a ?b ?c] =>
      destruct (finish_chan a b c) as (_ & _ & _ & _ & E5 & E6 & _ & E8); now rewrite E5, E6, E8 end.
Qed.

Definition created (st st' : state) (t' : tid) : Prop :=
  exists s, t' = TS s /\ tst st t' = TAbsent /\ tst st' t' = TNew.

Lemma await_slot_tst : forall st t s t',
  t' <> t -> tst (await_slot jparse fparse st t s) t' = tst st t' \/ created st (await_slot jparse fparse st t s) t'.
Proof.
  intros st t s t' Hne. unfold await_slot.
  destruct (tst st (TS s)) eqn:S.
  1: { (* created *)
    cbn [tst set_ready set_tst set_tstf]. rewrite tid_eqb_refl.
    destruct (tid_dec t' (TS s)) as [->|Hn].
    - right. exists s. cbn. rewrite tid_eqb_neq, tid_eqb_refl; auto.
    - left. cbn. now rewrite tid_eqb_neq, tid_eqb_neq. }
  all: rewrite S; left; cbn; rewrite ?after_await_tst, ?tid_eqb_neq; auto.
Qed.

Lemma await_slot_chan : forall st t s,
  reader (await_slot jparse fparse st t s) = reader st /\
  consumed (await_slot jparse fparse st t s) = consumed st /\
  accs (await_slot jparse fparse st t s) = accs st.
Proof.
  intros st t s. unfold await_slot.
  set (st1 := match tst st (TS s) with
              | TAbsent => set_ready (set_tst st (TS s) TNew) (ready st ++ [TS s])
              | _ => st end).
  assert (E : reader st1 = reader st /\ consumed st1 = consumed st /\ accs st1 = accs st)
    by (unfold st1; destruct (tst st (TS s)); cbn; auto).
  destruct E as (A & B & C).
  destruct (tst st1 (TS s)); cbn; auto.
  destruct (after_await_chan st1 t o) as (E1 & E2 & E3). rewrite E1, E2, E3. auto.
Qed.

Lemma run_tst : forall st t t',
  t' <> t -> tst (run ct jparse fparse st t) t' = tst st t' \/ created st (run ct jparse fparse st t) t'.
Proof.
  intros st t t' Hne. unfold run. destruct (tst st t) eqn:T; auto.
  - unfold start. destruct t as [[| |]|i [|[[|n]|]| | |]]; try destruct ct;
      rewrite ?start_stream_other, ?finish_tst, ?tid_eqb_neq; auto; now apply await_slot_tst.
  - left. now apply pump_other.
  - destruct (tst st (TS s)); auto. left. now apply after_await_tst.
Qed.

Lemma run_reader : forall st t,
  consumed st = true ->
  reader (run ct jparse fparse st t) = reader st /\ consumed (run ct jparse fparse st t) = true.
Proof.
  intros st t C. unfold run. destruct (tst st t) eqn:T; auto.
  - unfold start. destruct t as [[| |]|i [|[[|n]|]| | |]]; try destruct ct;
      try (destruct (start_stream_reader st _ None C) as (E1 & E2 & _); now rewrite E1, E2);
      try match goal with |- context [start_stream st ?a ?b] =>
        destruct (start_stream_reader st a b C) as (E1 & E2 & _); now rewrite E1, E2 end;
      try match goal with |- context [finish ?a ?b ?c] =>
        destruct (finish_chan a b c) as (_ & _ & _ & _ & E5 & E6 & _ & E8); now rewrite E5, E6 end;
      match goal with |- context [await_slot jparse fparse ?a ?b ?c] =>
        destruct (await_slot_chan a b c) as (E1 & E2 & E3); now rewrite E1, E2 end.
  - destruct (pump_reader t (avail st) st (handle t w acc m)) as (A & B & _). now rewrite A, B.
  - destruct (tst st (TS s)); auto.
    destruct (after_await_chan st t o) as (E1 & E2 & _). now rewrite E1, E2.
Qed.

Lemma run_accs : forall st t, accs (run ct jparse fparse st t) = accs st.
Proof.
  intros st t. unfold run. destruct (tst st t) eqn:T; auto.
  - unfold start, start_stream.
    destruct t as [[| |]|i [|[[|n]|]| | |]]; try destruct ct;
      try (destruct (tst st (TS SBody)); try destruct (consumed st));
      try match goal with |- context [pump ?a ?b ?c ?d] =>
        destruct (pump_reader c a b d) as (_ & _ & E); now rewrite E end;
      try match goal with |- context [finish ?a ?b ?c] =>
        destruct (finish_chan a b c) as (_ & _ & _ & _ & _ & _ & _ & E8); now rewrite E8 end;
      match goal with |- context [await_slot jparse fparse ?a ?b ?c] =>
        destruct (await_slot_chan a b c) as (_ & _ & E3); now rewrite E3 end.
  - destruct (pump_reader t (avail st) st (handle t w acc m)) as (_ & _ & E). now rewrite E.
  - destruct (tst st (TS s)); auto.
    destruct (after_await_chan st t o) as (_ & _ & E). now rewrite E.
Qed.

(* ---------- finished tasks stay finished; the reader stays the reader ---------- *)

Lemma rwait_head : forall st t w acc rw,
  Inv st -> rwait st = (t, w, acc) :: rw -> tst st t = TRecv /\ reader st = Some t /\ rw = [].
Proof.
  intros st t w acc rw I W.
  assert (Hr : exists r, reader st = Some r).
  { destruct (reader st) eqn:R; [eauto|]. destruct (i_none st I R) as (_ & W' & _). congruence. }
  destruct Hr as [r Hr]. destruct (i_some st I r Hr) as [_ R].
  destruct R as [(w0 & acc0 & T' & W' & _)|[(w0 & acc0 & m0 & cm' & T' & W' & _)|(o & T' & W' & _)]];
    try congruence.
  rewrite W in W'. injection W' as -> -> -> ->. auto.
Qed.

Lemma ext_refl : forall f, ext f f.
Proof. intros f t o H. exact H. Qed.

Lemma ext_trans : forall f g h, ext f g -> ext g h -> ext f h.
Proof. intros f g h A B t o H. apply B. now apply A. Qed.

Lemma step_choice_ext : forall st c, ext (tst st) (tst (step_choice ct jparse fparse st c)).
Proof.
  intros st c t0 o H. unfold step_choice. destruct (nth_error (ready st) c) as [t|]; auto.
  destruct (tid_dec t0 t) as [->|Hne].
  - unfold run. cbn [tst set_ready]. now rewrite H.
  - destruct (run_tst (set_ready st (remove_nth c (ready st))) t t0 Hne) as [E|(s & _ & A & _)].
    + now rewrite E.
    + cbn in A. congruence.
Qed.

Lemma run_all_ext : forall fuel st, ext (tst st) (tst (run_all ct jparse fparse fuel st)).
Proof.
  induction fuel as [|f IH]; intros st; cbn; [apply ext_refl|].
  destruct (ready st); [apply ext_refl|].
  eapply ext_trans; [apply step_choice_ext|apply IH].
Qed.

Lemma do_event_ext : forall st e, Inv st -> ext (tst st) (tst (do_event ct jparse fparse st e)).
Proof.
  intros st [k| |c|f] I; cbn [do_event].
  - intros t0 o H. unfold start_access. cbn.
    destruct (tid_dec t0 (TA (length (accs st)) k)) as [->|Hne]; [|now rewrite tid_eqb_neq].
    rewrite (i_fresh st I) in H; [discriminate|lia].
  - intros t0 o H. unfold deliver. destruct (pend st) as [|m p]; auto.
    cbn [rwait set_pend]. destruct (rwait st) as [|[[t w] acc] rw] eqn:W; auto.
    destruct (rwait_head st t w acc rw I W) as (T & _). cbn.
    destruct (tid_dec t0 t) as [->|Hne]; [congruence|now rewrite tid_eqb_neq].
  - apply step_choice_ext.
  - apply run_all_ext.
Qed.

Lemma exec_ext : forall evs st, Inv st -> ext (tst st) (tst (exec ct jparse fparse evs st)).
Proof.
  induction evs as [|e evs IH]; intros st I; cbn; [apply ext_refl|].
  eapply ext_trans; [now apply do_event_ext|]. apply IH. now apply do_event_inv.
Qed.

Lemma step_choice_reader : forall st c r,
  Inv st -> reader st = Some r -> reader (step_choice ct jparse fparse st c) = Some r.
Proof.
  intros st c r I R. unfold step_choice. destruct (nth_error (ready st) c) as [t|]; auto.
  assert (C : consumed (set_ready st (remove_nth c (ready st))) = true)
    by (cbn; rewrite (i_flag st I), R; reflexivity).
  destruct (run_reader _ t C) as (E & _). now rewrite E.
Qed.

Lemma run_all_reader : forall fuel st r,
  Inv st -> reader st = Some r -> reader (run_all ct jparse fparse fuel st) = Some r.
Proof.
  induction fuel as [|f IH]; intros st r I R; cbn; auto.
  destruct (ready st); auto. apply IH; [now apply step_choice_inv|now apply step_choice_reader].
Qed.

Lemma do_event_reader : forall st e r,
  Inv st -> reader st = Some r -> reader (do_event ct jparse fparse st e) = Some r.
Proof.
  intros st [k| |c|f] r I R; cbn [do_event].
  - exact R.
  - unfold deliver. destruct (pend st) as [|m p]; auto.
    cbn [rwait set_pend]. destruct (rwait st) as [|[[t w] acc] rw]; exact R.
  - now apply step_choice_reader.
  - now apply run_all_reader.
Qed.

Lemma exec_reader : forall evs st r,
  Inv st -> reader st = Some r -> reader (exec ct jparse fparse evs st) = Some r.
Proof.
  induction evs as [|e evs IH]; intros st r I R; cbn; auto.
  apply IH; [now apply do_event_inv|now apply do_event_reader].
Qed.

(* ---------- the theorems, for states satisfying the invariant ---------- *)

Lemma inv_single_reader : forall st,
  Inv st ->
  map snd (log st) ++ avail st ++ pend st = ch /\
  (forall x y, In x (log st) -> In y (log st) -> fst x = fst y) /\
  length (rwait st) <= 1 /\
  rcount st = length (log st) + length (rwait st) /\
  rcount st <= S (length ch) /\
  (has_term ch = true -> rcount st <= need ch).
Proof.
  intros st I.
  assert (Hlen : length (log st) <= length ch).
  { rewrite <- (i_cons st I). unfold cmsgs. rewrite app_length, map_length. lia. }
  split; [apply (i_cons st I)|]. split.
  { intros x y Hx Hy. pose proof (i_log st I x Hx) as A. pose proof (i_log st I y Hy) as B. congruence. }
  destruct (reader st) as [r|] eqn:R.
  2: { destruct (i_none st I R) as (L & W & N). rewrite L, W, N. cbn. repeat split; lia. }
  destruct (i_some st I r R) as [_ S].
  (* in every reader state the messages handed out are an open prefix plus at most one *)
  assert (Hneed : has_term ch = true ->
                  length (log st) + length (rwait st) <= need ch).
  { intro HT. pose proof (ch_split st I) as E.
    destruct S as [(w & acc & T & W & Av & Ho & _ & N)|[(w & acc & m & cm' & T & W & Hcm & Ho & _ & N)|(o & T & W & D & N)]].
    - rewrite W. cbn. rewrite E in HT |- *. rewrite (has_term_open _ _ _ Ho) in HT.
      rewrite (need_open _ _ _ Ho). unfold cmsgs. rewrite map_length.
      destruct (has_term_need _ HT). lia.
    - rewrite W. cbn. rewrite E, Hcm, <- app_assoc in HT |- *. rewrite (has_term_open _ _ _ Ho) in HT.
      rewrite (need_open _ _ _ Ho).
      assert (length (log st) = S (length cm')).
      { rewrite <- (map_length snd). fold (cmsgs st). rewrite Hcm, app_length. cbn. lia. }
      destruct (has_term_need _ HT). lia.
    - rewrite W. cbn.
      assert (X : exists cm' x acc, cmsgs st = cm' ++ [x] /\ open_acc cm' = Some acc).
      { destruct D as [(cm' & b & acc & A & B & _)|[(cm' & acc & A & B & _)|(cm' & b & more & acc & A & B & _)]]; eauto. }
      destruct X as (cm' & x & acc & Hcm & Ho).
      rewrite E, Hcm, <- app_assoc in HT |- *. rewrite (has_term_open _ _ _ Ho) in HT.
      rewrite (need_open _ _ _ Ho).
      assert (length (log st) = S (length cm')).
      { rewrite <- (map_length snd). fold (cmsgs st). rewrite Hcm, app_length. cbn. lia. }
      destruct (has_term_need _ HT). lia. }
  destruct S as [(w & acc & T & W & Av & Ho & _ & N)|[(w & acc & m & cm' & T & W & Hcm & Ho & _ & N)|(o & T & W & D & N)]];
    rewrite W in *; cbn in *; repeat split; try lia; intro HT; specialize (Hneed HT); lia.
Qed.


Lemma inv_cache_agree : forall st i j k o o',
  Inv st -> slot_kind k = true ->
  tst st (TA i k) = TDone o -> tst st (TA j k) = TDone o' -> o = o'.
Proof.
  intros st i j k o o' I K A B.
  pose proof (i_tok st I (TA i k)) as X. pose proof (i_tok st I (TA j k)) as Y.
  unfold TOk in X, Y. rewrite A in X. rewrite B in Y.
  destruct k as [|w| | |]; try discriminate; cbn in X, Y; congruence.
Qed.


Lemma replay_run : forall st i kw ob,
  tst st (TS SBody) = TDone ob -> tst st (TA i (KStream kw)) = TNew ->
  let st' := run ct jparse fparse st (TA i (KStream kw)) in
  tst st' (TA i (KStream kw)) = TDone (stream_replay kw ob) /\
  rcount st' = rcount st /\ log st' = log st /\ avail st' = avail st /\ pend st' = pend st /\
  consumed st' = consumed st /\ reader st' = reader st.
Proof.
  intros st i kw ob B T. cbn zeta. unfold run. rewrite T. unfold start.
  destruct kw as [[|n]|]; unfold start_stream; rewrite ?B;
    match goal with |- context [finish ?a ?b ?c] =>
      destruct (finish_chan a b c) as (E1 & E2 & E3 & E4 & E5 & E6 & E7 & E8) end;
    rewrite finish_tst, tid_eqb_refl, E1, E2, E4, E5, E6, E7; cbn; auto 10.
Qed.

Section Replay.
Variables (i : nat) (kw : option nat) (ob : outcome).
Let t := TA i (KStream kw).
Let rep := stream_replay kw ob.

Definition RP (st : state) : Prop :=
  tst st (TS SBody) = TDone ob /\
  (tst st t = TAbsent \/ tst st t = TNew \/ tst st t = TDone rep).

Lemma step_choice_rp : forall st c, RP st -> RP (step_choice ct jparse fparse st c).
Proof.
  intros st c [B H]. split; [now apply step_choice_ext|].
  destruct H as [H|[H|H]]; [| |right; right; now apply step_choice_ext].
  - unfold step_choice. destruct (nth_error (ready st) c) as [t0|]; auto.
    destruct (tid_dec t t0) as [<-|Hne].
    + left. unfold run. cbn [tst set_ready]. now rewrite H.
    + destruct (run_tst (set_ready st (remove_nth c (ready st))) t0 t Hne) as [E|(s & E & _)].
      * rewrite E. now left.
      * discriminate.
  - unfold step_choice. destruct (nth_error (ready st) c) as [t0|]; auto.
    destruct (tid_dec t t0) as [<-|Hne].
    + right. right.
      destruct (replay_run (set_ready st (remove_nth c (ready st))) i kw ob B H) as (E & _). exact E.
    + destruct (run_tst (set_ready st (remove_nth c (ready st))) t0 t Hne) as [E|(s & E & _)].
      * rewrite E. auto.
      * discriminate.
Qed.

Lemma run_all_rp : forall fuel st, RP st -> RP (run_all ct jparse fparse fuel st).
Proof.
  induction fuel as [|f IH]; intros st H; cbn; auto.
  destruct (ready st); auto. apply IH. now apply step_choice_rp.
Qed.

Lemma do_event_rp : forall st e, Inv st -> RP st -> RP (do_event ct jparse fparse st e).
Proof.
  intros st e I [B H].
  destruct e as [k| |c|f]; [| |now apply step_choice_rp|now apply run_all_rp].
  - split; [now apply (do_event_ext st (EStart k) I)|].
    destruct H as [H|[H|H]]; [| |right; right; now apply (do_event_ext st (EStart k) I)].
    + cbn. destruct (tid_dec t (TA (length (accs st)) k)) as [->|Hne].
      * rewrite tid_eqb_refl. auto.
      * rewrite tid_eqb_neq; auto.
    + cbn. destruct (tid_dec t (TA (length (accs st)) k)) as [->|Hne].
      * rewrite tid_eqb_refl. auto.
      * rewrite tid_eqb_neq; auto.
  - split; [now apply (do_event_ext st EDeliver I)|].
    destruct H as [H|[H|H]]; [| |right; right; now apply (do_event_ext st EDeliver I)].
    all: cbn [do_event]; unfold deliver; destruct (pend st) as [|m p]; auto;
      cbn [rwait set_pend]; destruct (rwait st) as [|[[t0 w] acc] rw] eqn:W; cbn; auto;
      destruct (rwait_head st t0 w acc rw I W) as (T & _);
      (destruct (tid_dec t t0) as [E|Hne]; [rewrite <- E in T; congruence|rewrite tid_eqb_neq; auto]).
Qed.

Lemma exec_rp : forall evs st, Inv st -> RP st -> RP (exec ct jparse fparse evs st).
Proof.
  induction evs as [|e evs IH]; intros st I H; cbn; auto.
  apply IH; [now apply do_event_inv|now apply do_event_rp].
Qed.
End Replay.


Lemma inv_body_after_stream : forall st r t o,
  Inv st -> reader st = Some r -> r <> TS SBody ->
  body_derived ct t -> tst st t = TDone o -> o = Exn EConsumed.
Proof.
  intros st r t o I R Hne D T.
  assert (HB : forall o0, tst st (TS SBody) = TDone o0 -> o0 = Exn EConsumed).
  { intros o0 H0. pose proof (i_tok st I (TS SBody)) as K. unfold TOk in K. rewrite H0 in K. cbn in K.
    destruct K as [K|K]; [congruence|exact K]. }
  assert (HJ : ct = CJson -> forall o0, tst st (TS SJson) = TDone o0 -> o0 = Exn EConsumed).
  { intros C o0 H0. pose proof (i_tok st I (TS SJson)) as K. unfold TOk in K. rewrite H0 in K. cbn in K.
    destruct K as [[K _]|[_ (ob & B & K)]]; [congruence|]. rewrite (HB _ B) in K. exact K. }
  assert (HF : ct = CForm -> forall o0, tst st (TS SForm) = TDone o0 -> o0 = Exn EConsumed).
  { intros C o0 H0. pose proof (i_tok st I (TS SForm)) as K. unfold TOk in K. rewrite H0 in K. cbn in K.
    destruct K as [[K _]|[_ (ob & B & K)]]; [congruence|]. rewrite (HB _ B) in K. exact K. }
  pose proof (i_tok st I t) as K. unfold TOk in K. rewrite T in K.
  destruct t as [[| |]|i [|w| | |]]; cbn in D, K; try contradiction; auto.
Qed.

Lemma inv_one_reader : forall st i kw v ob,
  Inv st -> kw <> Some 0 ->
  tst st (TA i (KStream kw)) = TDone (Val v) -> tst st (TS SBody) = TDone ob ->
  ob = Exn EConsumed \/ Val v = replay (demand kw) ob.
Proof.
  intros st i kw v ob I Hk T B.
  pose proof (i_tok st I (TA i (KStream kw))) as K. unfold TOk in K. rewrite T in K.
  pose proof (i_tok st I (TS SBody)) as KB. unfold TOk in KB. rewrite B in KB. cbn in KB.
  destruct kw as [[|n]|]; [congruence| |]; cbn in K.
  all: destruct K as [R|[K|(ob' & B' & K)]]; [|discriminate|right; cbn; congruence].
  all: destruct KB as [KB|KB]; [congruence|now left].
Qed.

Lemma open_acc_nonempty : forall cm acc,
  open_acc cm = Some acc -> Forall (fun b => nonempty b = true) acc.
Proof.
  induction cm as [|m cm IH]; intros acc H; cbn in H.
  - injection H as <-. constructor.
  - destruct m as [c [|]| |]; try discriminate; [|now apply IH].
    destruct (open_acc cm) as [a|]; [|discriminate]. cbn in H. injection H as <-.
    unfold cons_ne. destruct (nonempty c) eqn:E; [constructor; auto|auto].
Qed.

Lemma inv_disconnect : forall st t o,
  Inv st -> disc_first ch = true -> tst st t = TDone o ->
  match t with
  | TA _ KClose => o = Val VNone
  | TA _ (KStream (Some _)) =>
      forall v, o = Val v -> exists l, v = VChunks l /\ Forall (fun b => nonempty b = true) l
  | _ => o = Exn EDisconnect \/ o = Exn EConsumed \/ (o = Exn EUnsupported /\ ~ body_derived ct t)
  end /\
  (reader st = Some t -> full t = true -> o = Exn EDisconnect).
Proof.
  intros st t o I Hd T.
  assert (HR : reader st = Some t -> full t = true -> o = Exn EDisconnect).
  { intros R F. destruct (reader_done st _ _ I R T) as (D & _).
    now apply (rdone_full_disc _ _ _ _ D F (ch_split st I)). }
  split; [|exact HR].
  assert (HB : forall ob, tst st (TS SBody) = TDone ob -> ob = Exn EDisconnect \/ ob = Exn EConsumed).
  { intros ob B. destruct (body_slot_shape st ob I B) as [E|[E|(b & E)]]; auto.
    subst ob. destruct (body_slot_value st _ I B) as (_ & _ & _ & X). congruence. }
  assert (HP : forall p ob, ob = Exn EDisconnect \/ ob = Exn EConsumed ->
               parse_out p ob = Exn EDisconnect \/ parse_out p ob = Exn EConsumed)
    by (intros p ob [-> | ->]; cbn; auto).
  assert (HJ : forall oj, tst st (TS SJson) = TDone oj ->
               oj = Exn EDisconnect \/ oj = Exn EConsumed \/ (oj = Exn EUnsupported /\ ct <> CJson)).
  { intros oj J. pose proof (i_tok st I (TS SJson)) as K. unfold TOk in K. rewrite J in K. cbn in K.
    destruct K as [[C ->]|[_ (ob & B & ->)]]; [auto|]. destruct (HP jparse ob (HB _ B)); auto. }
  assert (HF : forall oj, tst st (TS SForm) = TDone oj ->
               oj = Exn EDisconnect \/ oj = Exn EConsumed \/ (oj = Exn EUnsupported /\ ct <> CForm)).
  { intros oj J. pose proof (i_tok st I (TS SForm)) as K. unfold TOk in K. rewrite J in K. cbn in K.
    destruct K as [[C ->]|[_ (ob & B & ->)]]; [auto|]. destruct (HP fparse ob (HB _ B)); auto. }
  pose proof (i_tok st I t) as K. unfold TOk in K. rewrite T in K.
  destruct t as [[| |]|i [|[[|n]|]| | |]]; cbn in K |- *.
  - destruct (HB _ T); auto.
  - exact (HJ _ T).
  - exact (HF _ T).
  - destruct (HB _ K); auto.
  - intros v ->. injection K as ->. exists []. split; [reflexivity|constructor].
  - intros v ->. destruct K as [R|[K|(ob & B & K)]]; [|discriminate|].
    + destruct (reader_done st _ _ I R T) as (D & _).
      destruct D as [(cm' & b & acc & Hcm & Ho & E)|[(cm' & acc & _ & _ & E)|(cm' & b & more & acc & _ & Ho & Hb & _ & E)]];
        [|discriminate|].
      * exfalso. pose proof (ch_split st I) as S. rewrite Hcm, <- app_assoc in S. rewrite S in Hd.
        rewrite (disc_first_open _ _ _ Ho) in Hd. discriminate.
      * injection E as ->. cbn. eexists. split; [reflexivity|].
        apply Forall_app. split; [now apply (open_acc_nonempty cm')|constructor; auto].
    + symmetry in K. apply replay_val in K as (b & -> & _). destruct (HB _ B); discriminate.
  - destruct K as [R|[K|(ob & B & K)]]; auto.
    rewrite K. destruct (HB _ B) as [-> | ->]; cbn; auto.
  - exact (HJ _ K).
  - exact (HF _ K).
  - exact K.
Qed.

Lemma inv_no_internal : forall st t, Inv st -> tst st t <> TDone (Exn EInternal).
Proof.
  intros st t I T.
  assert (HB : forall ob, tst st (TS SBody) = TDone ob ->
               ob = Exn EConsumed \/ ob = Exn EDisconnect \/ exists b, ob = Val (VBytes b))
    by (intros ob B; now apply (body_slot_shape st)).
  assert (HP : forall p ob, tst st (TS SBody) = TDone ob -> parse_out p ob <> Exn EInternal).
  { intros p ob B. destruct (HB _ B) as [-> |[-> |(b & ->)]]; cbn; try discriminate.
    destruct (p b); discriminate. }
  assert (HRp : forall w ob, tst st (TS SBody) = TDone ob -> replay w ob <> Exn EInternal).
  { intros w ob B. destruct (HB _ B) as [-> |[-> |(b & ->)]]; cbn; discriminate. }
  assert (HRd : forall r, reader st = Some r -> tst st r = TDone (Exn EInternal) -> False).
  { intros r R Tr. destruct (reader_done st _ _ I R Tr) as (D & _).
    destruct D as [(x1 & x2 & x3 & _ & _ & E)|[(x1 & x2 & _ & _ & E)|(x1 & x2 & x3 & x4 & _ & _ & _ & _ & E)]]; discriminate. }
  assert (HJ : tst st (TS SJson) <> TDone (Exn EInternal)).
  { intro J. pose proof (i_tok st I (TS SJson)) as K. unfold TOk in K. rewrite J in K. cbn in K.
    destruct K as [[_ K]|[_ (ob & B & K)]]; [discriminate|]. symmetry in K. revert K. apply HP; exact B. }
  assert (HF : tst st (TS SForm) <> TDone (Exn EInternal)).
  { intro J. pose proof (i_tok st I (TS SForm)) as K. unfold TOk in K. rewrite J in K. cbn in K.
    destruct K as [[_ K]|[_ (ob & B & K)]]; [discriminate|]. symmetry in K. revert K. apply HP; exact B. }
  pose proof (i_tok st I t) as K. unfold TOk in K. rewrite T in K.
  destruct t as [[| |]|i [|[[|n]|]| | |]]; cbn in K; try contradiction; try discriminate.
  - destruct K as [K|K]; [eauto|discriminate].
  - destruct (HB _ K) as [E|[E|(b & E)]]; discriminate.
  - destruct K as [R|[K|(ob & B & K)]]; [eauto|discriminate|]. symmetry in K. revert K. now apply HRp.
  - destruct K as [R|[K|(ob & B & K)]]; [eauto|discriminate|]. symmetry in K. revert K. now apply HRp.
Qed.

End Inv.

(* ====================================================================== *)
(* Part B — WSGI                                                          *)

Definition ne (p : bytes) : Prop := nonempty p = true.

Lemma nonempty_len : forall p, nonempty p = true <-> 0 < length p.
Proof. destruct p; cbn; split; intro H; try discriminate; try lia; reflexivity. Qed.

Lemma wread_spec : forall cs inp c inp1,
  Forall ne inp -> wread cs inp = (c, inp1) ->
  c ++ concat inp1 = concat inp /\ Forall ne inp1 /\
  (nonempty c = true -> total inp1 < total inp) /\
  (nonempty c = false -> inp1 = inp /\ (inp = [] \/ cs = 0%N)).
Proof.
  intros cs inp c inp1 F R. unfold wread in R. destruct inp as [|p r].
  - injection R as <- <-. cbn. repeat split; auto; discriminate.
  - inversion F as [|? ? Hp Hr]; subst. apply nonempty_len in Hp.
    destruct (N.leb_spec (N.of_nat (length p)) cs) as [L|L]; injection R as <- <-.
    + cbn. split; [reflexivity|]. split; [exact Hr|]. split.
      * intros _. unfold total. cbn. rewrite app_length. lia.
      * intro H. apply not_true_iff_false in H. elim H. now apply nonempty_len.
    + assert (K : N.to_nat cs < length p) by lia.
      cbn. rewrite app_assoc, firstn_skipn. split; [reflexivity|]. split; [|split].
      * constructor; auto. apply nonempty_len. rewrite skipn_length. lia.
      * intro H. apply nonempty_len in H. rewrite firstn_length in H.
        unfold total. cbn. rewrite !app_length, skipn_length. lia.
      * intro H. destruct (N.to_nat cs) eqn:E.
        -- split; [reflexivity|]. right. lia.
        -- apply not_true_iff_false in H. elim H. apply nonempty_len. rewrite firstn_length. lia.
Qed.

Lemma wloop_conserve : forall fuel cs w inp acc reads items inp' n,
  Forall ne inp -> wloop fuel cs w inp acc reads = (items, inp', n) ->
  concat items ++ concat inp' = concat acc ++ concat inp /\ Forall ne inp' /\
  (exists more, items = acc ++ more /\ Forall ne more).
Proof.
  induction fuel as [|f IH]; intros cs w inp acc reads items inp' n F H; cbn in H.
  - injection H as <- <- <-. repeat split; auto. exists []. now rewrite app_nil_r.
  - destruct (wread cs inp) as [c inp1] eqn:R.
    destruct (wread_spec _ _ _ _ F R) as (E & F1 & _ & Hz).
    destruct (nonempty c) eqn:Nc.
    + assert (Step : concat (acc ++ [c]) ++ concat inp1 = concat acc ++ concat inp).
      { rewrite concat_app. cbn. rewrite app_nil_r, <- app_assoc. now rewrite E. }
      destruct w as [[|k]|].
      * injection H as <- <- <-. repeat split; auto. exists [c]. split; auto.
      * destruct (IH _ _ _ _ _ _ _ _ F1 H) as (A & B & (more & -> & Fm)). rewrite A, Step.
        repeat split; auto. exists (c :: more). rewrite <- app_assoc. split; auto.
      * destruct (IH _ _ _ _ _ _ _ _ F1 H) as (A & B & (more & -> & Fm)). rewrite A, Step.
        repeat split; auto. exists (c :: more). rewrite <- app_assoc. split; auto.
    + injection H as <- <- <-. destruct (Hz eq_refl) as [-> _]. repeat split; auto.
      exists []. now rewrite app_nil_r.
Qed.

Lemma wloop_full : forall fuel cs inp acc reads items inp' n,
  (0 < cs)%N -> Forall ne inp -> total inp < fuel ->
  wloop fuel cs None inp acc reads = (items, inp', n) -> inp' = [].
Proof.
  induction fuel as [|f IH]; intros cs inp acc reads items inp' n C F L H; [lia|]. cbn in H.
  destruct (wread cs inp) as [c inp1] eqn:R.
  destruct (wread_spec _ _ _ _ F R) as (E & F1 & Hlt & Hz).
  destruct (nonempty c) eqn:Nc.
  - apply (IH _ _ _ _ _ _ _ C F1) in H; auto. specialize (Hlt eq_refl). lia.
  - injection H as <- <- <-. destruct (Hz eq_refl) as [-> [-> |Z]]; [reflexivity|lia].
Qed.

Section WInv.
Variable ct : ctype.
Variables jparse fparse : bytes -> pres.
Variable pieces : list bytes.
Hypothesis pieces_ne : Forall ne pieces.
Let B := concat pieces.

Record WInv (st : wstate) : Prop := mkWInv {
  wi_cons : concat (w_got st) ++ concat (w_input st) = B;
  wi_ne : Forall ne (w_input st);
  wi_fresh : w_consumed st = false -> w_input st = pieces /\ w_reads st = [] /\ w_got st = [] /\ w_reader st = None;
  wi_body : forall b, w_body st = Some b -> b = B /\ w_consumed st = true;
  wi_json : forall r c, w_json st = Some (r, c) -> ct = CJson /\ jparse B = POk r c /\ w_body st = Some B;
  wi_form : forall r c, w_form st = Some (r, c) -> ct = CForm /\ fparse B = POk r c /\ w_body st = Some B
}.

Lemma winv_init : WInv (winit pieces).
Proof. constructor; cbn; auto; try discriminate. Qed.

(* the two settled situations *)
Definition S_ok (st : wstate) : Prop := w_body st = Some B.
Definition S_bad (st : wstate) : Prop := w_consumed st = true /\ w_body st = None.

Lemma wstream_spec : forall st w cs st1 o,
  WInv st -> wstream st w cs = (st1, o) ->
  WInv st1 /\ w_body st1 = w_body st /\ w_json st1 = w_json st /\ w_form st1 = w_form st /\ w_n st1 = w_n st /\
  ( (w_body st = Some B /\ st1 = st /\ o = Val (VChunks [B]))
    \/ (S_bad st /\ st1 = st /\ o = Exn EConsumed)
    \/ (w_consumed st = false /\ w_consumed st1 = true /\ w_reader st1 = Some (w_n st) /\
        exists items, o = Val (VChunks items) /\ Forall ne items /\
          concat items ++ concat (w_input st1) = B /\
          (w = None -> (0 < cs)%N -> w_input st1 = []) ) ).
Proof.
  intros st w cs st1 o I H. unfold wstream in H.
  destruct (w_body st) as [b|] eqn:Bd.
  - injection H as <- <-. destruct (wi_body st I b Bd) as [-> _].
    split; [exact I|]. do 4 (split; [first [reflexivity|assumption]|]). left. auto.
  - destruct (w_consumed st) eqn:C.
    + injection H as <- <-. split; [exact I|]. do 4 (split; [first [reflexivity|assumption]|]). right. left. unfold S_bad. auto.
    + destruct (wloop (S (total (w_input st))) cs w (w_input st) [] 0) as [[items inp'] n] eqn:L.
      injection H as <- <-.
      destruct (wloop_conserve _ _ _ _ _ _ _ _ _ (wi_ne st I) L) as (A & F' & (more & E & Fm)).
      cbn in A, E. subst more.
      destruct (wi_fresh st I C) as (E1 & E2 & E3 & E4).
      assert (Hc : concat items ++ concat inp' = B) by (rewrite A, E1; reflexivity).
      split; [|cbn; do 4 (split; [first [reflexivity|assumption]|])].
      * destruct I as [Hcons Hne Hfr Hb Hj Hf]. constructor; cbn.
        -- now rewrite E3.
        -- exact F'.
        -- discriminate.
        -- intros b H0. discriminate.
        -- intros r c H0. destruct (Hj r c H0) as (_ & _ & X). congruence.
        -- intros r c H0. destruct (Hf r c H0) as (_ & _ & X). congruence.
      * right. right. split; [reflexivity|]. split; [reflexivity|]. split; [reflexivity|].
        exists items. split; [reflexivity|]. split; [exact Fm|]. split; [exact Hc|].
        intros -> Hcs. apply (wloop_full _ _ _ _ _ _ _ _ Hcs (wi_ne st I)) in L; auto.
Qed.

Lemma wbody_spec : forall st st1 o,
  WInv st -> wbody st = (st1, o) ->
  WInv st1 /\ w_json st1 = w_json st /\ w_form st1 = w_form st /\ w_n st1 = w_n st /\
  ( (S_ok st1 /\ o = Val (VBytes B) /\ (S_ok st -> st1 = st) /\ (S_ok st \/ w_consumed st = false))
    \/ (S_bad st /\ st1 = st /\ o = Exn EConsumed) ).
Proof.
  intros st st1 o I H. unfold wbody in H.
  destruct (w_body st) as [b|] eqn:Bd.
  - injection H as <- <-. destruct (wi_body st I b Bd) as [-> _].
    split; [exact I|]. do 3 (split; [first [reflexivity|assumption]|]). left. unfold S_ok. auto.
  - destruct (wstream st None 65536) as [st2 o2] eqn:W.
    destruct (wstream_spec _ _ _ _ _ I W) as (I2 & E1 & E2 & E3 & E4 & Cases).
    destruct Cases as [(X & _)|[(Sb & -> & ->)|(C & C2 & Rd & items & -> & Fi & Hc & Hfull)]].
    + congruence.
    + injection H as <- <-. split; [exact I|]. do 3 (split; [first [reflexivity|assumption]|]). right. auto.
    + injection H as <- <-. specialize (Hfull eq_refl eq_refl). rewrite Hfull in Hc. cbn in Hc.
      rewrite app_nil_r in Hc. rewrite Hc.
      split; [|cbn; do 3 (split; [assumption|])].
      * destruct I2 as [Hcons Hne Hfr Hb Hj Hf]. constructor; cbn; auto.
        -- intros b H0. injection H0 as <-. auto.
        -- intros r c H0. destruct (Hj r c H0) as (X1 & X2 & X3). congruence.
        -- intros r c H0. destruct (Hf r c H0) as (X1 & X2 & X3). congruence.
      * left. unfold S_ok. cbn. split; [reflexivity|]. split; [reflexivity|]. split; [intro S; congruence|now right].
Qed.

Definition ans_ok (a : wkind) : outcome :=
  match a with
  | WBody => Val (VBytes B)
  | WJson => match ct with CJson => parse_out jparse (Val (VBytes B)) | _ => Exn EUnsupported end
  | WForm => match ct with CForm => parse_out fparse (Val (VBytes B)) | _ => Exn EUnsupported end
  | WStream (Some 0) _ => Val (VChunks [])
  | WStream _ _ => Val (VChunks [B])
  | WClose => Val VNone
  end.

Definition ans_bad (a : wkind) : outcome :=
  match a with
  | WBody => Exn EConsumed
  | WJson => match ct with CJson => Exn EConsumed | _ => Exn EUnsupported end
  | WForm => match ct with CForm => Exn EConsumed | _ => Exn EUnsupported end
  | WStream (Some 0) _ => Val (VChunks [])
  | WStream _ _ => Exn EConsumed
  | WClose => Val VNone
  end.

Lemma wjson_spec : forall st st1 o,
  WInv st -> wjson ct jparse st = (st1, o) ->
  WInv st1 /\ w_n st1 = w_n st /\
  ( (ct = CJson /\ S_ok st1 /\ o = ans_ok WJson /\ (S_ok st \/ w_consumed st = false))
    \/ (ct = CJson /\ S_bad st /\ st1 = st /\ o = Exn EConsumed)
    \/ (ct <> CJson /\ st1 = st /\ o = Exn EUnsupported) ).
Proof.
  intros st st1 o I H. unfold wjson in H.
  destruct (w_json st) as [[r c]|] eqn:J.
  - injection H as <- <-. destruct (wi_json st I r c J) as (C & P & Bd).
    split; [exact I|]. split; [reflexivity|]. left. split; [exact C|]. split; [exact Bd|]. split; [unfold ans_ok; rewrite C; cbn; now rewrite P|now left].
  - destruct ct eqn:C.
    2,3: injection H as <- <-; split; [exact I|]; split; [reflexivity|]; right; right;
         split; [discriminate|auto].
    destruct (wbody st) as [st2 o2] eqn:W.
    destruct (wbody_spec _ _ _ I W) as (I2 & E2 & E3 & E4 & Cases).
    destruct Cases as [(S & -> & _ & Hpre)|(Sb & -> & ->)].
    + destruct (jparse B) as [e|r c] eqn:P.
      * injection H as <- <-. split; [exact I2|]. split; [exact E4|]. left.
        split; [reflexivity|]. split; [exact S|]. split; [unfold ans_ok; rewrite C; cbn; now rewrite P|exact Hpre].
      * injection H as <- <-. split; [|cbn; split; [exact E4|]].
        -- destruct I2 as [Hcons Hne Hfr Hb Hj Hf]. constructor; cbn; auto.
           intros r0 c0 H0. injection H0 as <- <-. auto.
        -- left. split; [reflexivity|]. split; [exact S|]. split; [unfold ans_ok; rewrite C; cbn; now rewrite P|exact Hpre].
    + injection H as <- <-. split; [exact I|]. split; [reflexivity|]. right. left. auto.
Qed.

Lemma wform_spec : forall st st1 o,
  WInv st -> wform ct fparse st = (st1, o) ->
  WInv st1 /\ w_n st1 = w_n st /\
  ( (ct = CForm /\ S_ok st1 /\ o = ans_ok WForm /\ (S_ok st \/ w_consumed st = false))
    \/ (ct = CForm /\ S_bad st /\ st1 = st /\ o = Exn EConsumed)
    \/ (ct <> CForm /\ st1 = st /\ o = Exn EUnsupported) ).
Proof.
  intros st st1 o I H. unfold wform in H.
  destruct (w_form st) as [[r c]|] eqn:J.
  - injection H as <- <-. destruct (wi_form st I r c J) as (C & P & Bd).
    split; [exact I|]. split; [reflexivity|]. left. split; [exact C|]. split; [exact Bd|]. split; [unfold ans_ok; rewrite C; cbn; now rewrite P|now left].
  - destruct ct eqn:C.
    1,3: injection H as <- <-; split; [exact I|]; split; [reflexivity|]; right; right;
         split; [discriminate|auto].
    destruct (wbody st) as [st2 o2] eqn:W.
    destruct (wbody_spec _ _ _ I W) as (I2 & E2 & E3 & E4 & Cases).
    destruct Cases as [(S & -> & _ & Hpre)|(Sb & -> & ->)].
    + destruct (fparse B) as [e|r c] eqn:P.
      * injection H as <- <-. split; [exact I2|]. split; [exact E4|]. left.
        split; [reflexivity|]. split; [exact S|]. split; [unfold ans_ok; rewrite C; cbn; now rewrite P|exact Hpre].
      * injection H as <- <-. split; [|cbn; split; [exact E4|]].
        -- destruct I2 as [Hcons Hne Hfr Hb Hj Hf]. constructor; cbn; auto.
           intros r0 c0 H0. injection H0 as <- <-. auto.
        -- left. split; [reflexivity|]. split; [exact S|]. split; [unfold ans_ok; rewrite C; cbn; now rewrite P|exact Hpre].
    + injection H as <- <-. split; [exact I|]. split; [reflexivity|]. right. left. auto.
Qed.

Lemma winv_bump : forall p, WInv (fst p) -> WInv (fst (wbump p)).
Proof. intros [st o] [Hcons Hne Hfr Hb Hj Hf]. constructor; cbn in *; auto. Qed.

Lemma ok_not_bad : forall st, S_ok st -> S_bad st -> False.
Proof. intros st A [_ C]. unfold S_ok in A. congruence. Qed.

Lemma ok_consumed : forall st, WInv st -> S_ok st -> w_consumed st = true.
Proof. intros st I S. now destruct (wi_body st I B S). Qed.

(* one access: the invariant, and what a settled state answers *)
Lemma wstep_spec : forall st a,
  WInv st ->
  WInv (fst (wstep ct jparse fparse st a)) /\
  (S_ok st -> S_ok (fst (wstep ct jparse fparse st a)) /\ snd (wstep ct jparse fparse st a) = ans_ok a) /\
  (S_bad st -> S_bad (fst (wstep ct jparse fparse st a)) /\ snd (wstep ct jparse fparse st a) = ans_bad a).
Proof.
  intros st a I. unfold wstep.
  assert (Hstream : forall w cs,
    let p := wstream st w cs in
    WInv (fst (wbump p)) /\
    (S_ok st -> S_ok (fst (wbump p)) /\ snd (wbump p) = Val (VChunks [B])) /\
    (S_bad st -> S_bad (fst (wbump p)) /\ snd (wbump p) = Exn EConsumed)).
  { intros w cs. cbn zeta. destruct (wstream st w cs) as [st1 o] eqn:W.
    destruct (wstream_spec _ _ _ _ _ I W) as (I1 & E1 & _ & _ & _ & Cases).
    split; [now apply winv_bump|].
    destruct Cases as [(Bd & -> & ->)|[(Sb & -> & ->)|(C & C1 & _)]].
    - split; [intros _; cbn; auto|]. intro Sb. elim (ok_not_bad st); auto.
    - split; [intro S; elim (ok_not_bad st); auto|]. intros _. cbn. auto.
    - split; [intro S; rewrite (ok_consumed st I S) in C; discriminate|].
      intros [C' _]. congruence. }
  destruct a as [|[[|n]|] cs| | |].
  - destruct (wbody st) as [st1 o] eqn:W.
    destruct (wbody_spec _ _ _ I W) as (I1 & _ & _ & _ & Cases).
    split; [now apply winv_bump|].
    destruct Cases as [(S1 & -> & _ & Hpre)|(Sb & -> & ->)].
    + split; [intros _; cbn; auto|]. intros [C Bd].
      destruct Hpre as [S|C']; [unfold S_ok in S|]; congruence.
    + split; [intro S; elim (ok_not_bad st); auto|]. intros _. cbn. auto.
  - split; [now apply winv_bump|]. cbn. auto.
  - apply Hstream.
  - apply Hstream.
  - destruct (wjson ct jparse st) as [st1 o] eqn:W.
    destruct (wjson_spec _ _ _ I W) as (I1 & _ & Cases).
    split; [now apply winv_bump|].
    destruct Cases as [(C & S1 & -> & Hpre)|[(C & Sb & -> & ->)|(C & -> & ->)]].
    + split; [intros _; cbn; auto|]. intros [C' Bd].
      destruct Hpre as [S|C'']; [unfold S_ok in S|]; congruence.
    + split; [intro S; elim (ok_not_bad st); auto|]. intros _. cbn. unfold ans_bad. rewrite C. auto.
    + split; intro S; (split; [exact S|]); cbn; unfold ans_ok, ans_bad; destruct ct; congruence.
  - destruct (wform ct fparse st) as [st1 o] eqn:W.
    destruct (wform_spec _ _ _ I W) as (I1 & _ & Cases).
    split; [now apply winv_bump|].
    destruct Cases as [(C & S1 & -> & Hpre)|[(C & Sb & -> & ->)|(C & -> & ->)]].
    + split; [intros _; cbn; auto|]. intros [C' Bd].
      destruct Hpre as [S|C'']; [unfold S_ok in S|]; congruence.
    + split; [intro S; elim (ok_not_bad st); auto|]. intros _. cbn. unfold ans_bad. rewrite C. auto.
    + split; intro S; (split; [exact S|]); cbn; unfold ans_ok, ans_bad; destruct ct; congruence.
  - split; [now apply winv_bump|]. cbn. auto.
Qed.

Lemma wexec_fst : forall acs st,
  WInv st ->
  WInv (fst (wexec ct jparse fparse acs st)) /\
  (S_ok st -> S_ok (fst (wexec ct jparse fparse acs st))) /\
  (S_bad st -> S_bad (fst (wexec ct jparse fparse acs st))).
Proof.
  induction acs as [|a acs IH]; intros st I; cbn [wexec]; [cbn; auto|].
  destruct (wstep ct jparse fparse st a) as [st1 o] eqn:W.
  destruct (wstep_spec st a I) as (I1 & Hok & Hbad). rewrite W in I1, Hok, Hbad. cbn in I1, Hok, Hbad.
  destruct (wexec ct jparse fparse acs st1) as [st2 os] eqn:X.
  destruct (IH st1 I1) as (I2 & Hok2 & Hbad2). rewrite X in I2, Hok2, Hbad2. cbn in *.
  split; [exact I2|]. split; intro S; [apply Hok2; now apply Hok|apply Hbad2; now apply Hbad].
Qed.


(* after the first access of a cached property the state is settled, or the
   property is refused for its content type whatever the state *)
Lemma wstep_settles : forall st a,
  WInv st -> wslot a = true ->
  let st1 := fst (wstep ct jparse fparse st a) in
  let o := snd (wstep ct jparse fparse st a) in
  (S_ok st1 /\ o = ans_ok a) \/ (S_bad st1 /\ o = ans_bad a)
  \/ (o = Exn EUnsupported /\ ans_ok a = Exn EUnsupported /\ ans_bad a = Exn EUnsupported /\
      forall st', WInv st' -> snd (wstep ct jparse fparse st' a) = Exn EUnsupported).
Proof.
  intros st a I K. cbn zeta. unfold wstep. destruct a as [|w cs| | |]; try discriminate.
  - destruct (wbody st) as [st1 o] eqn:W.
    destruct (wbody_spec _ _ _ I W) as (_ & _ & _ & _ & Cases).
    destruct Cases as [(S1 & -> & _)|(Sb & -> & ->)]; cbn; auto.
  - destruct (wjson ct jparse st) as [st1 o] eqn:W.
    destruct (wjson_spec _ _ _ I W) as (_ & _ & Cases).
    destruct Cases as [(C & S1 & -> & _)|[(C & Sb & -> & ->)|(C & -> & ->)]]; cbn; auto.
    + right. left. unfold ans_bad. rewrite C. auto.
    + right. right. split; [reflexivity|]. unfold ans_ok, ans_bad.
      split; [destruct ct; congruence|]. split; [destruct ct; congruence|].
      intros st' I'. destruct (wjson ct jparse st') as [st2 o2] eqn:W'.
      destruct (wjson_spec _ _ _ I' W') as (_ & _ & [(C' & _)|[(C' & _)|(_ & _ & ->)]]); try congruence. reflexivity.
  - destruct (wform ct fparse st) as [st1 o] eqn:W.
    destruct (wform_spec _ _ _ I W) as (_ & _ & Cases).
    destruct Cases as [(C & S1 & -> & _)|[(C & Sb & -> & ->)|(C & -> & ->)]]; cbn; auto.
    + right. left. unfold ans_bad. rewrite C. auto.
    + right. right. split; [reflexivity|]. unfold ans_ok, ans_bad.
      split; [destruct ct; congruence|]. split; [destruct ct; congruence|].
      intros st' I'. destruct (wform ct fparse st') as [st2 o2] eqn:W'.
      destruct (wform_spec _ _ _ I' W') as (_ & _ & [(C' & _)|[(C' & _)|(_ & _ & ->)]]); try congruence. reflexivity.
Qed.

Lemma w_cache_stable_proof : forall acs1 a acs2,
  wslot a = true ->
  let st1 := fst (wexec ct jparse fparse acs1 (winit pieces)) in
  let st2 := fst (wstep ct jparse fparse st1 a) in
  let st3 := fst (wexec ct jparse fparse acs2 st2) in
  snd (wstep ct jparse fparse st3 a) = snd (wstep ct jparse fparse st1 a).
Proof.
  intros acs1 a acs2 K. cbn zeta.
  destruct (wexec_fst acs1 (winit pieces) winv_init) as (I1 & _).
  set (st1 := fst (wexec ct jparse fparse acs1 (winit pieces))) in *.
  destruct (wstep_spec st1 a I1) as (I2 & _).
  destruct (wstep_settles st1 a I1 K) as [(S & E)|[(S & E)|(E & _ & _ & Hall)]].
  - destruct (wexec_fst acs2 _ I2) as (I3 & Hok & _). specialize (Hok S).
    destruct (wstep_spec _ a I3) as (_ & H & _). destruct (H Hok) as (_ & ->). now rewrite E.
  - destruct (wexec_fst acs2 _ I2) as (I3 & _ & Hbad). specialize (Hbad S).
    destruct (wstep_spec _ a I3) as (_ & _ & H). destruct (H Hbad) as (_ & ->). now rewrite E.
  - destruct (wexec_fst acs2 _ I2) as (I3 & _). rewrite E. now apply Hall.
Qed.

Lemma w_no_more_reads : forall st a,
  w_consumed st = true ->
  let st1 := fst (wstep ct jparse fparse st a) in
  w_reads st1 = w_reads st /\ w_input st1 = w_input st /\ w_got st1 = w_got st /\ w_consumed st1 = true.
Proof.
  intros st a C. cbn zeta.
  assert (HS : forall w cs, let p := wstream st w cs in
            w_reads (fst p) = w_reads st /\ w_input (fst p) = w_input st /\ w_got (fst p) = w_got st /\
            w_consumed (fst p) = true /\ (forall items, snd p = Val (VChunks items) -> w_body st <> None)).
  { intros w cs. cbn zeta. unfold wstream. rewrite C. destruct (w_body st); cbn; repeat split; auto; discriminate. }
  assert (HB : let p := wbody st in
            w_reads (fst p) = w_reads st /\ w_input (fst p) = w_input st /\ w_got (fst p) = w_got st /\
            w_consumed (fst p) = true).
  { cbn zeta. unfold wbody. destruct (w_body st) eqn:Bd; [cbn; auto|].
    destruct (HS None 65536%N) as (A1 & A2 & A3 & A4 & A5). cbn zeta in *.
    destruct (wstream st None 65536) as [st2 [[b|l|r c|]|e]]; cbn in *; auto. }
  unfold wstep. destruct a as [|[[|n]|] cs| | |]; cbn [wbump fst w_reads w_input w_got w_consumed]; auto.
  - destruct (HS (Some n) cs) as (A1 & A2 & A3 & A4 & _). auto.
  - destruct (HS None cs) as (A1 & A2 & A3 & A4 & _). auto.
  - unfold wjson. destruct (w_json st) as [[r c]|]; [cbn; auto|]. destruct ct; cbn; auto.
    destruct HB as (A1 & A2 & A3 & A4). cbn zeta in *.
    destruct (wbody st) as [st2 [[b|l|r c|]|e]]; cbn in *; auto.
    destruct (jparse b); cbn; auto.
  - unfold wform. destruct (w_form st) as [[r c]|]; [cbn; auto|]. destruct ct; cbn; auto.
    destruct HB as (A1 & A2 & A3 & A4). cbn zeta in *.
    destruct (wbody st) as [st2 [[b|l|r c|]|e]]; cbn in *; auto.
    destruct (fparse b); cbn; auto.
Qed.

Lemma w_reach : forall acs, WInv (fst (wexec ct jparse fparse acs (winit pieces))).
Proof. intro acs. now destruct (wexec_fst acs (winit pieces) winv_init). Qed.

Lemma w_single_reader_proof : forall acs,
  let st := fst (wexec ct jparse fparse acs (winit pieces)) in
  concat (w_got st) ++ concat (w_input st) = concat pieces /\
  (w_consumed st = false -> w_reads st = [] /\ w_input st = pieces) /\
  (w_consumed st = true -> forall a,
     let st1 := fst (wstep ct jparse fparse st a) in
     w_reads st1 = w_reads st /\ w_input st1 = w_input st /\ w_consumed st1 = true).
Proof.
  intro acs. cbn zeta. pose proof (w_reach acs) as I.
  split; [apply (wi_cons _ I)|]. split.
  - intro C. destruct (wi_fresh _ I C) as (A & B0 & _). auto.
  - intros C a. destruct (w_no_more_reads _ a C) as (A1 & A2 & _ & A4). auto.
Qed.

Lemma w_body_is_concat_proof : forall acs,
  let st := fst (wexec ct jparse fparse acs (winit pieces)) in
  (forall b, w_body st = Some b -> b = concat pieces) /\
  (forall v, snd (wstep ct jparse fparse st WBody) = Val v -> v = VBytes (concat pieces)) /\
  (forall cs v, (0 < cs)%N -> snd (wstep ct jparse fparse st (WStream None cs)) = Val v ->
     exists items, v = VChunks items /\ concat items = concat pieces) /\
  (forall v, snd (wstep ct jparse fparse st WJson) = Val v ->
     exists r c, jparse (concat pieces) = POk r c /\ v = VParsed r c) /\
  (forall v, snd (wstep ct jparse fparse st WForm) = Val v ->
     exists r c, fparse (concat pieces) = POk r c /\ v = VParsed r c).
Proof.
  intro acs. cbn zeta. pose proof (w_reach acs) as I.
  set (st := fst (wexec ct jparse fparse acs (winit pieces))) in *.
  split; [intros b H; now destruct (wi_body st I b H)|]. split; [|split; [|split]].
  - intros v H. destruct (wstep_settles st WBody I eq_refl) as [(_ & E)|[(_ & E)|(E & _)]];
      rewrite E in H; cbn in H; [injection H as <-; reflexivity|discriminate|discriminate].
  - intros cs v Hcs H. unfold wstep in H. cbn [wbump snd] in H.
    destruct (wstream st None cs) as [st1 o] eqn:W. cbn in H. subst o.
    destruct (wstream_spec _ _ _ _ _ I W) as (_ & _ & _ & _ & _ & Cases).
    destruct Cases as [(_ & _ & E)|[(_ & _ & E)|(_ & _ & _ & items & E & Fi & Hc & Hfull)]]; try discriminate.
    + injection E as ->. exists [B]. cbn. rewrite app_nil_r. auto.
    + injection E as ->. exists items. rewrite (Hfull eq_refl Hcs) in Hc. cbn in Hc. rewrite app_nil_r in Hc. auto.
  - intros v H. destruct (wstep_settles st WJson I eq_refl) as [(_ & E)|[(_ & E)|(E & _)]];
      rewrite E in H; [|unfold ans_bad in H; destruct ct; discriminate|discriminate].
    unfold ans_ok in H. destruct ct; try discriminate.
    apply parse_out_val in H as (b & r & c & Eb & P & ->). injection Eb as <-. eauto.
  - intros v H. destruct (wstep_settles st WForm I eq_refl) as [(_ & E)|[(_ & E)|(E & _)]];
      rewrite E in H; [|unfold ans_bad in H; destruct ct; discriminate|discriminate].
    unfold ans_ok in H. destruct ct; try discriminate.
    apply parse_out_val in H as (b & r & c & Eb & P & ->). injection Eb as <-. eauto.
Qed.

Lemma w_stream_after_body_proof : forall acs1 acs2 b w cs,
  let st1 := fst (wexec ct jparse fparse acs1 (winit pieces)) in
  snd (wstep ct jparse fparse st1 WBody) = Val (VBytes b) ->
  let st3 := fst (wexec ct jparse fparse acs2 (fst (wstep ct jparse fparse st1 WBody))) in
  snd (wstep ct jparse fparse st3 (WStream w cs)) = Val (VChunks (match w with Some 0 => [] | _ => [b] end)) /\
  w_reads (fst (wstep ct jparse fparse st3 (WStream w cs))) = w_reads st3 /\
  b = concat pieces.
Proof.
  intros acs1 acs2 b w cs. cbn zeta. intro H.
  pose proof (w_reach acs1) as I1.
  set (st1 := fst (wexec ct jparse fparse acs1 (winit pieces))) in *.
  destruct (wstep_spec st1 WBody I1) as (I2 & _).
  assert (S2 : S_ok (fst (wstep ct jparse fparse st1 WBody)) /\ b = B).
  { destruct (wstep_settles st1 WBody I1 eq_refl) as [(S & E)|[(_ & E)|(E & _)]];
      rewrite E in H; cbn in H; try discriminate. injection H as <-. auto. }
  destruct S2 as [S2 ->].
  destruct (wexec_fst acs2 _ I2) as (I3 & Hok & _). specialize (Hok S2).
  destruct (wstep_spec _ (WStream w cs) I3) as (_ & H3 & _). destruct (H3 Hok) as (_ & ->).
  destruct (w_no_more_reads _ (WStream w cs) (ok_consumed _ I3 Hok)) as (R & _).
  split; [destruct w as [[|n]|]; reflexivity|]. split; [exact R|reflexivity].
Qed.


Lemma w_body_after_stream_proof : forall acs1 acs2 w cs a,
  w <> Some 0 ->
  let st1 := fst (wexec ct jparse fparse acs1 (winit pieces)) in
  w_consumed st1 = false ->
  let st3 := fst (wexec ct jparse fparse acs2 (fst (wstep ct jparse fparse st1 (WStream w cs)))) in
  wderived ct a -> snd (wstep ct jparse fparse st3 a) = Exn EConsumed.
Proof.
  intros acs1 acs2 w cs a Hw. cbn zeta. intros C D.
  pose proof (w_reach acs1) as I1.
  set (st1 := fst (wexec ct jparse fparse acs1 (winit pieces))) in *.
  destruct (wstep_spec st1 (WStream w cs) I1) as (I2 & _).
  assert (S2 : S_bad (fst (wstep ct jparse fparse st1 (WStream w cs)))).
  { assert (Bn : w_body st1 = None).
    { destruct (w_body st1) as [b|] eqn:Bd; [|reflexivity]. destruct (wi_body st1 I1 b Bd). congruence. }
    assert (K : forall w', S_bad (fst (wbump (wstream st1 w' cs)))).
    { intro w'. destruct (wstream st1 w' cs) as [st2 o] eqn:W.
      destruct (wstream_spec _ _ _ _ _ I1 W) as (_ & E1 & _ & _ & _ & Cases).
      destruct Cases as [(X & _)|[([X _] & _)|(_ & C2 & _)]]; try congruence.
      split; cbn; congruence. }
    unfold wstep. destruct w as [[|n]|]; [congruence|apply K|apply K]. }
  destruct (wexec_fst acs2 _ I2) as (I3 & _ & Hbad). specialize (Hbad S2).
  destruct (wstep_spec _ a I3) as (_ & _ & H3). destruct (H3 Hbad) as (_ & ->).
  destruct a as [|w0 cs0| | |]; cbn in D |- *; try contradiction; auto; unfold ans_bad; now rewrite D.
Qed.

End WInv.

(* ====================================================================== *)
(* The statements of Properties.v, from the initial state                 *)

Section Final.
Variable ct : ctype.
Variables jparse fparse : bytes -> pres.
Variable ch : list msg.

Let reach (evs : list event) : state := exec ct jparse fparse evs (init ch).

Lemma reach_inv : forall evs, Inv ct jparse fparse ch (reach evs).
Proof. intro evs. apply exec_inv. apply inv_init. Qed.

Lemma single_reader_proof : forall evs,
  let st := exec ct jparse fparse evs (init ch) in
  map snd (log st) ++ avail st ++ pend st = ch /\
  (forall x y, In x (log st) -> In y (log st) -> fst x = fst y) /\
  length (rwait st) <= 1 /\
  rcount st = length (log st) + length (rwait st) /\
  rcount st <= S (length ch) /\
  (has_term ch = true -> rcount st <= need ch).
Proof. intro evs. apply (inv_single_reader ct jparse fparse ch). apply reach_inv. Qed.

Lemma body_is_concat_proof : forall evs t v,
  let st := exec ct jparse fparse evs (init ch) in
  tst st t = TDone (Val v) ->
  match t with
  | TS SBody | TA _ KBody => exists b, v = VBytes b /\ body_of ch = Some b /\ disc_first ch = false
  | TS SJson | TA _ KJson =>
      exists b r c, body_of ch = Some b /\ disc_first ch = false /\ ct = CJson /\ jparse b = POk r c /\ v = VParsed r c
  | TS SForm | TA _ KForm =>
      exists b r c, body_of ch = Some b /\ disc_first ch = false /\ ct = CForm /\ fparse b = POk r c /\ v = VParsed r c
  | TA _ (KStream None) => exists l, v = VChunks l /\ body_of ch = Some (concat l) /\ disc_first ch = false
  | TA _ (KStream (Some _)) => exists l, v = VChunks l
  | TA _ KClose => v = VNone
  end.
Proof. intros evs t v. cbn zeta. apply value_source. apply reach_inv. Qed.

Lemma cache_stable_proof : forall evs evs',
  let st := exec ct jparse fparse evs (init ch) in
  let st' := exec ct jparse fparse evs' st in
  (forall t o, tst st t = TDone o -> tst st' t = TDone o) /\
  (forall i j k o o', slot_kind k = true ->
     tst st' (TA i k) = TDone o -> tst st' (TA j k) = TDone o' -> o = o').
Proof.
  intros evs evs'. cbn zeta. split.
  - apply (exec_ext ct jparse fparse ch). apply reach_inv.
  - intros i j k o o' K. apply (inv_cache_agree ct jparse fparse ch); auto.
    apply exec_inv. apply reach_inv.
Qed.

Lemma stream_after_body_replays_proof : forall evs evs' i kw ob,
  let st := exec ct jparse fparse evs (init ch) in
  let st' := exec ct jparse fparse evs' st in
  let t := TA i (KStream kw) in
  tst st (TS SBody) = TDone ob ->
  (tst st t = TAbsent \/ tst st t = TNew) ->
  (forall o, tst st' t = TDone o -> o = stream_replay kw ob) /\
  (tst st t = TNew ->
     let st1 := run ct jparse fparse st t in
     tst st1 t = TDone (stream_replay kw ob) /\
     rcount st1 = rcount st /\ log st1 = log st /\ avail st1 = avail st /\ pend st1 = pend st).
Proof.
  intros evs evs' i kw ob. cbn zeta. intros B H. split.
  - intros o T.
    assert (P : RP i kw ob (exec ct jparse fparse evs (init ch))) by (split; [exact B|tauto]).
    apply (exec_rp ct jparse fparse ch i kw ob evs' _ (reach_inv evs)) in P.
    unfold reach in P. destruct P as [_ [P|[P|P]]]; congruence.
  - intro T. destruct (replay_run ct jparse fparse _ i kw ob B T) as (A1 & A2 & A3 & A4 & A5 & _). auto.
Qed.

Lemma body_after_stream_documented_proof : forall evs,
  let st := exec ct jparse fparse evs (init ch) in
  (forall r t o, reader st = Some r -> r <> TS SBody ->
     body_derived ct t -> tst st t = TDone o -> o = Exn EConsumed) /\
  (forall i kw v ob, kw <> Some 0 ->
     tst st (TA i (KStream kw)) = TDone (Val v) -> tst st (TS SBody) = TDone ob ->
     ob = Exn EConsumed \/ Val v = replay (demand kw) ob) /\
  (consumed st = true <-> reader st <> None) /\
  (forall r, reader st = Some r -> rk r = true /\ tst st r <> TAbsent /\ tst st r <> TNew) /\
  (forall r evs', reader st = Some r -> reader (exec ct jparse fparse evs' st) = Some r).
Proof.
  intro evs. cbn zeta. pose proof (reach_inv evs) as I. fold (reach evs).
  split; [|split; [|split; [|split]]].
  - intros r t o. now apply (inv_body_after_stream ct jparse fparse ch).
  - intros i kw v ob. now apply (inv_one_reader ct jparse fparse ch).
  - rewrite (i_flag _ _ _ _ _ I). destruct (reader (reach evs)); split; congruence.
  - intros r R. destruct (i_some _ _ _ _ _ I r R) as [K S]. split; [exact K|].
    destruct S as [(w & acc & T & _)|[(w & acc & m & cm' & T & _)|(o & T & _)]]; rewrite T; split; discriminate.
  - intros r evs' R. now apply (exec_reader ct jparse fparse ch).
Qed.

Lemma disconnect_never_truncates_proof : forall evs t o,
  let st := exec ct jparse fparse evs (init ch) in
  disc_first ch = true -> tst st t = TDone o ->
  match t with
  | TA _ KClose => o = Val VNone
  | TA _ (KStream (Some _)) =>
      forall v, o = Val v -> exists l, v = VChunks l /\ Forall (fun b => nonempty b = true) l
  | _ => o = Exn EDisconnect \/ o = Exn EConsumed \/ (o = Exn EUnsupported /\ ~ body_derived ct t)
  end /\
  (reader st = Some t -> full t = true -> o = Exn EDisconnect).
Proof.
  intros evs t o. cbn zeta. intros D T.
  apply (inv_disconnect ct jparse fparse ch); auto. apply reach_inv.
Qed.

Lemma no_internal_error_proof : forall evs t,
  tst (exec ct jparse fparse evs (init ch)) t <> TDone (Exn EInternal).
Proof. intros evs t. apply (inv_no_internal ct jparse fparse ch). apply reach_inv. Qed.

End Final.

(* ====================================================================== *)
(* ---------- non-vacuity ---------- *)

Definition jp (b : bytes) : pres := POk b true.
Definition two_chunks : list msg := [MChunk [91; 49]%N true; MChunk [93]%N false].

(* json and body started together, both messages delivered: body done with the concatenation *)
Example ex_concat :
  let st := exec CJson jp jp [EStart KJson; EStart KBody; ERunAll 50; EDeliver; EDeliver; ERunAll 50] (init two_chunks) in
  tst st (TS SBody) = TDone (Val (VBytes [91; 49; 93]%N)) /\
  tst st (TA 0 KJson) = TDone (Val (VParsed [91; 49; 93]%N true)) /\ rcount st = 2.
Proof. vm_compute. auto. Qed.

(* gather(body, stream): under the FIFO order stream() wins and body raises the documented error;
   if the body task is resumed first (EStep picks it) the body wins: both are covered *)
Example ex_race_fifo :
  let st := exec CJson jp jp [EDeliver; EDeliver; EStart KBody; EStart (KStream None); ERunAll 50] (init two_chunks) in
  tst st (TA 0 KBody) = TDone (Exn EConsumed) /\
  tst st (TA 1 (KStream None)) = TDone (Val (VChunks [[91; 49]; [93]; []]%N)) /\
  reader st = Some (TA 1 (KStream None)).
Proof. vm_compute. auto. Qed.

Example ex_race_other :
  let st := exec CJson jp jp [EDeliver; EDeliver; EStart KBody; EStart (KStream None); EStep 0; EStep 1; ERunAll 50] (init two_chunks) in
  tst st (TA 0 KBody) = TDone (Val (VBytes [91; 49; 93]%N)) /\
  tst st (TA 1 (KStream None)) = TDone (Val (VChunks [[91; 49; 93]; []]%N)) /\
  reader st = Some (TS SBody).
Proof. vm_compute. auto. Qed.

Example ex_disconnect :
  let ch := [MChunk [91; 49]%N true; MDisc] in
  let st := exec CJson jp jp [EStart KJson; ERunAll 50; EDeliver; EDeliver; ERunAll 50; EStart (KStream None); ERunAll 50] (init ch) in
  disc_first ch = true /\
  tst st (TA 0 KJson) = TDone (Exn EDisconnect) /\ tst st (TA 1 (KStream None)) = TDone (Exn EDisconnect).
Proof. vm_compute. auto. Qed.

Example ex_wsgi :
  let '(st, os) := wexec CJson jp jp [WStream (Some 1) 2; WBody; WBody; WStream None 2] (winit [[91; 49; 93]%N]) in
  os = [Val (VChunks [[91; 49]%N]); Exn EConsumed; Exn EConsumed; Exn EConsumed] /\ w_reads st = [2%N].
Proof. vm_compute. auto. Qed.
