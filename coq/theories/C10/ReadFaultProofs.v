(* C10 — proofs about the WSGI model with failing reads (ReadFault.v).
   Everything is by induction over the access list / the fuel of the read loop,
   for all inputs. *)
From Coq Require Import List NArith Bool Arith Lia.
From Baize Require Import C10.Model C10.ReadFault.
Import ListNotations.

Lemma nonempty_len : forall b : bytes, nonempty b = true <-> length b <> 0.
Proof.
  destruct b as [|x b]; cbn; split; intro H.
  - discriminate.
  - exfalso; apply H; reflexivity.
  - discriminate.
  - reflexivity.
Qed.

Lemma nonempty_false : forall b : bytes, nonempty b = false -> b = [].
Proof. destruct b; cbn; intro H; [reflexivity | discriminate]. Qed.

(* ---------- one read ---------- *)

Lemma fread_ok : forall cs inp c inp',
  fread cs inp = (Some c, inp') -> c ++ concat (pieces inp') = concat (pieces inp).
Proof.
  intros cs inp c inp' H. destruct inp as [|[p|] r]; cbn in H.
  - inversion H; reflexivity.
  - destruct (N.of_nat (length p) <=? cs)%N; inversion H; subst; cbn.
    + reflexivity.
    + rewrite app_assoc, firstn_skipn. reflexivity.
  - discriminate.
Qed.

Lemma fread_fail : forall cs inp inp',
  fread cs inp = (None, inp') -> concat (pieces inp') = concat (pieces inp) /\ has_fault inp = true.
Proof.
  intros cs inp inp' H. destruct inp as [|[p|] r]; cbn in H.
  - discriminate.
  - destruct (N.of_nat (length p) <=? cs)%N; discriminate.
  - inversion H; subst; cbn. split; reflexivity.
Qed.

Lemma fread_ok_fault : forall cs inp c inp',
  fread cs inp = (Some c, inp') -> has_fault inp' = true -> has_fault inp = true.
Proof.
  intros cs inp c inp' H HF. destruct inp as [|[p|] r]; cbn in H.
  - inversion H; subst. cbn in HF. discriminate.
  - destruct (N.of_nat (length p) <=? cs)%N; inversion H; subst; cbn in *; exact HF.
  - discriminate.
Qed.

(* ---------- the read loop ---------- *)

(* the loop reports a failure only when the input has a failing read *)
Lemma floop_failed : forall fuel cs w inp acc reads items inp' n,
  floop fuel cs w inp acc reads = (items, inp', n, true) -> has_fault inp = true.
Proof.
  induction fuel as [|f IH]; intros cs w inp acc reads items inp' n H; cbn [floop] in H.
  - inversion H.
  - destruct (fread cs inp) as [[c|] inp1] eqn:ER.
    + destruct (nonempty c).
      * destruct w as [[|k]|].
        -- inversion H.
        -- apply IH in H. exact (fread_ok_fault _ _ _ _ ER H).
        -- apply IH in H. exact (fread_ok_fault _ _ _ _ ER H).
      * inversion H.
    + apply fread_fail in ER. exact (proj2 ER).
Qed.

(* whatever happens, the items handed out plus the input left are the input before *)
Lemma floop_conserve : forall fuel cs w inp acc reads items inp' n failed,
  floop fuel cs w inp acc reads = (items, inp', n, failed) ->
  exists new, items = acc ++ new /\ concat new ++ concat (pieces inp') = concat (pieces inp).
Proof.
  induction fuel as [|f IH]; intros cs w inp acc reads items inp' n failed H; cbn [floop] in H.
  - inversion H; subst. exists []. rewrite app_nil_r. split; reflexivity.
  - destruct (fread cs inp) as [[c|] inp1] eqn:ER.
    + pose proof (fread_ok _ _ _ _ ER) as HC.
      destruct (nonempty c) eqn:NEc.
      * assert (STEP : forall w', floop f cs w' inp1 (acc ++ [c]) (S reads) = (items, inp', n, failed) ->
                  exists new, items = acc ++ new /\ concat new ++ concat (pieces inp') = concat (pieces inp)).
        { intros w' H'. apply IH in H'. destruct H' as [new [E1 E2]].
          exists (c :: new). split.
          - rewrite E1, <- app_assoc. reflexivity.
          - cbn. rewrite <- app_assoc, E2. exact HC. }
        destruct w as [[|k]|].
        -- inversion H; subst. exists [c]. split; [reflexivity|]. cbn. rewrite app_nil_r. exact HC.
        -- eapply STEP; exact H.
        -- eapply STEP; exact H.
      * inversion H; subst. apply nonempty_false in NEc. subst c.
        exists []. rewrite app_nil_r. split; [reflexivity|]. exact HC.
    + inversion H; subst. apply fread_fail in ER. destruct ER as [E _].
      exists []. rewrite app_nil_r. split; [reflexivity|]. exact E.
Qed.

(* a loop that goes to the end and does not fail saw no failing read and yielded
   the whole input: the fuel S (total bytes) is never what stops it *)
Lemma floop_full : forall fuel cs inp acc reads items inp' n,
  (0 < cs)%N -> no_empty inp = true -> ftotal inp < fuel ->
  floop fuel cs None inp acc reads = (items, inp', n, false) ->
  has_fault inp = false /\ concat items = concat acc ++ concat (pieces inp).
Proof.
  induction fuel as [|f IH]; intros cs inp acc reads items inp' n Hcs NE Hf H.
  - lia.
  - destruct inp as [|[p|] r].
    + cbn in H. inversion H; subst. split; [reflexivity|]. cbn. rewrite app_nil_r. reflexivity.
    + cbn [no_empty] in NE. apply andb_prop in NE. destruct NE as [NEp NEr].
      pose proof (proj1 (nonempty_len p) NEp) as Lp.
      unfold ftotal in Hf. cbn [pieces concat] in Hf. rewrite app_length in Hf.
      cbn [floop fread] in H.
      destruct (N.of_nat (length p) <=? cs)%N eqn:LE.
      * rewrite NEp in H.
        apply IH in H; [| exact Hcs | exact NEr | unfold ftotal; lia].
        destruct H as [HF HC]. split; [exact HF|].
        rewrite HC, concat_app. cbn. rewrite app_nil_r, <- app_assoc. reflexivity.
      * apply N.leb_gt in LE.
        assert (Lc : length (firstn (N.to_nat cs) p) <> 0) by (rewrite firstn_length; lia).
        rewrite (proj2 (nonempty_len _) Lc) in H.
        apply IH in H; [| exact Hcs | | ].
        -- destruct H as [HF HC]. split; [exact HF|].
           rewrite HC, concat_app. cbn. rewrite app_nil_r, <- !app_assoc.
           f_equal. rewrite app_assoc, firstn_skipn. reflexivity.
        -- cbn [no_empty]. rewrite NEr, andb_true_r. apply nonempty_len. rewrite skipn_length. lia.
        -- unfold ftotal. cbn [pieces concat]. rewrite app_length, skipn_length. lia.
    + cbn in H. discriminate.
Qed.

(* ---------- stream(): the three ways it can go ---------- *)

Lemma fstream_cases : forall st w cs,
  (exists b, f_body st = Some b /\ fstream st w cs = (st, FVal (VChunks [b]))) \/
  (f_body st = None /\ f_consumed st = true /\ fstream st w cs = (st, FExn EConsumed)) \/
  (f_body st = None /\ f_consumed st = false /\ exists items inp' n failed,
     floop (S (ftotal (f_input st))) cs w (f_input st) [] 0 = (items, inp', n, failed) /\
     fstream st w cs =
       (fmk inp' true (f_reads st ++ repeatN cs n) None (f_json st) (f_form st) (f_got st ++ items),
        if failed then FReadErr else FVal (VChunks items))).
Proof.
  intros st w cs. unfold fstream.
  destruct (f_body st) as [b|].
  - left. exists b. split; reflexivity.
  - right. destruct (f_consumed st).
    + left. repeat split.
    + right. repeat split.
      destruct (floop (S (ftotal (f_input st))) cs w (f_input st) [] 0) as [[[items inp'] n] failed].
      exists items, inp', n, failed. split; reflexivity.
Qed.

(* ---------- a state in which the input was taken and nothing is cached ---------- *)

Definition dead (st : fstate) : Prop :=
  f_consumed st = true /\ f_body st = None /\ f_json st = None /\ f_form st = None.

(* what every access gives in such a state *)
Definition dead_out (ct : ctype) (a : wkind) : fout :=
  match a with
  | WBody => FExn EConsumed
  | WStream (Some 0) _ => FVal (VChunks [])
  | WStream _ _ => FExn EConsumed
  | WJson => if is_json ct then FExn EConsumed else FExn EUnsupported
  | WForm => if is_form ct then FExn EConsumed else FExn EUnsupported
  | WClose => FVal VNone
  end.

Lemma dead_stream : forall st w cs, dead st -> fstream st w cs = (st, FExn EConsumed).
Proof.
  intros st w cs [HC [HB _]]. unfold fstream. rewrite HB, HC. reflexivity.
Qed.

Lemma dead_body : forall st, dead st -> fbody st = (st, FExn EConsumed).
Proof.
  intros st D. unfold fbody. rewrite (dead_stream st None 65536 D).
  destruct D as [_ [HB _]]. rewrite HB. reflexivity.
Qed.

Lemma dead_step : forall ct jp fp st a, dead st -> fstep ct jp fp st a = (st, dead_out ct a).
Proof.
  intros ct jp fp st a D. destruct a as [|[[|k]|] cs| | |]; cbn [fstep dead_out].
  - apply dead_body; exact D.
  - reflexivity.
  - apply dead_stream; exact D.
  - apply dead_stream; exact D.
  - unfold fjson, fslot. destruct D as [HC [HB [HJ HF]]]. rewrite HJ.
    destruct (is_json ct); [|reflexivity].
    rewrite (dead_body st (conj HC (conj HB (conj HJ HF)))). reflexivity.
  - unfold fform, fslot. destruct D as [HC [HB [HJ HF]]]. rewrite HF.
    destruct (is_form ct); [|reflexivity].
    rewrite (dead_body st (conj HC (conj HB (conj HJ HF)))). reflexivity.
  - reflexivity.
Qed.

Lemma dead_exec : forall ct jp fp acs st, dead st -> fst (fexec ct jp fp acs st) = st.
Proof.
  induction acs as [|a r IH]; intros st D; cbn [fexec].
  - reflexivity.
  - rewrite (dead_step ct jp fp st a D).
    specialize (IH st D). destruct (fexec ct jp fp r st) as [st2 os]. exact IH.
Qed.

Lemma dead_out_reads : forall ct a, freads ct a -> dead_out ct a = FExn EConsumed.
Proof.
  intros ct a H. destruct a as [|[[|k]|] cs| | |]; cbn in *; try reflexivity; try contradiction.
  - subst ct. reflexivity.
  - subst ct. reflexivity.
Qed.

Lemma dead_out_no_read_error : forall ct a, dead_out ct a <> FReadErr.
Proof.
  intros ct a. destruct a as [|[[|k]|] cs| | |]; cbn; try discriminate.
  - destruct (is_json ct); discriminate.
  - destruct (is_form ct); discriminate.
Qed.

(* ---------- once the input is taken, no access touches it ---------- *)

Definition same_input (st st1 : fstate) : Prop :=
  f_input st1 = f_input st /\ f_got st1 = f_got st /\ f_reads st1 = f_reads st /\ f_consumed st1 = f_consumed st.

Lemma same_refl : forall st, same_input st st.
Proof. intro st. repeat split. Qed.

Lemma consumed_stream : forall st w cs, f_consumed st = true -> fst (fstream st w cs) = st.
Proof.
  intros st w cs HC. unfold fstream. destruct (f_body st); [reflexivity|]. rewrite HC. reflexivity.
Qed.

Lemma consumed_body : forall st, f_consumed st = true -> same_input st (fst (fbody st)).
Proof.
  intros st HC. unfold fbody. destruct (f_body st) as [b|] eqn:HB; [apply same_refl|].
  unfold fstream. rewrite HB, HC. apply same_refl.
Qed.

Lemma consumed_slot : forall mine parse cached store st,
  (forall s x, same_input s (store s x)) ->
  f_consumed st = true -> same_input st (fst (fslot mine parse cached store st)).
Proof.
  intros mine parse cached store st HS HC. unfold fslot.
  destruct cached as [[r c]|]; [apply same_refl|].
  destruct mine; [|apply same_refl].
  pose proof (consumed_body st HC) as SB.
  destruct (fbody st) as [st1 o]. cbn [fst] in SB.
  destruct o as [v|e|]; try exact SB.
  destruct v; try exact SB.
  destruct (parse b); [exact SB|].
  destruct (HS st1 (r, c)) as [A [B [C D]]]. destruct SB as [A' [B' [C' D']]].
  cbn [fst]. unfold same_input. repeat split; congruence.
Qed.

Lemma consumed_step : forall ct jp fp st a,
  f_consumed st = true -> same_input st (fst (fstep ct jp fp st a)).
Proof.
  intros ct jp fp st a HC. destruct a as [|[[|k]|] cs| | |]; cbn [fstep fst].
  - apply consumed_body; exact HC.
  - apply same_refl.
  - rewrite consumed_stream by exact HC. apply same_refl.
  - rewrite consumed_stream by exact HC. apply same_refl.
  - apply consumed_slot; [|exact HC]. intros s x. repeat split.
  - apply consumed_slot; [|exact HC]. intros s x. repeat split.
  - apply same_refl.
Qed.

(* ---------- the invariant of all reachable states ---------- *)

Section Inv.
Variable ct : ctype.
Variables jparse fparse : bytes -> pres.
Variable inp : finput.
Hypothesis NE : no_empty inp = true.

Let full := concat (pieces inp).

Definition Inv (st : fstate) : Prop :=
  concat (f_got st) ++ concat (pieces (f_input st)) = full /\
  (f_consumed st = false -> f_input st = inp /\ f_got st = [] /\ f_reads st = [] /\ f_body st = None) /\
  (f_body st = None -> f_json st = None /\ f_form st = None) /\
  (forall b, f_body st = Some b -> b = full /\ has_fault inp = false /\ f_consumed st = true) /\
  (forall x, f_json st = Some x -> ct = CJson /\ jparse full = POk (fst x) (snd x)) /\
  (forall x, f_form st = Some x -> ct = CForm /\ fparse full = POk (fst x) (snd x)).

Lemma inv_init : Inv (finit inp).
Proof.
  unfold Inv, finit; cbn. repeat split; intros; try discriminate.
Qed.

(* stream(): the invariant is kept; a value is a prefix of the whole body, the
   whole body when it ran to the end; a read error leaves a dead state *)
Lemma fstream_inv : forall st w cs st1 o,
  Inv st -> fstream st w cs = (st1, o) ->
  Inv st1 /\
  (forall v, o = FVal v -> exists items rest, v = VChunks items /\ concat items ++ rest = full) /\
  (forall v, o = FVal v -> w = None -> (0 < cs)%N ->
     exists items, v = VChunks items /\ concat items = full /\ has_fault inp = false) /\
  (o = FReadErr -> dead st1 /\ has_fault inp = true) /\
  (f_body st1 = f_body st).
Proof.
  intros st w cs st1 o I H. pose proof I as I0.
  destruct I as [I1 [I2 [I3 [I4 [I5 I6]]]]].
  destruct (fstream_cases st w cs) as [[b [HB E]] | [[HB [HC E]] | [HB [HC [items [inp' [n [failed [EL E]]]]]]]]];
    rewrite E in H; inversion H; subst st1 o; clear H E.
  - split; [exact I0|].
    destruct (I4 b HB) as [Eb [HF _]].
    split; [|split; [|split]].
    + intros v Hv. inversion Hv; subst v. exists [b], []. rewrite Eb. split; [reflexivity|]. cbn. rewrite !app_nil_r. reflexivity.
    + intros v Hv _ _. inversion Hv; subst v. exists [b]. split; [reflexivity|]. cbn. rewrite app_nil_r. split; [exact Eb|exact HF].
    + discriminate.
    + reflexivity.
  - split; [exact I0|].
    split; [|split; [|split]]; try discriminate. reflexivity.
  - destruct (I2 HC) as [Ein [Eg [Er _]]].
    destruct (I3 HB) as [EJ EF].
    pose proof (floop_conserve _ _ _ _ _ _ _ _ _ _ EL) as [new [En Ec]].
    cbn [app] in En. subst new.
    rewrite Ein in Ec.
    split; [|split; [|split; [|split]]].
    + unfold Inv; cbn. rewrite Eg, EJ, EF. cbn.
      repeat split; intros; try discriminate. exact Ec.
    + intros v Hv. destruct failed; [discriminate|]. inversion Hv; subst.
      exists items, (concat (pieces inp')). split; [reflexivity|exact Ec].
    + intros v Hv Hw Hcs. destruct failed; [discriminate|]. inversion Hv; subst.
      rewrite Ein in EL.
      apply floop_full in EL; [| exact Hcs | exact NE | lia].
      destruct EL as [HF HCc]. exists items. split; [reflexivity|]. split; [exact HCc | exact HF].
    + intros Ho. destruct failed; [|discriminate]. split.
      * unfold dead; cbn. rewrite EJ, EF. repeat split.
      * rewrite Ein in EL. exact (floop_failed _ _ _ _ _ _ _ _ _ EL).
    + cbn. symmetry. exact HB.
Qed.

(* body *)
Lemma fbody_inv : forall st st1 o,
  Inv st -> fbody st = (st1, o) ->
  Inv st1 /\
  (forall v, o = FVal v -> v = VBytes full /\ f_body st1 = Some full /\ has_fault inp = false) /\
  (o = FReadErr -> dead st1 /\ has_fault inp = true) /\
  (forall e, o = FExn e -> st1 = st).
Proof.
  intros st st1 o I H. unfold fbody in H.
  destruct (f_body st) as [b|] eqn:HB.
  - inversion H; subst st1 o; clear H.
    split; [exact I|].
    destruct I as [_ [_ [_ [I4 _]]]]. destruct (I4 b HB) as [Eb [HF _]].
    subst b.
    split; [|split]; try discriminate.
    intros v Hv. inversion Hv; subst v. repeat split; assumption.
  - destruct (fstream st None 65536) as [s1 o1] eqn:ES.
    pose proof (fstream_inv st None 65536 s1 o1 I ES) as [I' [_ [HV [HD HBs]]]].
    destruct o1 as [v|e|].
    + destruct (HV v eq_refl eq_refl) as [items [Ev [Ec HF]]]; [reflexivity|]. subst v.
      inversion H; subst st1 o; clear H.
      rewrite Ec.
      destruct I' as [J1 [J2 [J3 [J4 [J5 J6]]]]].
      assert (HC1 : f_consumed s1 = true).
      { destruct (f_consumed s1) eqn:C; [reflexivity|].
        destruct (fstream_cases st None 65536) as [[b [HB' _]] | [[_ [HC E]] | [_ [HC [it [inp' [n [fl [_ E]]]]]]]]].
        - congruence.
        - rewrite E in ES; inversion ES.
        - rewrite E in ES; inversion ES; subst s1; cbn in C; discriminate. }
      split; [|split; [|split]]; try discriminate.
      * unfold Inv, set_body; cbn.
        split; [exact J1|]. split; [intro C; congruence|]. split; [discriminate|].
        split; [|split; assumption].
        intros b Eb. inversion Eb; subst. repeat split; assumption.
      * intros v Hv. inversion Hv; subst. repeat split. exact HF.
    + inversion H; subst st1 o; clear H.
      split; [exact I'|]. split; [|split]; try discriminate.
      intros e0 _.
      destruct (fstream_cases st None 65536) as [[b [HB' _]] | [[_ [HC E]] | [_ [HC [it [inp' [n [fl [_ E]]]]]]]]].
      * congruence.
      * rewrite E in ES. inversion ES; subst. reflexivity.
      * rewrite E in ES. inversion ES; subst. destruct fl; discriminate.
    + inversion H; subst st1 o; clear H.
      split; [exact I'|]. split; [|split]; try discriminate.
      intros _. apply HD. reflexivity.
Qed.

Lemma fjson_inv : forall st st1 o,
  Inv st -> fjson ct jparse st = (st1, o) ->
  Inv st1 /\
  (forall v, o = FVal v -> exists r c, jparse full = POk r c /\ v = VParsed r c /\ has_fault inp = false) /\
  (o = FReadErr -> dead st1 /\ has_fault inp = true).
Proof.
  intros st st1 o I H. unfold fjson, fslot in H.
  destruct (f_json st) as [[r c]|] eqn:HJ.
  - inversion H; subst st1 o; clear H. split; [exact I|].
    destruct I as [_ [_ [I3 [I4 [I5 _]]]]].
    destruct (I5 _ HJ) as [_ EP]. cbn in EP.
    split; [|discriminate].
    intros v Hv. inversion Hv; subst. exists r, c. repeat split; try assumption.
    destruct (f_body st) as [b|] eqn:HB.
    + destruct (I4 b eq_refl) as [_ [HF _]]. exact HF.
    + destruct (I3 eq_refl) as [EJ _]. congruence.
  - destruct (is_json ct) eqn:CT.
    + destruct (fbody st) as [s1 o1] eqn:EB.
      pose proof (fbody_inv st s1 o1 I EB) as [I' [HV [HD _]]].
      destruct o1 as [v|e|].
      * destruct (HV v eq_refl) as [Ev [HB1 HF]]. subst v.
        destruct (jparse full) as [e|r c] eqn:EP.
        -- inversion H; subst st1 o; clear H. split; [exact I'|]. split; discriminate.
        -- inversion H; subst st1 o; clear H.
           split; [|split; [|discriminate]].
           ++ destruct I' as [J1 [J2 [J3 [J4 [J5 J6]]]]].
              unfold Inv, set_json; cbn.
              split; [exact J1|]. split; [exact J2|].
              split; [intro C; congruence|]. split; [exact J4|]. split; [|exact J6].
              intros x Ex. inversion Ex; subst. cbn. split; [|exact EP].
              destruct ct; try discriminate. reflexivity.
           ++ intros v Hv. inversion Hv; subst. exists r, c. repeat split. exact HF.
      * inversion H; subst st1 o; clear H. split; [exact I'|]. split; discriminate.
      * inversion H; subst st1 o; clear H. split; [exact I'|]. split; [discriminate|].
        intros _. apply HD. reflexivity.
    + inversion H; subst st1 o; clear H. split; [exact I|]. split; discriminate.
Qed.

Lemma fform_inv : forall st st1 o,
  Inv st -> fform ct fparse st = (st1, o) ->
  Inv st1 /\
  (forall v, o = FVal v -> exists r c, fparse full = POk r c /\ v = VParsed r c /\ has_fault inp = false) /\
  (o = FReadErr -> dead st1 /\ has_fault inp = true).
Proof.
  intros st st1 o I H. unfold fform, fslot in H.
  destruct (f_form st) as [[r c]|] eqn:HJ.
  - inversion H; subst st1 o; clear H. split; [exact I|].
    destruct I as [_ [_ [I3 [I4 [_ I6]]]]].
    destruct (I6 _ HJ) as [_ EP]. cbn in EP.
    split; [|discriminate].
    intros v Hv. inversion Hv; subst. exists r, c. repeat split; try assumption.
    destruct (f_body st) as [b|] eqn:HB.
    + destruct (I4 b eq_refl) as [_ [HF _]]. exact HF.
    + destruct (I3 eq_refl) as [_ EJ]. congruence.
  - destruct (is_form ct) eqn:CT.
    + destruct (fbody st) as [s1 o1] eqn:EB.
      pose proof (fbody_inv st s1 o1 I EB) as [I' [HV [HD _]]].
      destruct o1 as [v|e|].
      * destruct (HV v eq_refl) as [Ev [HB1 HF]]. subst v.
        destruct (fparse full) as [e|r c] eqn:EP.
        -- inversion H; subst st1 o; clear H. split; [exact I'|]. split; discriminate.
        -- inversion H; subst st1 o; clear H.
           split; [|split; [|discriminate]].
           ++ destruct I' as [J1 [J2 [J3 [J4 [J5 J6]]]]].
              unfold Inv, set_form; cbn.
              split; [exact J1|]. split; [exact J2|].
              split; [intro C; congruence|]. split; [exact J4|]. split; [exact J5|].
              intros x Ex. inversion Ex; subst. cbn. split; [|exact EP].
              destruct ct; try discriminate. reflexivity.
           ++ intros v Hv. inversion Hv; subst. exists r, c. repeat split. exact HF.
      * inversion H; subst st1 o; clear H. split; [exact I'|]. split; discriminate.
      * inversion H; subst st1 o; clear H. split; [exact I'|]. split; [discriminate|].
        intros _. apply HD. reflexivity.
    + inversion H; subst st1 o; clear H. split; [exact I|]. split; discriminate.
Qed.

Lemma fstep_inv : forall st a, Inv st -> Inv (fst (fstep ct jparse fparse st a)).
Proof.
  intros st a I. destruct a as [|[[|k]|] cs| | |]; cbn [fstep fst]; try exact I.
  - destruct (fbody st) as [s1 o1] eqn:E. exact (proj1 (fbody_inv _ _ _ I E)).
  - destruct (fstream st (Some k) cs) as [s1 o1] eqn:E. exact (proj1 (fstream_inv _ _ _ _ _ I E)).
  - destruct (fstream st None cs) as [s1 o1] eqn:E. exact (proj1 (fstream_inv _ _ _ _ _ I E)).
  - destruct (fjson ct jparse st) as [s1 o1] eqn:E. exact (proj1 (fjson_inv _ _ _ I E)).
  - destruct (fform ct fparse st) as [s1 o1] eqn:E. exact (proj1 (fform_inv _ _ _ I E)).
Qed.

Lemma fexec_inv : forall acs st, Inv st -> Inv (fst (fexec ct jparse fparse acs st)).
Proof.
  induction acs as [|a r IH]; intros st I; cbn [fexec].
  - exact I.
  - pose proof (fstep_inv st a I) as I1.
    destruct (fstep ct jparse fparse st a) as [st1 o]. cbn [fst] in I1.
    specialize (IH st1 I1). destruct (fexec ct jparse fparse r st1) as [st2 os]. exact IH.
Qed.

Lemma fstep_read_error_dead : forall st a,
  Inv st -> snd (fstep ct jparse fparse st a) = FReadErr ->
  dead (fst (fstep ct jparse fparse st a)) /\ has_fault inp = true.
Proof.
  intros st a I H. destruct a as [|[[|k]|] cs| | |]; cbn [fstep] in *; try discriminate.
  - destruct (fbody st) as [s1 o1] eqn:E. cbn in *. exact (proj1 (proj2 (proj2 (fbody_inv _ _ _ I E))) H).
  - destruct (fstream st (Some k) cs) as [s1 o1] eqn:E. cbn in *.
    exact (proj1 (proj2 (proj2 (proj2 (fstream_inv _ _ _ _ _ I E)))) H).
  - destruct (fstream st None cs) as [s1 o1] eqn:E. cbn in *.
    exact (proj1 (proj2 (proj2 (proj2 (fstream_inv _ _ _ _ _ I E)))) H).
  - destruct (fjson ct jparse st) as [s1 o1] eqn:E. cbn in *. exact (proj2 (proj2 (fjson_inv _ _ _ I E)) H).
  - destruct (fform ct fparse st) as [s1 o1] eqn:E. cbn in *. exact (proj2 (proj2 (fform_inv _ _ _ I E)) H).
Qed.

End Inv.

(* ---------- the theorems ---------- *)

Lemma readfault_never_truncated_proof : forall ct jparse fparse inp,
  no_empty inp = true -> forall acs,
  let st := fst (fexec ct jparse fparse acs (finit inp)) in
  let full := concat (pieces inp) in
  (forall v, snd (fstep ct jparse fparse st WBody) = FVal v ->
     v = VBytes full /\ has_fault inp = false) /\
  (forall cs v, (0 < cs)%N -> snd (fstep ct jparse fparse st (WStream None cs)) = FVal v ->
     exists items, v = VChunks items /\ concat items = full /\ has_fault inp = false) /\
  (forall v, snd (fstep ct jparse fparse st WJson) = FVal v ->
     exists r c, jparse full = POk r c /\ v = VParsed r c /\ has_fault inp = false) /\
  (forall v, snd (fstep ct jparse fparse st WForm) = FVal v ->
     exists r c, fparse full = POk r c /\ v = VParsed r c /\ has_fault inp = false) /\
  (forall k cs v, snd (fstep ct jparse fparse st (WStream (Some k) cs)) = FVal v ->
     exists items rest, v = VChunks items /\ concat items ++ rest = full).
Proof.
  intros ct jparse fparse inp NE acs st full.
  assert (I : Inv ct jparse fparse inp st) by (apply fexec_inv; [exact NE | apply inv_init]).
  split; [|split; [|split; [|split]]].
  - intros v H. cbn [fstep] in H. destruct (fbody st) as [s1 o1] eqn:E. cbn in H. subst o1.
    destruct (proj1 (proj2 (fbody_inv _ _ _ _ NE _ _ _ I E)) v eq_refl) as [A [_ B]]. split; assumption.
  - intros cs v Hcs H. cbn [fstep] in H. destruct (fstream st None cs) as [s1 o1] eqn:E. cbn in H. subst o1.
    exact (proj1 (proj2 (proj2 (fstream_inv _ _ _ _ NE _ _ _ _ _ I E))) v eq_refl eq_refl Hcs).
  - intros v H. cbn [fstep] in H. destruct (fjson ct jparse st) as [s1 o1] eqn:E. cbn in H. subst o1.
    exact (proj1 (proj2 (fjson_inv _ _ _ _ NE _ _ _ I E)) v eq_refl).
  - intros v H. cbn [fstep] in H. destruct (fform ct fparse st) as [s1 o1] eqn:E. cbn in H. subst o1.
    exact (proj1 (proj2 (fform_inv _ _ _ _ NE _ _ _ I E)) v eq_refl).
  - intros k cs v H. destruct k as [|k]; cbn [fstep] in H.
    + cbn in H. inversion H; subst. exists [], full. split; reflexivity.
    + destruct (fstream st (Some k) cs) as [s1 o1] eqn:E. cbn in H. subst o1.
      exact (proj1 (proj2 (fstream_inv _ _ _ _ NE _ _ _ _ _ I E)) v eq_refl).
Qed.

Lemma readfault_error_then_consumed_proof : forall ct jparse fparse inp,
  no_empty inp = true -> forall acs1 a acs2,
  let st1 := fst (fexec ct jparse fparse acs1 (finit inp)) in
  snd (fstep ct jparse fparse st1 a) = FReadErr ->
  let st2 := fst (fstep ct jparse fparse st1 a) in
  let st3 := fst (fexec ct jparse fparse acs2 st2) in
  has_fault inp = true /\
  f_consumed st2 = true /\ f_body st2 = None /\ f_json st2 = None /\ f_form st2 = None /\
  st3 = st2 /\
  forall a',
    fst (fstep ct jparse fparse st3 a') = st3 /\
    (freads ct a' -> snd (fstep ct jparse fparse st3 a') = FExn EConsumed) /\
    snd (fstep ct jparse fparse st3 a') <> FReadErr.
Proof.
  intros ct jparse fparse inp NE acs1 a acs2 st1 H st2 st3.
  assert (I : Inv ct jparse fparse inp st1) by (apply fexec_inv; [exact NE | apply inv_init]).
  destruct (fstep_read_error_dead ct jparse fparse inp NE st1 a I H) as [D HFt].
  fold st2 in D.
  assert (E3 : st3 = st2) by (apply dead_exec; exact D).
  destruct D as [D1 [D2 [D3 D4]]].
  split; [exact HFt|].
  repeat (split; [assumption|]).
  intro a'. rewrite E3. rewrite (dead_step ct jparse fparse st2 a' (conj D1 (conj D2 (conj D3 D4)))). cbn [fst snd].
  split; [reflexivity|]. split.
  - apply dead_out_reads.
  - apply dead_out_no_read_error.
Qed.

Lemma readfault_reads_once_proof : forall ct jparse fparse inp,
  no_empty inp = true -> forall acs,
  let st := fst (fexec ct jparse fparse acs (finit inp)) in
  concat (f_got st) ++ concat (pieces (f_input st)) = concat (pieces inp) /\
  (f_consumed st = false -> f_got st = [] /\ f_reads st = [] /\ f_input st = inp) /\
  (f_consumed st = true -> forall a,
     let st1 := fst (fstep ct jparse fparse st a) in
     f_got st1 = f_got st /\ f_reads st1 = f_reads st /\ f_input st1 = f_input st /\ f_consumed st1 = true).
Proof.
  intros ct jparse fparse inp NE acs st.
  assert (I : Inv ct jparse fparse inp st) by (apply fexec_inv; [exact NE | apply inv_init]).
  destruct I as [I1 [I2 _]].
  split; [exact I1|]. split.
  - intro C. destruct (I2 C) as [A [B [R _]]]. repeat split; assumption.
  - intros C a st1. destruct (consumed_step ct jparse fparse st a C) as [A [B [R D]]].
    fold st1 in A, B, R, D. repeat split; try assumption. congruence.
Qed.
