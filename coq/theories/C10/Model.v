(* C10 — The request body is read once, completely, and consistently cached.
   Executable model only (no proofs).

   Part A (ASGI): baize/asgi/requests.py Request.stream/body/json/form/close with
   baize/utils.py cached_property (an awaitable result becomes ONE shared task
   stored in the instance dictionary).  The event loop is modelled as a set of
   tasks that run atomic segments between two awaits:

     - TS s         the task behind the cached property s (body / json / form),
                    created by the first access of s (cached_property.__get__)
     - TA i k       the i-th access started by the application, of kind k
                    (await request.body, [c async for c in request.stream()],
                    k items of request.stream() and then abandoned, await
                    request.json / .form / .close())

   The server is a channel of messages; receive() takes a delivered message or
   blocks until the next one is delivered.  A schedule is a list of events:
   start an access, deliver the next server message, run the c-th task of the
   ready queue, run the ready queue in FIFO order until it is empty (what the
   asyncio loop does).  The theorems quantify over all event lists.

   Part B (WSGI): baize/wsgi/requests.py, sequential; wsgi.input is a list of
   pieces, read(n) returns at most n bytes of the current piece, b"" at the end;
   a failed computation is not cached (cached_property stores only on return). *)
From Coq Require Import List NArith Bool Arith.
Import ListNotations.

Definition bytes := list N.

Inductive msg :=
| MChunk (b : bytes) (more : bool)   (* http.request, body, more_body *)
| MDisc                               (* http.disconnect *)
| MOther.                             (* any other message type: ignored by stream() *)

Inductive ctype := CJson | CForm | COther.   (* content type class of the request *)

Inductive exn :=
| EConsumed        (* RuntimeError("Stream consumed") — the documented error *)
| EDisconnect      (* ClientDisconnect *)
| EUnsupported     (* UnsupportedMediaType *)
| EParse (name : list N)   (* whatever json.loads / the form decoder raise on these bytes (oracle) *)
| EInternal.       (* what the model would do where the code cannot get: proved unreachable *)

(* result class of json.loads / parse_qsl on given bytes: an oracle *)
Inductive pres := PErr (e : list N) | POk (r : list N) (c : bool).

Inductive value :=
| VBytes (b : bytes)
| VChunks (l : list bytes)
| VParsed (r : list N) (c : bool)
| VNone.

Inductive outcome := Val (v : value) | Exn (e : exn).

Inductive slot := SBody | SJson | SForm.

(* KStream None: iterate to the end; KStream (Some k): take k items, then abandon *)
Inductive akind := KBody | KStream (w : option nat) | KJson | KForm | KClose.

Inductive tid := TS (s : slot) | TA (i : nat) (k : akind).

(* a reader's remaining demand: None = everything, Some n = n+1 more items *)
Definition want := option nat.

Inductive tstate :=
| TAbsent
| TNew                                            (* scheduled, has not run yet *)
| TRecv                                           (* blocked in receive() *)
| TGot (w : want) (acc : list bytes) (m : msg)    (* receive() was answered with m *)
| TAwait (s : slot)                               (* awaiting the shared future of s *)
| TDone (o : outcome).

Definition slot_eqb (a b : slot) : bool :=
  match a, b with SBody, SBody | SJson, SJson | SForm, SForm => true | _, _ => false end.

Definition optnat_eqb (a b : option nat) : bool :=
  match a, b with None, None => true | Some x, Some y => Nat.eqb x y | _, _ => false end.

Definition akind_eqb (a b : akind) : bool :=
  match a, b with
  | KBody, KBody | KJson, KJson | KForm, KForm | KClose, KClose => true
  | KStream x, KStream y => optnat_eqb x y
  | _, _ => false
  end.

Definition tid_eqb (a b : tid) : bool :=
  match a, b with
  | TS x, TS y => slot_eqb x y
  | TA i k, TA j l => Nat.eqb i j && akind_eqb k l
  | _, _ => false
  end.

Record state := mk {
  pend : list msg;                 (* not yet delivered by the server *)
  avail : list msg;                (* delivered, not yet received *)
  rwait : list (tid * want * list bytes);   (* tasks blocked in receive(), in call order *)
  rcount : nat;                    (* number of receive() calls *)
  consumed : bool;                 (* _stream_consumed *)
  disc : bool;                     (* _is_disconnected *)
  tst : tid -> tstate;
  swait : slot -> list tid;        (* done-callbacks of the shared future, in order *)
  ready : list tid;                (* the loop's ready queue *)
  accs : list tid;                 (* accesses started, in order *)
  reader : option tid;             (* ghost: who set _stream_consumed *)
  log : list (tid * msg)           (* ghost: every message handed out, to whom *)
}.

Definition set_pend st x := mk x (avail st) (rwait st) (rcount st) (consumed st) (disc st) (tst st) (swait st) (ready st) (accs st) (reader st) (log st).
Definition set_avail st x := mk (pend st) x (rwait st) (rcount st) (consumed st) (disc st) (tst st) (swait st) (ready st) (accs st) (reader st) (log st).
Definition set_rwait st x := mk (pend st) (avail st) x (rcount st) (consumed st) (disc st) (tst st) (swait st) (ready st) (accs st) (reader st) (log st).
Definition set_rcount st x := mk (pend st) (avail st) (rwait st) x (consumed st) (disc st) (tst st) (swait st) (ready st) (accs st) (reader st) (log st).
Definition set_consumed st x := mk (pend st) (avail st) (rwait st) (rcount st) x (disc st) (tst st) (swait st) (ready st) (accs st) (reader st) (log st).
Definition set_disc st x := mk (pend st) (avail st) (rwait st) (rcount st) (consumed st) x (tst st) (swait st) (ready st) (accs st) (reader st) (log st).
Definition set_tstf st x := mk (pend st) (avail st) (rwait st) (rcount st) (consumed st) (disc st) x (swait st) (ready st) (accs st) (reader st) (log st).
Definition set_swaitf st x := mk (pend st) (avail st) (rwait st) (rcount st) (consumed st) (disc st) (tst st) x (ready st) (accs st) (reader st) (log st).
Definition set_ready st x := mk (pend st) (avail st) (rwait st) (rcount st) (consumed st) (disc st) (tst st) (swait st) x (accs st) (reader st) (log st).
Definition set_accs st x := mk (pend st) (avail st) (rwait st) (rcount st) (consumed st) (disc st) (tst st) (swait st) (ready st) x (reader st) (log st).
Definition set_reader st x := mk (pend st) (avail st) (rwait st) (rcount st) (consumed st) (disc st) (tst st) (swait st) (ready st) (accs st) x (log st).
Definition set_log st x := mk (pend st) (avail st) (rwait st) (rcount st) (consumed st) (disc st) (tst st) (swait st) (ready st) (accs st) (reader st) x.

Definition set_tst st (t : tid) (v : tstate) :=
  set_tstf st (fun t' => if tid_eqb t' t then v else tst st t').
Definition set_swait st (s : slot) (l : list tid) :=
  set_swaitf st (fun s' => if slot_eqb s' s then l else swait st s').

Definition init (ch : list msg) : state :=
  mk ch [] [] 0 false false (fun _ => TAbsent) (fun _ => []) [] [] None [].

Definition nonempty (b : bytes) : bool := match b with [] => false | _ => true end.

(* what the reader returns when its generator is exhausted / abandoned *)
Definition result_of (t : tid) (chunks : list bytes) : value :=
  match t with TS SBody => VBytes (concat chunks) | _ => VChunks chunks end.

(* stream() when the body is cached and done: yield await self.body; yield b"" *)
Definition replay (w : want) (ob : outcome) : outcome :=
  match ob with
  | Val (VBytes b) => Val (VChunks (match w with Some 0 => [b] | _ => [b; []] end))
  | Val _ => Exn EInternal
  | Exn e => Exn e
  end.

Definition parse_out (p : bytes -> pres) (o : outcome) : outcome :=
  match o with
  | Exn x => Exn x
  | Val (VBytes b) => match p b with PErr e => Exn (EParse e) | POk r c => Val (VParsed r c) end
  | Val _ => Exn EInternal
  end.

(* the reader after one message *)
Inductive hres := HStop (o : outcome) | HDisc | HMore (w : want) (acc : list bytes).

Definition handle (t : tid) (w : want) (acc : list bytes) (m : msg) : hres :=
  match m with
  | MChunk b more =>
      if nonempty b then
        match w with
        | Some 0 => HStop (Val (result_of t (acc ++ [b])))            (* abandoned after this item *)
        | _ =>
            let w' := match w with Some (S n) => Some n | _ => None end in
            if more then HMore w' (acc ++ [b])
            else HStop (Val (result_of t ((acc ++ [b]) ++ [[]])))       (* final yield b"" *)
        end
      else if more then HMore w acc
      else HStop (Val (result_of t (acc ++ [[]])))
  | MDisc => HDisc
  | MOther => HMore w acc
  end.

Section Model.
Variable ct : ctype.
Variables jparse fparse : bytes -> pres.

(* a task returns or raises: its future is done, the done-callbacks are scheduled *)
Definition finish (st : state) (t : tid) (o : outcome) : state :=
  let st1 := set_tst st t (TDone o) in
  match t with
  | TS s => set_swait (set_ready st1 (ready st1 ++ swait st1 s)) s []
  | TA _ _ => st1
  end.

(* the while-loop of stream(): [av] is [avail st] *)
Fixpoint pump (av : list msg) (st : state) (t : tid) (h : hres) : state :=
  match h with
  | HStop o => finish st t o
  | HDisc => finish (set_disc st true) t (Exn EDisconnect)
  | HMore w acc =>
      let st1 := set_rcount st (S (rcount st)) in
      match av with
      | [] => set_rwait (set_tst st1 t TRecv) (rwait st1 ++ [(t, w, acc)])
      | m :: av' =>
          pump av' (set_log (set_avail st1 av') (log st1 ++ [(t, m)])) t (handle t w acc m)
      end
  end.

Definition start_stream (st : state) (t : tid) (w : want) : state :=
  match tst st (TS SBody) with
  | TDone ob => finish st t (replay w ob)
  | _ =>
      if consumed st then finish st t (Exn EConsumed)
      else pump (avail st) (set_reader (set_consumed st true) (Some t)) t (HMore w [])
  end.

(* the awaiting coroutine continues with the result of the shared future *)
Definition after_await (st : state) (t : tid) (o : outcome) : state :=
  match t with
  | TA _ _ => finish st t o
  | TS SJson => finish st t (parse_out jparse o)
  | TS SForm => finish st t (parse_out fparse o)
  | TS SBody => finish st t (Exn EInternal)
  end.

(* `await self.<s>`: cached_property creates the task on first access *)
Definition await_slot (st : state) (t : tid) (s : slot) : state :=
  let st1 :=
    match tst st (TS s) with
    | TAbsent => set_ready (set_tst st (TS s) TNew) (ready st ++ [TS s])
    | _ => st
    end in
  match tst st1 (TS s) with
  | TDone o => after_await st1 t o
  | _ => set_swait (set_tst st1 t (TAwait s)) s (swait st1 s ++ [t])
  end.

Definition start (st : state) (t : tid) : state :=
  match t with
  | TS SBody => start_stream st t None
  | TS SJson => match ct with CJson => await_slot st t SBody | _ => finish st t (Exn EUnsupported) end
  | TS SForm => match ct with CForm => await_slot st t SBody | _ => finish st t (Exn EUnsupported) end
  | TA _ KBody => await_slot st t SBody
  | TA _ KJson => await_slot st t SJson
  | TA _ KForm => await_slot st t SForm
  | TA _ (KStream None) => start_stream st t None
  | TA _ (KStream (Some 0)) => finish st t (Val (VChunks []))      (* generator never run *)
  | TA _ (KStream (Some (S n))) => start_stream st t (Some n)
  | TA _ KClose => finish st t (Val VNone)
  end.

(* one atomic segment of task t *)
Definition run (st : state) (t : tid) : state :=
  match tst st t with
  | TNew => start st t
  | TGot w acc m => pump (avail st) st t (handle t w acc m)
  | TAwait s => match tst st (TS s) with TDone o => after_await st t o | _ => st end
  | _ => st
  end.

Definition deliver (st : state) : state :=
  match pend st with
  | [] => st
  | m :: p =>
      let st1 := set_pend st p in
      match rwait st1 with
      | [] => set_avail st1 (avail st1 ++ [m])
      | (t, w, acc) :: rw =>
          set_log (set_ready (set_tst (set_rwait st1 rw) t (TGot w acc m)) (ready st1 ++ [t]))
                  (log st1 ++ [(t, m)])
      end
  end.

Definition start_access (st : state) (k : akind) : state :=
  let t := TA (length (accs st)) k in
  set_accs (set_ready (set_tst st t TNew) (ready st ++ [t])) (accs st ++ [t]).

Fixpoint remove_nth {A} (n : nat) (l : list A) : list A :=
  match l, n with
  | [], _ => []
  | _ :: r, O => r
  | x :: r, S n' => x :: remove_nth n' r
  end.

Definition step_choice (st : state) (c : nat) : state :=
  match nth_error (ready st) c with
  | None => st
  | Some t => run (set_ready st (remove_nth c (ready st))) t
  end.

Fixpoint run_all (fuel : nat) (st : state) : state :=
  match fuel with
  | O => st
  | S f => match ready st with [] => st | _ :: _ => run_all f (step_choice st 0) end
  end.

Inductive event := EStart (k : akind) | EDeliver | EStep (c : nat) | ERunAll (fuel : nat).

Definition do_event (st : state) (e : event) : state :=
  match e with
  | EStart k => start_access st k
  | EDeliver => deliver st
  | EStep c => step_choice st c
  | ERunAll f => run_all f st
  end.

Definition exec (evs : list event) (st : state) : state := fold_left do_event evs st.

End Model.

(* ---------- specification functions ---------- *)

(* the body the channel carries: None when it ends, or disconnects, before a final chunk *)
Fixpoint body_of (ch : list msg) : option bytes :=
  match ch with
  | [] => None
  | MChunk b true :: r => match body_of r with Some x => Some (b ++ x) | None => None end
  | MChunk b false :: _ => Some b
  | MDisc :: _ => None
  | MOther :: r => body_of r
  end.

(* the first terminating message is a disconnect *)
Fixpoint disc_first (ch : list msg) : bool :=
  match ch with
  | [] => false
  | MChunk _ true :: r => disc_first r
  | MChunk _ false :: _ => false
  | MDisc :: _ => true
  | MOther :: r => disc_first r
  end.

(* number of messages up to and including the first terminating one *)
Fixpoint need (ch : list msg) : nat :=
  match ch with
  | [] => 0
  | MChunk _ true :: r => S (need r)
  | MChunk _ false :: _ => 1
  | MDisc :: _ => 1
  | MOther :: r => S (need r)
  end.

Fixpoint has_term (ch : list msg) : bool :=
  match ch with
  | [] => false
  | MChunk _ true :: r => has_term r
  | MChunk _ false :: _ => true
  | MDisc :: _ => true
  | MOther :: r => has_term r
  end.

(* ====================================================================== *)
(* Part B — WSGI                                                          *)

Inductive wkind := WBody | WStream (w : option nat) (cs : N) | WJson | WForm | WClose.

Record wstate := wmk {
  w_input : list bytes;        (* pieces wsgi.input will still return *)
  w_consumed : bool;
  w_reads : list N;            (* sizes requested from wsgi.input.read, in order *)
  w_body : option bytes;       (* instance dictionary entries *)
  w_json : option (list N * bool);
  w_form : option (list N * bool);
  w_got : list bytes;          (* ghost: what the reads returned *)
  w_reader : option nat;       (* ghost: index of the access that set _stream_consumed *)
  w_n : nat                    (* number of accesses so far *)
}.

Definition winit (pieces : list bytes) : wstate :=
  wmk pieces false [] None None None [] None 0.

(* wsgi.input.read(n) *)
Definition wread (n : N) (inp : list bytes) : bytes * list bytes :=
  match inp with
  | [] => ([], [])
  | p :: r =>
      if (N.of_nat (length p) <=? n)%N then (p, r)
      else (firstn (N.to_nat n) p, skipn (N.to_nat n) p :: r)
  end.

(* the while-loop of stream(): returns the items yielded, the input left, the reads made *)
Fixpoint wloop (fuel : nat) (cs : N) (w : want) (inp : list bytes) (acc : list bytes) (reads : nat)
  : list bytes * list bytes * nat :=
  match fuel with
  | O => (acc, inp, reads)
  | S f =>
      let '(c, inp') := wread cs inp in
      if nonempty c then
        match w with
        | Some 0 => (acc ++ [c], inp', S reads)
        | _ => wloop f cs (match w with Some (S n) => Some n | _ => None end) inp' (acc ++ [c]) (S reads)
        end
      else (acc, inp', S reads)
  end.

Definition total (l : list bytes) : nat := length (concat l).

Definition repeatN (x : N) (n : nat) : list N := repeat x n.

(* request.stream(cs) taken for [w] items (None = all); [w] here is the demand minus one *)
Definition wstream (st : wstate) (w : want) (cs : N) : wstate * outcome :=
  match w_body st with
  | Some b => (st, Val (VChunks [b]))
  | None =>
      if w_consumed st then (st, Exn EConsumed)
      else
        let '(items, inp', n) := wloop (S (total (w_input st))) cs w (w_input st) [] 0 in
        (wmk inp' true (w_reads st ++ repeatN cs n) (w_body st) (w_json st) (w_form st)
             (w_got st ++ items) (Some (w_n st)) (w_n st),
         Val (VChunks items))
  end.

Definition wbody (st : wstate) : wstate * outcome :=
  match w_body st with
  | Some b => (st, Val (VBytes b))
  | None =>
      match wstream st None 65536 with
      | (st1, Val (VChunks items)) =>
          let b := concat items in
          (wmk (w_input st1) (w_consumed st1) (w_reads st1) (Some b) (w_json st1) (w_form st1)
               (w_got st1) (w_reader st1) (w_n st1), Val (VBytes b))
      | (st1, Val _) => (st1, Exn EInternal)
      | (st1, Exn e) => (st1, Exn e)
      end
  end.

Section WModel.
Variable ct : ctype.
Variables jparse fparse : bytes -> pres.

Definition wjson (st : wstate) : wstate * outcome :=
  match w_json st with
  | Some (r, c) => (st, Val (VParsed r c))
  | None =>
      match ct with
      | CJson =>
          match wbody st with
          | (st1, Val (VBytes b)) =>
              match jparse b with
              | PErr e => (st1, Exn (EParse e))
              | POk r c =>
                  (wmk (w_input st1) (w_consumed st1) (w_reads st1) (w_body st1) (Some (r, c)) (w_form st1)
                       (w_got st1) (w_reader st1) (w_n st1), Val (VParsed r c))
              end
          | (st1, Val _) => (st1, Exn EInternal)
          | (st1, Exn e) => (st1, Exn e)
          end
      | _ => (st, Exn EUnsupported)
      end
  end.

Definition wform (st : wstate) : wstate * outcome :=
  match w_form st with
  | Some (r, c) => (st, Val (VParsed r c))
  | None =>
      match ct with
      | CForm =>
          match wbody st with
          | (st1, Val (VBytes b)) =>
              match fparse b with
              | PErr e => (st1, Exn (EParse e))
              | POk r c =>
                  (wmk (w_input st1) (w_consumed st1) (w_reads st1) (w_body st1) (w_json st1) (Some (r, c))
                       (w_got st1) (w_reader st1) (w_n st1), Val (VParsed r c))
              end
          | (st1, Val _) => (st1, Exn EInternal)
          | (st1, Exn e) => (st1, Exn e)
          end
      | _ => (st, Exn EUnsupported)
      end
  end.

Definition wbump (p : wstate * outcome) : wstate * outcome :=
  let st := fst p in
  (wmk (w_input st) (w_consumed st) (w_reads st) (w_body st) (w_json st) (w_form st)
       (w_got st) (w_reader st) (S (w_n st)), snd p).

Definition wstep (st : wstate) (a : wkind) : wstate * outcome :=
  wbump
    match a with
    | WBody => wbody st
    | WStream None cs => wstream st None cs
    | WStream (Some 0) _ => (st, Val (VChunks []))
    | WStream (Some (S n)) cs => wstream st (Some n) cs
    | WJson => wjson st
    | WForm => wform st
    | WClose => (st, Val VNone)
    end.

Fixpoint wexec (acs : list wkind) (st : wstate) : wstate * list outcome :=
  match acs with
  | [] => (st, [])
  | a :: r =>
      let '(st1, o) := wstep st a in
      let '(st2, os) := wexec r st1 in
      (st2, o :: os)
  end.

End WModel.

(* ---------- vocabulary of the theorems ---------- *)

(* tasks that may take the channel *)
Definition rk (t : tid) : bool :=
  match t with
  | TS SBody => true
  | TA _ (KStream (Some 0)) => false
  | TA _ (KStream _) => true
  | _ => false
  end.

(* readers that go on to the end *)
Definition full (t : tid) : bool :=
  match t with TS SBody => true | TA _ (KStream None) => true | _ => false end.

Definition demand (w : option nat) : want := match w with Some (S n) => Some n | _ => None end.

Definition slot_kind (k : akind) : bool :=
  match k with KBody | KJson | KForm => true | _ => false end.

(* what stream() returns when the body is cached *)
Definition stream_replay (kw : option nat) (ob : outcome) : outcome :=
  match kw with Some 0 => Val (VChunks []) | _ => replay (demand kw) ob end.

(* body after the stream was taken *)
Definition body_derived (ct : ctype) (t : tid) : Prop :=
  match t with
  | TS SBody | TA _ KBody => True
  | TS SJson | TA _ KJson => ct = CJson
  | TS SForm | TA _ KForm => ct = CForm
  | _ => False
  end.

Definition wslot (a : wkind) : bool := match a with WBody | WJson | WForm => true | _ => false end.

Definition wderived (ct : ctype) (a : wkind) : Prop :=
  match a with WBody => True | WJson => ct = CJson | WForm => ct = CForm | _ => False end.

(* ---------- vocabulary of the liveness theorems ---------- *)

(* [waits st t]: the unfinished task t is blocked on something that has NOT happened
   yet.  Either it is the one registered receive() call, every delivered message
   has been handed out and none of them ended the body (so it waits for a message
   the server has still to deliver); or it awaits the shared future of a slot,
   is registered as a done-callback of that future, and the slot's own task is
   unfinished and waits in the same sense (chains: access -> json/form -> body ->
   receive). *)
Inductive waits (st : state) : tid -> Prop :=
| W_recv : forall t w acc,
    tst st t = TRecv -> rwait st = [(t, w, acc)] -> avail st = [] ->
    has_term (map snd (log st)) = false -> waits st t
| W_slot : forall t s,
    tst st t = TAwait s -> In t (swait st s) -> waits st (TS s) -> waits st t.

(* the task has a segment it can run now: it was scheduled and has not begun, its
   receive() was answered, or the future it awaits is done *)
Definition runnable (st : state) (t : tid) : Prop :=
  tst st t = TNew \/ (exists w acc m, tst st t = TGot w acc m) \/
  (exists s o, tst st t = TAwait s /\ tst st (TS s) = TDone o).

Definition started (st : state) (t : tid) : Prop := In t (accs st) \/ tst st t <> TAbsent.

Definition is_start (e : event) : bool := match e with EStart _ => true | _ => false end.

(* number of accesses the application starts in an event list *)
Definition nstarts (evs : list event) : nat := length (filter is_start evs).

(* segments that can still run once nothing more is delivered: at most two per
   task (start / resume), for the started accesses and the three slot tasks *)
Definition fuel_bound (naccesses : nat) : nat := 2 * (naccesses + 3).

(* the loop of stream() with unbounded patience: [wloop] run with any fuel above
   the one the model uses gives the same result, see w_completion *)
Definition wfuel (inp : list bytes) : nat := S (total inp).
