(* C10 — WSGI accesses when wsgi.input.read() can RAISE.
   Executable model only (no proofs); self-contained next to Part B of Model.v.

   baize/wsgi/requests.py, Request.stream / body / json / form / close, with
   baize/utils.py cached_property (stores the result in the instance dictionary
   only when the function RETURNS: a raised exception is not cached).

   The input is a script of read() calls: [Some p] = the call returns (at most
   chunk_size bytes of) the piece p, [None] = the call raises an OSError (a socket
   timeout; the WSGI counterpart of a disconnect) and the script continues with
   the next entry — so a read that fails once and then succeeds is
   [.. None; Some rest ..], a read that fails for good is [.. None; None; ..].
   At the end of the script read() returns b"".

   What the code does (stream()):
       if "body" in self.__dict__: yield self.body; return
       if self._stream_consumed: raise RuntimeError("Stream consumed")
       self._stream_consumed = True          <- before the first read, never reset
       while True: chunk = body.read(chunk_size) ...   <- an exception leaves the generator
   so after a failed read the flag stays set, nothing is cached, and every later
   body-derived access raises the documented RuntimeError; the input is not
   touched again. *)
From Coq Require Import List NArith Bool Arith.
From Baize Require Import C10.Model.
Import ListNotations.

(* outcome of an access: a value, one of the library's errors, or the error raised
   by wsgi.input.read() passing through unchanged *)
Inductive fout := FVal (v : value) | FExn (e : exn) | FReadErr.

Definition finput := list (option bytes).

(* the pieces of the script, failing reads left out: what the client sent *)
Fixpoint pieces (inp : finput) : list bytes :=
  match inp with
  | [] => []
  | Some p :: r => p :: pieces r
  | None :: r => pieces r
  end.

Fixpoint has_fault (inp : finput) : bool :=
  match inp with
  | [] => false
  | None :: _ => true
  | Some _ :: r => has_fault r
  end.

(* PEP 3333: read() returns b"" only at the end of the input *)
Fixpoint no_empty (inp : finput) : bool :=
  match inp with
  | [] => true
  | None :: r => no_empty r
  | Some p :: r => nonempty p && no_empty r
  end.

Definition ftotal (inp : finput) : nat := length (concat (pieces inp)).

Record fstate := fmk {
  f_input : finput;            (* the read() calls still to come *)
  f_consumed : bool;           (* _stream_consumed *)
  f_reads : list N;            (* sizes requested from wsgi.input.read, in order (failing calls included) *)
  f_body : option bytes;       (* instance dictionary entries *)
  f_json : option (list N * bool);
  f_form : option (list N * bool);
  f_got : list bytes           (* ghost: what the successful reads returned *)
}.

Definition finit (inp : finput) : fstate := fmk inp false [] None None None [].

(* wsgi.input.read(n): None = raises *)
Definition fread (n : N) (inp : finput) : option bytes * finput :=
  match inp with
  | [] => (Some [], [])
  | None :: r => (None, r)
  | Some p :: r =>
      if (N.of_nat (length p) <=? n)%N then (Some p, r)
      else (Some (firstn (N.to_nat n) p), Some (skipn (N.to_nat n) p) :: r)
  end.

(* the while-loop of stream(): items yielded, input left, reads made, did a read raise *)
Fixpoint floop (fuel : nat) (cs : N) (w : want) (inp : finput) (acc : list bytes) (reads : nat)
  : list bytes * finput * nat * bool :=
  match fuel with
  | O => (acc, inp, reads, false)
  | S f =>
      match fread cs inp with
      | (None, inp') => (acc, inp', S reads, true)
      | (Some c, inp') =>
          if nonempty c then
            match w with
            | Some 0 => (acc ++ [c], inp', S reads, false)
            | _ => floop f cs (match w with Some (S n) => Some n | _ => None end) inp' (acc ++ [c]) (S reads)
            end
          else (acc, inp', S reads, false)
      end
  end.

(* request.stream(cs) taken for [w]+1 items (None = all) *)
Definition fstream (st : fstate) (w : want) (cs : N) : fstate * fout :=
  match f_body st with
  | Some b => (st, FVal (VChunks [b]))
  | None =>
      if f_consumed st then (st, FExn EConsumed)
      else
        match floop (S (ftotal (f_input st))) cs w (f_input st) [] 0 with
        | (items, inp', n, failed) =>
            (fmk inp' true (f_reads st ++ repeatN cs n) None (f_json st) (f_form st) (f_got st ++ items),
             if failed then FReadErr else FVal (VChunks items))
        end
  end.

Definition set_body (st : fstate) (b : bytes) : fstate :=
  fmk (f_input st) (f_consumed st) (f_reads st) (Some b) (f_json st) (f_form st) (f_got st).
Definition set_json (st : fstate) (x : list N * bool) : fstate :=
  fmk (f_input st) (f_consumed st) (f_reads st) (f_body st) (Some x) (f_form st) (f_got st).
Definition set_form (st : fstate) (x : list N * bool) : fstate :=
  fmk (f_input st) (f_consumed st) (f_reads st) (f_body st) (f_json st) (Some x) (f_got st).

(* cached_property body: b"".join([chunk for chunk in self.stream()]) *)
Definition fbody (st : fstate) : fstate * fout :=
  match f_body st with
  | Some b => (st, FVal (VBytes b))
  | None =>
      match fstream st None 65536 with
      | (st1, FVal (VChunks items)) => (set_body st1 (concat items), FVal (VBytes (concat items)))
      | (st1, FVal _) => (st1, FExn EInternal)
      | (st1, o) => (st1, o)
      end
  end.

(* cached_property json / form: content type test, self.body, parse; stored on return only *)
Definition fslot (mine : bool) (parse : bytes -> pres) (cached : option (list N * bool))
  (store : fstate -> list N * bool -> fstate) (st : fstate) : fstate * fout :=
  match cached with
  | Some (r, c) => (st, FVal (VParsed r c))
  | None =>
      if mine then
        match fbody st with
        | (st1, FVal (VBytes b)) =>
            match parse b with
            | PErr e => (st1, FExn (EParse e))
            | POk r c => (store st1 (r, c), FVal (VParsed r c))
            end
        | (st1, FVal _) => (st1, FExn EInternal)
        | (st1, o) => (st1, o)
        end
      else (st, FExn EUnsupported)
  end.

Definition is_json (ct : ctype) : bool := match ct with CJson => true | _ => false end.
Definition is_form (ct : ctype) : bool := match ct with CForm => true | _ => false end.

Section FModel.
Variable ct : ctype.
Variables jparse fparse : bytes -> pres.

Definition fjson (st : fstate) : fstate * fout := fslot (is_json ct) jparse (f_json st) set_json st.
Definition fform (st : fstate) : fstate * fout := fslot (is_form ct) fparse (f_form st) set_form st.

Definition fstep (st : fstate) (a : wkind) : fstate * fout :=
  match a with
  | WBody => fbody st
  | WStream None cs => fstream st None cs
  | WStream (Some 0) _ => (st, FVal (VChunks []))        (* generator never run *)
  | WStream (Some (S n)) cs => fstream st (Some n) cs
  | WJson => fjson st
  | WForm => fform st
  | WClose => (st, FVal VNone)
  end.

Fixpoint fexec (acs : list wkind) (st : fstate) : fstate * list fout :=
  match acs with
  | [] => (st, [])
  | a :: r =>
      let '(st1, o) := fstep st a in
      let '(st2, os) := fexec r st1 in
      (st2, o :: os)
  end.

End FModel.

(* ---------- vocabulary of the theorems ---------- *)

(* accesses that deliver (something derived from) the body: body, json / form under
   their content type, and stream() actually started *)
Definition freads (ct : ctype) (a : wkind) : Prop :=
  match a with
  | WBody => True
  | WJson => ct = CJson
  | WForm => ct = CForm
  | WStream (Some 0) _ => False
  | WStream _ _ => True
  | WClose => False
  end.

Definition is_val (o : fout) : Prop := match o with FVal _ => True | _ => False end.
