(* C03 — A Range header resolves to the canonical set of satisfiable byte ranges.
   Statements only; every proof is a reference to C03/Proofs.v. *)
From Coq Require Import List NArith ZArith.
From Baize Require Import Lib.Wire C03.Model C03.Proofs.
Import ListNotations.
Local Open Scope Z_scope.

(* Layer A — every header text, every size: an accepted header yields ranges that
   are non-empty, lie within [0,size), strictly ascending, disjoint, non-adjacent. *)
Theorem range_canonical : forall (header : list N) (size : Z) (l : list (Z * Z)),
  parse_range header size = Ranges l ->
  l <> [] /\ Forall (fun r => 0 <= fst r /\ fst r < snd r /\ snd r <= size) l /\ ascending l.
Proof. exact range_canonical_proof. Qed.

(* Layer B — the union of the returned ranges is exactly the set of positions the
   header's specs denote after clipping to the file. *)
Theorem range_denotation : forall (header : list N) (size : Z) (l : list (Z * Z)),
  parse_range header size = Ranges l ->
  exists specs, header_specs header size = Some specs /\
    forall p, (exists r, In r l /\ fst r <= p < snd r) <->
              (exists s, In s specs /\ denotes size s p).
Proof. exact range_denotation_proof. Qed.

(* The specs of a header (header_specs) are now defined for EVERY header that starts with
   "bytes=": a number of more digits than int() accepts stands for a position beyond the
   end of the file (size + 1), which is what it denotes for every real file size.
   Classification: 416 iff some spec starts at/after the end or is a zero/over-long
   suffix; otherwise 400 iff there is no spec or some first > last; otherwise ranges. *)
Theorem range_classification : forall (header : list N) (size : Z) (specs : list spec),
  0 <= size ->
  header_specs header size = Some specs ->
  (parse_range header size = Unsatisfiable <-> Exists (unsat size) specs) /\
  (parse_range header size = Malformed <->
     specs = [] \/ (~ Exists (unsat size) specs /\ Exists inverted specs)) /\
  ((exists l, parse_range header size = Ranges l) <->
     specs <> [] /\ ~ Exists (unsat size) specs /\ ~ Exists inverted specs).
Proof. exact range_classification_proof. Qed.

(* What a run of digits stands for: its value — whatever its leading zeros — as long as
   int() accepts the rest (at most 4300 digits); a longer one stands for a position beyond
   the end of the file (for every real file size that is what it denotes). *)
Theorem number_meaning : forall (size : Z) (s : list N),
  (too_long (strip_zeros s) = false -> number size s = digits_val s) /\
  (too_long (strip_zeros s) = true -> number size s = size + 1).
Proof. exact (fun size s => conj (number_denotes_proof size s) (number_beyond_proof size s)). Qed.

(* The merge loop as it was before the repair does not satisfy range_canonical. *)
Theorem merge_orig_refuted :
  exists size specs l, resolve_orig size specs = Ranges l /\ ~ canonical size l.
Proof. exact orig_not_canonical. Qed.

Print Assumptions range_canonical.
Print Assumptions range_denotation.
Print Assumptions range_classification.
Print Assumptions merge_orig_refuted.
Print Assumptions number_meaning.
