From Baize Require Import C03.Model.
Theorem placeholder : True. Proof. exact I. Qed.
Print Assumptions placeholder.
