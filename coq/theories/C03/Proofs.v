(* C03 — proofs about the model of parse_range. *)
From Coq Require Import List NArith ZArith Bool Lia Sorting.Sorted.
From Baize Require Import Lib.Wire Lib.Unicode C03.Model.
Import ListNotations.
Local Open Scope Z_scope.

(* ---------- vocabulary of the statements ---------- *)

Definition in_range (r : Z * Z) (p : Z) : Prop := fst r <= p < snd r.
Definition covers (l : list (Z * Z)) (p : Z) : Prop := exists r, In r l /\ in_range r p.

Definition valid (size : Z) (r : Z * Z) : Prop := 0 <= fst r /\ fst r < snd r /\ snd r <= size.

(* strictly ascending, pairwise disjoint and non-adjacent: each range ends
   strictly before the next one starts *)
Inductive ascending : list (Z * Z) -> Prop :=
| asc_nil : ascending []
| asc_one r : ascending [r]
| asc_cons r1 r2 l : snd r1 < fst r2 -> ascending (r2 :: l) -> ascending (r1 :: r2 :: l).

Definition canonical (size : Z) (l : list (Z * Z)) : Prop :=
  l <> [] /\ Forall (valid size) l /\ ascending l.

(* the byte positions a spec denotes after clipping to a file of [size] bytes *)
Definition denotes (size : Z) (s : spec) (p : Z) : Prop :=
  match s with
  | FirstLast f l => f <= p <= l /\ p < size
  | FirstOpen f => f <= p < size
  | Suffix n => size - n <= p < size
  end.

Definition wf_spec (s : spec) : Prop :=
  match s with
  | FirstLast f l => 0 <= f /\ 0 <= l
  | FirstOpen f => 0 <= f
  | Suffix n => 0 <= n
  end.

(* starts at or beyond the end of the file, or a zero / over-long suffix *)
Definition unsat (size : Z) (s : spec) : Prop :=
  match s with
  | FirstLast f _ => size <= f
  | FirstOpen f => size <= f
  | Suffix n => n = 0 \/ size < n
  end.

(* first > last *)
Definition inverted (s : spec) : Prop :=
  match s with FirstLast f l => l < f | _ => False end.

(* ---------- insertion sort ---------- *)

Definition le_fst (a b : Z * Z) : Prop := fst a <= fst b.

Lemma insert_In x y l : In y (insert x l) <-> y = x \/ In y l.
Proof.
  induction l as [|z r IH]; cbn [insert].
  - cbn. intuition.
  - destruct (pair_leb x z); cbn [In]; [intuition|]. rewrite IH. intuition.
Qed.

Lemma isort_In y l : In y (isort l) <-> In y l.
Proof.
  induction l as [|x r IH]; cbn [isort fold_right]; [reflexivity|].
  fold (isort r). rewrite insert_In, IH. cbn. intuition.
Qed.

Lemma pair_leb_true x y : pair_leb x y = true -> fst x <= fst y.
Proof. unfold pair_leb. lia. Qed.

Lemma pair_leb_false x y : pair_leb x y = false -> fst y <= fst x.
Proof. unfold pair_leb. lia. Qed.

Lemma insert_sorted x l :
  StronglySorted le_fst l -> StronglySorted le_fst (insert x l).
Proof.
  induction l as [|z r IH]; cbn [insert]; intros H.
  - constructor; constructor.
  - inversion H as [|? ? Hr Hz]; subst.
    destruct (pair_leb x z) eqn:E.
    + constructor; [exact H|]. constructor.
      * apply pair_leb_true; exact E.
      * apply pair_leb_true in E. eapply Forall_impl; [|exact Hz].
        unfold le_fst. intros a Ha. lia.
    + constructor; [apply IH; exact Hr|].
      apply Forall_forall. intros a Ha. apply insert_In in Ha as [->|Ha].
      * apply pair_leb_false; exact E.
      * rewrite Forall_forall in Hz. apply Hz; exact Ha.
Qed.

Lemma isort_sorted l : StronglySorted le_fst (isort l).
Proof.
  induction l as [|x r IH]; cbn [isort fold_right]; [constructor|].
  apply insert_sorted. exact IH.
Qed.

(* ---------- coalescing a sorted list ---------- *)

Lemma coalesce_spec size l : forall cur,
  valid size cur -> Forall (valid size) l -> StronglySorted le_fst (cur :: l) ->
  Forall (valid size) (coalesce cur l) /\
  ascending (coalesce cur l) /\
  (exists r0 rest, coalesce cur l = r0 :: rest /\ fst r0 = fst cur) /\
  (forall p, covers (coalesce cur l) p <-> covers (cur :: l) p).
Proof.
  induction l as [|x r IH]; intros cur Hc Hl Hs; cbn [coalesce].
  - repeat split.
    + constructor; [exact Hc|constructor].
    + constructor.
    + exists cur, []. split; reflexivity.
    + intros H; exact H.
    + intros H; exact H.
  - inversion Hl as [|? ? Hx Hr]; subst.
    inversion Hs as [|? ? Hs1 Hf1]; subst.
    inversion Hs1 as [|? ? Hs2 Hf2]; subst.
    inversion Hf1 as [|? ? Hcx Hcr]; subst.
    unfold le_fst in Hcx.
    destruct (fst x <=? snd cur) eqn:E.
    + apply Z.leb_le in E.
      set (cur' := (fst cur, Z.max (snd cur) (snd x))).
      assert (Hc' : valid size cur').
      { unfold valid in *. subst cur'. cbn [fst snd]. lia. }
      assert (Hs' : StronglySorted le_fst (cur' :: r)).
      { constructor; [exact Hs2|]. eapply Forall_impl; [|exact Hcr].
        unfold le_fst. subst cur'. cbn [fst]. intros a Ha; exact Ha. }
      destruct (IH cur' Hc' Hr Hs') as (A & B & (r0 & rest & C1 & C2) & D).
      repeat split; try assumption.
      * exists r0, rest. split; [exact C1|]. rewrite C2. reflexivity.
      * intros H. apply D in H. destruct H as (q & Hq & Hp).
        destruct Hq as [<-|Hq].
        -- unfold in_range in Hp. subst cur'. cbn [fst snd] in Hp.
           destruct (Z.lt_ge_cases p (snd cur)) as [Hlt|Hge].
           ++ exists cur. split; [left; reflexivity|]. unfold in_range. lia.
           ++ exists x. split; [right; left; reflexivity|]. unfold in_range. lia.
        -- exists q. split; [right; right; exact Hq|exact Hp].
      * intros (q & Hq & Hp). apply D.
        destruct Hq as [<-|[<-|Hq]].
        -- exists cur'. split; [left; reflexivity|]. unfold in_range in *. subst cur'. cbn [fst snd]. lia.
        -- exists cur'. split; [left; reflexivity|]. unfold in_range in *. subst cur'. cbn [fst snd]. lia.
        -- exists q. split; [right; exact Hq|exact Hp].
    + apply Z.leb_gt in E.
      destruct (IH x Hx Hr Hs1) as (A & B & (r0 & rest & C1 & C2) & D).
      repeat split.
      * constructor; assumption.
      * rewrite C1. constructor; [rewrite C2; exact E|]. rewrite <- C1. exact B.
      * exists cur, (coalesce x r). split; reflexivity.
      * intros (q & Hq & Hp). destruct Hq as [<-|Hq].
        -- exists cur. split; [left; reflexivity|exact Hp].
        -- assert (Hcov : covers (coalesce x r) p) by (exists q; split; assumption).
           apply D in Hcov. destruct Hcov as (q' & Hq' & Hp').
           exists q'. split; [right; exact Hq'|exact Hp'].
      * intros (q & Hq & Hp). destruct Hq as [<-|Hq].
        -- exists cur. split; [left; reflexivity|exact Hp].
        -- assert (Hcov : covers (x :: r) p) by (exists q; split; assumption).
           apply D in Hcov. destruct Hcov as (q' & Hq' & Hp').
           exists q'. split; [right; exact Hq'|exact Hp'].
Qed.

Lemma merge_spec size l :
  l <> [] -> Forall (valid size) l ->
  canonical size (merge l) /\ (forall p, covers (merge l) p <-> covers l p).
Proof.
  intros Hne Hv. unfold merge.
  pose proof (isort_sorted l) as Hs.
  assert (Hv' : Forall (valid size) (isort l)).
  { apply Forall_forall. intros a Ha. apply (proj1 (isort_In a l)) in Ha.
    rewrite Forall_forall in Hv. apply Hv; exact Ha. }
  assert (Hcov : forall p, covers (isort l) p <-> covers l p).
  { intros p. unfold covers. split; intros (q & Hq & Hp); exists q; split; try exact Hp.
    - apply (proj1 (isort_In q l)); exact Hq.
    - apply (proj2 (isort_In q l)); exact Hq. }
  destruct (isort l) as [|x r] eqn:E.
  - exfalso. destruct l as [|a l']; [apply Hne; reflexivity|].
    assert (In a (isort (a :: l'))) by (apply (proj2 (isort_In a (a :: l'))); left; reflexivity).
    rewrite E in H. exact H.
  - inversion Hv' as [|? ? Hx Hr]; subst.
    destruct (coalesce_spec size r x Hx Hr Hs) as (A & B & (r0 & rest & C1 & C2) & D).
    split.
    + split; [rewrite C1; discriminate|]. split; assumption.
    + intros p. rewrite D. apply Hcov.
Qed.

(* ---------- one spec ---------- *)

Lemma to_range_end_le size s : 0 <= size -> snd (to_range size s) <= size.
Proof.
  intros Hs. destruct s as [f l|f|n]; cbn [to_range spec_end snd]; try lia.
  destruct (l <? size) eqn:E; lia.
Qed.

Lemma to_range_denotes size s p :
  in_range (to_range size s) p <-> denotes size s p.
Proof.
  unfold in_range. destruct s as [f l|f|n]; cbn [to_range spec_start spec_end fst snd denotes]; try lia.
  destruct (l <? size) eqn:E; lia.
Qed.

Lemma start_ok_iff size r : start_ok size r = true <-> 0 <= fst r < size.
Proof. unfold start_ok. lia. Qed.

Lemma start_ok_unsat size s :
  wf_spec s -> (start_ok size (to_range size s) = false <-> unsat size s).
Proof.
  intros Hw. rewrite <- not_true_iff_false, start_ok_iff.
  destruct s as [f l|f|n]; cbn [to_range spec_start fst unsat wf_spec] in *; lia.
Qed.

Lemma nonempty_inverted size s :
  wf_spec s -> start_ok size (to_range size s) = true ->
  ((fst (to_range size s) <? snd (to_range size s)) = false <-> inverted s).
Proof.
  intros Hw Hs. apply start_ok_iff in Hs.
  destruct s as [f l|f|n]; cbn [to_range spec_start spec_end fst snd inverted wf_spec] in *; try lia.
  destruct (l <? size) eqn:E; lia.
Qed.

(* ---------- resolve ---------- *)

Lemma forallb_negb_false {A} (f : A -> bool) l :
  negb (forallb f l) = true <-> Exists (fun x => f x = false) l.
Proof.
  rewrite negb_true_iff. induction l as [|x r IH]; cbn [forallb].
  - split; [discriminate|]. intros H; inversion H.
  - destruct (f x) eqn:E; cbn [andb].
    + rewrite IH. split; intros H.
      * right; exact H.
      * inversion H; subst; [congruence|assumption].
    + split; [|reflexivity]. intros _. left; exact E.
Qed.

Lemma resolve_ranges size specs l :
  resolve size specs = Ranges l ->
  specs <> [] /\
  Forall (valid size) (map (to_range size) specs) /\
  (l = map (to_range size) specs /\ length specs = 1%nat \/ l = merge (map (to_range size) specs)).
Proof.
  unfold resolve, resolve_with.
  destruct (map (to_range size) specs) as [|r0 rs] eqn:Em; [discriminate|].
  destruct (negb (forallb (start_ok size) (r0 :: rs))) eqn:E1; [discriminate|].
  destruct (negb (forallb (fun r => fst r <? snd r) (r0 :: rs))) eqn:E2; [discriminate|].
  apply negb_false_iff in E1, E2.
  rewrite forallb_forall in E1, E2.
  intros H.
  assert (Hne : specs <> []) by (destruct specs; [discriminate|discriminate]).
  assert (Hsize : 0 <= size).
  { specialize (E1 r0 (or_introl eq_refl)). apply start_ok_iff in E1. lia. }
  assert (Hv : Forall (valid size) (r0 :: rs)).
  { apply Forall_forall. intros r Hr. unfold valid.
    pose proof (E1 r Hr) as H1. pose proof (E2 r Hr) as H2.
    apply start_ok_iff in H1. apply Z.ltb_lt in H2.
    rewrite <- Em in Hr. apply in_map_iff in Hr as (s & <- & _).
    pose proof (to_range_end_le size s Hsize). lia. }
  split; [exact Hne|]. split; [exact Hv|].
  destruct rs as [|r1 rs'].
  - left. injection H as <-. split; [reflexivity|].
    destruct specs as [|s [|s' ss]]; cbn in Em; try discriminate. reflexivity.
  - right. injection H as <-. reflexivity.
Qed.

Lemma canonical_single size r : valid size r -> canonical size [r].
Proof.
  intros H. split; [discriminate|]. split; [constructor; [exact H|constructor]|constructor].
Qed.

Lemma resolve_canonical size specs l :
  resolve size specs = Ranges l -> canonical size l.
Proof.
  intros H. apply resolve_ranges in H as (Hne & Hv & [[-> Hlen]| ->]).
  - destruct specs as [|s [|s' ss]]; cbn in Hlen; try discriminate.
    cbn [map] in *. inversion Hv; subst. apply canonical_single; assumption.
  - apply merge_spec; [|exact Hv]. destruct specs; [contradiction|discriminate].
Qed.

Lemma covers_map_denotes size specs p :
  covers (map (to_range size) specs) p <-> exists s, In s specs /\ denotes size s p.
Proof.
  unfold covers. split.
  - intros (r & Hr & Hp). apply in_map_iff in Hr as (s & <- & Hs).
    exists s. split; [exact Hs|]. apply to_range_denotes; exact Hp.
  - intros (s & Hs & Hp). exists (to_range size s). split.
    + apply in_map; exact Hs.
    + apply to_range_denotes; exact Hp.
Qed.

Lemma resolve_denotation size specs l :
  resolve size specs = Ranges l ->
  forall p, covers l p <-> exists s, In s specs /\ denotes size s p.
Proof.
  intros H p. apply resolve_ranges in H as (Hne & Hv & [[-> Hlen]| ->]).
  - apply covers_map_denotes.
  - rewrite <- covers_map_denotes.
    apply (proj2 (merge_spec size (map (to_range size) specs)
                   ltac:(destruct specs; [contradiction|discriminate]) Hv)).
Qed.

Lemma Exists_map {A B} (f : A -> B) P l : Exists P (map f l) <-> Exists (fun x => P (f x)) l.
Proof.
  induction l as [|x r IH]; cbn [map].
  - split; intros H; inversion H.
  - split; intros H; inversion H; subst; try (left; assumption); right; apply IH; assumption.
Qed.

Lemma resolve_unfold size specs :
  resolve size specs =
  match specs with
  | [] => Malformed
  | _ =>
      if negb (forallb (start_ok size) (map (to_range size) specs)) then Unsatisfiable
      else if negb (forallb (fun r => fst r <? snd r) (map (to_range size) specs)) then Malformed
      else Ranges (match map (to_range size) specs with [r] => [r] | rs => merge rs end)
  end.
Proof.
  unfold resolve, resolve_with.
  destruct specs as [|s [|s' ss]]; cbn [map]; [reflexivity| |].
  - destruct (negb _); [reflexivity|]. destruct (negb _); reflexivity.
  - destruct (negb _); [reflexivity|]. destruct (negb _); reflexivity.
Qed.

Lemma resolve_unsatisfiable size specs :
  Forall wf_spec specs ->
  (resolve size specs = Unsatisfiable <-> Exists (unsat size) specs).
Proof.
  intros Hw. rewrite resolve_unfold.
  destruct specs as [|s0 ss] eqn:Es.
  - split; [discriminate|]. intros H; inversion H.
  - rewrite <- Es in *. clear Es.
    destruct (negb (forallb (start_ok size) (map (to_range size) specs))) eqn:E1.
    + split; [intros _|reflexivity].
      apply forallb_negb_false in E1. apply Exists_map in E1.
      apply Exists_exists in E1 as (s & Hs & Hbad). apply Exists_exists. exists s. split; [exact Hs|].
      apply start_ok_unsat; [|exact Hbad]. rewrite Forall_forall in Hw. apply Hw; exact Hs.
    + split.
      * destruct (negb (forallb (fun r => fst r <? snd r) _)); intros HH; discriminate HH.
      * intros Hex. exfalso. apply Exists_exists in Hex as (s & Hs & Hbad).
        apply negb_false_iff in E1. rewrite forallb_forall in E1.
        specialize (E1 (to_range size s) (in_map _ _ _ Hs)).
        apply start_ok_unsat in Hbad; [congruence|]. rewrite Forall_forall in Hw. apply Hw; exact Hs.
Qed.

Lemma resolve_malformed size specs :
  Forall wf_spec specs ->
  (resolve size specs = Malformed <->
   specs = [] \/ (~ Exists (unsat size) specs /\ Exists inverted specs)).
Proof.
  intros Hw. pose proof (resolve_unsatisfiable size specs Hw) as Hu.
  rewrite resolve_unfold in *.
  destruct specs as [|s0 ss] eqn:Es.
  - split; [intros _; left; reflexivity|reflexivity].
  - rewrite <- Es in *.
    assert (Hne : specs <> []) by (subst; discriminate). clear Es.
    destruct (negb (forallb (start_ok size) (map (to_range size) specs))) eqn:E1.
    + split; [discriminate|]. intros [H|[H _]]; [contradiction|].
      exfalso. apply H. apply Hu. reflexivity.
    + assert (Hno : ~ Exists (unsat size) specs).
      { intros H. apply Hu in H.
        destruct (negb (forallb (fun r => fst r <? snd r) _)); discriminate H. }
      apply negb_false_iff in E1. rewrite forallb_forall in E1.
      destruct (negb (forallb (fun r => fst r <? snd r) (map (to_range size) specs))) eqn:E2.
      * split; [intros _; right; split; [exact Hno|]|reflexivity].
        apply forallb_negb_false in E2. apply Exists_map in E2.
        apply Exists_exists in E2 as (s & Hs & Hbad). apply Exists_exists. exists s. split; [exact Hs|].
        apply (nonempty_inverted size); [rewrite Forall_forall in Hw; apply Hw; exact Hs| |exact Hbad].
        apply E1. apply in_map; exact Hs.
      * split; [discriminate|].
        intros [H|[_ Hex]]; [contradiction|]. exfalso.
        apply Exists_exists in Hex as (s & Hs & Hbad).
        apply negb_false_iff in E2. rewrite forallb_forall in E2.
        specialize (E2 (to_range size s) (in_map _ _ _ Hs)).
        apply (nonempty_inverted size) in Hbad; [congruence| |].
        -- rewrite Forall_forall in Hw. apply Hw; exact Hs.
        -- apply E1. apply in_map; exact Hs.
Qed.

(* ---------- the whole function ---------- *)

(* the specs of a header: what parse_range extracts from the text *)
Definition header_specs (header : list N) (size : Z) : option (list spec) :=
  match split_eq header with
  | None => None
  | Some (unit, rest) =>
      if negb (list_N_eqb unit (lit "bytes")) then None
      else Some (map (spec_of_pair size) (header_pairs rest))
  end.

Lemma parse_range_ranges header size l :
  parse_range header size = Ranges l ->
  exists specs, header_specs header size = Some specs /\ resolve size specs = Ranges l.
Proof.
  unfold parse_range, header_specs.
  destruct (split_eq header) as [[unit rest]|]; [|discriminate].
  destruct (negb (list_N_eqb unit (lit "bytes"))); [discriminate|].
  intros H. eexists. split; [reflexivity|exact H].
Qed.

Lemma digits_val_nonneg s : 0 <= digits_val s.
Proof. unfold digits_val. apply N2Z.is_nonneg. Qed.

Lemma number_nonneg size s : 0 <= size -> 0 <= number size s.
Proof. intros H. unfold number. destruct (too_long (strip_zeros s)); [lia|apply digits_val_nonneg]. Qed.

(* stripping leading zeros does not change the value of a digit string *)
Lemma digits_val_strip_zeros s : digits_val (strip_zeros s) = digits_val s.
Proof.
  induction s as [|c r IH]; [reflexivity|].
  cbn [strip_zeros].
  destruct (N.eq_dec c 48) as [->|Hne].
  - rewrite IH. unfold digits_val. cbn [fold_left]. reflexivity.
  - destruct c as [|p]; [reflexivity|].
    do 6 (destruct p as [p|p|]; try reflexivity). all: try (exfalso; apply Hne; reflexivity).
Qed.

Lemma number_denotes_proof size s : too_long (strip_zeros s) = false -> number size s = digits_val s.
Proof. intros H. unfold number. rewrite H. apply digits_val_strip_zeros. Qed.

Lemma number_beyond_proof size s : too_long (strip_zeros s) = true -> number size s = size + 1.
Proof. intros H. unfold number. rewrite H. reflexivity. Qed.


Lemma spec_of_pair_wf size p : 0 <= size -> wf_spec (spec_of_pair size p).
Proof.
  intros H. destruct p as [[|a0 a] [|b0 b]]; cbn [spec_of_pair wf_spec]; repeat split; apply number_nonneg; exact H.
Qed.

Lemma header_specs_wf header size specs : 0 <= size -> header_specs header size = Some specs -> Forall wf_spec specs.
Proof.
  intros Hsize. unfold header_specs.
  destruct (split_eq header) as [[unit rest]|]; [|discriminate].
  destruct (negb (list_N_eqb unit (lit "bytes"))); [discriminate|].
  intros H; injection H as <-. apply Forall_forall. intros s Hs.
  apply in_map_iff in Hs as (p & <- & _). apply spec_of_pair_wf. exact Hsize.
Qed.

Lemma parse_range_of_specs header size specs :
  header_specs header size = Some specs -> parse_range header size = resolve size specs.
Proof.
  unfold parse_range, header_specs.
  destruct (split_eq header) as [[unit rest]|]; [|discriminate].
  destruct (negb (list_N_eqb unit (lit "bytes"))); [discriminate|].
  intros H; injection H as <-. reflexivity.
Qed.

Theorem range_canonical_proof header size l :
  parse_range header size = Ranges l -> canonical size l.
Proof.
  intros H. apply parse_range_ranges in H as (specs & _ & H).
  eapply resolve_canonical; exact H.
Qed.

Theorem range_denotation_proof header size l :
  parse_range header size = Ranges l ->
  exists specs, header_specs header size = Some specs /\
    forall p, covers l p <-> exists s, In s specs /\ denotes size s p.
Proof.
  intros H. apply parse_range_ranges in H as (specs & Hs & H).
  exists specs. split; [exact Hs|]. apply resolve_denotation; exact H.
Qed.

Theorem range_classification_proof header size specs :
  0 <= size ->
  header_specs header size = Some specs ->
  (parse_range header size = Unsatisfiable <-> Exists (unsat size) specs) /\
  (parse_range header size = Malformed <->
     specs = [] \/ (~ Exists (unsat size) specs /\ Exists inverted specs)) /\
  ((exists l, parse_range header size = Ranges l) <->
     specs <> [] /\ ~ Exists (unsat size) specs /\ ~ Exists inverted specs).
Proof.
  intros Hsize Hs. pose proof (header_specs_wf _ _ _ Hsize Hs) as Hw.
  rewrite (parse_range_of_specs _ size _ Hs).
  pose proof (resolve_unsatisfiable size specs Hw) as HU.
  pose proof (resolve_malformed size specs Hw) as HM.
  split; [exact HU|]. split; [exact HM|].
  split.
  - intros (l & Hl). repeat split.
    + intros ->. cbn in Hl. discriminate.
    + intros H. apply HU in H. congruence.
    + intros H.
      assert (Hn : ~ Exists (unsat size) specs) by (intros Hx; apply HU in Hx; congruence).
      pose proof (proj2 HM (or_intror (conj Hn H))) as HH. congruence.
  - intros (Hne & Hnu & Hni).
    destruct (resolve size specs) as [l| |] eqn:E.
    + exists l; reflexivity.
    + exfalso. destruct (proj1 HM eq_refl) as [->|[_ Hi]]; [apply Hne; reflexivity|apply Hni; exact Hi].
    + exfalso. apply Hnu. apply HU. reflexivity.
Qed.

(* ---------- the loop before the repair does not have the property ---------- *)

Lemma resolve_orig_refuted_empty :
  resolve_orig 10 [FirstLast 5 4] = Ranges [(5, 5)].
Proof. vm_compute. reflexivity. Qed.

Lemma merge_orig_refuted_overlap :
  resolve_orig 100 [FirstLast 0 9; FirstLast 20 29; FirstLast 5 24] = Ranges [(0, 25); (20, 30)].
Proof. vm_compute. reflexivity. Qed.

Lemma merge_orig_refuted_adjacent :
  resolve_orig 100 [FirstLast 20 29; FirstLast 0 9; FirstLast 10 19] = Ranges [(0, 20); (20, 30)].
Proof. vm_compute. reflexivity. Qed.

Lemma orig_not_canonical :
  exists size specs l, resolve_orig size specs = Ranges l /\ ~ canonical size l.
Proof.
  exists 100, [FirstLast 0 9; FirstLast 20 29; FirstLast 5 24], [(0, 25); (20, 30)].
  split; [apply merge_orig_refuted_overlap|].
  intros (_ & _ & H). inversion H; subst. cbn in *. lia.
Qed.

(* ---------- non-vacuity ---------- *)

Example canonical_example :
  parse_range (lit "bytes=0-9,20-29,5-24") 100 = Ranges [(0, 30)].
Proof. vm_compute. reflexivity. Qed.

Example classification_example_416 :
  parse_range (lit "bytes=0-1,-0") 10 = Unsatisfiable.
Proof. vm_compute. reflexivity. Qed.

Example classification_example_400 :
  parse_range (lit "bytes=5-4") 10 = Malformed.
Proof. vm_compute. reflexivity. Qed.
