(* C03 — model of FileResponseMixin.parse_range (baize/responses.py).
   Text is a list of code points; file sizes and positions are Z. *)
From Coq Require Import List NArith ZArith Bool.
From Baize Require Import Lib.Wire Lib.Unicode.
Import ListNotations.
Local Open Scope Z_scope.

(* ---- the regex scan: findall of  digits* '-' digits*  over the text ----------
   At a position the pattern matches iff the maximal digit run there is followed
   by '-'; the match then extends over the maximal digit run after the dash and
   scanning resumes at its end.  Written as a one-pass machine over the text:
   phase A collects the digit run [a] in front of a possible dash, phase B the
   run [b] behind it. *)

Inductive phase := PA (a : list N) | PB (a b : list N).

Definition dash : N := 45%N.

Definition scan_step (st : phase * list (list N * list N)) (c : N)
  : phase * list (list N * list N) :=
  let '(ph, out) := st in
  match ph with
  | PA a =>
      if is_digit c then (PA (a ++ [c]), out)
      else if N.eqb c dash then (PB a [], out)
      else (PA [], out)
  | PB a b =>
      if is_digit c then (PB a (b ++ [c]), out)
      else if N.eqb c dash then (PB [] [], out ++ [(a, b)])
      else (PA [], out ++ [(a, b)])
  end.

Definition scan_finish (st : phase * list (list N * list N)) : list (list N * list N) :=
  match fst st with
  | PA _ => snd st
  | PB a b => snd st ++ [(a, b)]
  end.

Definition scan_pairs (text : list N) : list (list N * list N) :=
  scan_finish (fold_left scan_step text (PA [], [])).

Definition nonempty_pair (p : list N * list N) : bool :=
  match p with ([], []) => false | _ => true end.

(* ---- int() on a run of \d characters ---- *)

Definition digits_val (s : list N) : Z :=
  Z.of_N (fold_left (fun acc c => match digit_val c with
                                  | Some v => acc * 10 + v
                                  | None => acc * 10 end)%N s 0%N).

(* CPython refuses to convert more than 4300 digits (sys.int_info.default_max_str_digits) *)
Definition max_str_digits : nat := 4300.
Definition too_long (s : list N) : bool := Nat.ltb max_str_digits (length s).

(* ---- a spec, its start and (exclusive) end ---- *)

Inductive spec :=
| FirstLast (f l : Z)     (* "f-l" *)
| FirstOpen (f : Z)       (* "f-"  *)
| Suffix (n : Z).         (* "-n"  *)

(* number(): int(), and for a run of more digits than int() accepts a position beyond
   any file, max_size + 1 *)
Fixpoint strip_zeros (s : list N) : list N :=
  match s with
  | 48%N :: r => strip_zeros r          (* digits.lstrip("0") *)
  | _ => s
  end.

Definition number (size : Z) (s : list N) : Z :=
  if too_long (strip_zeros s) then size + 1 else digits_val (strip_zeros s).

Definition spec_of_pair (size : Z) (p : list N * list N) : spec :=
  match p with
  | ([], b) => Suffix (number size b)
  | (a, []) => FirstOpen (number size a)
  | (a, b) => FirstLast (number size a) (number size b)
  end.

Definition spec_start (size : Z) (s : spec) : Z :=
  match s with
  | FirstLast f _ => f
  | FirstOpen f => f
  | Suffix n => size - n
  end.

Definition spec_end (size : Z) (s : spec) : Z :=
  match s with
  | FirstLast _ l => if l <? size then l + 1 else size
  | _ => size
  end.

Definition to_range (size : Z) (s : spec) : Z * Z := (spec_start size s, spec_end size s).

(* ---- sort + coalesce (the repaired merge) ---- *)

Definition pair_leb (x y : Z * Z) : bool :=
  (fst x <? fst y) || ((fst x =? fst y) && (snd x <=? snd y)).

Fixpoint insert (x : Z * Z) (l : list (Z * Z)) : list (Z * Z) :=
  match l with
  | [] => [x]
  | y :: r => if pair_leb x y then x :: y :: r else y :: insert x r
  end.

Definition isort (l : list (Z * Z)) : list (Z * Z) := fold_right insert [] l.

(* [cur] is Python's result[-1] *)
Fixpoint coalesce (cur : Z * Z) (l : list (Z * Z)) : list (Z * Z) :=
  match l with
  | [] => [cur]
  | x :: r =>
      if fst x <=? snd cur
      then coalesce (fst cur, Z.max (snd cur) (snd x)) r
      else cur :: coalesce x r
  end.

Definition merge (l : list (Z * Z)) : list (Z * Z) :=
  match isort l with
  | [] => []
  | x :: r => coalesce x r
  end.

(* ---- the merge loop as it was before the repair (kept for the refutation) ---- *)

Fixpoint ins_orig (x : Z * Z) (res : list (Z * Z)) : list (Z * Z) :=
  match res with
  | [] => [x]
  | p :: r =>
      if fst x >? snd p then p :: ins_orig x r
      else if snd x <? fst p then x :: p :: r
      else (Z.min (fst x) (fst p), Z.max (snd x) (snd p)) :: r
  end.

Definition merge_orig (l : list (Z * Z)) : list (Z * Z) :=
  fold_left (fun res x => ins_orig x res) l [].

(* ---- resolution of a list of specs ---- *)

Inductive outcome :=
| Ranges (l : list (Z * Z))
| Malformed          (* 400 *)
| Unsatisfiable.     (* 416, Content-Range: */size *)

Definition start_ok (size : Z) (r : Z * Z) : bool := (0 <=? fst r) && (fst r <? size).
Definition nonempty_range (r : Z * Z) : bool := fst r <? snd r.

Definition resolve_with (mrg : list (Z * Z) -> list (Z * Z)) (strict : bool)
  (size : Z) (specs : list spec) : outcome :=
  let rs := map (to_range size) specs in
  match rs with
  | [] => Malformed
  | _ =>
      if negb (forallb (start_ok size) rs) then Unsatisfiable
      else if negb (forallb (fun r => if strict then fst r <? snd r else fst r <=? snd r) rs)
      then Malformed
      else match rs with
           | [r] => Ranges [r]
           | _ => Ranges (mrg rs)
           end
  end.

Definition resolve := resolve_with merge true.
(* the code before the three repairs: start > end test, insertion loop *)
Definition resolve_orig := resolve_with merge_orig false.

(* ---- the whole function on the header text ---- *)

Fixpoint split_eq (s : list N) : option (list N * list N) :=
  match s with
  | [] => None
  | c :: r =>
      if N.eqb c 61%N then Some ([], r)
      else match split_eq r with
           | Some (u, v) => Some (c :: u, v)
           | None => None
           end
  end.

Definition list_N_eqb (a b : list N) : bool :=
  (Nat.eqb (length a) (length b)) && forallb (fun p => N.eqb (fst p) (snd p)) (combine a b).

Definition header_pairs (rest : list N) : list (list N * list N) :=
  filter nonempty_pair (scan_pairs rest).

Definition pair_too_long (p : list N * list N) : bool := too_long (fst p) || too_long (snd p).

Definition parse_range (header : list N) (size : Z) : outcome :=
  match split_eq header with
  | None => Malformed
  | Some (unit, rest) =>
      if negb (list_N_eqb unit (lit "bytes")) then Malformed
      else
        let ps := header_pairs rest in
        resolve size (map (spec_of_pair size) ps)
  end.
