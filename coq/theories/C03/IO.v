(* C03 — wire interface of the model: one case line in, one observation line out. *)
From Coq Require Import List NArith ZArith Bool.
From Baize Require Import Lib.Wire Lib.Unicode C03.Model.
Import ListNotations.

Definition show_outcome (o : outcome) : sx :=
  match o with
  | Ranges l => Lst (tag (lit "ok") :: map (fun r => Lst [Num (fst r); Num (snd r)]) l)
  | Malformed => Lst [tag (lit "400")]
  | Unsatisfiable => Lst [tag (lit "416")]
  end.

(* digits lo hi : every code point c in [lo,hi) that \d matches, with its value *)
Fixpoint digits_between (lo : N) (n : nat) : list sx :=
  match n with
  | O => []
  | S k =>
      match digit_val lo with
      | Some v => Lst [of_N lo; of_N v] :: digits_between (N.succ lo) k
      | None => digits_between (N.succ lo) k
      end
  end.

Definition run (c : list sx) : list sx :=
  match c with
  | [Str op; Str h; Num size] =>
      if list_N_eqb op (lit "range") then [show_outcome (parse_range h size)]
      else if list_N_eqb op (lit "orig") then
        [show_outcome (match split_eq h with
                       | Some (_, rest) => resolve_orig size (map (spec_of_pair size) (header_pairs rest))
                       | None => Malformed end)]
      else [tag (lit "badcase")]
  | [Str op; Num lo; Num n] =>
      if list_N_eqb op (lit "digits") then [Lst (digits_between (Z.to_N lo) (Z.to_nat n))]
      else [tag (lit "badcase")]
  | _ => [tag (lit "badcase")]
  end.

Definition run_line (l : list N) : list N := print_line (run (parse_line l)).
