(* C03 — source-level tie for FileResponseMixin.parse_range (baize/responses.py).

   tools/py2coq_c03.py regenerates the Gallina definition G.parse_range from the CURRENT Python source on every check run
   (harness/c03.py: extra_obligations) and coqc re-checks this file against the fresh definition (the two lines between
   the GENERATED markers re-pointed at the fresh file).  Generated_ref.v is the committed copy of what the translator
   emitted when this file was written.

   What the translator is told: the header is a str (the list of its code points), the size an int (Z).  The result is
   PyStr.Ret of the list returned, or PyStr.Raise with the class name of the exception raised (the message of
   MalformedRangeHeader is not kept; the argument of RangeNotSatisfiable must be the size parameter itself, otherwise
   the translator refuses).  The two external functions are not modelled again: re.findall with exactly the pattern of
   the model is C03.Model.scan_pairs, and int() on a run of \d characters is C03.Model.digits_val with the ValueError of
   C03.Model.too_long (C03/PyLib.v: findall_digits_dash_digits, int_of_digits); the translator only lets int() see
   strings that are groups of that pattern, their lstrip, or digit constants.  split / lstrip / or / == / l[-1] = x /
   sorted are small functions of C03/PyLib.v compared with the interpreter on every run.

   The theorem: for EVERY header and EVERY size (no side condition, negative sizes included)
     G.parse_range header size = of_outcome (M.parse_range header size)
   i.e. the list returned is the one of the model, MalformedRangeHeader is raised exactly when the model says
   Malformed, RangeNotSatisfiable exactly when it says Unsatisfiable. *)
From Coq Require Import List NArith ZArith Bool Lia.
From Baize Require Import Lib.Wire Lib.PyStr Lib.PyList Lib.PyListFacts.
From Baize Require C03.Model C03.Proofs C03.PyLib.
(* GENERATED-BEGIN *)
From Baize Require C03.Generated_ref.
Module G := Baize.C03.Generated_ref.
(* GENERATED-END *)
Module M := Baize.C03.Model.
Module P := Baize.C03.Proofs.
Module PyLib := Baize.C03.PyLib.
Import ListNotations.
Local Open Scope Z_scope.

Definition malformed_name : list N := lit "MalformedRangeHeader".
Definition unsatisfiable_name : list N := lit "RangeNotSatisfiable".

Definition of_outcome (o : M.outcome) : PyStr.outcome (list (Z * Z)) :=
  match o with
  | M.Ranges l => PyStr.Ret l
  | M.Malformed => PyStr.Raise malformed_name
  | M.Unsatisfiable => PyStr.Raise unsatisfiable_name
  end.

(* ---------- the library functions are the model's ---------- *)

Lemma split_once_eq s : PyLib.split_once 61%N s = M.split_eq s.
Proof.
  induction s as [|c r IH]; [reflexivity|].
  cbn [PyLib.split_once M.split_eq]. rewrite IH. reflexivity.
Qed.

Lemma str_eqb_list_N_eqb a : forall b, PyStr.str_eqb a b = M.list_N_eqb a b.
Proof.
  unfold M.list_N_eqb.
  induction a as [|x a IH]; intros [|y b]; try reflexivity.
  cbn [PyStr.str_eqb length combine forallb fst snd Nat.eqb]. rewrite IH.
  destruct (N.eqb x y), (Nat.eqb (length a) (length b)); reflexivity.
Qed.

Lemma lstrip_char_strip_zeros s : PyLib.lstrip_char 48%N s = M.strip_zeros s.
Proof.
  induction s as [|c r IH]; [reflexivity|].
  cbn [PyLib.lstrip_char].
  destruct (N.eqb c 48) eqn:E.
  - apply N.eqb_eq in E. subst c. rewrite IH. reflexivity.
  - apply N.eqb_neq in E.
    destruct c as [|p]; [reflexivity|].
    do 6 (destruct p as [p|p|]; try reflexivity). all: try (exfalso; apply E; reflexivity).
Qed.

(* the nested function number(), as the translator emits it *)
Lemma number_eq size s :
  match PyLib.int_of_digits (PyLib.or_str (PyLib.lstrip_char 48%N s) [48%N]) with
  | Some x => x
  | None => size + 1
  end = M.number size s.
Proof.
  rewrite lstrip_char_strip_zeros. unfold M.number.
  destruct (M.strip_zeros s) as [|c r] eqn:E.
  - vm_compute. reflexivity.
  - cbn [PyLib.or_str PyLib.int_of_digits].
    destruct (M.too_long (c :: r)); reflexivity.
Qed.

Lemma pair_eqb_nonempty p : negb (PyLib.pair_eqb p ([], [])) = M.nonempty_pair p.
Proof. destruct p as [[|a ra] [|b rb]]; reflexivity. Qed.

Lemma tuple_leb_eq x y : PyLib.tuple_leb x y = M.pair_leb x y.
Proof. reflexivity. Qed.

Lemma sorted_insert_eq x l : PyLib.sorted_insert x l = M.insert x l.
Proof.
  induction l as [|y r IH]; [reflexivity|].
  cbn [PyLib.sorted_insert M.insert]. rewrite tuple_leb_eq, IH. reflexivity.
Qed.

Lemma sorted_pairs_eq l : PyLib.sorted_pairs l = M.isort l.
Proof.
  unfold PyLib.sorted_pairs, M.isort.
  induction l as [|x r IH]; [reflexivity|].
  cbn [fold_right]. rewrite IH. apply sorted_insert_eq.
Qed.

(* ---------- lists ---------- *)

Lemma last_item_app {A : Type} (pre : list A) (x : A) : PyList.last_item (pre ++ [x]) = Some x.
Proof.
  induction pre as [|y r IH]; [reflexivity|].
  cbn [app]. destruct (r ++ [x]) as [|z t] eqn:E.
  - destruct r; discriminate E.
  - change (PyList.last_item (y :: z :: t)) with (PyList.last_item (z :: t)). exact IH.
Qed.

Lemma set_last_app {A : Type} (pre : list A) (x y : A) : PyLib.set_last (pre ++ [x]) y = pre ++ [y].
Proof.
  induction pre as [|z r IH]; [reflexivity|].
  cbn [app]. destruct (r ++ [x]) as [|u t] eqn:E.
  - destruct r; discriminate E.
  - change (PyLib.set_last (z :: u :: t) y) with (z :: PyLib.set_last (u :: t) y). rewrite IH. reflexivity.
Qed.

Lemma len_nil {A : Type} : PyStr.len (@nil A) = 0.
Proof. reflexivity. Qed.

Lemma len_cons {A : Type} (x : A) (l : list A) : PyStr.len (x :: l) = PyStr.len l + 1.
Proof. unfold PyStr.len. cbn [length]. lia. Qed.

Lemma len_nonneg {A : Type} (l : list A) : 0 <= PyStr.len l.
Proof. unfold PyStr.len. lia. Qed.

Lemma existsb_negb_forallb {A : Type} (g f : A -> bool) (l : list A) :
  (forall x, g x = negb (f x)) -> existsb g l = negb (forallb f l).
Proof.
  intros H. induction l as [|x r IH]; [reflexivity|].
  cbn [existsb forallb]. rewrite IH, H, negb_andb. reflexivity.
Qed.

(* ---------- the merge loop ---------- *)

Definition step (acc : list (Z * Z)) (p : Z * Z) : list (Z * Z) :=
  let '(s, e) := p in
  match PyList.last_item acc with
  | Some x => if Z.leb s (snd x) then PyLib.set_last acc (fst x, Z.max (snd x) e) else PyList.append acc (s, e)
  | None => PyList.append acc (s, e)
  end.

Lemma fold_step_coalesce l : forall pre cur,
  fold_left step l (pre ++ [cur]) = pre ++ M.coalesce cur l.
Proof.
  induction l as [|[s e] r IH]; intros pre cur; [reflexivity|].
  cbn [fold_left M.coalesce fst snd]. unfold step at 2. rewrite last_item_app.
  destruct (Z.leb s (snd cur)).
  - rewrite set_last_app. apply IH.
  - unfold PyList.append. rewrite (IH (pre ++ [cur]) (s, e)). rewrite <- app_assoc. reflexivity.
Qed.

Lemma fold_step_merge l : fold_left step (PyLib.sorted_pairs l) [] = M.merge l.
Proof.
  rewrite sorted_pairs_eq. unfold M.merge.
  destruct (M.isort l) as [|[s e] r]; [reflexivity|].
  cbn [fold_left]. change (step [] (s, e)) with ([] ++ [(s, e)]).
  apply (fold_step_coalesce r [] (s, e)).
Qed.

(* ---------- tactics that do not depend on how a test is spelled ---------- *)

(* a goal about Z comparisons as booleans: case analysis on every comparison, then lia *)
Ltac zbool :=
  repeat match goal with
  | |- context [Z.leb ?a ?b] => destruct (Z.leb_spec a b)
  | |- context [Z.ltb ?a ?b] => destruct (Z.ltb_spec a b)
  | |- context [Z.eqb ?a ?b] => destruct (Z.eqb_spec a b)
  end;
  cbn [negb andb orb]; try reflexivity; try discriminate; try (exfalso; lia).

(* the goal is (if c then A else B) = R where c is a test on the length / emptiness of a list whose first cells are
   visible: the branch that cannot be taken is closed, the other one remains *)
Ltac len_contra H :=
  exfalso; revert H; unfold PyStr.len; cbn [length PyStr.is_empty negb andb orb];
  zbool; intros H; discriminate H.

Ltac decide_test :=
  match goal with
  | |- (if ?c then _ else _) = _ =>
      let H := fresh "Hc" in
      destruct c eqn:H; [ try (len_contra H) | try (len_contra H) ]
  end.

Lemma fold_left_ext {A B : Type} (g h : A -> B -> A) (l : list B) :
  (forall a b, g a b = h a b) -> forall a, fold_left g l a = fold_left h l a.
Proof.
  intros H. induction l as [|b r IH]; intros a; [reflexivity|].
  cbn [fold_left]. rewrite H. apply IH.
Qed.

(* ---------- the function ---------- *)

Theorem parse_range_translated : forall header size,
  G.parse_range header size = of_outcome (M.parse_range header size).
Proof.
  intros header size.
  cbv beta zeta delta [G.parse_range M.parse_range].
  rewrite split_once_eq.
  destruct (M.split_eq header) as [[unit rest]|]; [|reflexivity].
  rewrite str_eqb_list_N_eqb.
  change (M.list_N_eqb unit [98%N; 121%N; 116%N; 101%N; 115%N]) with (M.list_N_eqb unit (lit "bytes")).
  destruct (negb (M.list_N_eqb unit (lit "bytes"))); [reflexivity|].
  unfold PyLib.findall_digits_dash_digits.
  rewrite (comp_map_filter _ (fun p => M.to_range size (M.spec_of_pair size p)) _ M.nonempty_pair);
    [ | intros [[|a ra] [|b rb]]; cbn [fst snd]; rewrite ?number_eq;
        cbn [PyStr.is_empty negb andb orb M.spec_of_pair M.to_range M.spec_start M.spec_end];
        try reflexivity; f_equal; zbool
      | intros [[|a ra] [|b rb]]; reflexivity ].
  rewrite P.resolve_unfold. rewrite map_map.
  unfold M.header_pairs.
  set (f := fun p => M.to_range size (M.spec_of_pair size p)).
  destruct (filter M.nonempty_pair (M.scan_pairs rest)) as [|p1 ps]; [reflexivity|].
  cbn [map].
  decide_test.
  rewrite (existsb_negb_forallb _ (M.start_ok size)); [|intros [a b]; unfold M.start_ok; cbn [fst snd]; zbool].
  destruct (negb (forallb (M.start_ok size) (f p1 :: map f ps))); [reflexivity|].
  rewrite (existsb_negb_forallb _ (fun r => fst r <? snd r)); [|intros [a b]; cbn [fst snd]; zbool].
  destruct (negb (forallb (fun r => fst r <? snd r) (f p1 :: map f ps))); [reflexivity|].
  destruct ps as [|p2 ps'].
  - cbn [map]. decide_test. reflexivity.
  - cbn [map]. decide_test.
    cbn [of_outcome]. apply (f_equal PyStr.Ret).
    rewrite <- fold_step_merge. apply fold_left_ext.
    intros acc [s e]. unfold step.
    destruct (PyList.last_item acc) as [[xs xe]|]; cbn [fst snd]; [|reflexivity].
    zbool; repeat (f_equal; try lia).
Qed.
Print Assumptions parse_range_translated.
