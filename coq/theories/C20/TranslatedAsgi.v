(* C20 — source-level tie for baize/asgi/middleware.py.

   tools/py2coq_c20.py regenerates from the CURRENT Python source, on every check run (harness/c20.py: extra_obligations),
     G.py_send        the send closure nested in NextResponse.from_app (its variables: PyLibAsgi.acells)
     G.py_afrom_app   NextResponse.from_app
     G.py_asgi        the asgi closure of middleware(handler)(app)
   and coqc re-checks this file against them.  GeneratedAsgi_ref.v is the committed copy of what the translator emitted
   when this file was written.  Headers is an argument, instantiated with Resp.Model.hinit; the handler is an argument,
   instantiated with PyLibAsgi.ahandler_of a for the model's action a.  CachedStream is not translated (PyLibAsgi.push /
   push_eof / read_all say what it does).

     collect_translated          awaiting the application with the translated send = Acts.collect_a, for the applications
                                 wf_a speaks about
     asgi_middleware_translated  wf_a false true app = true ->
                                 G.py_asgi hinit (ahandler_of a) app = Acts.mw_a a (map aact_of app)
   wf_a: no http.response.body event after one with more_body false (or missing), and at the end the stream has been
   closed by such an event unless nothing was written.  Outside of it the code and the model differ, which the last two
   theorems state (they are facts about the current code, not defects of a conforming application's treatment):
     asgi_unterminated_body_differs   start, body "abc" with more_body true, return: the relayed body is EMPTY (the
                                      CachedStream was never rewound), the model relays "abc"
     asgi_body_after_last_differs     a body event after the one with more_body false: RuntimeError, the model appends *)
From Coq Require Import List NArith Bool Arith.
From Baize Require Import Lib.Wire Lib.PyStr C02.Model Resp.Model C20.Model C20.Acts C20.PyLib C20.PyLibAsgi.
(* GENERATED-BEGIN *)
From Baize Require C20.GeneratedAsgi_ref.
Module G := Baize.C20.GeneratedAsgi_ref.
(* GENERATED-END *)
Import ListNotations.

(* METHOD-BEGIN py_asgi *)
Definition mkc (st : nat) (h : hstore) (buf : bytes) (eof : bool) : acells :=
  {| a_status_code := st; a_headers := h; a_body := {| s_buf := buf; s_eof := eof |} |}.

Lemma decode_pairs : forall l : list header,
  map (fun kv => (decode_latin1 (fst kv), decode_latin1 (snd kv))) l = l.
Proof.
  induction l as [|[k v] l IH]; [reflexivity|]. cbn [map fst snd]. unfold decode_latin1 at 1 2. rewrite IH. reflexivity.
Qed.

(* the two literals, as numbers, on both sides *)
Ltac literals :=
  let v := eval vm_compute in t_start in change t_start with v;
  let v := eval vm_compute in t_body in change t_body with v.

Ltac split_type :=
  repeat match goal with
  | |- context [str_eqb (m_type ?m) ?l] => let E := fresh "E" in destruct (str_eqb (m_type m) l) eqn:E
  end.

Theorem collect_translated : forall l st hs buf eof empty,
  (empty = true -> buf = []) -> wf_a eof empty l = true ->
  match collect_a (st, hs) buf (map aact_of l) with
  | None => run_app (G.py_send hinit) (mkc st (hinit hs) buf eof) l = Raise
  | Some (cap, body) =>
      exists eof', run_app (G.py_send hinit) (mkc st (hinit hs) buf eof) l = Ret (mkc (fst cap) (hinit (snd cap)) body eof')
                   /\ (eof' = true \/ body = [])
  end.
Proof.
  induction l as [|e l IH]; intros st hs buf eof empty Hemp Hwf.
  - cbn in *. exists eof. split; [reflexivity|]. destruct eof; [left; reflexivity|right; apply Hemp; exact Hwf].
  - destruct e as [m|]; [|reflexivity].
    cbn [wf_a] in Hwf. revert Hwf. cbn [map run_app]. unfold aact_of, G.py_send. literals. split_type; intros Hwf.
    + (* start *)
      unfold item_status. destruct (m_status m) as [n|]; [|reflexivity].
      cbn [bind collect_a]. rewrite decode_pairs.
      apply (IH n (get_headers m []) buf eof empty Hemp Hwf).
    + (* body *)
      apply andb_prop in Hwf. destruct Hwf as [Heof Hwf]. apply negb_true_iff in Heof. subst eof.
      cbn [collect_a]. unfold push, mkc. cbn [a_body s_eof s_buf bind].
      assert (Hemp' : empty && match get_body m [] with [] => true | _ :: _ => false end = true -> buf ++ get_body m [] = []).
      { intros Hb. apply andb_prop in Hb. destruct Hb as [Hb1 Hb2]. rewrite (Hemp Hb1).
        destruct (get_body m []); [reflexivity|discriminate]. }
      destruct (get_more_body m false); cbn [negb] in *.
      * apply (IH st hs (buf ++ get_body m []) false _ Hemp' Hwf).
      * apply (IH st hs (buf ++ get_body m []) true _ Hemp' Hwf).
    + (* any other type *)
      cbn [collect_a]. apply (IH st hs buf eof empty Hemp Hwf).
Qed.
Print Assumptions collect_translated.

Theorem asgi_middleware_translated : forall a l, wf_a false true l = true ->
  G.py_asgi hinit (ahandler_of a) l = mw_a a (map aact_of l).
Proof.
  intros a l Hwf. pose proof (collect_translated l 200 [] [] false true (fun _ => eq_refl) Hwf) as N.
  unfold G.py_asgi, G.py_afrom_app, ahandler_of, mw_a. unfold mkc in N. change (hinit []) with (@nil header) in *.
  unfold CachedStream.
  destruct (collect_a (200, []) [] (map aact_of l)) as [[[st hs] body]|].
  - destruct N as [eof' [N Hb]]. rewrite N. cbn [bind bind_a fst snd a_body a_status_code a_headers].
    unfold call_response_a, read_all. cbn [ar_body ar_status ar_headers s_eof s_buf].
    destruct Hb as [Hb|Hb]; [subst eof'; reflexivity|subst body; destruct eof'; reflexivity].
  - rewrite N. reflexivity.
Qed.
Print Assumptions asgi_middleware_translated.

(* outside wf_a *)
Definition ev_start : aevent := ASend (AMsg t_start (Some 200) (Some []) None None).
Definition ev_body (d : bytes) (more : bool) : aevent := ASend (AMsg t_body None None (Some d) (Some more)).

Theorem asgi_unterminated_body_differs :
  G.py_asgi hinit (ahandler_of Identity) [ev_start; ev_body (lit "abc") true] = [MStart 200 []; MBody []; MBody []] /\
  mw_a Identity (map aact_of [ev_start; ev_body (lit "abc") true]) = [MStart 200 []; MBody (lit "abc"); MBody []].
Proof. split; vm_compute; reflexivity. Qed.
Print Assumptions asgi_unterminated_body_differs.

Theorem asgi_body_after_last_differs :
  G.py_asgi hinit (ahandler_of Identity) [ev_start; ev_body (lit "a") false; ev_body (lit "b") false] = [MRaise] /\
  mw_a Identity (map aact_of [ev_start; ev_body (lit "a") false; ev_body (lit "b") false])
  = [MStart 200 []; MBody (lit "ab"); MBody []].
Proof. split; vm_compute; reflexivity. Qed.
Print Assumptions asgi_body_after_last_differs.
(* METHOD-END py_asgi *)
