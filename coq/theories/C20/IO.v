(* C20 — wire interface. *)
From Coq Require Import List NArith ZArith Bool.
From Baize Require Import Lib.Wire Lib.Order C02.Model C02.IO Resp.Model Resp.IO C20.Model.
Import ListNotations.

Definition rd_emitted (x : sx) : emitted :=
  match x with
  | Lst [Str k; Str d] => if bytes_eqb k (lit "z") then ZeroCopyMsg d else Chunk d
  | _ => Chunk []
  end.

Definition rd_trace (x : sx) : option trace :=
  match x with
  | Lst [Num st; Lst hs; Lst body] =>
      Some {| t_status := Z.to_nat st; t_headers := map rd_header hs; t_body := map rd_emitted body |}
  | _ => None
  end.

Definition rd_action (x : sx) : action :=
  match x with Lst [Str k; Str v] => SetHeader k v | _ => Identity end.

Definition show_trace (t : trace) : sx :=
  Lst [of_nat (t_status t); show_headers (t_headers t); Str (body_bytes t)].

Definition run_case (c : list sx) : list sx :=
  match c with
  | [wt; at_; Lst acts] =>
      match rd_trace wt, rd_trace at_ with
      | Some w, Some a =>
          [show_trace (stack false (map rd_action acts) w); show_trace (stack true (map rd_action acts) a);
           (* what the bare applications emitted, echoed for the oracle *)
           show_trace w; show_trace a]
      | _, _ => [tag (lit "badtrace")]
      end
  | _ => [tag (lit "badcase")]
  end.

Definition run_line (l : list N) : list N := print_line (run_case (parse_line l)).
