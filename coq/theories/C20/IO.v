(* C20 — wire interface. *)
From Coq Require Import List NArith ZArith Bool.
From Baize Require Import Lib.Wire Lib.Order C02.Model C02.IO Resp.Model Resp.IO C20.Model C20.Acts.
Import ListNotations.

Definition rd_emitted (x : sx) : emitted :=
  match x with
  | Lst [Str k; Str d] => if bytes_eqb k (lit "z") then ZeroCopyMsg d else Chunk d
  | _ => Chunk []
  end.

Definition rd_trace (x : sx) : option trace :=
  match x with
  | Lst [Num st; Lst hs; Lst body] =>
      Some {| t_status := Z.to_nat st; t_headers := map rd_header hs; t_body := map rd_emitted body |}
  | _ => None
  end.

Definition rd_action (x : sx) : action :=
  match x with Lst [Str k; Str v] => SetHeader k v | _ => Identity end.

Definition show_trace (t : trace) : sx :=
  Lst [of_nat (t_status t); show_headers (t_headers t); Str (body_bytes t)].

(* action lists: ( s <status> <headers> ) ( r <status> <headers> ) ( y <bytes> ) ( x )
   resp. ( s .. ) ( b <bytes> ) ( z <bytes> ) ( x ) *)
Definition rd_wact (x : sx) : wact :=
  match x with
  | Lst [Str k; Num st; Lst hs] => if bytes_eqb k (lit "r") then IRestart (Z.to_nat st) (map rd_header hs)
                                   else IStart (Z.to_nat st) (map rd_header hs)
  | Lst [Str k; Str d] => IYield d
  | _ => IRaise
  end.

Definition rd_aact (x : sx) : aact :=
  match x with
  | Lst [Str k; Num st; Lst hs] => MStart (Z.to_nat st) (map rd_header hs)
  | Lst [Str k; Str d] => if bytes_eqb k (lit "z") then MZero d else MBody d
  | _ => MRaise
  end.

Definition show_outcome (o : outcome) : sx :=
  match o with
  | Completed st hs b => Lst [of_nat st; show_headers hs; Str b]
  | Aborted st hs b => Lst [of_nat st; show_headers hs; Str b; tag (lit "aborted")]
  | Raised => Lst [tag (lit "raised")]
  end.

Definition run_case (c : list sx) : list sx :=
  match c with
  | [Str op; Lst wa; Lst aa; Lst acts] =>
      let w := map rd_wact wa in
      let a := map rd_aact aa in
      let st := map rd_action acts in
      [show_outcome (serve_w (stack_w st w)); show_outcome (serve_a (stack_a st a));
       show_outcome (serve_w w); show_outcome (serve_a a)]
  | [wt; at_; Lst acts] =>
      match rd_trace wt, rd_trace at_ with
      | Some w, Some a =>
          [show_trace (stack false (map rd_action acts) w); show_trace (stack true (map rd_action acts) a);
           (* what the bare applications emitted, echoed for the oracle *)
           show_trace w; show_trace a]
      | _, _ => [tag (lit "badtrace")]
      end
  | _ => [tag (lit "badcase")]
  end.

Definition run_line (l : list N) : list N := print_line (run_case (parse_line l)).
