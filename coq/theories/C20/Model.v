(* C20 — model of the middleware relay (baize/wsgi/middleware.py NextResponse.from_app
   + ensure_next, baize/asgi/middleware.py NextResponse.from_app + CachedStream) as a
   transformer of what the inner application emitted. *)
From Coq Require Import List NArith Bool Arith.
From Baize Require Import Lib.Wire Lib.Order C02.Model Resp.Model.
Import ListNotations.

(* what an application emitted, on either interface *)
Inductive emitted :=
| Chunk (data : bytes)              (* a WSGI item / an http.response.body event *)
| ZeroCopyMsg (data : bytes).       (* an http.response.zerocopysend event; [data] = what a server reads from the descriptor *)

Record trace := { t_status : nat; t_headers : list header; t_body : list emitted }.

Definition body_bytes (t : trace) : bytes :=
  flat_map (fun e => match e with Chunk d => d | ZeroCopyMsg d => d end) (t_body t).

(* what a middleware does with the response it got from next_call *)
Inductive action :=
| Identity
| SetHeader (k v : bytes).          (* response.headers[k] = v *)

Definition apply_action (a : action) (h : hstore) : hstore :=
  match a with
  | Identity => h
  | SetHeader k v => match hset k v h with Some h' => h' | None => h end
  end.

(* one middleware layer: capture status and Headers(response_headers) — which
   lower-cases names and folds duplicates with ", " —, relay the body; the ASGI relay
   only stores http.response.body events *)
Definition relay (asgi : bool) (a : action) (t : trace) : trace :=
  {| t_status := t_status t;
     t_headers := apply_action a (hinit (t_headers t));
     t_body := [Chunk (flat_map (fun e => match e with
                                          | Chunk d => d
                                          | ZeroCopyMsg d => if asgi then [] else d
                                          end) (t_body t))] |}.

(* a stack: the first action belongs to the innermost middleware *)
Definition stack (asgi : bool) (acts : list action) (t : trace) : trace :=
  fold_left (fun t a => relay asgi a t) acts t.
